#!/bin/sh
# builds the runner from the extracted model (model.ml / model.mli are written by coq/Extract/Extract.v)
set -e
cd "$(dirname "$0")"
ocamlfind ocamlopt -O3 -w -a -package str model.mli model.ml runner.ml -o runner 2>/dev/null || \
ocamlfind ocamlopt -w -a model.mli model.ml runner.ml -o runner
