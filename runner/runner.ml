(* Driver around the extracted model (model.ml).  Reads one S-expression case per line
   (see PROTOCOL.md) on stdin and prints one result line per case on stdout.
   Usage: runner [--ic] < model.in > model.out *)
open Model

(* ------------------------------------------------------------------ sexp *)
type sx = A of string | L of sx list

exception Parse_error of string
exception Miss of string

let parse_line (s : string) : sx =
  let n = String.length s in
  let pos = ref 0 in
  let rec skip () = if !pos < n && (s.[!pos] = ' ' || s.[!pos] = '\t' || s.[!pos] = '\r') then (incr pos; skip ()) in
  let rec item () =
    skip ();
    if !pos >= n then raise (Parse_error "eof")
    else if s.[!pos] = '(' then begin
      incr pos;
      let acc = ref [] in
      let rec loop () =
        skip ();
        if !pos >= n then raise (Parse_error "unclosed")
        else if s.[!pos] = ')' then incr pos
        else (acc := item () :: !acc; loop ()) in
      loop ();
      L (List.rev !acc)
    end else begin
      let st = !pos in
      while !pos < n && s.[!pos] <> ' ' && s.[!pos] <> '(' && s.[!pos] <> ')' do incr pos done;
      A (String.sub s st (!pos - st))
    end in
  item ()

(* ------------------------------------------------------------------ numbers *)
let rec pos_of_int (i : int) : positive =
  if i = 1 then XH
  else if i land 1 = 0 then XO (pos_of_int (i lsr 1))
  else XI (pos_of_int (i lsr 1))

let n_of_int (i : int) : n = if i = 0 then N0 else Npos (pos_of_int i)
let z_of_int (i : int) : z = if i = 0 then Z0 else if i > 0 then Zpos (pos_of_int i) else Zneg (pos_of_int (-i))

let rec int_of_pos (p : positive) : int =
  match p with XH -> 1 | XO q -> 2 * int_of_pos q | XI q -> 2 * int_of_pos q + 1
let int_of_n (x : n) : int = match x with N0 -> 0 | Npos p -> int_of_pos p
let rec nat_of_int (i : int) : nat = if i <= 0 then O else S (nat_of_int (i - 1))

(* arbitrary-size decimal -> Z, 15 digits at a time *)
let z_of_string (s : string) : z =
  let neg = String.length s > 0 && s.[0] = '-' in
  let digits = if neg then String.sub s 1 (String.length s - 1) else s in
  let len = String.length digits in
  if len = 0 then raise (Parse_error "empty number");
  let acc = ref Z0 in
  let i = ref 0 in
  while !i < len do
    let k = min 15 (len - !i) in
    let chunk = int_of_string (String.sub digits !i k) in
    let rec pow10 k = if k = 0 then 1 else 10 * pow10 (k - 1) in
    acc := Z.add (Z.mul !acc (z_of_int (pow10 k))) (z_of_int chunk);
    i := !i + k
  done;
  if neg then Z.opp !acc else !acc

let string_of_str (s : str) : string =
  String.concat " " (List.map (fun c -> string_of_int (int_of_n c)) s)

let string_of_z (x : z) : string =
  let cs = show_Z x in
  String.concat "" (List.map (fun c -> String.make 1 (Char.chr (int_of_n c))) cs)

(* ------------------------------------------------------------------ decoding *)
let atom = function A a -> a | L _ -> raise (Parse_error "atom expected")
let lst = function L l -> l | A a -> raise (Parse_error ("list expected, got " ^ a))
let dec_bool x = match atom x with "1" -> true | "0" -> false | a -> raise (Parse_error ("bool " ^ a))
let dec_z x = z_of_string (atom x)
let dec_str x : str =
  match x with
  | L (A "s" :: cs) -> List.map (fun c -> n_of_int (int_of_string (atom c))) cs
  | _ -> raise (Parse_error "string expected")

let rec dec_value x : value =
  match x with
  | L [A "null"] -> VNull
  | L [A "bool"; b] -> VBool (dec_bool b)
  | L [A "float"; b] -> VFloat (dec_z b)
  | L [A "int"; b] -> VInt (dec_z b)
  | L [A "uint"; b] -> VUInt (dec_z b)
  | L [A "str"; s] -> VStr (dec_str s)
  | L (A "arr" :: vs) -> VArr (List.map dec_value vs)
  | L (A "obj" :: kvs) ->
      VObj (List.map (fun kv -> match kv with
                                | L [k; v] -> (dec_str k, dec_value v)
                                | _ -> raise (Parse_error "obj entry")) kvs)
  | _ -> raise (Parse_error "value")

let rec dec_yaml x : yaml =
  match x with
  | L [A "ynull"] -> YNull
  | L [A "ybool"; b] -> YBool (dec_bool b)
  | L [A "yint"; b] -> YInt (dec_z b)
  | L [A "yfloat"; b] -> YFloat (dec_z b)
  | L [A "ystr"; s] -> YStr (dec_str s)
  | L (A "yseq" :: vs) -> YSeq (List.map dec_yaml vs)
  | L (A "ymap" :: kvs) ->
      YMap (List.map (fun kv -> match kv with
                                | L [k; v] -> (dec_yaml k, dec_yaml v)
                                | _ -> raise (Parse_error "ymap entry")) kvs)
  | L [A "ytag"; t; v] -> YTagged (dec_str t, dec_yaml v)
  | _ -> raise (Parse_error "yaml")

(* oracle tables -> record of closures *)
let dec_oracle x : oracles =
  let re = Hashtbl.create 16 and rem = Hashtbl.create 64 and fparse = Hashtbl.create 16
  and fshow = Hashtbl.create 16 and alnum = Hashtbl.create 16 and num = Hashtbl.create 16 in
  (match x with
   | L (A "oracle" :: tables) ->
       List.iter (fun t ->
           match t with
           | L (A "re" :: es) ->
               List.iter (fun e -> match e with
                   | L [p; ci; ok] -> Hashtbl.replace re (string_of_str (dec_str p), dec_bool ci) (dec_bool ok)
                   | _ -> raise (Parse_error "re entry")) es
           | L (A "rem" :: es) ->
               List.iter (fun e -> match e with
                   | L [p; ci; h; r] ->
                       Hashtbl.replace rem (string_of_str (dec_str p), dec_bool ci, string_of_str (dec_str h)) (dec_bool r)
                   | _ -> raise (Parse_error "rem entry")) es
           | L (A "fparse" :: es) ->
               List.iter (fun e -> match e with
                   | L [s; A "none"] -> Hashtbl.replace fparse (string_of_str (dec_str s)) None
                   | L [s; b] -> Hashtbl.replace fparse (string_of_str (dec_str s)) (Some (dec_z b))
                   | _ -> raise (Parse_error "fparse entry")) es
           | L (A "fshow" :: es) ->
               List.iter (fun e -> match e with
                   | L [b; s] -> Hashtbl.replace fshow (atom b) (dec_str s)
                   | _ -> raise (Parse_error "fshow entry")) es
           | L (A "alnum" :: es) ->
               List.iter (fun e -> match e with
                   | L [c; b] -> Hashtbl.replace alnum (int_of_string (atom c)) (dec_bool b)
                   | _ -> raise (Parse_error "alnum entry")) es
           | L (A "num" :: es) ->
               List.iter (fun e -> match e with
                   | L [c; b] -> Hashtbl.replace num (int_of_string (atom c)) (dec_bool b)
                   | _ -> raise (Parse_error "num entry")) es
           | _ -> raise (Parse_error "oracle table")) tables
   | _ -> raise (Parse_error "oracle"));
  { re_valid = (fun p ci ->
        match Hashtbl.find_opt re (string_of_str p, ci) with
        | Some b -> b
        | None -> raise (Miss ("re " ^ string_of_str p)));
    re_match = (fun p ci h ->
        match Hashtbl.find_opt rem (string_of_str p, ci, string_of_str h) with
        | Some b -> b
        | None -> raise (Miss ("rem " ^ string_of_str p ^ " / " ^ string_of_str h)));
    f64_parse = (fun s ->
        match Hashtbl.find_opt fparse (string_of_str s) with
        | Some r -> r
        | None -> raise (Miss ("fparse " ^ string_of_str s)));
    f64_show = (fun b ->
        match Hashtbl.find_opt fshow (string_of_z b) with
        | Some r -> r
        | None -> raise (Miss ("fshow " ^ string_of_z b)));
    uni_alnum = (fun c ->
        match Hashtbl.find_opt alnum (int_of_n c) with
        | Some r -> r
        | None -> raise (Miss ("alnum " ^ string_of_int (int_of_n c))));
    uni_num = (fun c ->
        match Hashtbl.find_opt num (int_of_n c) with
        | Some r -> r
        | None -> raise (Miss ("num " ^ string_of_int (int_of_n c)))) }

let no_oracle : oracles =
  { re_valid = (fun _ _ -> raise (Miss "re")); re_match = (fun _ _ _ -> raise (Miss "rem"));
    f64_parse = (fun _ -> raise (Miss "fparse")); f64_show = (fun _ -> raise (Miss "fshow"));
    uni_alnum = (fun _ -> raise (Miss "alnum")); uni_num = (fun _ -> raise (Miss "num")) }

(* ------------------------------------------------------------------ printing *)
let b = Buffer.create 65536
let add = Buffer.add_string b
let p_bool x = add (if x then "1" else "0")
let p_z x = add (string_of_z x)
let p_str (s : str) =
  add "(s"; List.iter (fun c -> add " "; add (string_of_int (int_of_n c))) s; add ")"

let op_name = function
  | BAnd -> "and" | BOr -> "or" | BEqual -> "eq" | BGreaterThan -> "gt"
  | BGreaterThanOrEqual -> "ge" | BLessThan -> "lt" | BLessThanOrEqual -> "le"
let mod_name = function MFlt -> "flt" | MInt -> "int" | MNot -> "not" | MStr -> "str"
let err_name = function
  | EInvalidExpr -> "invalid_expr" | EInvalidIdent -> "invalid_ident"
  | EInvalidToken -> "invalid_token" | ELedFollowing -> "led_following"
  | ELedPreceding -> "led_preceding" | ERule -> "rule" | EInvalidChar -> "invalid_char"
  | EInvalidNum -> "invalid_num" | EValidation -> "validation"

let p_token = function
  | TDel DComma -> add "(del comma)" | TDel DLeftParen -> add "(del lp)"
  | TDel DRightParen -> add "(del rp)"
  | TFloat f -> add "(float "; p_z f; add ")"
  | TIdent s -> add "(id "; p_str s; add ")"
  | TInt i -> add "(int "; p_z i; add ")"
  | TOp o -> add "(op "; add (op_name o); add ")"
  | TMod m -> add "(mod "; add (mod_name m); add ")"
  | TMiscNot -> add "(misc not)"
  | TMatch MSAll -> add "(match all)" | TMatch MSOf -> add "(match of)"

let p_mtype = function
  | MTContains s -> add "(contains "; p_str s; add ")"
  | MTEndsWith s -> add "(endswith "; p_str s; add ")"
  | MTExact s -> add "(exact "; p_str s; add ")"
  | MTStartsWith s -> add "(startswith "; p_str s; add ")"

let p_search = function
  | SAho (ctx, ci) ->
      add "(aho ("; List.iteri (fun i m -> if i > 0 then add " "; p_mtype m) ctx; add ") "; p_bool ci; add ")"
  | SAny -> add "(any)"
  | SContains s -> add "(contains "; p_str s; add ")"
  | SEndsWith s -> add "(endswith "; p_str s; add ")"
  | SExact s -> add "(exact "; p_str s; add ")"
  | SRegex (p, ci) -> add "(regex "; p_str p; add " "; p_bool ci; add ")"
  | SRegexSet (ps, ci) ->
      add "(regexset ("; List.iteri (fun i p -> if i > 0 then add " "; p_str p) ps; add ") "; p_bool ci; add ")"
  | SStartsWith s -> add "(startswith "; p_str s; add ")"

let rec p_expr (e : expr) =
  match e with
  | EGroup (o, l) -> add "(group "; add (op_name o); List.iter (fun x -> add " "; p_expr x) l; add ")"
  | EBexp (l, o, r) -> add "(bexp "; p_expr l; add " "; add (op_name o); add " "; p_expr r; add ")"
  | EBool x -> add "(bool "; p_bool x; add ")"
  | ECast (f, m) -> add "(cast "; p_str f; add " "; add (mod_name m); add ")"
  | EField f -> add "(field "; p_str f; add ")"
  | EFloat f -> add "(float "; p_z f; add ")"
  | EIdent s -> add "(ident "; p_str s; add ")"
  | EInt i -> add "(int "; p_z i; add ")"
  | EMatch (MAll, x) -> add "(match all "; p_expr x; add ")"
  | EMatch (MOf c, x) -> add "(match (of "; p_z c; add ") "; p_expr x; add ")"
  | EMatrix (cols, rows) ->
      add "(matrix ("; List.iteri (fun i c -> if i > 0 then add " "; p_str c) cols; add ") (";
      List.iteri (fun i row ->
          if i > 0 then add " ";
          add "(";
          List.iteri (fun j cell ->
              if j > 0 then add " ";
              match cell with None -> add "(none)" | Some x -> add "(some "; p_expr x; add ")") row;
          add ")") rows;
      add "))"
  | ENegate x -> add "(neg "; p_expr x; add ")"
  | ENested (f, x) -> add "(nested "; p_str f; add " "; p_expr x; add ")"
  | ENull -> add "(null)"
  | ESearch (s, f, c) -> add "(search "; p_search s; add " "; p_str f; add " "; p_bool c; add ")"

let p_pattern = function
  | PAny -> add "(any)"
  | PContains s -> add "(contains "; p_str s; add ")"
  | PEndsWith s -> add "(endswith "; p_str s; add ")"
  | PExact s -> add "(exact "; p_str s; add ")"
  | PStartsWith s -> add "(startswith "; p_str s; add ")"
  | PRegex s -> add "(regex "; p_str s; add ")"
  | PEqual i -> add "(eq "; p_z i; add ")"
  | PGreaterThan i -> add "(gt "; p_z i; add ")"
  | PGreaterThanOrEqual i -> add "(ge "; p_z i; add ")"
  | PLessThan i -> add "(lt "; p_z i; add ")"
  | PLessThanOrEqual i -> add "(le "; p_z i; add ")"
  | PFEqual i -> add "(feq "; p_z i; add ")"
  | PFGreaterThan i -> add "(fgt "; p_z i; add ")"
  | PFGreaterThanOrEqual i -> add "(fge "; p_z i; add ")"
  | PFLessThan i -> add "(flt "; p_z i; add ")"
  | PFLessThanOrEqual i -> add "(fle "; p_z i; add ")"

let rec p_value (v : value) =
  match v with
  | VNull -> add "(null)"
  | VBool x -> add "(bool "; p_bool x; add ")"
  | VFloat f -> add "(float "; p_z f; add ")"
  | VInt i -> add "(int "; p_z i; add ")"
  | VUInt i -> add "(uint "; p_z i; add ")"
  | VStr s -> add "(str "; p_str s; add ")"
  | VArr l -> add "(arr"; List.iter (fun x -> add " "; p_value x) l; add ")"
  | VObj kv -> add "(obj"; List.iter (fun (k, x) -> add " ("; p_str k; add " "; p_value x; add ")") kv; add ")"

(* ------------------------------------------------------------------ cases *)
let ic = ref false
let want_known = ref false
let want_spec = ref false
let known_extra = ref ""

let str_of_ascii (s : string) : str =
  List.init (String.length s) (fun i -> n_of_int (Char.code s.[i]))

let all_string_keys kv = List.for_all (fun (k, _) -> match k with YStr _ -> true | _ -> false) kv

let rec compare_str (a : str) (b : str) : int =
  match a, b with
  | [], [] -> 0 | [], _ -> -1 | _, [] -> 1
  | x :: a', y :: b' -> let c = compare (int_of_n x) (int_of_n y) in if c <> 0 then c else compare_str a' b'

let res_char (r : res3 out) : char =
  match r with Ok T -> 't' | Ok F -> 'f' | Ok M -> 'm' | Panic _ -> 'p' | Err _ -> '?'

(* ---- hash-order exploration -------------------------------------------------------
   `run ord` evaluates something that asks the oracle `ord` for the iteration order of each
   hash map.  All combinations of orders are enumerated depth-first (each call site
   independently), up to a budget of leaves; beyond it the enumeration is cut and the
   result is marked incomplete. *)
let rec fact n = if n <= 1 then 1 else n * fact (n - 1)

let nth_perm (l : 'a list) (idx : int) : 'a list =
  (* idx in the factorial number system selects successive elements *)
  let rec go l idx =
    match l with
    | [] -> []
    | _ ->
        let n = List.length l in
        let f = if n - 1 > 20 then max_int else fact (n - 1) in   (* beyond 20! an OCaml int overflows: the head stays *)
        let q = idx / f and r = idx mod f in
        let x = List.nth l q in
        x :: go (List.filteri (fun i _ -> i <> q) l) r in
  go l idx

(* the order of the optimiser's ordered maps is Model/Order.v's rust_ord (extracted) *)
let all_orders = ref false
let want_why = ref false

let leaf_budget = ref 720

let explore (run : (n list list -> n list list) -> 'a) : 'a list * bool =
  let results = ref [] and leaves = ref 0 and complete = ref true in
  let rec go (prefix : int array) =
    if !leaves >= !leaf_budget then complete := false
    else begin
      let calls = ref 0 in
      let sizes = ref [] in
      let ord keys =
        let k = !calls in
        incr calls;
        let n = List.length keys in
        sizes := (k, n) :: !sizes;
        if k < Array.length prefix then (if prefix.(k) = -1 then List.rev keys else nth_perm keys prefix.(k)) else keys in
      let r = run ord in
      let beyond = List.filter (fun (k, n) -> k >= Array.length prefix && n > 1) (List.rev !sizes) in
      match beyond with
      | [] -> incr leaves; results := r :: !results
      | (j, n) :: _ ->
          let choices =
            if n <= 6 then List.init (fact n) (fun i -> i)
            else (complete := false; [0; -1; 1; 5039]) in
          List.iter (fun p ->
              let pre = Array.make (j + 1) 0 in
              Array.blit prefix 0 pre 0 (Array.length prefix);
              pre.(j) <- p;
              go pre) choices
    end in
  go [||];
  (!results, !complete)

let run_case (x : sx) : unit =
  match x with
  | L [A "tok"; id; s; o] ->
      let o = dec_oracle o in
      add "("; add (atom id);
      (match tokenise o (dec_str s) with
       | Ok ts -> add " ok"; List.iter (fun t -> add " "; p_token t) ts
       | Err k -> add " err "; add (err_name k)
       | Panic _ -> add " panic");
      add ")"
  | L [A "cond"; id; s; o] ->
      let o = dec_oracle o in
      let s = dec_str s in
      add "("; add (atom id);
      (match tokenise o s with
       | Err k -> add " err "; add (err_name k)
       | Panic _ -> add " panic"
       | Ok _ ->
           let one k f = (YStr (str_of_ascii k), YMap [ (YStr (str_of_ascii f), YStr (str_of_ascii "x")) ]) in
           let det = YMap [ (YStr (str_of_ascii "condition"), YStr s);
                            one "A" "a"; one "B" "b"; one "C" "c"; one "D" "d" ] in
           (match load_detection o !ic det with
            | Ok d -> add " ok "; p_expr d.d_expr
            | Err _ -> add " err rule"
            | Panic _ -> add " panic"));
      add ")"
  | L [A "ident"; id; s; o] ->
      let o = dec_oracle o in
      add "("; add (atom id);
      (match into_identifier o !ic (dec_str s) with
       | Ok i -> add " ok "; p_pattern i.id_pat; add " "; p_bool i.id_ci
       | Err k -> add " err "; add (err_name k)
       | Panic _ -> add " panic");
      add ")"
  | L [A "pid"; id; y; o] ->
      let o = dec_oracle o in
      add "("; add (atom id);
      (match parse_identifier o !ic (dec_yaml y) with
       | Ok e -> add " ok "; p_expr e
       | Err k -> add " err "; add (err_name k)
       | Panic _ -> add " panic");
      add ")"
  | L [A "find"; id; v; keys] ->
      add "("; add (atom id);
      (match dec_value v with
       | VObj kv ->
           List.iter (fun k ->
               add " ";
               match obj_find kv (dec_str k) with
               | Some v -> add "(some "; p_value v; add ")"
               | None -> add "(none)") (lst keys)
       | _ -> raise (Parse_error "find: object expected"));
      add ")"
  | L [A "rule"; id; y; docs; sws; L (f_reads :: f_validate :: f_trees :: f_more); o] ->
      let want_otrees = (match f_more with [x] -> dec_bool x | _ -> false) in
      let o = dec_oracle o in
      let y = dec_yaml y in
      (* top-level keys must be strings: serde's derived field visitor also accepts integer
         keys as field indices, which the model does not describe *)
      let modelled =
        match untag y with
        | YMap kv -> all_string_keys kv
        | _ -> true in
      add "("; add (atom id);
      if not modelled then add " unmodelled"
      else begin
        match load_rule o !ic y with
        | Err _ -> add " (load err)"
        | Panic _ -> add " (load panic)"
        | Ok r ->
            add " (load ok)";
            if dec_bool f_trees then begin
              add " (cond "; p_expr r.r_det.d_expr; add ") (ids";
              let ids = List.sort (fun (a, _) (b, _) -> compare_str a b) r.r_det.d_ids in
              List.iter (fun (k, e) -> add " ("; p_str k; add " "; p_expr e; add ")") ids;
              add ")"
            end;
            let docs = List.map (fun d -> match dec_value d with
                                          | VObj kv -> kv
                                          | _ -> raise (Parse_error "doc must be an object")) (lst docs) in
            let sws = List.map (fun s -> int_of_string (atom s)) (lst sws) in
            let want_reads = dec_bool f_reads in
            let res_parts = Buffer.create 256 and reads_parts = Buffer.create 256 in
            List.iter (fun sw ->
                let sws = { sw_coalesce = sw land 1 <> 0; sw_shake = sw land 2 <> 0;
                            sw_rewrite = sw land 4 <> 0; sw_matrix = sw land 8 <> 0 } in
                (* one run of optimise + solve under a given hash-order oracle *)
                let run (ord : n list list -> n list list) : string * string =
                  let rb = Buffer.create 64 and kb = Buffer.create 64 in
                  (match optimise o ord sws r with
                   | Panic _ -> Buffer.add_string rb " x"
                   | Err _ -> Buffer.add_string rb " ?"
                   | Ok r' ->
                       if docs <> [] then Buffer.add_char rb ' ';
                       List.iter (fun kv ->
                           let seen = Hashtbl.create 8 in
                           let d : docq = fun k -> Hashtbl.replace seen (List.map int_of_n k) k; Ok (obj_find kv k) in
                           let r3 = solve_rule3 o r'.r_det d in
                           let ch = res_char r3 in
                           Buffer.add_char rb ch;
                           if want_reads then begin
                             if ch = 'p' then Buffer.add_string kb " (panic)"
                             else begin
                               let keys = List.sort compare_str (Hashtbl.fold (fun _ k acc -> k :: acc) seen []) in
                               Buffer.add_string kb " (";
                               List.iteri (fun i k ->
                                   if i > 0 then Buffer.add_char kb ' ';
                                   Buffer.add_string kb "(s";
                                   List.iter (fun c -> Buffer.add_char kb ' '; Buffer.add_string kb (string_of_int (int_of_n c))) k;
                                   Buffer.add_char kb ')') keys;
                               Buffer.add_string kb ")"
                             end
                           end) docs);
                  (Buffer.contents rb, Buffer.contents kb) in
                let (outs, complete) = if !all_orders then explore run else ([run rust_ord], true) in
                let uniq l = List.sort_uniq compare l in
                let rs = uniq (List.map fst outs) and ks = uniq (List.map snd outs) in
                (match rs with
                 | [one] when complete -> Buffer.add_string res_parts (Printf.sprintf " (res %d%s)" sw one)
                 | _ ->
                     Buffer.add_string res_parts (Printf.sprintf " (res_alt %d %s" sw (if complete then "complete" else "partial"));
                     List.iter (fun x -> Buffer.add_string res_parts (Printf.sprintf " (res %d%s)" sw x)) rs;
                     Buffer.add_string res_parts ")");
                if want_reads then
                  (match ks with
                   | [one] when complete -> Buffer.add_string reads_parts (Printf.sprintf " (reads %d%s)" sw one)
                   | _ ->
                       Buffer.add_string reads_parts (Printf.sprintf " (reads_alt %d %s" sw (if complete then "complete" else "partial"));
                       List.iter (fun x -> Buffer.add_string reads_parts (Printf.sprintf " (reads %d%s)" sw x)) ks;
                       Buffer.add_string reads_parts ")")) sws;
            add (Buffer.contents res_parts);
            add (Buffer.contents reads_parts);
            if want_otrees then
              List.iter (fun sw ->
                  let sws = { sw_coalesce = sw land 1 <> 0; sw_shake = sw land 2 <> 0;
                              sw_rewrite = sw land 4 <> 0; sw_matrix = sw land 8 <> 0 } in
                  add (Printf.sprintf " (otree %d" sw);
                  (match optimise o rust_ord sws r with
                   | Ok r' ->
                       add " (cond "; p_expr r'.r_det.d_expr; add ") (ids";
                       let ids = List.sort (fun (a, _) (b, _) -> compare_str a b) r'.r_det.d_ids in
                       List.iter (fun (k, e) -> add " ("; p_str k; add " "; p_expr e; add ")") ids;
                       add ")"
                   | _ -> add " x");
                  add ")") sws;
            if !want_known then begin
              (* model-only extra, stripped by the orchestrator before the line diff *)
              let kb = Buffer.create 64 in
              List.iter (fun sw ->
                  let sws = { sw_coalesce = sw land 1 <> 0; sw_shake = sw land 2 <> 0;
                              sw_rewrite = sw land 4 <> 0; sw_matrix = sw land 8 <> 0 } in
                  let raw =
                    match untag y with
                    | YMap kv ->
                        (match List.find_opt (fun (k, _) -> k = YStr (str_of_ascii "detection")) kv with
                         | Some (_, d) ->
                             (match untag d with
                              | YMap dkv -> List.filter_map (fun (k, v) -> match untag k with YStr s -> Some (s, v) | _ -> None) dkv
                              | _ -> [])
                         | None -> [])
                    | _ -> [] in
                  let cls = known_classes o rust_ord sws r.r_det
                            @ (if known_d10 r.r_det then [n_of_int 10] else [])
                            @ (if known_d24 raw r.r_det then [n_of_int 24] else []) in
                  Buffer.add_string kb (Printf.sprintf " (%d" sw);
                  List.iter (fun c -> Buffer.add_string kb (Printf.sprintf " %d" (int_of_n c))) cls;
                  Buffer.add_string kb ")") sws;
              (* switch sets for which the end-to-end theorem of C01 applies (Model/Scope.v) *)
              let tb = Buffer.create 32 in
              List.iter (fun sw ->
                  let sws = { sw_coalesce = sw land 1 <> 0; sw_shake = sw land 2 <> 0;
                              sw_rewrite = sw land 4 <> 0; sw_matrix = sw land 8 <> 0 } in
                  if (not r.r_optimised) && c01_scope_wide o rust_ord sws r.r_det then Buffer.add_string tb (Printf.sprintf " %d" sw)) sws;
              (* --why: which conjunct of the scope predicate fails (diagnostic, tools/scope_why.py) *)
              if !want_why && not r.r_optimised then
                List.iter (fun sw ->
                    let sws = { sw_coalesce = sw land 1 <> 0; sw_shake = sw land 2 <> 0;
                                sw_rewrite = sw land 4 <> 0; sw_matrix = sw land 8 <> 0 } in
                    if not (c01_scope_wide o rust_ord sws r.r_det) then begin
                      let s0 = sw_without_matrix sws in
                      let tags = ref [] in
                      let tag b t = if not b then tags := t :: !tags in
                      if s0.sw_shake then begin
                        let ts = all_trees (staged s0 r.r_det) in
                        tag (List.for_all sh0 ts) "sh0";
                        tag (List.for_all no_dneg ts) "dneg";
                        tag (List.for_all shx ts) "shx";
                        tag (not (known_d16 rust_ord s0 r.r_det)) "d16";
                        tag (run_safe rust_ord s0 r.r_det) "run_safe"
                      end;
                      if sws.sw_matrix then begin
                        let pm = pre_matrix o rust_ord sws r.r_det in
                        tag (not (known_d17 o rust_ord sws r.r_det)) "d17";
                        tag (not (known_d16 rust_ord sws r.r_det)) "d16m";
                        tag (List.for_all cmp_reads (all_trees pm)) "cmp_reads";
                        tag (match_safe rust_ord false (shake_fuel (fst pm)) (fst pm)
                             && List.for_all (fun (_, b) -> List.for_all (fun m -> match_safe rust_ord (body_neg pm) (shake_fuel m) m) (entry_trees b)) (snd pm)) "match_safe";
                        tag (sws.sw_coalesce || no_match (fst pm)) "no_match"
                      end;
                      Buffer.add_string tb (Printf.sprintf ") (why %d %s" sw (String.concat " " (List.rev !tags)))
                    end) sws;
              known_extra := Printf.sprintf " (k%s) (th%s)" (Buffer.contents kb) (Buffer.contents tb)
            end;
            if dec_bool f_validate then begin
              match validate o r with
              | Ok [] -> add " (validate ok)"
              | Ok l -> add " (validate err"; List.iter (fun i -> add " "; p_z i) l; add ")"
              | Panic _ -> add " (validate panic)"
              | Err _ -> add " (validate ?)"
            end;
            add !known_extra;
            known_extra := "";
            if !want_spec then begin
              (* model-only extra: the verdict of the reference semantics (Model/Spec.v) per document *)
              (* classes of known deviations of the crate from the reference, as (k (0 ...)) *)
              let sk = spec_known_all o y in
              if not !want_known then begin
                add " (k (0";
                List.iter (fun c -> add (Printf.sprintf " %d" (int_of_n c))) sk;
                (if known_d10 r.r_det then add " 10");
                (let raw =
                   match untag y with
                   | YMap kv ->
                       (match List.find_opt (fun (k, _) -> k = YStr (str_of_ascii "detection")) kv with
                        | Some (_, d) ->
                            (match untag d with
                             | YMap dkv -> List.filter_map (fun (k, v) -> match untag k with YStr s -> Some (s, v) | _ -> None) dkv
                             | _ -> [])
                        | None -> [])
                   | _ -> [] in
                 if known_d24 raw r.r_det then add " 24");
                add "))"
              end;
              add " (sp ";
              if docs = [] then add "e";
              List.iter (fun kv ->
                  match sem_rule o !ic y (obj_find kv) with
                  | Some T -> add "t" | Some F -> add "f" | Some M -> add "m" | None -> add "?") docs;
              add ")"
            end
      end;
      add ")"
  | L [A _; id; A "skip"] | L [id; A "skip"] -> add "("; add (atom id); add " skip)"
  | L [id; A "harness_error"] -> add "("; add (atom id); add " harness_error)"
  | _ -> raise (Parse_error "unknown case shape")

let case_id (x : sx) : string =
  match x with
  | L (A _ :: A id :: _) -> id
  | L (A id :: _) -> id
  | _ -> "?"

let () =
  Array.iter (fun a -> if a = "--ic" then ic := true; if a = "--known" then want_known := true; if a = "--all-orders" then all_orders := true; if a = "--why" then want_why := true; if a = "--spec" then want_spec := true) Sys.argv;
  let out = stdout in
  (try
     while true do
       let line = input_line stdin in
       Buffer.clear b;
       (try
          let x = parse_line line in
          (try run_case x with
           | Miss what -> Buffer.clear b; add "("; add (case_id x); add " miss "; add (String.map (fun c -> if c = '(' || c = ')' then '_' else c) what); add ")"
           | Parse_error m -> Buffer.clear b; add "("; add (case_id x); add " runner_error "; add (String.map (fun c -> if c = ' ' || c = '(' || c = ')' then '_' else c) m); add ")"
           | Stack_overflow -> Buffer.clear b; add "("; add (case_id x); add " runner_error stack_overflow)")
        with Parse_error m -> Buffer.clear b; add "(? runner_error "; add m; add ")");
       output_string out (Buffer.contents b);
       output_char out '\n'
     done
   with End_of_file -> ());
  flush out
