#!/bin/sh
# Builds the whole framework from files on disk (offline): Coq development, extracted
# runner, Rust harness.
set -e
cd "$(dirname "$0")"
export CARGO_NET_OFFLINE=true
python3 tools/gen_tables.py || true
# -k: a statement file that does not build is reported by the check that owns it, it must not
# keep the runner and the other properties from being built
python3 -c "import sys; sys.path.insert(0, 'check'); import lib; lib.gen_coqproject()"
(cd coq && coq_makefile -f _CoqProject -o Makefile >/dev/null 2>&1 && timeout 3000 make -k -j16 >/dev/null 2>make.log || (tail -30 make.log; echo "coq build incomplete (continuing)"))
./runner/build.sh
if [ -d harness ]; then
  (cd harness && cargo build --offline --release --target-dir /verif/harness/target 2>&1 | tail -3)
fi
echo setup done
