#!/bin/sh
# Builds the whole framework from files on disk (offline): Coq development, extracted
# runner, Rust harness.
set -e
cd "$(dirname "$0")"
export CARGO_NET_OFFLINE=true
python3 tools/gen_tables.py || true
(cd coq && coq_makefile -f _CoqProject -o Makefile >/dev/null 2>&1 && timeout 3000 make -j16 >/dev/null 2>make.log || (tail -30 make.log; exit 1))
./runner/build.sh
if [ -d harness ]; then
  (cd harness && cargo build --offline --release --target-dir /verif/harness/target 2>&1 | tail -3)
fi
echo setup done
