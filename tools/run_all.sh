#!/bin/sh
# runs every claimed check (quick tier) on the current tree and prints one status line each
cd "$(dirname "$0")/.."
for p in $(python3 -c "
import json; print(' '.join(c['property_id'] for c in json.load(open('MANIFEST.json'))['checks']))"); do
  s=$(date +%s)
  out=$(./check/check $p --tier quick 2>/dev/null); rc=$?
  e=$(date +%s)
  echo "$p exit=$rc $((e-s))s $(echo "$out" | grep -c '^VIOLATION') violations, $(echo "$out" | grep -c '^KNOWN-FINDING') known"
done
