#!/usr/bin/env python3
"""seed.py <property> <worktree> [name]
Confirms a seeded defect delivered in a scratch worktree (tests pass with the change, the
demonstration fails with it and passes without it), stores it under /verif/seeded/<name>/,
runs the property's check (and optionally others) against it in /repo, and records the outcome
in meta.json.  The change is never committed to /repo."""
import json, os, shutil, subprocess, sys, time
prop, wt = sys.argv[1], sys.argv[2]
name = sys.argv[3] if len(sys.argv) > 3 else prop + "-a"
others = sys.argv[4:]
V = "/verif"
dst = os.path.join(V, "seeded", name)
env = dict(os.environ, CARGO_NET_OFFLINE="true")
def sh(cmd, cwd=None, timeout=3000):
    p = subprocess.run(cmd, shell=True, cwd=cwd, env=env, stdout=subprocess.PIPE, stderr=subprocess.STDOUT, text=True, timeout=timeout)
    return p.returncode, p.stdout
meta = {"property": prop, "name": name, "ran": []}
# 1. the patch
rc, diff = sh("git diff -- src", cwd=wt)
assert diff.strip(), "no change in worktree"
os.makedirs(dst, exist_ok=True)
open(os.path.join(dst, "patch.diff"), "w").write(diff)
# 2. tests pass with the change
rc, out = sh("cargo test --workspace --offline 2>&1 | grep -E '^test result|FAILED|panicked' ", cwd=wt)
passed = sum(int(l.split()[3]) for l in out.splitlines() if l.startswith("test result: ok"))
failed = "FAILED" in out or "failed" in out.replace("0 failed", "")
meta["tests_with_change"] = {"passed": passed, "failed": failed}
meta["ran"].append("cargo test --workspace --offline (in the worktree, change applied): %d passed, failed=%s" % (passed, failed))
# 3. demo fails with / passes without
def demo():
    rc, out = sh("cargo build --offline --manifest-path demo/Cargo.toml 2>&1 | tail -3", cwd=wt)
    exe = None
    tdir = os.path.join(wt, "demo", "target", "debug")
    for f in os.listdir(tdir):
        p = os.path.join(tdir, f)
        if os.path.isfile(p) and os.access(p, os.X_OK) and "." not in f:
            exe = p
    rc, out = sh(exe, cwd=wt, timeout=600)
    return rc, out[-600:]
rc1, o1 = demo()
sh("git stash -- src", cwd=wt)
rc0, o0 = demo()
sh("git stash pop", cwd=wt)
meta["demo"] = {"with_change_exit": rc1, "without_change_exit": rc0, "with_change_output": o1, "without_change_output": o0[-200:]}
meta["ran"].append("demo binary: exit %d with the change, exit %d on the original source" % (rc1, rc0))
ok = passed >= 137 and not failed and rc1 != 0 and rc0 == 0
meta["confirmed"] = ok
# copy demo + notes
if os.path.isdir(os.path.join(dst, "demo")):
    shutil.rmtree(os.path.join(dst, "demo"))
shutil.copytree(os.path.join(wt, "demo"), os.path.join(dst, "demo"), ignore=shutil.ignore_patterns("target"))
if os.path.exists(os.path.join(wt, "NOTES.md")):
    shutil.copy(os.path.join(wt, "NOTES.md"), os.path.join(dst, "NOTES.md"))
    meta["needs_to_manifest"] = open(os.path.join(wt, "NOTES.md")).read()[:3000]
# 4. our checks against it
results = {}
if ok:
    rc, out = sh("git -C /repo status --short")
    assert not out.strip(), "/repo not clean"
    rc, out = sh("git -C /repo apply %s" % os.path.join(dst, "patch.diff"))
    assert rc == 0, out
    # the evidence files describe the UNCHANGED tree: keep them, the runs below overwrite them
    saved = os.path.join(V, "work", "evidence.saved")
    shutil.rmtree(saved, ignore_errors=True)
    shutil.copytree(os.path.join(V, "evidence"), saved)
    try:
        for p in [prop] + others:
            t = time.time()
            rc, out = sh("./check/check %s --tier quick" % p, cwd=V)
            viol = [l for l in out.splitlines() if l.startswith("VIOLATION")]
            results[p] = {"exit": rc, "violations": viol[:6], "seconds": round(time.time() - t)}
            kinds = []
            for l in viol[:6]:
                path = l.split("replay=")[1].split()[0]
                try:
                    kinds.append(json.load(open(path)).get("kind"))
                except Exception:
                    pass
            results[p]["kinds"] = kinds
            meta["ran"].append("git -C /repo apply patch.diff; ./check/check %s --tier quick -> exit %d, %d VIOLATION line(s) %s" % (p, rc, len(viol), kinds))
    finally:
        sh("git -C /repo checkout -- .")
        sh("python3 %s/tools/gen_tables.py" % V)
        sh("find %s/replays -name 'C*.json' -delete" % V)
        for f in os.listdir(saved):
            shutil.copy(os.path.join(saved, f), os.path.join(V, "evidence", f))
        shutil.rmtree(saved, ignore_errors=True)
meta["checks"] = results
meta["detected_by"] = [p for p, r in results.items() if r["exit"] != 0]
json.dump(meta, open(os.path.join(dst, "meta.json"), "w"), indent=1)
print(json.dumps({k: meta[k] for k in ("confirmed", "tests_with_change", "detected_by")}), {p: (r["exit"], r["kinds"]) for p, r in results.items()})
print("demo:", rc1, rc0)
