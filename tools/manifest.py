#!/usr/bin/env python3
"""Regenerates MANIFEST.json from tools/manifest_data.py (claimed checks + not_applicable)."""
import json, os, sys
here = os.path.dirname(os.path.abspath(__file__))
sys.path.insert(0, here)
import manifest_data as md
props = [json.loads(l) for l in open(os.path.join(here, "..", "properties.jsonl"))]
checks = []
na = []
for p in props:
    pid = p["id"]
    if pid in md.CLAIMED:
        c = md.CLAIMED[pid]
        checks.append({
            "property_id": pid,
            "quick_cmd": "./check/check %s --tier quick" % pid,
            "thorough_cmd": "./check/check %s --tier thorough" % pid,
            "evidence_file": "/verif/evidence/%s.json" % pid,
            "replay_cmd_template": "./check/check %s --replay {path}" % pid,
            "engine": "coq-model+correspondence",
            "level_claimed": {"category": "proof", "text": c["text"], "design_ref": "DESIGN.md section 7-%s" % pid},
            "level_note": c["note"],
            "technique": c["technique"],
        })
    else:
        na.append({"property_id": pid, "reason": md.NOT_YET.get(pid, md.DEFAULT_REASON)})
m = {
    "version": 1,
    "setup_cmd": "./setup.sh",
    "hooks": {
        "guard": "tau_engine_verif",
        "enable": "no source hooks are needed: the harness builds /repo by path with --features core,json (plus ignore_case / sync for C15 / C10 thorough); the guard name is reserved and unused",
        "baseline_off_cmd": "cd /repo && cargo test --workspace --no-fail-fast --offline",
        "source_commits": [],
        "add_only": True,
    },
    "engines": [{
        "name": "coq-model+correspondence",
        "path": "/verif/coq (model, proofs, properties), /verif/runner (extracted OCaml), /verif/harness (Rust), /verif/check (orchestrator)",
        "serves_properties": sorted(md.CLAIMED),
        "kind_free_text": "machine-checked proof in Coq 8.16.1 about an executable Gallina model; the model is tied to /repo on every run by a differential correspondence check (extracted OCaml model vs Rust harness linked against the working tree) and, for the tokeniser tables, by regeneration from the Rust source",
    }],
    "checks": checks,
    "not_applicable": na,
    "notes": md.NOTES,
}
json.dump(m, open(os.path.join(here, "..", "MANIFEST.json"), "w"), indent=1, ensure_ascii=False)
print("claimed:", sorted(md.CLAIMED), "not claimed:", [x["property_id"] for x in na])
