#!/usr/bin/env python3
"""Type-checks the statements of Properties/<P>.v without their proofs (each theorem is
stated and aborted).  Usage: typecheck_props.py C06"""
import os, re, subprocess, sys, tempfile
coq = os.path.join(os.path.dirname(os.path.abspath(__file__)), "..", "coq")
p = sys.argv[1]
pp = os.path.join(coq, "Properties", p + ".v")
src = open(pp if os.path.exists(pp) else os.path.join(coq, "Pending", p + ".v")).read()
def _keep(m):
    mods = [x for x in m.group(1).split() if os.path.exists(os.path.join(coq, "Proofs", x + ".vo"))]
    return ("From TauProofs Require %s.\n" % " ".join(mods)) if mods else ""
src = re.sub(r"From TauProofs Require ([\w ]+)\.\n", _keep, src)
src = re.sub(r"Proof\. exact .*?\. Qed\.", "Abort.", src)
src = re.sub(r"^(Check|Print Assumptions) .*?\.\n", "", src, flags=re.M)
d = tempfile.mkdtemp(dir="/var/tmp")
f = os.path.join(d, "T_" + p + ".v")
open(f, "w").write(src)
r = subprocess.run(["coqc", "-Q", os.path.join(coq, "Model"), "TauModel", "-Q", os.path.join(coq, "Proofs"), "TauProofs", f],
                   stdout=subprocess.PIPE, stderr=subprocess.STDOUT, text=True)
print(r.stdout[-3000:] or "statements type-check")
subprocess.run(["rm", "-rf", d])
sys.exit(r.returncode)
