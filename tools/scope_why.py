#!/usr/bin/env python3
"""Diagnostic: for generated rules outside the proved C01 scope (Model/Scope3.v c01_scope_wide) and
outside the listed classes D13/D16/D17, which conjunct of the scope predicate fails.
Usage: tools/scope_why.py [n_rules] [sw]   (model only; nothing is judged)"""
import collections
import os
import re
import sys

sys.path.insert(0, "/verif/check")
import lib
from props import common, rulebase


class Ck:
    def __init__(self):
        import random
        self.rng = random.Random(1)
        self.i = 0
        self.tier = "quick"
    def new_id(self):
        self.i += 1
        return self.i
    def count(self, *a, **k):
        pass


def main():
    n = int(sys.argv[1]) if len(sys.argv) > 1 else 450
    sws = [int(sys.argv[2])] if len(sys.argv) > 2 else [3, 8, 15]
    ck = Ck()
    cases = rulebase.gen_rule_cases(ck, n, 2, sws)
    _, model, _ = lib.run_cases(rulebase.wire(cases), "why", runner_args=["--known", "--why"])
    tab = collections.Counter()
    ex = {}
    for c in cases:
        line = model[c["id"]]
        classes = common.known_of(line)
        for sw, tags in re.findall(r"\(why (\d+) ([^()]*)\)", line):
            sw = int(sw)
            listed = sorted(k for k in classes.get(sw, []) if k in (13, 16, 17))
            if listed and not os.environ.get("ALL"):
                continue
            key = (sw, tags.strip() or "-", tuple(listed))
            tab[key] += 1
            ex.setdefault(key, []).append(c["rule"])
    for key, v in sorted(tab.items()):
        print(key, v)
        for r in ex[key][:(0 if os.environ.get("ALL") else 2)]:
            print("    " + r.replace("\n", "\n    "))


main()
