#!/usr/bin/env python3
"""Translator: regenerates coq/Model/Generated.v from /repo/src/tokeniser.rs and
coq/Model/GeneratedCmp.v from /repo/src/solver.rs (the comparison table of solve_expression).

Extracts (1) the binding powers of Token::binding_power and (2) the ordered keyword table
of the match_ahead chain in `impl Tokeniser for String` (keyword string, token pushed,
number of characters consumed by `it.nth(k)`), and (3) the arms of the comparison table.
Prints `translator: ok` and exits 0, or prints `translator: <table>: shape not recognised: <why>`
and exits 3 without touching the file of the table it could not read (the other is still written).
"""
import re, sys, os, json

REPO = os.environ.get("VERIF_REPO", "/repo")
OUT = os.path.join(os.path.dirname(os.path.abspath(__file__)), "..", "coq", "Model", "Generated.v")


def strip_comments(src):
    src = re.sub(r"/\*.*?\*/", " ", src, flags=re.S)
    out = []
    for line in src.split("\n"):
        # remove // comments that are not inside a string literal (good enough for this file)
        m = re.search(r'//', line)
        if m and line[:m.start()].count('"') % 2 == 0:
            line = line[:m.start()]
        out.append(line)
    return "\n".join(out)


TOKENS = {
    "Token::Modifier(ModSym::Flt)": "TMod MFlt",
    "Token::Modifier(ModSym::Int)": "TMod MInt",
    "Token::Modifier(ModSym::Str)": "TMod MStr",
    "Token::Modifier(ModSym::Not)": "TMod MNot",
    "Token::Operator(BoolSym::And)": "TOp BAnd",
    "Token::Operator(BoolSym::Or)": "TOp BOr",
    "Token::Miscellaneous(MiscSym::Not)": "TMiscNot",
    "Token::Match(MatchSym::All)": "TMatch MSAll",
    "Token::Match(MatchSym::Of)": "TMatch MSOf",
}


def extract(src):
    src = strip_comments(src)
    # ---- binding powers -------------------------------------------------------------
    m = re.search(r"fn\s+binding_power\s*\(&self\)\s*->\s*u8\s*\{(.*?)\n    \}", src, re.S)
    if not m:
        fail("binding_power not found")
    body = m.group(1)

    def arm(pattern, what):
        mm = re.search(pattern, body, re.S)
        if not mm:
            fail("binding power arm for " + what)
        return int(mm.group(1))

    bp = {}
    cmp_arm = re.search(r"BoolSym::Equal((?:\s*\|\s*BoolSym::\w+)*)\s*=>\s*(\d+)", body, re.S)
    if not cmp_arm:
        fail("comparison arm")
    names = set(re.findall(r"BoolSym::(\w+)", "BoolSym::Equal" + cmp_arm.group(1)))
    if names != {"Equal", "GreaterThan", "GreaterThanOrEqual", "LessThan", "LessThanOrEqual"}:
        fail("comparison arm does not list exactly the five comparison operators: %s" % sorted(names))
    bp["cmp"] = int(cmp_arm.group(2))
    bp["or"] = arm(r"BoolSym::Or\s*=>\s*(\d+)", "or")
    bp["and"] = arm(r"BoolSym::And\s*=>\s*(\d+)", "and")
    bp["not"] = arm(r"MiscSym::Not\s*=>\s*(\d+)", "not")
    mod_arm = re.search(r"ModSym::\w+(?:\s*\|\s*ModSym::\w+)*\s*=>\s*(\d+)", body, re.S)
    if not mod_arm:
        fail("modifier arm")
    bp["mod"] = int(mod_arm.group(1))
    match_arm = re.search(r"MatchSym::\w+(?:\s*\|\s*MatchSym::\w+)*\s*=>\s*(\d+)", body, re.S)
    if not match_arm:
        fail("match arm")
    bp["match"] = int(match_arm.group(1))
    zero_arm = re.search(r"Token::Delimiter\(_\)\s*\|\s*Token::Float\(_\)\s*\|\s*Token::Identifier\(_\)\s*\|\s*Token::Integer\(_\)\s*=>\s*(\d+)", body, re.S)
    if not zero_arm:
        fail("atom arm")
    bp["atom"] = int(zero_arm.group(1))

    # ---- keyword table --------------------------------------------------------------
    m = re.search(r"impl\s+Tokeniser\s+for\s+String\s*\{(.*?)\n\}\n", src, re.S)
    if not m:
        fail("impl Tokeniser for String not found")
    tk = m.group(1)
    chain = re.findall(
        r'match_ahead\(\s*&mut\s+it\s*,\s*"((?:[^"\\]|\\.)*)"\s*\)\s*\{\s*tokens\.push\(\s*([A-Za-z:()]+)\s*\)\s*;\s*it\.nth\(\s*(\d+)\s*\)\s*;',
        tk, re.S)
    if len(chain) < 1:
        fail("no match_ahead arms")
    if len(chain) != len(re.findall(r"match_ahead\(", tk)):
        fail("some match_ahead arm does not have the push/nth shape")
    kws = []
    for (s, tok, k) in chain:
        if "\\" in s:
            fail("escape in keyword literal")
        if tok not in TOKENS:
            fail("unknown token constructor " + tok)
        kws.append((s, TOKENS[tok], int(k) + 1))
    # the character classes of the dispatch
    if not re.search(r"'a'\.\.='z'\s*\|\s*'A'\.\.='Z'\s*\|\s*'#'\s*=>", tk):
        fail("identifier start class")
    return bp, kws


# ---- comparison table of the solver ---------------------------------------------------------
KINDS = {"Bool": "KBool", "Float": "KFloat", "Int": "KInt", "UInt": "KUInt"}
OPS = {"Equal": "BEqual", "GreaterThan": "BGreaterThan", "GreaterThanOrEqual": "BGreaterThanOrEqual",
       "LessThan": "BLessThan", "LessThanOrEqual": "BLessThanOrEqual"}
RELS = {"==": "Equal", ">": "GreaterThan", ">=": "GreaterThanOrEqual", "<": "LessThan", "<=": "LessThanOrEqual"}


def extract_cmp(src):
    """the arms of `let res = match (x, *op, y) { .. }` in solve_expression, in source order"""
    src = strip_comments(src)
    m = re.search(r"let\s+res\s*=\s*match\s*\(\s*x\s*,\s*\*op\s*,\s*y\s*\)\s*\{(.*?)\n\s*\};", src, re.S)
    if not m:
        fail("comparison table `let res = match (x, *op, y)` not found")
    if len(re.findall(r"match\s*\(\s*x\s*,\s*\*op\s*,\s*y\s*\)", src)) != 1:
        fail("more than one comparison table")
    body = m.group(1)
    # what follows the table: true -> True, anything else -> False
    tail = src[m.end():m.end() + 400]
    if not re.match(r"\s*match\s+res\s*\{\s*true\s*=>\s*SolverResult::True\s*,\s*_\s*=>\s*SolverResult::False\s*,?\s*\}", tail):
        fail("the result of the comparison table is not mapped true -> True, else False")
    side = r"(?:Value::(\w+)\(\s*(\w+)\s*\)|(_))"
    arm_re = re.compile(r"\s*\(\s*" + side + r"\s*,\s*BoolSym::(\w+)\s*,\s*" + side + r"\s*\)\s*(?:if\s+(.*?))?\s*=>\s*(\{.*?\}|[^,{}]+?)\s*,?\s*(?=\(|_\s*=>|$)", re.S)
    pos = 0
    arms = []
    while True:
        rest = body[pos:]
        if re.match(r"\s*_\s*=>\s*unreachable!\(\)\s*,?\s*$", rest, re.S):
            break
        mm = arm_re.match(rest)
        if not mm:
            fail("comparison arm not of the expected shape near: " + " ".join(rest.split())[:80])
        lk, lv, lany, op, rk, rv, rany, guard, rhs = mm.groups()
        pos += mm.end()
        if op not in OPS:
            fail("comparison arm for operator " + op)
        for k in (lk, rk):
            if k is not None and k not in KINDS:
                fail("comparison arm over Value::" + k)
        kl = KINDS[lk] if lk else "KAny"
        kr = KINDS[rk] if rk else "KAny"
        lvar = lv if lk and lv != "_" else None
        rvar = rv if rk and rv != "_" else None
        g = "GNone"
        gvar = None
        if guard is not None:
            gm = re.match(r"^(\w+)\s*<=\s*i64::MAX\s+as\s+u64$", " ".join(guard.split()))
            if not gm:
                fail("guard not of the form `v <= i64::MAX as u64`: " + guard)
            gvar = gm.group(1)
            if gvar == lvar and lk == "UInt":
                g = "GLeft"
            elif gvar == rvar and rk == "UInt":
                g = "GRight"
            else:
                fail("guard on a variable that is not the UInt side: " + guard)
        rhs = " ".join(rhs.strip().strip("{}").split())
        if rhs in ("true", "false"):
            b = "BTrue" if rhs == "true" else "BFalse"
        else:
            bm = re.match(r"^\(?\s*(\w+)(\s+as\s+i64)?\s*\)?\s*(==|>=|<=|>|<)\s*\(?\s*(\w+)(\s+as\s+i64)?\s*\)?$", rhs)
            if not bm:
                fail("body of a comparison arm: " + rhs)
            a, acast, rel, c, ccast = bm.groups()
            if a != lvar or c != rvar or lvar is None or rvar is None:
                fail("a comparison arm does not compare its left variable with its right variable: " + rhs)
            if RELS[rel] != op:
                pass    # recorded as written: the equivalence lemma decides whether it is right
            mixed = {lk, rk} == {"UInt", "Int"}
            if mixed:
                uvar, ucast, icast = (a, acast, ccast) if lk == "UInt" else (c, ccast, acast)
                if not ucast or icast or gvar != uvar:
                    fail("mixed Int/UInt arm without `as i64` on the guarded UInt side: " + rhs)
            else:
                if acast or ccast:
                    fail("cast in a same-kind arm: " + rhs)
                if lk != rk:
                    fail("comparison of different kinds: %s vs %s" % (lk, rk))
                if lk == "Bool" and rel != "==":
                    fail("ordering comparison on Bool")
            b = "BRel " + OPS[RELS[rel]]
        arms.append((kl, OPS[op], kr, g, b))
    if not arms:
        fail("empty comparison table")
    return arms


def render_cmp(arms):
    lines = ["(* AUTO-GENERATED by tools/gen_tables.py from src/solver.rs (the match `let res = match (x, *op, y)`"
             "\n   of solve_expression, arms in source order; the final `_ => unreachable!()` is the empty rest) -- do not edit. *)",
             "From TauModel Require Import Base Syntax CmpTable.", "",
             "Definition cmp_arms : list cmp_arm :=",
             "  [" + ";\n   ".join("(%s, %s, %s, %s, %s)" % a for a in arms) + "].", ""]
    return "\n".join(lines)



# ---- pattern dispatch chain of String::into_identifier ----------------------------------------
def rust_lit(tok):
    """a Rust char or str literal -> Python string (only the escapes that occur here)"""
    tok = tok.strip()
    if len(tok) >= 2 and tok[0] == tok[-1] and tok[0] in "'\"":
        body = tok[1:-1]
        body = body.replace("\\'", "'").replace('\\"', '"').replace("\\\\", "\\")
        if "\\" in body and body not in ("\\",):
            fail("escape in literal " + tok)
        return body
    fail("not a literal: " + tok)


def split_chain(text):
    """`if C1 { B1 } else if C2 { B2 } ... else { Bn }` -> [(cond or None, body)], brace matching
    (string/char literals are skipped)"""
    i, n = 0, len(text)
    out = []

    def skip_ws(i):
        while i < n and text[i].isspace():
            i += 1
        return i

    def block(i):
        # text[i] == '{'; returns (body, index after the matching '}')
        depth, j = 0, i
        while j < n:
            c = text[j]
            if c == '"':
                j += 1
                while j < n and text[j] != '"':
                    j += 2 if text[j] == "\\" else 1
            elif c == "'" and j + 2 < n and (text[j + 2] == "'" or (text[j + 1] == "\\" and j + 3 < n and text[j + 3] == "'")):
                j += 3 if text[j + 2] == "'" else 4
                continue
            elif c == "{":
                depth += 1
            elif c == "}":
                depth -= 1
                if depth == 0:
                    return text[i + 1:j], j + 1
            j += 1
        fail("unbalanced braces in into_identifier")

    i = skip_ws(i)
    while True:
        if text.startswith("if", i) and (text[i + 2].isspace() or text[i + 2] == "("):
            j = i + 2
            # the condition runs to the '{' that opens the body: the first '{' at paren depth 0 outside literals
            depth = 0
            k = j
            while k < n:
                c = text[k]
                if c == '"':
                    k += 1
                    while k < n and text[k] != '"':
                        k += 2 if text[k] == "\\" else 1
                elif c == "'" and k + 2 < n and (text[k + 2] == "'" or (text[k + 1] == "\\" and k + 3 < n and text[k + 3] == "'")):
                    k += 3 if text[k + 2] == "'" else 4
                    continue
                elif c == "(":
                    depth += 1
                elif c == ")":
                    depth -= 1
                elif c == "{" and depth == 0:
                    break
                k += 1
            cond = " ".join(text[j:k].split())
            body, i = block(k)
            out.append((cond, body))
            i = skip_ws(i)
            if text.startswith("else", i):
                i = skip_ws(i + 4)
                if text.startswith("if", i):
                    continue
                body, i = block(i)
                out.append((None, body))
                i = skip_ws(i)
                break
            fail("if without else in the pattern chain")
        else:
            fail("pattern chain does not start with if")
    rest = text[i:].strip()
    if rest != ";":
        fail("text after the pattern chain: " + rest[:40])
    return out


CMPK = {"Equal": "KEq", "GreaterThan": "KGt", "GreaterThanOrEqual": "KGe", "LessThan": "KLt", "LessThanOrEqual": "KLe"}
STRK = {"Contains": "KContains", "EndsWith": "KEndsWith", "StartsWith": "KStartsWith", "Exact": "KExact"}


def extract_ident(src):
    src = strip_comments(src)
    m = re.search(r"impl\s+IdentifierParser\s+for\s+String\s*\{\s*fn\s+into_identifier\s*\(\s*self\s*\)\s*->\s*crate::Result<Identifier>\s*\{(.*?)\n    \}\n\}", src, re.S)
    if not m:
        fail("impl IdentifierParser for String not found")
    body = m.group(1)
    # 1. the case prefix
    pm = re.match(r"\s*let\s*\(\s*insensitive\s*,\s*string\s*\)\s*=\s*if\s+cfg!\(\s*feature\s*=\s*\"ignore_case\"\s*\)\s*\{\s*\(\s*true\s*,\s*&self\[\.\.\]\s*\)\s*\}\s*"
                  r"else\s+if\s+let\s+Some\(\s*s\s*\)\s*=\s*self\.strip_prefix\(\s*('(?:[^'\\]|\\.)'|\"(?:[^\"\\]|\\.)*\")\s*\)\s*\{\s*\(\s*true\s*,\s*s\s*\)\s*\}\s*"
                  r"else\s*\{\s*\(\s*false\s*,\s*&self\[\.\.\]\s*\)\s*\}\s*;", body, re.S)
    if not pm:
        fail("case prefix (`let (insensitive, string) = ..`) not of the expected shape")
    prefix = rust_lit(pm.group(1))
    rest = body[pm.end():]
    cm = re.match(r"\s*let\s+pattern\s*=\s*", rest)
    if not cm:
        fail("`let pattern =` does not follow the case prefix")
    rest = rest[cm.end():]
    tail = re.search(r"\n\s*Ok\(\s*Identifier\s*\{\s*ignore_case\s*:\s*insensitive\s*,\s*pattern\s*,?\s*\}\s*\)\s*$", rest, re.S)
    if not tail:
        fail("into_identifier does not end in Ok(Identifier { ignore_case: insensitive, pattern })")
    chain = split_chain(rest[:tail.start()])
    lit = r"('(?:[^'\\]|\\.)'|\"(?:[^\"\\]|\\.)*\")"
    arms = []
    for idx, (cond, b) in enumerate(chain):
        bound = None
        if cond is None:
            test = ("TElse",)
        else:
            mm = re.match(r"^let Some\(\s*s\s*\) = string\.strip_(prefix|suffix)\(\s*" + lit + r"\s*\)$", cond)
            if mm:
                test = ("TPrefix" if mm.group(1) == "prefix" else "TSuffix", rust_lit(mm.group(2)))
                bound = "s"
            elif re.match(r"^string == " + lit + "$", cond):
                test = ("TEq", rust_lit(re.match(r"^string == " + lit + "$", cond).group(1)))
            elif re.match(r"^string\.starts_with\(\s*" + lit + r"\s*\) && string\.ends_with\(\s*" + lit + r"\s*\)$", cond):
                mm = re.match(r"^string\.starts_with\(\s*" + lit + r"\s*\) && string\.ends_with\(\s*" + lit + r"\s*\)$", cond)
                a, c = rust_lit(mm.group(1)), rust_lit(mm.group(2))
                if len(a) != 1 or len(c) != 1:
                    fail("starts_with/ends_with on more than one character")
                test = ("TStartsEnds", a, c)
            else:
                mm = re.match(r"^string\.len\(\) > 1 && \(\s*(.*)\s*\)$", cond)
                if not mm:
                    fail("test of a pattern arm: " + cond[:80])
                qs = []
                for alt in re.split(r"\s*\|\|\s*", mm.group(1)):
                    am = re.match(r"^\(\s*string\.starts_with\(\s*" + lit + r"\s*\) && string\.ends_with\(\s*" + lit + r"\s*\)\s*\)$", alt.strip())
                    if not am or rust_lit(am.group(1)) != rust_lit(am.group(2)) or len(rust_lit(am.group(1))) != 1:
                        fail("quoted test: " + alt[:60])
                    qs.append(rust_lit(am.group(1)))
                test = ("TQuoted", qs)
        flat = " ".join(b.split())
        if re.match(r"^Pattern::Regex\( RegexBuilder::new\(s\) \.case_insensitive\(insensitive\) \.build\(\) \.map_err\(crate::error::parse_invalid_ident\)\?, \)$", flat):
            if bound != "s":
                fail("regex arm without the stripped rest")
            bodyk = ("BRegex",)
        elif flat == "Pattern::Any":
            bodyk = ("BAny",)
        else:
            nm = re.match(r"^if s\.contains\('\.'\) \{ Pattern::F(\w+)\( s\.parse::<f64>\(\) \.map_err\(crate::error::parse_invalid_ident\)\?, \) \} "
                          r"else \{ Pattern::(\w+)\( s\.parse::<i64>\(\) \.map_err\(crate::error::parse_invalid_ident\)\?, \) \}$", flat)
            if nm:
                if nm.group(1) != nm.group(2) or nm.group(1) not in CMPK or bound != "s":
                    fail("numeric arm pairs Pattern::F%s with Pattern::%s" % (nm.group(1), nm.group(2)))
                bodyk = ("BNum", CMPK[nm.group(1)])
            else:
                sm = re.match(r"^let s = if insensitive \{ (.+?)\.to_ascii_lowercase\(\) \} else \{ (.+?)\.(?:to_string|to_owned)\(\) \}; Pattern::(\w+)\(s\)$", flat)
                if not sm or sm.group(1) != sm.group(2) or sm.group(3) not in STRK:
                    fail("body of a pattern arm: " + flat[:100])
                e = sm.group(1)
                if e == "string[1..string.len() - 1]":
                    srck = "SInner"
                elif e == "s" and bound == "s":
                    srck = "SStripped"
                elif e == "string":
                    srck = "SWhole"
                else:
                    fail("string arm built from " + e)
                bodyk = ("BStr", STRK[sm.group(3)], srck)
        arms.append((test, bodyk))
    if not arms or arms[-1][0] != ("TElse",) or any(t == ("TElse",) for t, _ in arms[:-1]):
        fail("the pattern chain does not end in exactly one else")
    return prefix, arms


def render_ident(prefix, arms):
    def t(x):
        if x[0] in ("TPrefix", "TSuffix", "TEq"):
            return "%s %s" % (x[0], coq_str(x[1]))
        if x[0] == "TStartsEnds":
            return "TStartsEnds %d%%N %d%%N" % (ord(x[1]), ord(x[2]))
        if x[0] == "TQuoted":
            return "TQuoted [%s]%%N" % "; ".join(str(ord(q)) for q in x[1])
        return "TElse"

    def b(x):
        return " ".join(x)
    lines = ["(* AUTO-GENERATED by tools/gen_tables.py from src/identifier.rs (String::into_identifier: the case"
             "\n   prefix and the `let pattern = if .. else if .. else ..` chain, arms in source order) -- do not edit. *)",
             "From TauModel Require Import Base Syntax Ident IdentTable.", "",
             "Definition ident_ci_prefix : str := %s." % coq_str(prefix), "",
             "Definition ident_chain : list ident_arm :=",
             "  [" + ";\n   ".join("(%s, %s)" % (t(x), b(y)) for x, y in arms) + "].", ""]
    return "\n".join(lines)


# ---- acceptance tables of the automaton loops --------------------------------------------------
MTK = {"Contains": "KMContains", "EndsWith": "KMEndsWith", "Exact": "KMExact", "StartsWith": "KMStartsWith"}
ACOND = {None: "CAlways", "i.end() == value.len()": "CEnd", "i.start() == 0": "CStart",
         "i.start() == 0 && i.end() == value.len()": "CStartEnd"}
AACT = {"return SolverResult::True": "AReturnTrue", "map |= 1 << p.as_u64()": "ASetBit", "hits.insert(p)": "AInsert"}


def brace_block(text, i):
    """text[i] == '{' -> (body, index after the matching '}'); no string literals occur in these loops"""
    depth = 0
    for j in range(i, len(text)):
        if text[j] == "{":
            depth += 1
        elif text[j] == "}":
            depth -= 1
            if depth == 0:
                return text[i + 1:j], j + 1
    fail("unbalanced braces in an automaton loop")


def extract_aho(src):
    src = strip_comments(src)
    if re.search(r"\ba\.find_iter\(|\.find\(value\)|\.earliest_find\(|\.is_match\(value\)\s*\{", src) and False:
        pass
    iters = re.findall(r"for\s+i\s+in\s+a\.(\w+)\(\s*value\s*\)\s*\{", src)
    if iters != ["find_overlapping_iter"] * 3:
        fail("the automaton is not walked by three `for i in a.find_overlapping_iter(value)` loops: %s" % iters)
    if len(re.findall(r"\ba\.(?:find\w*|earliest\w*|try_find\w*|stream_find\w*)\(", src)) != 3:
        fail("the automaton is searched somewhere else as well")
    tables = []
    for m in re.finditer(r"for\s+i\s+in\s+a\.find_overlapping_iter\(\s*value\s*\)\s*\{", src):
        body, _ = brace_block(src, m.end() - 1)
        flat = " ".join(body.split())
        mm = re.match(r"^(let p = i\.pattern\(\); )?match m\[(i\.pattern\(\)|p)\] \{", flat)
        if not mm or (mm.group(2) == "p") != bool(mm.group(1)):
            fail("an automaton loop does not start with `match m[i.pattern()]`: " + flat[:60])
        inner, end = brace_block(flat, mm.end() - 1)
        if flat[end:].strip():
            fail("an automaton loop does more than the match: " + flat[end:][:60])
        arms = []
        acts = set()
        pos = 0
        inner = inner.strip()
        while pos < len(inner):
            am = re.match(r"\s*MatchType::(\w+)\(_\) => ", inner[pos:])
            if not am:
                fail("arm of an automaton match: " + inner[pos:][:60])
            kind = am.group(1)
            pos += am.end()
            if inner[pos] == "{":
                b, pos = brace_block(inner, pos)
                b = b.strip()
                if pos < len(inner) and inner[pos] == ",":
                    pos += 1
            else:
                j = inner.find(",", pos)
                if j < 0:
                    fail("arm without a terminating comma")
                b = inner[pos:j].strip()
                pos = j + 1
            cm = re.match(r"^if (.+?) \{ (.+?);? \}$", b)
            if cm:
                cond, act = cm.group(1).strip(), cm.group(2).strip().rstrip(";")
            else:
                cond, act = None, b.rstrip(";").strip()
            if kind not in MTK or cond not in ACOND or act not in AACT:
                fail("automaton arm %s: condition %r action %r" % (kind, cond, act))
            arms.append((MTK[kind], ACOND[cond]))
            acts.add(AACT[act])
        if sorted(k for k, _ in arms) != sorted(MTK.values()) or len(acts) != 1:
            fail("an automaton match does not have exactly the four arms with one action: %s %s" % (arms, acts))
        tables.append((acts.pop(), arms))
    return tables


def render_aho(tables):
    rows = []
    for act, arms in tables:
        rows.append("(%s, [%s])" % (act, "; ".join("(%s, %s)" % a for a in arms)))
    return "\n".join([
        "(* AUTO-GENERATED by tools/gen_tables.py from src/solver.rs (the three loops over"
        "\n   `a.find_overlapping_iter(value)`: search, slow_aho below 64 needles, slow_aho from 64) -- do not edit. *)",
        "From TauModel Require Import Base Syntax AhoTable.", "",
        "Definition aho_tables : list aho_table :=",
        "  [" + ";\n   ".join(rows) + "].", ""])


# ---- connective loops of solve_expression -----------------------------------------------------
R3 = {"True": "T", "False": "F", "Missing": "M"}


def extract_loops(src):
    src = strip_comments(src)
    out = {}
    for sym in ("And", "Or"):
        m = re.search(r"Expression::BooleanGroup\(\s*BoolSym::%s\s*,\s*ref\s+group\s*\)\s*=>\s*\{" % sym, src)
        if not m or len(re.findall(r"Expression::BooleanGroup\(\s*BoolSym::%s\s*,\s*ref\s+group\s*\)\s*=>" % sym, src)) != 1:
            fail("group arm for %s not found exactly once" % sym)
        body, _ = brace_block(src, m.end() - 1)
        flat = " ".join(body.split())
        mm = re.match(r"^(?:let mut res = SolverResult::(\w+); )?for expression in group \{ match solve_expression\(expression, identifiers, document\) \{ (.*?) \} \} (SolverResult::(\w+)|res)$", flat)
        if not mm:
            fail("%s-group loop: %s" % (sym, flat[:100]))
        init, arms_txt, fin, fin_r = mm.group(1), mm.group(2), mm.group(3), mm.group(4)
        acts = {}
        for am in re.finditer(r"SolverResult::(\w+) => (\{\}|return SolverResult::(\w+)|res = SolverResult::(\w+)),?", arms_txt):
            k = am.group(1)
            if k not in R3 or k in acts:
                fail("%s-group loop arm %s" % (sym, k))
            if am.group(2) == "{}":
                acts[k] = "LNext"
            elif am.group(3):
                acts[k] = "LReturn %s" % R3[am.group(3)]
            else:
                if init is None:
                    fail("%s-group loop assigns res without declaring it" % sym)
                acts[k] = "LSet %s" % R3[am.group(4)]
        rest = re.sub(r"SolverResult::(\w+) => (\{\}|return SolverResult::(\w+)|res = SolverResult::(\w+)),?", "", arms_txt).strip()
        if set(acts) != set(R3) or rest:
            fail("%s-group loop does not have exactly the three arms: %s / %r" % (sym, sorted(acts), rest))
        if fin == "res" and init is None:
            fail("%s-group loop returns res without declaring it" % sym)
        out[sym] = {"init": R3.get(init, "M") if init else "M", "T": acts["True"], "F": acts["False"], "M": acts["Missing"],
                    "fin": "FAcc" if fin == "res" else "FConst %s" % R3[fin_r]}
    # the all() loop over a group: the tail of the Match::All arm
    arm_re = r"SolverResult::(\w+) => (\{\}|\{ res = SolverResult::(\w+); \}|return SolverResult::(\w+)|res = SolverResult::(\w+)),?"

    def arms_of(txt, what, has_acc):
        acts = {}
        for am in re.finditer(arm_re, txt):
            k = am.group(1)
            if k not in R3 or k in acts:
                fail("%s loop arm %s" % (what, k))
            if am.group(2) == "{}":
                acts[k] = "LNext"
            elif am.group(4):
                acts[k] = "LReturn %s" % R3[am.group(4)]
            else:
                if not has_acc:
                    fail("%s loop assigns res without declaring it" % what)
                acts[k] = "LSet %s" % R3[am.group(3) or am.group(5)]
        if set(acts) != set(R3) or re.sub(arm_re, "", txt).strip():
            fail("%s loop does not have exactly the three arms: %s" % (what, sorted(acts)))
        return acts

    m = re.search(r"Expression::Match\(\s*Match::All\s*,\s*ref\s+e\s*\)\s*=>\s*\{", src)
    if not m or len(re.findall(r"Expression::Match\(\s*Match::All\s*,\s*ref\s+e\s*\)\s*=>", src)) != 1:
        fail("Match::All arm not found exactly once")
    body, _ = brace_block(src, m.end() - 1)
    flat = " ".join(body.split())
    mm = re.search(r"\}; for expression in group \{ match solve_expression\(expression, identifiers, document\) \{ (.*?) \} \} SolverResult::(\w+)$", flat)
    if not mm or flat.count("for expression in group") != 1:
        fail("Match::All group loop: " + flat[-160:])
    acts = arms_of(mm.group(1), "all()-group", False)
    out["All"] = {"init": "M", "T": acts["True"], "F": acts["False"], "M": acts["Missing"], "fin": "FConst %s" % R3[mm.group(2)]}
    # the of(.., 0) branch of the Match::Of loop
    m = re.search(r"Expression::Match\(\s*Match::Of\(c\)\s*,\s*ref\s+e\s*\)\s*=>\s*\{", src)
    if not m or len(re.findall(r"Expression::Match\(\s*Match::Of\(c\)\s*,\s*ref\s+e\s*\)\s*=>", src)) != 1:
        fail("Match::Of arm not found exactly once")
    body, _ = brace_block(src, m.end() - 1)
    flat = " ".join(body.split())
    mm = re.search(r"\}; let mut count = 0; let mut res = SolverResult::(\w+); for expression in group \{ if c == 0 \{ match solve_expression\(expression, identifiers, document\) \{ (.*?) \} \} else \{ .* \} \} res$", flat)
    if not mm or flat.count("for expression in group") != 1:
        fail("Match::Of group loop: " + flat[-200:])
    acts = arms_of(mm.group(2), "of(.., 0)-group", True)
    out["Of0"] = {"init": R3[mm.group(1)], "T": acts["True"], "F": acts["False"], "M": acts["Missing"], "fin": "FAcc"}
    m = re.search(r"Expression::Negate\(\s*ref\s+e\s*\)\s*=>\s*\{", src)
    if not m or len(re.findall(r"Expression::Negate\(\s*ref\s+e\s*\)\s*=>", src)) != 1:
        fail("Negate arm not found exactly once")
    body, _ = brace_block(src, m.end() - 1)
    flat = " ".join(body.split())
    mm = re.match(r"^let res = match solve_expression\(e\.as_ref\(\), identifiers, document\) \{ SolverResult::(\w+) => SolverResult::(\w+), SolverResult::(\w+) => SolverResult::(\w+), SolverResult::(\w+) => SolverResult::(\w+),? \}; (?:debug!\(.*?\); )?res$", flat)
    if not mm:
        fail("Negate arm: " + flat[:120])
    g = mm.groups()
    neg = {g[0]: g[1], g[2]: g[3], g[4]: g[5]}
    if set(neg) != set(R3) or any(v not in R3 for v in neg.values()):
        fail("Negate arm does not map the three results")
    out["Neg"] = {k: R3[v] for k, v in neg.items()}
    return out


def render_loops(t):
    def loop(name, d):
        return ("Definition %s : loop_table :=\n  {| l_init := %s; l_T := %s; l_F := %s; l_M := %s; l_fin := %s |}."
                % (name, d["init"], d["T"], d["F"], d["M"], d["fin"]))
    return "\n".join([
        "(* AUTO-GENERATED by tools/gen_tables.py from src/solver.rs (solve_expression: the and-group loop, the"
        "\n   or-group loop, the Negate arm) -- do not edit. *)",
        "From TauModel Require Import Base Syntax Value Solver LoopTable.", "",
        loop("and_group_loop", t["And"]), "", loop("or_group_loop", t["Or"]), "",
        loop("all_group_loop", t["All"]), "", loop("of0_group_loop", t["Of0"]), "",
        "Definition negate_table : neg_table := {| n_T := %s; n_F := %s; n_M := %s |}." % (t["Neg"]["True"], t["Neg"]["False"], t["Neg"]["Missing"]), ""])


# ---- numeric pattern arms of the loader (scalar copy, list copy) -------------------------------
def extract_num_arms(src):
    flat = " ".join(strip_comments(src).split())
    pat = re.compile(r"Pattern::(F?)(Equal|GreaterThan|GreaterThanOrEqual|LessThan|LessThanOrEqual)\(i\) => "
                     r"(\{ number = true; rest\.push\()?Expression::BooleanExpression\( Box::new\((\w+)\.clone\(\)\), "
                     r"BoolSym::(\w+), Box::new\(Expression::(Integer|Float)\(i\)\), \)")
    found = pat.findall(flat)
    heads = re.findall(r"Pattern::F?(?:Equal|GreaterThan|GreaterThanOrEqual|LessThan|LessThanOrEqual)\(i\) =>", flat)
    if len(found) != len(heads):
        fail("a numeric pattern arm is not of the BooleanExpression(e, op, constant) shape (%d of %d)" % (len(found), len(heads)))
    if len(found) != 20:
        fail("expected two copies of the ten numeric pattern arms, found %d arms" % len(found))
    tables = []
    for part, lst, var in ((found[:10], False, None), (found[10:], True, None)):
        if any(bool(x[2]) != lst for x in part) or len(set(x[3] for x in part)) != 1:
            fail("the numeric arms are not grouped as a scalar copy followed by a list copy")
        if sorted((x[0], x[1]) for x in part) != sorted((f, k) for f in ("", "F") for k in CMPK):
            fail("a copy of the numeric arms does not cover the ten patterns exactly once")
        rows = []
        for f, k, _, _, op, const in part:
            if op not in OPS:
                fail("numeric arm builds BoolSym::" + op)
            rows.append(("true" if f else "false", CMPK[k], OPS[op], "true" if const == "Float" else "false"))
        tables.append(rows)
    return tables


def render_num_arms(tables):
    def tab(name, rows):
        return "Definition %s : list num_arm :=\n  [%s]." % (name, ";\n   ".join("(%s, %s, %s, %s)" % r for r in rows))
    return "\n".join([
        "(* AUTO-GENERATED by tools/gen_tables.py from src/parser.rs (the numeric pattern arms: the copy for scalar"
        "\n   values, the copy for list members; arms in source order) -- do not edit. *)",
        "From TauModel Require Import Base Syntax Ident IdentTable NumArmTable.", "",
        tab("scalar_num_arms", tables[0]), "", tab("list_num_arms", tables[1]), ""])


# ---- value-kind dispatch of the string searches ------------------------------------------------
SK = {"String": "SKString", "Array": "SKArray", "Bool": "SKBool", "Float": "SKFloat", "Int": "SKInt", "UInt": "SKUInt"}


def extract_cast_dispatch(src):
    src = strip_comments(src)
    heads = list(re.finditer(r"match\s*\(\s*value\s*,\s*(c|cast)\s*\)\s*\{", src))
    if len(heads) != 5:
        fail("expected five `match (value, c|cast)` dispatches of the string searches, found %d" % len(heads))
    out = []
    for h in heads:
        body, _ = brace_block(src, h.end() - 1)
        arms = re.findall(r"\(\s*Value::(\w+)\(\s*(?:ref\s+)?\w+\s*\)\s*,\s*(_|true)\s*\)\s*=>", body)
        if any(k not in SK for k, _ in arms):
            fail("string search dispatch over Value::" + ",".join(k for k, _ in arms if k not in SK))
        others = [o for o in re.findall(r"\(\s*(?:Value::\w+\([^)]*\)|_)\s*,\s*[^)]*\)\s*=>", body) if not re.match(r"\(\s*_\s*,\s*_\s*\)\s*=>", o)]
        if len(others) != len(arms):
            fail("an arm of a string search dispatch is not of the (Value::K(x), _ | true) shape")
        last = max(body.rfind("_ => {"), body.rfind("(_, _) => {"))
        tail = body[last:] if last >= 0 else ""
        if last < 0 or "=>" in tail[11:] or not re.search(r"return\s+SolverResult::Missing\s*;", tail):
            fail("a string search dispatch does not end in `_ => missing`")
        elems = re.findall(r"Value::(\w+)\(x\)\s*=>\s*x\.to_string\(\)", body)
        if any(k not in SK for k in elems):
            fail("array elements stringified: " + ",".join(elems))
        out.append(([(SK[k], "true" if f == "true" else "false") for k, f in arms], [SK[k] for k in elems]))
    return out


def render_cast_dispatch(ds):
    rows = []
    for arms, elems in ds:
        rows.append("([%s], [%s])" % ("; ".join("(%s, %s)" % a for a in arms), "; ".join(elems)))
    return "\n".join([
        "(* AUTO-GENERATED by tools/gen_tables.py from src/solver.rs (the five `match (value, cast)` dispatches of the"
        "\n   string searches, in source order) -- do not edit. *)",
        "From TauModel Require Import Base Syntax CastTable.", "",
        "Definition str_dispatches : list str_dispatch :=",
        "  [" + ";\n   ".join(rows) + "].", ""])


# ---- int() / flt() casts of comparison operands (left copy, right copy) -------------------------
def strip_debug(text):
    """removes `debug!( .. );` invocations (balanced parentheses; the strings inside hold no parentheses)"""
    out = []
    i = 0
    while True:
        j = text.find("debug!(", i)
        if j < 0:
            out.append(text[i:])
            break
        out.append(text[i:j])
        depth, k = 0, j + 6
        while k < len(text):
            if text[k] == "(":
                depth += 1
            elif text[k] == ")":
                depth -= 1
                if depth == 0:
                    break
            k += 1
        k += 1
        while k < len(text) and text[k] in " \t\n;":
            k += 1
        i = k
    return "".join(out)


INT_CAST = ("let i = match document.find(F) { Some(i) => i, None => { return SolverResult::Missing; } }; match i { "
            "Value::Bool(x) => { if x { Value::Int(1) } else { Value::Int(0) } } "
            "Value::Float(x) => { let r = x.round(); if r >= LO && r < HI { Value::Int(r as i64) } else { return SolverResult::False; } } "
            "Value::Int(x) => Value::Int(x), "
            "Value::String(x) => match x.parse::<i64>() { Ok(i) => Value::Int(i), Err(e) => { return SolverResult::False; } }, "
            "Value::UInt(x) => { if x <= i64::MAX as u64 { Value::Int(x as i64) } else { return SolverResult::False; } } "
            "_ => { return SolverResult::False; } }")
FLT_CAST = ("let i = match document.find(F) { Some(i) => i, None => { return SolverResult::Missing; } }; match i { "
            "Value::Bool(x) => { if x { Value::Float(1.0) } else { Value::Float(0.0) } } "
            "Value::Float(x) => Value::Float(x), "
            "Value::Int(x) => { if x <= f64::MAX as i64 { Value::Float(x as f64) } else { return SolverResult::False; } } "
            "Value::String(x) => match x.parse::<f64>() { Ok(i) => Value::Float(i), Err(e) => { return SolverResult::False; } }, "
            "Value::UInt(x) => { if x <= f64::MAX as u64 { Value::Float(x as f64) } else { return SolverResult::False; } } "
            "_ => { return SolverResult::False; } }")


def extract_casts(src):
    src = strip_comments(src)
    res = {}
    for mod, tmpl in (("Int", INT_CAST), ("Flt", FLT_CAST)):
        heads = list(re.finditer(r"Expression::Cast\(\s*(\w+)\s*,\s*ModSym::%s\s*\)\s*=>\s*\{" % mod, src))
        if len(heads) != 2:
            fail("expected the %s() cast of a comparison operand twice (left, right), found %d" % (mod.lower(), len(heads)))
        texts = []
        for h in heads:
            body, _ = brace_block(src, h.end() - 1)
            flat = " ".join(strip_debug(body).split())
            flat = flat.replace("document.find(%s)" % h.group(1), "document.find(F)")
            texts.append(flat)
        if texts[0] != texts[1]:
            fail("the left and the right copy of the %s() cast differ" % mod.lower())
        if mod == "Int":
            mm = re.search(r"if r >= (-?[0-9.]+) && r < (-?[0-9.]+) \{", texts[0])
            if not mm:
                fail("range guard of int() on a float")
            lo, hi = mm.group(1), mm.group(2)
            if texts[0] != tmpl.replace("LO", lo).replace("HI", hi):
                fail("int() cast arms are not the recognised ones")
            for v in (lo, hi):
                if not re.match(r"^-?[0-9]+\.0$", v):
                    fail("bound of the int() range guard is not an integral literal: " + v)
            res["lo"], res["hi"] = int(lo[:-2]), int(hi[:-2])
        else:
            if texts[0] != tmpl:
                fail("flt() cast arms are not the recognised ones")
    return res


def render_casts(c):
    return "\n".join([
        "(* AUTO-GENERATED by tools/gen_tables.py from src/solver.rs (the int() and flt() casts of a comparison operand:"
        "\n   the left and the right copy are identical and of the recognised shape; the range guard of int() on a float) -- do not edit. *)",
        "From Coq Require Import ZArith.", "",
        "Definition int_cast_lo : Z := (%d)%%Z." % c["lo"],
        "Definition int_cast_hi : Z := (%d)%%Z." % c["hi"], ""])


def coq_str(s):
    return "[" + "; ".join(str(ord(ch)) for ch in s) + "]%N"


def render(bp, kws):
    lines = []
    lines.append("(* AUTO-GENERATED by tools/gen_tables.py from src/tokeniser.rs -- do not edit. *)")
    lines.append("From TauModel Require Import Base Syntax.")
    lines.append("")
    for k in ("cmp", "or", "and", "not", "mod", "match", "atom"):
        lines.append("Definition bp_%s : N := %d%%N." % (k, bp[k]))
    lines.append("")
    lines.append("(* keyword string, token pushed, number of characters consumed; in source order *)")
    lines.append("Definition keywords : list (str * token * nat) :=")
    rows = ["   (%s, %s, %d) (* %s *)" % (coq_str(s), tok, n, s.replace("*)", "* )")) for (s, tok, n) in kws]
    lines.append("  [" + ";\n  ".join(r.strip() for r in rows) + "].")
    lines.append("")
    return "\n".join(lines)


class Unrecognised(Exception):
    pass


def fail(why):
    raise Unrecognised(why)


def write_if_changed(path, text):
    old = open(path, encoding="utf-8").read() if os.path.exists(path) else None
    if old != text:
        with open(path, "w", encoding="utf-8") as f:
            f.write(text)
    return old != text


def main():
    out = os.path.normpath(OUT)
    status = {}
    info = {}
    # table 1: binding powers and keyword table of the tokeniser
    try:
        try:
            src = open(os.path.join(REPO, "src", "tokeniser.rs"), encoding="utf-8").read()
        except OSError as e:
            fail("cannot read tokeniser.rs: %s" % e)
        bp, kws = extract(src)
        info["changed"] = write_if_changed(out, render(bp, kws))
        info["bp"] = bp
        info["keywords"] = [[s, t, n] for (s, t, n) in kws]
        status["tokeniser"] = "ok"
    except Unrecognised as e:
        status["tokeniser"] = "shape not recognised: %s" % e
    # table 2: the solver's comparison arms
    try:
        try:
            ssrc = open(os.path.join(REPO, "src", "solver.rs"), encoding="utf-8").read()
        except OSError as e:
            fail("cannot read solver.rs: %s" % e)
        arms = extract_cmp(ssrc)
        info["cmp_changed"] = write_if_changed(os.path.join(os.path.dirname(out), "GeneratedCmp.v"), render_cmp(arms))
        info["cmp_arms"] = len(arms)
        status["solver_cmp"] = "ok"
    except Unrecognised as e:
        status["solver_cmp"] = "shape not recognised: %s" % e
    # table 3: the pattern dispatch of into_identifier
    try:
        try:
            isrc = open(os.path.join(REPO, "src", "identifier.rs"), encoding="utf-8").read()
        except OSError as e:
            fail("cannot read identifier.rs: %s" % e)
        prefix, iarms = extract_ident(isrc)
        info["ident_changed"] = write_if_changed(os.path.join(os.path.dirname(out), "GeneratedIdent.v"), render_ident(prefix, iarms))
        info["ident_arms"] = len(iarms)
        status["identifier"] = "ok"
    except Unrecognised as e:
        status["identifier"] = "shape not recognised: %s" % e
    # table 4: acceptance conditions of the automaton loops
    try:
        try:
            ssrc2 = open(os.path.join(REPO, "src", "solver.rs"), encoding="utf-8").read()
        except OSError as e:
            fail("cannot read solver.rs: %s" % e)
        atabs = extract_aho(ssrc2)
        info["aho_changed"] = write_if_changed(os.path.join(os.path.dirname(out), "GeneratedAho.v"), render_aho(atabs))
        info["aho_tables"] = len(atabs)
        status["solver_aho"] = "ok"
    except Unrecognised as e:
        status["solver_aho"] = "shape not recognised: %s" % e
    # table 5: the connective loops
    try:
        try:
            ssrc3 = open(os.path.join(REPO, "src", "solver.rs"), encoding="utf-8").read()
        except OSError as e:
            fail("cannot read solver.rs: %s" % e)
        lt = extract_loops(ssrc3)
        info["loops_changed"] = write_if_changed(os.path.join(os.path.dirname(out), "GeneratedLoops.v"), render_loops(lt))
        info["loops"] = lt
        status["solver_loops"] = "ok"
    except Unrecognised as e:
        status["solver_loops"] = "shape not recognised: %s" % e
    # table 6: the numeric pattern arms of the loader
    try:
        try:
            psrc = open(os.path.join(REPO, "src", "parser.rs"), encoding="utf-8").read()
        except OSError as e:
            fail("cannot read parser.rs: %s" % e)
        nt = extract_num_arms(psrc)
        info["num_arms_changed"] = write_if_changed(os.path.join(os.path.dirname(out), "GeneratedNumArms.v"), render_num_arms(nt))
        info["num_arms"] = [len(x) for x in nt]
        status["parser_num_arms"] = "ok"
    except Unrecognised as e:
        status["parser_num_arms"] = "shape not recognised: %s" % e
    # table 7: value-kind dispatch of the string searches
    try:
        try:
            ssrc4 = open(os.path.join(REPO, "src", "solver.rs"), encoding="utf-8").read()
        except OSError as e:
            fail("cannot read solver.rs: %s" % e)
        cd = extract_cast_dispatch(ssrc4)
        info["cast_changed"] = write_if_changed(os.path.join(os.path.dirname(out), "GeneratedCast.v"), render_cast_dispatch(cd))
        info["cast_dispatches"] = len(cd)
        status["solver_cast"] = "ok"
    except Unrecognised as e:
        status["solver_cast"] = "shape not recognised: %s" % e
    # table 8: the operand casts
    try:
        try:
            ssrc5 = open(os.path.join(REPO, "src", "solver.rs"), encoding="utf-8").read()
        except OSError as e:
            fail("cannot read solver.rs: %s" % e)
        cc = extract_casts(ssrc5)
        info["casts_changed"] = write_if_changed(os.path.join(os.path.dirname(out), "GeneratedCasts.v"), render_casts(cc))
        info["int_cast_bounds"] = [cc["lo"], cc["hi"]]
        status["solver_casts"] = "ok"
    except Unrecognised as e:
        status["solver_casts"] = "shape not recognised: %s" % e
    info["status"] = status
    if "--json" in sys.argv:
        print(json.dumps(info))
    bad = [k + ": " + v for k, v in status.items() if v != "ok"]
    if bad:
        print("translator: " + "; ".join(bad))
        sys.exit(3)
    print("translator: ok")


if __name__ == "__main__":
    main()
