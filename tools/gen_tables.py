#!/usr/bin/env python3
"""Translator: regenerates coq/Model/Generated.v from /repo/src/tokeniser.rs and
coq/Model/GeneratedCmp.v from /repo/src/solver.rs (the comparison table of solve_expression).

Extracts (1) the binding powers of Token::binding_power and (2) the ordered keyword table
of the match_ahead chain in `impl Tokeniser for String` (keyword string, token pushed,
number of characters consumed by `it.nth(k)`), and (3) the arms of the comparison table.
Prints `translator: ok` and exits 0, or prints `translator: <table>: shape not recognised: <why>`
and exits 3 without touching the file of the table it could not read (the other is still written).
"""
import re, sys, os, json

REPO = os.environ.get("VERIF_REPO", "/repo")
OUT = os.path.join(os.path.dirname(os.path.abspath(__file__)), "..", "coq", "Model", "Generated.v")


def strip_comments(src):
    src = re.sub(r"/\*.*?\*/", " ", src, flags=re.S)
    out = []
    for line in src.split("\n"):
        # remove // comments that are not inside a string literal (good enough for this file)
        m = re.search(r'//', line)
        if m and line[:m.start()].count('"') % 2 == 0:
            line = line[:m.start()]
        out.append(line)
    return "\n".join(out)


TOKENS = {
    "Token::Modifier(ModSym::Flt)": "TMod MFlt",
    "Token::Modifier(ModSym::Int)": "TMod MInt",
    "Token::Modifier(ModSym::Str)": "TMod MStr",
    "Token::Modifier(ModSym::Not)": "TMod MNot",
    "Token::Operator(BoolSym::And)": "TOp BAnd",
    "Token::Operator(BoolSym::Or)": "TOp BOr",
    "Token::Miscellaneous(MiscSym::Not)": "TMiscNot",
    "Token::Match(MatchSym::All)": "TMatch MSAll",
    "Token::Match(MatchSym::Of)": "TMatch MSOf",
}


def extract(src):
    src = strip_comments(src)
    # ---- binding powers -------------------------------------------------------------
    m = re.search(r"fn\s+binding_power\s*\(&self\)\s*->\s*u8\s*\{(.*?)\n    \}", src, re.S)
    if not m:
        fail("binding_power not found")
    body = m.group(1)

    def arm(pattern, what):
        mm = re.search(pattern, body, re.S)
        if not mm:
            fail("binding power arm for " + what)
        return int(mm.group(1))

    bp = {}
    cmp_arm = re.search(r"BoolSym::Equal((?:\s*\|\s*BoolSym::\w+)*)\s*=>\s*(\d+)", body, re.S)
    if not cmp_arm:
        fail("comparison arm")
    names = set(re.findall(r"BoolSym::(\w+)", "BoolSym::Equal" + cmp_arm.group(1)))
    if names != {"Equal", "GreaterThan", "GreaterThanOrEqual", "LessThan", "LessThanOrEqual"}:
        fail("comparison arm does not list exactly the five comparison operators: %s" % sorted(names))
    bp["cmp"] = int(cmp_arm.group(2))
    bp["or"] = arm(r"BoolSym::Or\s*=>\s*(\d+)", "or")
    bp["and"] = arm(r"BoolSym::And\s*=>\s*(\d+)", "and")
    bp["not"] = arm(r"MiscSym::Not\s*=>\s*(\d+)", "not")
    mod_arm = re.search(r"ModSym::\w+(?:\s*\|\s*ModSym::\w+)*\s*=>\s*(\d+)", body, re.S)
    if not mod_arm:
        fail("modifier arm")
    bp["mod"] = int(mod_arm.group(1))
    match_arm = re.search(r"MatchSym::\w+(?:\s*\|\s*MatchSym::\w+)*\s*=>\s*(\d+)", body, re.S)
    if not match_arm:
        fail("match arm")
    bp["match"] = int(match_arm.group(1))
    zero_arm = re.search(r"Token::Delimiter\(_\)\s*\|\s*Token::Float\(_\)\s*\|\s*Token::Identifier\(_\)\s*\|\s*Token::Integer\(_\)\s*=>\s*(\d+)", body, re.S)
    if not zero_arm:
        fail("atom arm")
    bp["atom"] = int(zero_arm.group(1))

    # ---- keyword table --------------------------------------------------------------
    m = re.search(r"impl\s+Tokeniser\s+for\s+String\s*\{(.*?)\n\}\n", src, re.S)
    if not m:
        fail("impl Tokeniser for String not found")
    tk = m.group(1)
    chain = re.findall(
        r'match_ahead\(\s*&mut\s+it\s*,\s*"((?:[^"\\]|\\.)*)"\s*\)\s*\{\s*tokens\.push\(\s*([A-Za-z:()]+)\s*\)\s*;\s*it\.nth\(\s*(\d+)\s*\)\s*;',
        tk, re.S)
    if len(chain) < 1:
        fail("no match_ahead arms")
    if len(chain) != len(re.findall(r"match_ahead\(", tk)):
        fail("some match_ahead arm does not have the push/nth shape")
    kws = []
    for (s, tok, k) in chain:
        if "\\" in s:
            fail("escape in keyword literal")
        if tok not in TOKENS:
            fail("unknown token constructor " + tok)
        kws.append((s, TOKENS[tok], int(k) + 1))
    # the character classes of the dispatch
    if not re.search(r"'a'\.\.='z'\s*\|\s*'A'\.\.='Z'\s*\|\s*'#'\s*=>", tk):
        fail("identifier start class")
    return bp, kws


# ---- comparison table of the solver ---------------------------------------------------------
KINDS = {"Bool": "KBool", "Float": "KFloat", "Int": "KInt", "UInt": "KUInt"}
OPS = {"Equal": "BEqual", "GreaterThan": "BGreaterThan", "GreaterThanOrEqual": "BGreaterThanOrEqual",
       "LessThan": "BLessThan", "LessThanOrEqual": "BLessThanOrEqual"}
RELS = {"==": "Equal", ">": "GreaterThan", ">=": "GreaterThanOrEqual", "<": "LessThan", "<=": "LessThanOrEqual"}


def extract_cmp(src):
    """the arms of `let res = match (x, *op, y) { .. }` in solve_expression, in source order"""
    src = strip_comments(src)
    m = re.search(r"let\s+res\s*=\s*match\s*\(\s*x\s*,\s*\*op\s*,\s*y\s*\)\s*\{(.*?)\n\s*\};", src, re.S)
    if not m:
        fail("comparison table `let res = match (x, *op, y)` not found")
    if len(re.findall(r"match\s*\(\s*x\s*,\s*\*op\s*,\s*y\s*\)", src)) != 1:
        fail("more than one comparison table")
    body = m.group(1)
    # what follows the table: true -> True, anything else -> False
    tail = src[m.end():m.end() + 400]
    if not re.match(r"\s*match\s+res\s*\{\s*true\s*=>\s*SolverResult::True\s*,\s*_\s*=>\s*SolverResult::False\s*,?\s*\}", tail):
        fail("the result of the comparison table is not mapped true -> True, else False")
    side = r"(?:Value::(\w+)\(\s*(\w+)\s*\)|(_))"
    arm_re = re.compile(r"\s*\(\s*" + side + r"\s*,\s*BoolSym::(\w+)\s*,\s*" + side + r"\s*\)\s*(?:if\s+(.*?))?\s*=>\s*(\{.*?\}|[^,{}]+?)\s*,?\s*(?=\(|_\s*=>|$)", re.S)
    pos = 0
    arms = []
    while True:
        rest = body[pos:]
        if re.match(r"\s*_\s*=>\s*unreachable!\(\)\s*,?\s*$", rest, re.S):
            break
        mm = arm_re.match(rest)
        if not mm:
            fail("comparison arm not of the expected shape near: " + " ".join(rest.split())[:80])
        lk, lv, lany, op, rk, rv, rany, guard, rhs = mm.groups()
        pos += mm.end()
        if op not in OPS:
            fail("comparison arm for operator " + op)
        for k in (lk, rk):
            if k is not None and k not in KINDS:
                fail("comparison arm over Value::" + k)
        kl = KINDS[lk] if lk else "KAny"
        kr = KINDS[rk] if rk else "KAny"
        lvar = lv if lk and lv != "_" else None
        rvar = rv if rk and rv != "_" else None
        g = "GNone"
        gvar = None
        if guard is not None:
            gm = re.match(r"^(\w+)\s*<=\s*i64::MAX\s+as\s+u64$", " ".join(guard.split()))
            if not gm:
                fail("guard not of the form `v <= i64::MAX as u64`: " + guard)
            gvar = gm.group(1)
            if gvar == lvar and lk == "UInt":
                g = "GLeft"
            elif gvar == rvar and rk == "UInt":
                g = "GRight"
            else:
                fail("guard on a variable that is not the UInt side: " + guard)
        rhs = " ".join(rhs.strip().strip("{}").split())
        if rhs in ("true", "false"):
            b = "BTrue" if rhs == "true" else "BFalse"
        else:
            bm = re.match(r"^\(?\s*(\w+)(\s+as\s+i64)?\s*\)?\s*(==|>=|<=|>|<)\s*\(?\s*(\w+)(\s+as\s+i64)?\s*\)?$", rhs)
            if not bm:
                fail("body of a comparison arm: " + rhs)
            a, acast, rel, c, ccast = bm.groups()
            if a != lvar or c != rvar or lvar is None or rvar is None:
                fail("a comparison arm does not compare its left variable with its right variable: " + rhs)
            if RELS[rel] != op:
                pass    # recorded as written: the equivalence lemma decides whether it is right
            mixed = {lk, rk} == {"UInt", "Int"}
            if mixed:
                uvar, ucast, icast = (a, acast, ccast) if lk == "UInt" else (c, ccast, acast)
                if not ucast or icast or gvar != uvar:
                    fail("mixed Int/UInt arm without `as i64` on the guarded UInt side: " + rhs)
            else:
                if acast or ccast:
                    fail("cast in a same-kind arm: " + rhs)
                if lk != rk:
                    fail("comparison of different kinds: %s vs %s" % (lk, rk))
                if lk == "Bool" and rel != "==":
                    fail("ordering comparison on Bool")
            b = "BRel " + OPS[RELS[rel]]
        arms.append((kl, OPS[op], kr, g, b))
    if not arms:
        fail("empty comparison table")
    return arms


def render_cmp(arms):
    lines = ["(* AUTO-GENERATED by tools/gen_tables.py from src/solver.rs (the match `let res = match (x, *op, y)`"
             "\n   of solve_expression, arms in source order; the final `_ => unreachable!()` is the empty rest) -- do not edit. *)",
             "From TauModel Require Import Base Syntax CmpTable.", "",
             "Definition cmp_arms : list cmp_arm :=",
             "  [" + ";\n   ".join("(%s, %s, %s, %s, %s)" % a for a in arms) + "].", ""]
    return "\n".join(lines)


def coq_str(s):
    return "[" + "; ".join(str(ord(ch)) for ch in s) + "]%N"


def render(bp, kws):
    lines = []
    lines.append("(* AUTO-GENERATED by tools/gen_tables.py from src/tokeniser.rs -- do not edit. *)")
    lines.append("From TauModel Require Import Base Syntax.")
    lines.append("")
    for k in ("cmp", "or", "and", "not", "mod", "match", "atom"):
        lines.append("Definition bp_%s : N := %d%%N." % (k, bp[k]))
    lines.append("")
    lines.append("(* keyword string, token pushed, number of characters consumed; in source order *)")
    lines.append("Definition keywords : list (str * token * nat) :=")
    rows = ["   (%s, %s, %d) (* %s *)" % (coq_str(s), tok, n, s.replace("*)", "* )")) for (s, tok, n) in kws]
    lines.append("  [" + ";\n  ".join(r.strip() for r in rows) + "].")
    lines.append("")
    return "\n".join(lines)


class Unrecognised(Exception):
    pass


def fail(why):
    raise Unrecognised(why)


def write_if_changed(path, text):
    old = open(path, encoding="utf-8").read() if os.path.exists(path) else None
    if old != text:
        with open(path, "w", encoding="utf-8") as f:
            f.write(text)
    return old != text


def main():
    out = os.path.normpath(OUT)
    status = {}
    info = {}
    # table 1: binding powers and keyword table of the tokeniser
    try:
        try:
            src = open(os.path.join(REPO, "src", "tokeniser.rs"), encoding="utf-8").read()
        except OSError as e:
            fail("cannot read tokeniser.rs: %s" % e)
        bp, kws = extract(src)
        info["changed"] = write_if_changed(out, render(bp, kws))
        info["bp"] = bp
        info["keywords"] = [[s, t, n] for (s, t, n) in kws]
        status["tokeniser"] = "ok"
    except Unrecognised as e:
        status["tokeniser"] = "shape not recognised: %s" % e
    # table 2: the solver's comparison arms
    try:
        try:
            ssrc = open(os.path.join(REPO, "src", "solver.rs"), encoding="utf-8").read()
        except OSError as e:
            fail("cannot read solver.rs: %s" % e)
        arms = extract_cmp(ssrc)
        info["cmp_changed"] = write_if_changed(os.path.join(os.path.dirname(out), "GeneratedCmp.v"), render_cmp(arms))
        info["cmp_arms"] = len(arms)
        status["solver_cmp"] = "ok"
    except Unrecognised as e:
        status["solver_cmp"] = "shape not recognised: %s" % e
    info["status"] = status
    if "--json" in sys.argv:
        print(json.dumps(info))
    bad = [k + ": " + v for k, v in status.items() if v != "ok"]
    if bad:
        print("translator: " + "; ".join(bad))
        sys.exit(3)
    print("translator: ok")


if __name__ == "__main__":
    main()
