#!/usr/bin/env python3
"""Runs the coverage families (check/covfam.py) through crate and model and reports, per
family: line disagreements, spec differences and optimisation differences with the classes
that accept them.  A development aid."""
import collections, json, os, sys
sys.path.insert(0, os.path.join(os.path.dirname(os.path.abspath(__file__)), "..", "check"))
import lib, covfam
from lib import D, rule_text
from props import common, rulebase

MODE = os.environ.get("MODE", "known")
only = sys.argv[1:]
cases = []
cid = 0
for name, det, docs, extra in covfam.all_cases():
    if only and name not in only:
        continue
    cid += 1
    cases.append({"k": "rule", "id": cid, "rule": rule_text(det, extra=extra), "docs": [D(d) for d in docs], "sw": (list(range(16)) if MODE == "known" else [0]),
                  "_fam": name, "_det": det, "_docs": docs})
send = rulebase.wire(cases)
impl, model, _ = lib.run_cases(send, "covx", runner_args=(["--known", "--spec"] if MODE == "known" else ["--spec"]))
st = collections.Counter()
shown = collections.Counter()
for c in cases:
    f = c["_fam"]
    a = common.strip_extra(impl[c["id"]]); b = common.strip_known(model[c["id"]])
    ag = True if a == b else common.lines_agree(a, b)
    pa = rulebase.parse_rule_line(impl[c["id"]])
    st[(f, "load:" + str(pa["load"]))] += 1
    if ag is not True:
        st[(f, "LINE_DISAGREE" if ag is False else "cut")] += 1
        if shown[(f, "line")] < 3:
            shown[(f, "line")] += 1
            print("LINE", f, json.dumps(c["_det"]), "\n  crate:", a[:600], "\n  model:", b[:600])
        continue
    if pa["load"] != "ok":
        continue
    spec = common.spec_of(model[c["id"]]) or ""
    classes = common.known_of(model[c["id"]])
    base = pa["res"].get(0, "")
    for i, (x, y) in enumerate(zip(base, spec)):
        if y != "?" and x != y:
            key = (f, "SPEC_DIFF classes=%s" % classes.get(0, []))
            st[key] += 1
            if shown[key] < 2:
                shown[key] += 1
                print("SPEC", f, json.dumps(c["_det"]), "doc", json.dumps(c["_docs"][i], default=repr), "crate", x, "spec", y, classes.get(0))
    for sw in range(1, 16):
        opt = pa["res"].get(sw)
        if opt is None:
            continue
        bad = [i for i, (p, q) in enumerate(zip(base, opt)) if (p == "t") != (q == "t") or (q == "p" and p != "p")] if opt != "x" else [-1]
        if bad:
            key = (f, "OPT_DIFF classes=%s" % classes.get(sw, []))
            st[key] += 1
            if shown[key] < 2:
                shown[key] += 1
                print("OPT", f, json.dumps(c["_det"]), "sw", sw, "doc", json.dumps(c["_docs"][bad[0]], default=repr) if bad[0] >= 0 else None, "base", base, "opt", opt, classes.get(sw))
for k in sorted(st):
    print(k, st[k])
