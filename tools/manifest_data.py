TB = ("Trusted: Coq 8.16.1 kernel; the four standard-library axioms that Flocq's float definitions bring "
      "(ClassicalDedekindReals.sig_forall_dec, sig_not_dec, FunctionalExtensionality.functional_extensionality_dep, "
      "Classical_Prop.classic) wherever a statement mentions the solver; extraction with ExtrOcamlBasic only; the "
      "Rust harness, Python generators/diff; oracles for regex, f64 text and Unicode classes; the tie to /repo is "
      "differential (sampled / finite sweeps), not proved. ")

CLAIMED = {
    "C06": {
        "text": "Truth tables of or/and/not/all()/of() proved in Coq for operand lists of every length "
                "(or_group_spec, and_group_spec, of_pos_spec, of_zero_spec, binary_eq_group, forms_agree_*), about the "
                "model's folds that the solver is defined with; the finite space of the property (forms x arity 1..4 x "
                "{t,f,m}^k x thresholds 0..k+1) is swept completely against the crate and against the extracted model.",
        "note": TB + "Operands are steered through documents; key-list forms only reach operand vectors a single field can produce.",
        "technique": "Coq proof by induction over operand lists + exhaustive differential sweep (model vs crate vs Python table)",
    },
    "C10": {
        "text": "Object::find modelled function-by-function; find_exact proves, for every root object and every well-formed "
                "path of any depth, that the lookup equals the reference descent (so never a value from another key, a "
                "shorter path or another index; fix D1), plus nested-block lemmas; complete sweep of paths x small documents "
                "and arbitrary key strings against the crate.",
        "note": TB + "Well-formed = names without . [ ] and indices up to u64::MAX; other key strings are covered by the correspondence sweep only. Thorough tier also runs the `sync` build (the second copy of find).",
        "technique": "Coq proof (round-trip of path rendering/parsing, induction over segments) + exhaustive differential sweep",
    },
}

DEFAULT_REASON = ("not claimed yet in this commit: the Coq model covers it (DESIGN.md section 7) but its property theorems "
                  "and correspondence check are still being built; nothing is inapplicable in principle")
NOT_YET = {}
NOTES = ("All checks share one Coq development (/verif/coq) and one correspondence pipeline; see DESIGN.md. "
         "KNOWN_FINDINGS.txt lists repaired defects (fix: commits in /repo) and known findings.")
