TB = ("Trusted: Coq 8.16.1 kernel; the four standard-library axioms that Flocq's float definitions bring "
      "(ClassicalDedekindReals.sig_forall_dec, sig_not_dec, FunctionalExtensionality.functional_extensionality_dep, "
      "Classical_Prop.classic) wherever a statement mentions the solver; extraction with ExtrOcamlBasic only; the "
      "Rust harness, Python generators/diff; oracles for regex, f64 text and Unicode classes; the tie to /repo is "
      "differential (sampled / finite sweeps), not proved. ")

CLAIMED = {
    "C04": {
        "text": "Every slice, index, expect() and unreachable!() of the modelled loading code is a Panic value and both "
                "recursive layers run on fuel whose exhaustion is a Panic, so totality is a theorem: tokenise_total, "
                "lex_fuel_irrelevant, lex_step_progress (the loop cannot spin), parse_total, into_identifier_total (fix D5), "
                "parse_key_total, parse_identifier_total and load_rule_total hold for ALL strings, token lists and YAML values of "
                "any depth; C04_minus: a token that starts with `-` is the load error InvalidNum and no text yields a negative "
                "integer token (leading_minus_rejected, integer_tokens_nonneg); the malformed stream (all strings over a 19-character alphabet up to length 2-3, random longer "
                "ones, random YAML shapes in every position, nesting 64, raw non-YAML text) is run against the crate under "
                "catch_unwind and against the model.",
        "note": TB + "Not modelled: serde_yaml's text->Value layer and serde's derived field visitor for non-string top-level keys (crate-only no-panic runs cover them); native stack exhaustion is out of scope (depth <= 64).",
        "technique": "Coq proof (fuel sufficiency by induction, nested induction over YAML values) + differential malformed-input stream",
    },
    "C05": {
        "text": "The documented grammar is a relation between token lists and trees (Model/Grammar.v); pratt_complete proves that "
                "the Pratt parser, with the binding powers REGENERATED from src/tokeniser.rs on every run, returns exactly the "
                "grammar's tree for every derivable condition of any size (not binds one operand, cmp > or > and, left "
                "associativity, parentheses), parens_redundant / parens_operand the parenthesis laws, space_doubling / "
                "leading_space the whitespace laws, keyword_prefix_words that words beginning with keyword letters are "
                "identifiers (from the regenerated keyword table), keyword_needs_blank (C05_kwtab) that and / or / not followed by a "
                "tab or line break instead of a blank is an identifier -- a load error, never another tree; tokenise_render / text_to_tree (C05_lex) that the tokeniser "
                "inverts a canonical printer of token lists with any number of extra spaces, so every condition of the grammar "
                "WRITTEN AS TEXT loads as the grammar's tree; all conditions up to 3-4 operators in three renderings and "
                "all 3^k assignments are compared with an independent recursive-descent reference on the crate.",
        "note": TB + "Binding powers and keyword table come from tools/gen_tables.py (translator); if the source no longer has the expected shape the translator says so and only the correspondence decides.",
        "technique": "Coq proof (mutual induction over the grammar, precedence-climbing invariant) re-checked against regenerated tables + exhaustive differential sweep",
    },
    "C06": {
        "text": "The and-group loop, the or-group loop and the Negate arm are REGENERATED from src/solver.rs on every run "
                "(Model/GeneratedLoops.v) and proved equal to the model's folds (C06_table). Truth tables of or/and/not/all()/of() proved in Coq for operand lists of every length "
                "(or_group_spec, and_group_spec, of_pos_spec, of_zero_spec, binary_eq_group, forms_agree_*), about the "
                "model's folds that the solver is defined with; the finite space of the property (forms x arity 1..4 x "
                "{t,f,m}^k x thresholds 0..k+1) is swept completely against the crate and against the extracted model.",
        "note": TB + "Operands are steered through documents; key-list forms only reach operand vectors a single field can produce.",
        "technique": "Coq proof by induction over operand lists, stated over folds that are proved equal to loop tables translated from the source on every run + exhaustive differential sweep (model vs crate vs Python table), also as optimised by default",
    },
    "C09": {
        "text": "The comparison table is REGENERATED from src/solver.rs on every run (tools/gen_tables.py -> Model/GeneratedCmp.v, 35 arms "
                "in source order) and cmp_table_is_compare_values proves that, read with first-match semantics, it is the model's "
                "compare_values; the casts are modelled line by line; cmp_int_complete proves that on the whole "
                "i64 x u64 range every operator computes exactly the mathematical relation (fix D6), int_trichotomy / "
                "ge_le_unions / float_trichotomy the order laws, float_order_is_real_order ties float comparison to the reals "
                "through Flocq, cast_int_in_range / f64_round_Z_nearest / cast_unconvertible_false the casts (fix D7), "
                "parse_i64_show / show_Z_injective the decimal text; the boundary grid of the property is enumerated "
                "completely against the crate and an exact-arithmetic Python reference.",
        "note": TB + "f64 decimal parsing/printing are oracles (Rust std). Float values are carried as bit patterns and interpreted by Flocq's binary64.",
        "technique": "Coq proof (case analysis + lia over 64-bit ranges; Flocq Bcompare_correct) against a comparison table translated from the source on every run + exhaustive boundary grid, differential",
    },
    "C10": {
        "text": "Object::find modelled function-by-function; find_exact proves, for every root object and every well-formed "
                "path of any depth, that the lookup equals the reference descent (so never a value from another key, a "
                "shorter path or another index; fix D1), plus nested-block lemmas; complete sweep of paths x small documents "
                "and arbitrary key strings against the crate; find_step_multi_index: a segment with more than one index fails the lookup (repair D37).",
        "note": TB + "Well-formed = names without . [ ] and indices up to u64::MAX; other key strings are covered by the correspondence sweep only. Thorough tier also runs the `sync` build (the second copy of find).",
        "technique": "Coq proof (round-trip of path rendering/parsing, induction over segments) + exhaustive differential sweep",
    },
}

CLAIMED.update({
    "C13": {
        "text": "validate is modelled as returning the indices of the failing examples; validate_ok_iff proves it succeeds exactly "
                "when every true positive matches and no true negative does, with matches()'s own verdicts, for every rule "
                "(optimised or not); validate_names_failing that it names exactly the failing examples; validate_no_panic / "
                "validate_malformed_example that a non-mapping example is an error entry, never a panic (fix D2). Random rules with "
                "mixed example lists are run on the crate: the harness re-runs matches() on each example and compares with "
                "validate()'s result and message, for the unoptimised and six optimised variants. C13_opt: validate_ext (validate "
                "depends on a rule only through matches() and the example lists) and validate_optimised_in_scope (inside the "
                "executable scope of the end-to-end C01 theorem, all 16 switch sets, validate() of the optimised rule returns "
                "exactly what validate() of the loaded rule returns); C13_scope: the same for the widest proved scope "
                "(Scope3.c01_scope_wide: nested blocks, quantified lists, quantifiers over identifiers; also at the crate's own map order); "
                "C13_outside: for EVERY loadable rule outside the listed classes D13/D16/D17 of C01.",
        "note": TB + "The crate returns one joined message; that it names each failing example is checked by counting the per-example phrases in it.",
        "technique": "Coq proof (induction over the example lists) + differential runs with an in-harness cross-check of validate() against matches()",
    },
    "C16": {
        "text": "agree_on_keys proves, by induction over expressions (matrix forms included), that the three-valued result "
                "depends on the document only through the keys the expression names; reads_only_rule_keys that a document which "
                "PANICS on every other key is indistinguishable from the plain one (so no other key, in particular no synthetic "
                "matrix key, is ever presented to the user's document); unaddressed_fields_irrelevant the corollary for "
                "document pairs. A recording Document on the crate: key sets must be within the rule's keys and equal the "
                "model's; every name passed to Object::get on ANY object of the document tree (nested objects included) must be a "
                "segment of a key written in the rule; paired documents differing only in unaddressed fields must agree.",
        "note": TB + "Keys of the rule are computed by the generator from the YAML independently of crate and model. Runs in which matches() panics are not evaluated here (C03 judges them).",
        "technique": "Coq proof (nested induction over expressions; guard-document argument) + recording-document differential runs",
    },
    "C17": {
        "text": "or_perm / of_perm prove that or and the counting quantifiers are invariant under every permutation of their operand "
                "results (three-valued), and_perm_truth / binary_comm that reordering never changes whether a conjunction is true, "
                "group_or_perm / group_and_perm_truth the same for groups of expressions, positive_context_truth that positions not "
                "under negation or none-of are monotone, so reordering inside them cannot change the rule's verdict. C17_yaml: the "
                "same at the level of the RULE TEXT through the reference semantics the engine refines (Properties/C02_all.v): "
                "max3_perm, of3_perm, first_non_true_perm_truth, sem_list_perm (members of a list), sem_mapping_perm_truth "
                "(entries of a mapping), sem_identifier_seq_perm (entries of a sequence), engine_seq_perm / "
                "engine_mapping_perm_truth (transport to the engine). Random rules "
                "without negation/none-of are compared with shuffled variants (all lists, mappings, sequences, condition operands; "
                "exhaustive permutations of one list up to 4 members) on the crate, as loaded and as optimised with the default "
                "switches; a family of sequences whose entries address one field through different key forms and pattern kinds "
                "is permuted exhaustively (the optimiser's regrouping keys).",
        "note": TB + "The YAML-level theorems hold where the engine refines the reference (the fragment and exclusions of Properties/C02_all.v); outside it YAML-level permutations are covered by the differential runs.",
        "technique": "Coq proof (Permutation induction over closed forms of the folds; context induction) + differential permutation runs",
    },
})

CLAIMED.update({
    "C03": {
        "text": "Every unreachable!(), expect() and index of the modelled loader, optimiser and solver is a Panic value. load_wf proves "
                "that every rule the loader accepts has the evaluable shape (every identifier the condition mentions exists -- by an "
                "invariant of the Pratt parser against the loader's token scan --, every operand of and/or/not is a predicate, fix "
                "D3; identifier blocks are identifier-free), solve_wf_no_panic that such a rule never panics in matches() on ANY "
                "document function, loaded_rule_evaluates the corollary incl. validate(). For optimised rules: "
                "optimise_total_all and optimised_evaluates_all (C03_total) -- for EVERY loadable rule, ALL SIXTEEN switch sets and "
                "every map order that does not invent keys, optimise() returns (every identifier is found, the fuel of the passes "
                "suffices, rewrite falls back, every matrix column gets a key) and matches() / validate() of the optimised rule never "
                "panic; no exclusion is left since the repairs D4, D18/D19 and D21 (known_d18_never proves the D18 class impossible). "
                "On the crate: random accepted rules and the coverage families x 16 switch sets x adversarial documents under "
                "catch_unwind, every corpus witness as a regression case, the 55 400-field rule, optimised trees compared structurally.",
        "note": TB + "Native stack exhaustion is out of scope (depth <= 64).",
        "technique": "Coq proof (parser/loader invariant, shape preservation by every pass incl. the matrix table, fuel sufficiency) + differential adversarial-document runs over 16 switch sets",
    },
    "C15": {
        "text": "ignore_case_eq_prefix proves into_identifier(ic=true, s) = into_identifier(ic=false, 'i'+s) for every string; "
                "parse_identifier_ignore_case lifts it to identifier blocks of every shape and load_rule_ignore_case to whole rules "
                "(the two builds load the same condition and identifier trees, hence agree on every document and under every "
                "optimisation); documented_ignore_case is the same fact for the reference meaning. Two builds of the harness "
                "(default, --features ignore_case) are compared on random rules (as written vs i-prefixed), unoptimised and fully "
                "optimised, and the ignore_case build against the model with ic := true.",
        "note": TB + "After fix D12 the statement holds for non-ASCII patterns too.",
        "technique": "Coq proof (equality of the two loaders' outputs by induction over YAML) + two-build differential runs",
    },
})

CLAIMED.update({
    "C07": {
        "text": "The pattern dispatch chain of String::into_identifier is REGENERATED from src/identifier.rs on every run "
                "(Model/GeneratedIdent.v) and ident_table_is_into_identifier proves it equal to the model's into_identifier; the acceptance "
                "tables of the three automaton loops of src/solver.rs are regenerated too (Model/GeneratedAho.v) and "
                "aho_tables_are_mtype_holds proves them equal to the meaning the model gives the automaton forms. "
                "Model/PatSpec.v states the documented meaning of a pattern text (`documented`) without reference to the loader; "
                "single_pattern_exact proves that for EVERY pattern text and EVERY document string the predicate the loader builds "
                "(plain search, or one-needle case-insensitive automaton, or regex) is true exactly when the documented relation "
                "holds; batched_list_exact that a list of patterns is true exactly when some member is, however the parser "
                "partitions the members into needles / case-insensitive needles / regex sets / rest; ci_is_ascii_folding and "
                "i_prefix_is_case_insensitive the case rules (fix D12); aho_search_spec / slow_aho_spec the meaning of the automaton "
                "forms. All needles over {a,b,A} to length 2-3 in six surface forms x haystacks to length 3-5, mixed lists and long "
                "overlapping / multi-byte strings are run on the crate against an independent Python reference; the lists also "
                "written as separate entries / identifiers and optimised by default (the optimiser's batching into automata and regex sets).",
        "note": TB + "aho-corasick itself is modelled by its meaning (all occurrences of all needles, ASCII case folding); regexes are an oracle on both sides.",
        "technique": "Coq proof (case analysis of the pattern syntax; invariant over the list partition) against a pattern dispatch chain and automaton acceptance tables translated from the source on every run + exhaustive small-alphabet differential sweep",
    },
    "C11": {
        "text": "Model/Repr.v defines when two values have the same logical content (Int n ~ UInt n for 0 <= n <= i64::MAX, "
                "congruence on arrays and objects); compare_values_respects, casts_respect and find_respects show the comparison "
                "table, the casts, the decimal text and path lookup cannot tell them apart, solve_respects_representation lifts this "
                "to the whole solver (matrix forms included) and verdict_respects_representation to matches(); adapters_agree states "
                "what the YAML/JSON and Rust-integer adapters produce. On the crate every document is rendered as serde_yaml "
                "Mapping, serde_json Value, HashMap<String, Json>, HashMap<String, T / Option<T> / Vec<T>> (u64 and i64), a "
                "hand-written Document and the harness tree; verdicts must agree.",
        "note": TB + "PARTIAL: that the Rust generic AsValue/Array/Object impls produce what Model/Repr.v says is sampled by the representation runs, not proved; HashSet arrays are not exercised.",
        "technique": "Coq proof (equivalence relation respected by the solver, size induction) + multi-representation differential runs on the crate",
    },
})

CLAIMED.update({
    "C12": {
        "text": "In the model loading and matching are functions, and the only source of nondeterminism the crate had -- the "
                "iteration order of the optimiser's maps -- is an explicit input `ord` of the optimiser model. The crate was "
                "repaired (fix D22: ordered maps); Model/Order.v defines the order it now uses (rust_ord: Rust's Ord on the keys), "
                "rust_ord_perm proves it a permutation, and the OPTIMISED TREES of crate and model are compared structurally for all "
                "16 switch sets on every generated rule. Proved: switch sets without shake and matrix never consult a map "
                "(optimise_order_irrelevant), an optimised rule is never optimised again (optimise_once), amap_iter_single / "
                "amap_iter_perm, shake1_order_irrelevant_flat and optimise_order_irrelevant_in_scope (inside Scope.c01_scope ANY two "
                "orders give the same verdict), crate_order_scope_sound; the order dependence that existed is kept as refutations on "
                "the model (refuted_D16 in C01, refuted_D17, refuted_D22). On the crate: repeated optimise calls in one process and in "
                "a second process (printed trees and verdicts must be identical -- nothing is suppressed any more), 8-16 threads "
                "sharing one Rule, forward/reverse document order, and a source audit for interior mutability.",
        "note": TB + "PARTIAL by nature: thread interleavings and other processes cannot be exhibited by a Gallina model and are exercised on the crate only; the model's purity (optimise and matches are functions of rule, switches, order and document) is what the theorems state.",
        "technique": "map order as an explicit input of the Coq model (theorems, refutations, the crate's order proved a permutation) + structural comparison of optimised trees + repeated/threaded runs on the crate",
    },
    "C14": {
        "text": "Model/Serial.v states what a Rule serialises to as a YAML value (flag, raw condition, raw identifiers in hash-map "
                "order, examples). detection_roundtrip / rule_roundtrip prove that loading that value yields the same condition tree, "
                "the same identifier trees under the same names (for every write order of the identifier map), the same examples and "
                "the written flag, hence -- by ids_as_map -- the same verdict on every document; this covers rules serialised after "
                "optimisation. On the crate every generated rule (incl. a quoting-sensitive family in value, member, key and example "
                "position) is serialised with serde_yaml::to_string, re-loaded and compared (trees, examples, verdicts), optimised "
                "and not, and the rule from_value builds from the equivalent YAML value is compared (trees and examples) with the one "
                "from_str builds from the text, including literal `<<` keys (known finding D23).",
        "note": TB + "PARTIAL by nature: the YAML text layer (quoting/printing/parsing) is serde_yaml's and is not modelled; that it is the identity on the values rules hold is checked on every generated rule, not proved.",
        "technique": "Coq proof (loader invariance under reordering of the identifier map; solver depends on identifiers only as a map) + serialise/reload differential runs on the crate",
    },
})

CLAIMED.update({
    "C01": {
        "text": "The five passes are modelled function by function with the map iteration order as an input (the crate's order "
                "since fix D22 is Model/Order.v). Proved (three-valued, every document): coalesce_exact_alt, rewrite_exact (under the "
                "one assumption H_strip about the regex library; fix D4), shake0_exact_alt (every fuel, outside D13/D14), "
                "shake1_exact_flat (the merging pass on nested-free trees, every fuel, every permutation order), shake_exact_flat, "
                "exact_implies_verdict; C01_loaded: everything the loader builds meets the shape hypotheses; whole rules: "
                "scope_sound / loaded_rule_no_matrix_flat -- for EVERY loadable rule inside the executable scope Scope.c01_scope "
                "(matrix off; coalesce on or no quantifier over an identifier; the trees handed to shake nested-free and outside "
                "D13/D14) the eight switch sets without matrix return and keep the verdict on every document; the known classes are "
                "refuted on the model (refuted_D13/D14/D16; D17, D22 in C12). The runner evaluates the scope for every generated rule "
                "and the check accepts NO verdict change inside it. C01_matrix: matrix_exact_flat / matrix_truth_flat (the matrix pass on "
                "nested-free trees is exact without multi-cell rows and truth-preserving with them in positive positions, outside "
                "D18/D19) and scope_all_sound: inside Scope.c01_scope_all ALL SIXTEEN switch sets keep the verdict of every loadable "
                "rule on every document; C01_nested: shake_1 WITH nested blocks preserves truth whenever its run is safe (shake1_safe, an "
                "executable predicate that follows the run), scope_nested_sound for whole loaded rules (Scope2.c01_scope_nested, the "
                "eight switch sets without matrix); C01_matrix_nested / C01_matrix_quant: the matrix pass with nested blocks and with "
                "quantifiers whose operands shake_1 shakes safely, scope_quant_all_sound (ALL SIXTEEN switch sets, "
                "Scope2.c01_scope_quant_all; C01_d15: scope_quant_all_sound_noq without any exclusion for quantifiers over identifiers, "
                "after the repair D15/D20; C01_sh0w / C01_nomatch / C01_final: without the obsolete D14 and D20 hypotheses; C01_wide: the "
                "union Scope3.c01_scope_wide, the predicate the runner evaluates). The runner marks 92-100 % of the generated rules as "
                "inside the proved scope for every switch set (the default switches: 1251 of 1340 = 93 %); every generated rule outside it "
                "is in a listed class (counted per reason in the evidence) -- and C01_outside proves it: scope_complete (every loaded rule "
                "outside the classifiers known_d13 / known_d16 / known_d17 is inside the scope) and outside_listed_classes_sound (for EVERY "
                "loadable rule, all 16 switch sets, every document: outside the three listed classes optimise returns and the verdict "
                "is unchanged). Inside the listed classes D13, D16, D17 "
                "the model is tied to the crate by the correspondence: "
                "random rules, forced rules and coverage families x documents x all 16 switch sets, the OPTIMISED TREES compared "
                "structurally, and every crate-side verdict change must be reproduced by the model AND accepted by the executable "
                "classifier of a listed finding (D13, D16, D17; Model/Known.v), else it is a VIOLATION. Repaired in the crate on the way: D4, D14, D15/D20, D18/D19, D21, D22, D29, D33.",
        "note": TB + "PARTIAL by nature: the property is false outside the scopes (D13, D16, D17 are listed findings of the crate); inside them it is proved for every loadable rule. The first versions of several statements were refuted by the proof attempts (counterexamples kept as lemmas).",
        "technique": "Coq proof of the property itself for every loadable rule outside three executable classes (per-pass exactness, whole loaded rules inside an executable scope, completeness of that scope) + refutation witnesses inside the classes; executable optimiser model, structural comparison of optimised trees over 16 switch sets with classifier-gated known findings",
    },
    "C08": {
        "text": "quantified_list_exact proves that all(k) / of(k, n) over a list of string patterns gives, on a string field, the "
                "quantifier's table over the members AS WRITTEN (documented meaning of each member) for every list length, pattern "
                "mix, threshold and batching shape, outside the known class D10/D11 (two or more batches one of which holds several "
                "members), which is refuted by witnesses; quantified_list_missing, plain_list_is_of_one and "
                "quantified_identifier_exact cover the absent field, plain lists and all(X)/of(X,n). On the crate every quantified "
                "form (key lists of strings, numbers, booleans, mappings; identifier forms) for lengths 1..4-5 and thresholds "
                "0..len+1 is compared with the same rule written as explicit and/or/not over one-member identifiers.",
        "note": TB + "C08.v's theorems are for string members on scalar string fields; C08_lists.v (quantified_list_all_kinds, quantified_list_missing_all_kinds: corollaries of C02_lists.list_entry_refines) gives the quantifier tables for numeric / boolean / null members, every key form and every value kind (the count is over the members as written, by a counting invariant over the loader's batching); mapping members are in Properties/C02_all.v, the identifier forms all(X)/of(X,n) in quantified_identifier_exact and the explicit-expansion differential. Known findings D10, D11, D24 listed; D26 (array-valued fields) belongs to C02.",
        "technique": "Coq proof (counting invariant over the parser's list partition) + quantified-vs-explicit differential on the crate",
    },
})

CLAIMED.update({
    "C02": {
        "text": "Model/Spec.v is a reference semantics of the rule language written from the documentation: it works from the YAML "
                "of the rule and the document value (never from the engine's expression tree) and returns true / false / missing. "
                "Proved: entry_refines_unrestricted (every scalar entry -- string / numeric pattern, number, boolean, null under a "
                "plain, not(), int(), flt() or str() key -- gives exactly the documented result on every document; no exclusion since "
                "fixes D27 and D30), list_entry_refines (every entry whose value is a LIST of scalars, under every key form incl. "
                "all() and of(k, n), on every document value: the batches the loader compiles evaluate to the documented combination "
                "of the members as written), mapping_refines_lists / identifier_refines_lists (mappings = first-non-true conjunction "
                "in written order, nested blocks of any depth over objects and arrays of objects, sequences = disjunctions), "
                "cond_refines (every condition the parser can produce), rule_refines_final (C02_final; first versions rule_refines_lists, "
                "rule_refines_all): EVERY loadable rule whose identifier blocks are built from scalars, lists of scalars, lists of "
                "mappings, nested blocks of any depth and sequences of mappings -- the whole identifier language -- has, on every "
                "document, exactly the reference's result; matches = true only; a missing field is never true -- outside the "
                "executable classes of the listed findings only (D10/D11, D24, D26 per document, D28, D32; D27, D30, D31 were "
                "repaired in the crate). On the crate structure-first random rules x 8 "
                "documents and the coverage families are compared with the extracted reference; a difference is accepted only when "
                "the engine model reproduces the crate and a listed classifier accepts the rule.",
        "note": TB + "Not in the theorems' fragment: tagged values, non-string keys and lists that mix mappings with scalars (covered by the "
                "correspondence against the reference). The YAML-integer range hypothesis (ints_ok: i64 or u64) is what serde_yaml can hold.",
        "technique": "Coq proof of refinement (engine model vs documented reference semantics): counting invariant over the "
                     "loader's batching, induction over YAML depth and condition trees; the value-kind dispatch of the string searches "
                     "translated from the source on every run + differential crate vs extracted reference with classifier-gated known findings",
    },
})

DEFAULT_REASON = ("not claimed yet in this commit: the Coq model covers it (DESIGN.md section 7) but its property theorems "
                  "and correspondence check are still being built; nothing is inapplicable in principle")
NOT_YET = {}
NOTES = ("All checks share one Coq development (/verif/coq) and one correspondence pipeline; see DESIGN.md. "
         "KNOWN_FINDINGS.txt lists repaired defects (fix: commits in /repo) and known findings.")
