#!/usr/bin/env python3
"""Pins the statements of Properties/<P>.v: records what `Check thm.` prints for every
theorem, so that a later weakening of a statement is noticed by the checks.
Usage: pin.py C06 [C09 ...]   (run after a successful build of the property)"""
import json, os, re, sys
sys.path.insert(0, os.path.join(os.path.dirname(os.path.abspath(__file__)), "..", "check"))
import lib
for p in sys.argv[1:]:
    rc, out = lib.coq_make(["Properties/%s.vo" % p])
    if rc != 0:
        print(out[-2000:]); sys.exit(1)
    rc, out = lib.property_log(p)
    if rc != 0:
        print(out[-2000:]); sys.exit(1)
    checks, closed, axioms, per = lib.parse_property_log(out)
    src = lib.strip_coq_comments(open(os.path.join(lib.COQ, "Properties", p + ".v")).read())
    thms = re.findall(r"^(?:Theorem|Example|Lemma|Corollary)\s+([\w']+)", src, re.M)
    pins = {}
    for t in thms:
        if t not in checks:
            print("no Check output for", t); sys.exit(1)
        pins[t] = checks[t]
    os.makedirs(os.path.join(lib.COQ, "Properties", "pins"), exist_ok=True)
    json.dump(pins, open(os.path.join(lib.COQ, "Properties", "pins", p + ".json"), "w"), indent=1, sort_keys=True)
    print(p, "pinned", len(pins), "statements; closed:", closed, "axioms:", sorted(axioms))
