#!/bin/sh
# Line coverage of /repo/src reached by the correspondence inputs of the last runs of the
# checks (work/*.cases).  A development aid for judging generator quality -- not a check.
# Needs the nightly toolchain's llvm-tools.  Scratch under /var/tmp/cov, removed at the end
# unless KEEP=1.   Usage: tools/coverage.sh [file.rs ...]   (files to list missed lines of)
set -e
V=$(cd "$(dirname "$0")/.." && pwd)
TB=$(ls -d ~/.rustup/toolchains/nightly-x86_64-unknown-linux-gnu/lib/rustlib/x86_64-unknown-linux-gnu/bin)
C=/var/tmp/cov
mkdir -p $C/prof; rm -f $C/prof/*
(cd $V/harness && LLVM_PROFILE_FILE=$C/prof/build-%p.profraw RUSTFLAGS="-C instrument-coverage" CARGO_NET_OFFLINE=true cargo +nightly build --offline --release --target-dir $C/target >/dev/null 2>&1)
n=0
for f in $V/work/*.cases; do
  n=$((n+1))
  LLVM_PROFILE_FILE=$C/prof/p$n.profraw timeout 900 $C/target/release/harness $C/o.impl $C/o.min < $f >/dev/null 2>&1 || true
done
$TB/llvm-profdata merge -sparse $C/prof/*.profraw -o $C/all.profdata
$TB/llvm-cov report $C/target/release/harness -instr-profile=$C/all.profdata /repo/src
for f in "$@"; do
  echo "== missed lines of $f (log-macro lines filtered)"
  $TB/llvm-cov show $C/target/release/harness -instr-profile=$C/all.profdata /repo/src/$f 2>/dev/null \
   | grep -E '^ +[0-9]+\| +0\|' | grep -v 'debug!\|trace!\|^ *[0-9]*| *0| *"\|^ *[0-9]*| *0| *);\|expression,\? *$\|^ *[0-9]*| *0| *}\?$' | cut -c1-150
done
[ "$KEEP" = 1 ] || rm -rf $C
