#!/bin/sh
# Builds the harness and pipes a handful of hand-written cases of every kind through it,
# printing both output files.  Exit status 0 iff the build succeeded, both files are
# line-aligned with the input, and the spot checks at the end hold.
set -eu

HERE=$(cd "$(dirname "$0")" && pwd)
cd "$HERE"
FEATURES=${HARNESS_FEATURES:-}
TARGET=${HARNESS_TARGET_DIR:-$HERE/target}

mkdir -p "$TARGET"
WORK=$(mktemp -d "$TARGET/selftest.XXXXXX")
trap 'rm -rf "$WORK"' EXIT
if ! CARGO_NET_OFFLINE=true cargo build --offline --release --target-dir "$TARGET" \
    ${FEATURES:+--features "$FEATURES"} > "$WORK/build.log" 2>&1; then
    cat "$WORK/build.log"
    echo "selftest: BUILD FAILED"
    exit 1
fi
grep -A8 'harness/src' "$WORK/build.log" || true   # warnings in the harness' own code, if any
BIN="$TARGET/release/harness"
test -x "$BIN"

CASES="$WORK/cases.jsonl"

cat > "$CASES" <<'EOF'
{"k":"tok","id":1,"s":"A and not B"}
{"k":"tok","id":2,"s":"int(foo.bar) >= 10 or all(A) and of(B, 2)"}
{"k":"tok","id":3,"s":"flt(x) == 1.5 and str(y) == string(z)"}
{"k":"tok","id":4,"s":"A = B"}
{"k":"tok","id":5,"s":"1.2.3"}
{"k":"tok","id":6,"s":"a ₂ b"}
{"k":"tok","id":7,"s":""}
{"k":"tok","id":8,"s":"not(a) and x1₂ < -5"}
{"k":"cond","id":11,"s":"A and not B"}
{"k":"cond","id":12,"s":"(A or B) and (C or not D)"}
{"k":"cond","id":13,"s":"all(A) or of(B, 2)"}
{"k":"cond","id":14,"s":"A and"}
{"k":"cond","id":15,"s":"A & B"}
{"k":"cond","id":16,"s":"E"}
{"k":"cond","id":17,"s":"int(f) > 3 and A"}
{"k":"cond","id":18,"s":"A \"and\" \\ B"}
{"k":"cond","id":19,"s":"A and\u007fB"}
{"k":"ident","id":21,"s":"foo"}
{"k":"ident","id":22,"s":"i*Foo*"}
{"k":"ident","id":23,"s":"?^ab.*"}
{"k":"ident","id":24,"s":"i?(unclosed"}
{"k":"ident","id":25,"s":">=5"}
{"k":"ident","id":26,"s":"<1.5"}
{"k":"ident","id":27,"s":"=x"}
{"k":"ident","id":28,"s":"'"}
{"k":"ident","id":29,"s":"*"}
{"k":"ident","id":30,"s":"i\"Quoted\""}
{"k":"pid","id":31,"yaml":"foo: 'a*'\nall(bar): ['*x*', '*y*']\n"}
{"k":"pid","id":32,"yaml":"of(baz, 2): ['?^ab.*', iQ, '*z']\nn: '>=5'\n"}
{"k":"pid","id":33,"yaml":"- a: 1\n- b: 2.5\n- c: null\n- d: true\n"}
{"k":"pid","id":34,"yaml":"int(a): foo\n"}
{"k":"pid","id":35,"yaml":"just a string"}
{"k":"pid","id":36,"yaml":"a: {b: {c: ['i?x.*', '?.*y.*']}}\nstr(n): 5\nnot(q): '*'\n"}
{"k":"pid","id":37,"yaml":"a: [unclosed"}
{"k":"pid","id":38,"yaml":"a: !tagged v\n1: x\n"}
{"k":"pid","id":39,"yaml":"all(a): x\n"}
{"k":"find","id":41,"doc":{"t":"o","v":[["a",{"t":"s","v":"x"}],["b",{"t":"o","v":[["c",{"t":"i","v":"-5"}],["d",{"t":"a","v":[{"t":"u","v":"1"},{"t":"o","v":[["e",{"t":"n"}]]}]}]]}]]},"keys":["a","b","b.c","b.d","b.d[1]","b.d[1].e","b.d[2]","zz","a.b","b.c.x"]}
{"k":"find","id":42,"doc":{"t":"o","v":[["k",{"t":"o","v":[["x",{"t":"b","v":true}],["x",{"t":"b","v":false}]]}],["k",{"t":"f","v":"4607182418800017408"}],["a.b",{"t":"s","v":"dotted"}],["arr",{"t":"a","v":[{"t":"a","v":[{"t":"s","v":"in"}]}]}]]},"keys":["k","k.x","a.b","arr[0]","arr[0][0]","arr[x]","arr[","[0]","","."]}
{"k":"find","id":43,"doc":{"t":"o","v":[]},"keys":[]}
{"k":"find","id":44,"doc":{"t":"a","v":[]},"keys":["a"]}
{"k":"find","id":45,"doc":{"t":"o","v":[["é",{"t":"u","v":"18446744073709551615"}],["f",{"t":"f","v":"9221120237041090560"}]]},"keys":["é","f","]["]}
{"k":"find","id":46,"doc":{"t":"o","v":[["a",{"t":"a","v":[{"t":"i","v":"1"},{"t":"i","v":"2"}]}]]},"keys":["a[0]","a[1]","a[2]","a[-1]","a[01]","a[0]]"]}
{"k":"rule","id":51,"rule":"detection:\n  A:\n    foo: 'a*'\n    all(bar): ['*x*', '*y*']\n  B:\n    of(baz, 2): ['?^ab.*', iQ, '*z']\n    n: '>=5'\n  condition: A and not B\ntrue_positives: []\ntrue_negatives: []\n","docs":[{"t":"o","v":[["foo",{"t":"s","v":"abc"}],["bar",{"t":"s","v":"xy"}],["n",{"t":"u","v":"7"}]]},{"t":"o","v":[["foo",{"t":"s","v":"abc"}],["bar",{"t":"s","v":"xy"}],["baz",{"t":"s","v":"abz"}],["n",{"t":"u","v":"7"}]]},{"t":"o","v":[["foo",{"t":"s","v":"abc"}],["bar",{"t":"s","v":"xy"}],["baz",{"t":"s","v":"q"}],["n",{"t":"i","v":"2"}]]},{"t":"o","v":[]}],"sw":[0,1,2,4,8,15],"reads":true,"validate":true,"trees":true}
{"k":"rule","id":52,"rule":"detection:\n  A:\n    foo: bar\n  condition: A\ntrue_positives:\n- foo: bar\n- foo: baz\n- notamapping\ntrue_negatives:\n- foo: bar\n- foo: 1.5\n","docs":[{"t":"o","v":[["foo",{"t":"s","v":"bar"}]]}],"sw":[0],"validate":true}
{"k":"rule","id":53,"rule":"detection:\n  A:\n    foo: bar\n  condition: A and Z\ntrue_positives: []\ntrue_negatives: []\n","docs":[],"sw":[0,15]}
{"k":"rule","id":54,"rule":"detection: [unclosed","docs":[],"sw":[0]}
{"k":"rule","id":55,"rule":"detection:\n  A:\n    f: '?.*ab.*'\n    g: 'i?X+'\n    str(h): 1.5\n    flt(w): '>0.25'\n  condition: A\ntrue_positives: []\ntrue_negatives: []\n","docs":[{"t":"o","v":[["f",{"t":"s","v":"cabd"}],["g",{"t":"s","v":"xx"}],["h",{"t":"f","v":"4609434218613702656"}],["w",{"t":"f","v":"4602678819172646912"}]]},{"t":"o","v":[["f",{"t":"a","v":[{"t":"s","v":"no"},{"t":"s","v":"ab"}]}],["g",{"t":"s","v":"y"}],["h",{"t":"s","v":"1.5"}],["w",{"t":"i","v":"1"}]]}],"sw":[0,4,7,15],"reads":true,"trees":true}
{"k":"rule","id":56,"rule":"detection:\n  A:\n    a.b: x\n    c:\n      d: 'y*'\n  B:\n  - e: 1\n  - e: 2\n  condition: A or B\ntrue_positives: []\ntrue_negatives: []\n","docs":[{"t":"o","v":[["a",{"t":"o","v":[["b",{"t":"s","v":"x"}]]}],["c",{"t":"o","v":[["d",{"t":"s","v":"yes"}]]}]]},{"t":"o","v":[["e",{"t":"i","v":"2"}]]},{"t":"o","v":[["e",{"t":"s","v":"2"}]]}],"sw":[0,3,9,15],"reads":true}
{"k":"rule","id":57,"rule":"detection:\n  A:\n    foo: bar\n  condition: A\ntrue_positives: []\ntrue_negatives: []\n","docs":[],"sw":[0,5],"reads":true,"validate":true,"trees":true}
{"k":"rule","id":58,"rule":"detection:\n  A:\n    foo: bar\n  condition: A\n","docs":[{"t":"o","v":[]}],"sw":[16]}
{"k":"rule","id":59,"rule":"detection:\n  B:\n    g: 1\n  D:\n    c: y\n  C:\n    a: z\n    d: 1\n  E:\n    a: w\n    e: 1\n  condition: (str(a) == str(b) and B and D) or C or E\ntrue_positives: []\ntrue_negatives: []\n","docs":[{"t":"o","v":[["a",{"t":"s","v":"x"}],["b",{"t":"s","v":"x"}],["c",{"t":"s","v":"y"}]]},{"t":"o","v":[]}],"sw":[0,11],"reads":true}
{"k":"rep","id":101,"rule":"detection:\n  A:\n    n: '>=5'\n  B:\n    s: 'a*'\n  condition: A or B\ntrue_positives: []\ntrue_negatives: []\n","docs":[{"t":"o","v":[["n",{"t":"u","v":"7"}]]},{"t":"o","v":[["n",{"t":"i","v":"7"}]]},{"t":"o","v":[["n",{"t":"i","v":"-3"}]]},{"t":"o","v":[["s",{"t":"s","v":"abc"}]]},{"t":"o","v":[["n",{"t":"f","v":"4619567317775286272"}]]},{"t":"o","v":[["n",{"t":"n"}],["s",{"t":"s","v":"abc"}]]},{"t":"o","v":[["s",{"t":"a","v":[{"t":"s","v":"x"},{"t":"s","v":"abc"}]}]]},{"t":"o","v":[["n",{"t":"f","v":"9221120237041090560"}]]},{"t":"o","v":[["n",{"t":"u","v":"18446744073709551615"}]]},{"t":"o","v":[["n",{"t":"i","v":"-1"}],["m",{"t":"u","v":"18446744073709551615"}]]},{"t":"o","v":[]},{"t":"o","v":[["n",{"t":"b","v":true}]]}]}
{"k":"rep","id":102,"rule":"detection:\n  A:\n    a.b: x\n    c:\n      d: 'y*'\n  B:\n    e[1]: 2\n  condition: A or B\ntrue_positives: []\ntrue_negatives: []\n","docs":[{"t":"o","v":[["a",{"t":"o","v":[["b",{"t":"s","v":"x"}]]}],["c",{"t":"o","v":[["d",{"t":"s","v":"yes"}]]}]]},{"t":"o","v":[["e",{"t":"a","v":[{"t":"i","v":"1"},{"t":"i","v":"2"}]}]]},{"t":"o","v":[["a",{"t":"s","v":"x"}],["a",{"t":"o","v":[["b",{"t":"s","v":"x"}]]}]]},{"t":"o","v":[["a.b",{"t":"s","v":"x"}]]}]}
{"k":"rep","id":103,"rule":"detection:\n  A:\n    foo: bar\n  condition: A and Z\n","docs":[]}
{"k":"rep","id":104,"rule":"detection:\n  A:\n    foo: bar\n  condition: A\ntrue_positives: []\ntrue_negatives: []\n","docs":[]}
{"k":"det","id":111,"rule":"detection:\n  A:\n  - a: x\n    b: y\n  - a: z\n    c: w\n  - d: q\n  B:\n    e: 1\n  condition: not A and B\ntrue_positives: []\ntrue_negatives: []\n","docs":[{"t":"o","v":[["a",{"t":"s","v":"x"}],["e",{"t":"i","v":"1"}]]},{"t":"o","v":[["a",{"t":"s","v":"z"}],["c",{"t":"s","v":"w"}],["e",{"t":"i","v":"1"}]]},{"t":"o","v":[["e",{"t":"i","v":"1"}]]},{"t":"o","v":[]}],"sw":[0,7,15],"reps":40,"threads":4}
{"k":"det","id":112,"rule":"detection:\n  A:\n    foo: 'a*'\n  condition: A\ntrue_positives: []\ntrue_negatives: []\n","docs":[{"t":"o","v":[["foo",{"t":"s","v":"abc"}]]},{"t":"o","v":[["foo",{"t":"s","v":"xbc"}]]}],"sw":[],"reps":3,"threads":2}
{"k":"det","id":113,"rule":"detection: {}","docs":[],"sw":[0],"reps":1,"threads":1}
{"k":"rt","id":121,"rule":"detection:\n  A:\n    foo: 'a*'\n    all(bar): ['*x*', '*y*']\n  B:\n    of(baz, 2): ['?^ab.*', iQ, '*z']\n    n: '>=5'\n  condition: A and not B\ntrue_positives:\n- foo: abc\n  bar: xy\ntrue_negatives:\n- foo: q\n","docs":[{"t":"o","v":[["foo",{"t":"s","v":"abc"}],["bar",{"t":"s","v":"xy"}],["n",{"t":"u","v":"7"}]]},{"t":"o","v":[["foo",{"t":"s","v":"abc"}],["bar",{"t":"s","v":"xy"}],["baz",{"t":"s","v":"abz"}],["n",{"t":"u","v":"7"}]]},{"t":"o","v":[["foo",{"t":"s","v":"abc"}],["bar",{"t":"s","v":"xy"}],["baz",{"t":"s","v":"q"}],["n",{"t":"i","v":"2"}]]},{"t":"o","v":[]}]}
{"k":"rt","id":122,"rule":"detection:\n  1:\n    foo: bar\n  condition: A\n  A:\n    x: 1\ntrue_positives: []\ntrue_negatives: []\n","docs":[{"t":"o","v":[["x",{"t":"i","v":"1"}]]}]}
{"k":"rt","id":123,"rule":"detection:\n  A:\n    foo: 'null'\n    bar: '1'\n    baz: 'true'\n    qux: '~'\n  condition: A\ntrue_positives: []\ntrue_negatives: []\n","docs":[{"t":"o","v":[["foo",{"t":"s","v":"null"}],["bar",{"t":"s","v":"1"}],["baz",{"t":"s","v":"true"}],["qux",{"t":"s","v":"~"}]]},{"t":"o","v":[["foo",{"t":"n"}],["bar",{"t":"i","v":"1"}],["baz",{"t":"b","v":true}],["qux",{"t":"n"}]]}]}
{"k":"rt","id":124,"rule":"detection: nope","docs":[]}
{"k":"bogus","id":91}
{"k":"tok","id":92}
this is not json "id": 93 at all
{"k":"tok","s":"no id"}
{"k":"find","id":95,"doc":{"t":"o","v":[["a",{"t":"q"}]]},"keys":["a"]}
EOF

IMPL="$WORK/impl.out"
MODEL="$WORK/model.in"
"$BIN" "$IMPL" "$MODEL" < "$CASES"

echo "===== impl.out ====="
cat "$IMPL"
echo "===== model.in ====="
cat "$MODEL"
echo "===== checks ====="

fail=0
n_in=$(grep -c . "$CASES")
n_impl=$(wc -l < "$IMPL")
n_model=$(wc -l < "$MODEL")
echo "cases=$n_in impl=$n_impl model=$n_model"
[ "$n_in" = "$n_impl" ] && [ "$n_in" = "$n_model" ] || { echo "FAIL: line counts differ"; fail=1; }

# every line must be a well-formed S-expression over the protocol alphabet
for f in "$IMPL" "$MODEL"; do
    if grep -nv '^([-0-9a-z_ ()]*)$' "$f"; then echo "FAIL: bad characters in $f"; fail=1; fi
    if ! awk '{ d=0; for (i=1;i<=length($0);i++) { c=substr($0,i,1); if (c=="(") d++; else if (c==")") { d--; if (d<0) exit 1 } } if (d!=0) exit 1 }' "$f"; then
        echo "FAIL: unbalanced parentheses in $f"; fail=1
    fi
    if grep -n '( \| )\|  \| $' "$f"; then echo "FAIL: non-canonical spacing in $f"; fail=1; fi
done

expect() { # file, fixed string
    if ! grep -qF -- "$2" "$1"; then echo "FAIL: expected in $(basename "$1"): $2"; fail=1; fi
}
expect "$IMPL" "(1 ok (id (s 65)) (op and) (misc not) (id (s 66)))"
expect "$IMPL" "(4 err invalid_char)"
expect "$IMPL" "(5 err invalid_num)"
expect "$IMPL" "(7 ok)"
expect "$IMPL" "(11 ok (bexp (ident (s 65)) and (neg (ident (s 66)))))"
expect "$IMPL" "(14 err rule)"
expect "$IMPL" "(15 err invalid_char)"
expect "$IMPL" "(16 err rule)"
expect "$IMPL" "(19 err invalid_char)"
expect "$IMPL" "(27 err invalid_ident)"
expect "$IMPL" "(35 err invalid_ident)"
expect "$IMPL" "(37 skip)"
expect "$MODEL" "(37 skip)"
expect "$IMPL" "(43)"
expect "$IMPL" "(44 harness_error)"
expect "$IMPL" "(51 (load ok) (cond "
expect "$IMPL" "(validate ok) (x (fromstr ok)))"
expect "$IMPL" "(52 (load ok) (res 0 t) (validate err 1 2 1000) (x (fromstr ok)))"
expect "$IMPL" "(53 (load err) (x (fromstr err)))"
expect "$IMPL" "(54 skip)"
case "$FEATURES" in
*ignore_case*) # the `i` prefix is not special and everything is case-insensitive
    expect "$IMPL" "(21 ok (exact (s 102 111 111)) 1)"
    expect "$IMPL" "(22 ok (startswith (s 105 42 102 111 111)) 1)" ;;
*)
    expect "$IMPL" "(21 ok (exact (s 102 111 111)) 0)"
    expect "$IMPL" "(22 ok (contains (s 102 111 111)) 1)"
    expect "$IMPL" "(25 ok (ge 5) 0)"
    expect "$IMPL" "(29 ok (any) 0)"
    expect "$IMPL" "(57 (load ok) (cond (ident (s 65))) (ids ((s 65) (search (exact (s 98 97 114)) (s 102 111 111) 0))) (res 0) (res 5) (reads 0) (reads 5) (validate ok) (x (fromstr ok)))" ;;
esac
# known finding D19: the matrix cell looks a real key up in the private cache -> panic while solving
expect "$IMPL" "(59 (load ok) (res 0 fm) (res 11 pm) (reads 0 ((s 97) (s 98) (s 103)) ((s 97))) (reads 11 (panic) ((s 97) (s 100) (s 101))) (x (fromstr ok)))"

# ---- crate-only kinds: rep / det / rt (model.in gets (ID skip)) --------------------------------
expect "$MODEL" "(101 skip)"
expect "$MODEL" "(111 skip)"
expect "$MODEL" "(121 skip)"
expect "$IMPL" "(101 (load ok) (rep dv ttftfttftfmf) (rep yaml ttftfttftfmf) (rep json ttftftt-tfmf) (rep hjson ttftftt-tfmf) (rep flat ttftfttft-mf) (rep flat_i64 ttf---------) (rep custom ttftfttftfmf))"
expect "$IMPL" "(102 (load ok) (rep dv ttmm) (rep yaml ttmm) (rep json ttmm) (rep hjson ttmm) (rep flat -tmm) (rep flat_i64 -t--) (rep custom ttmm))"
expect "$IMPL" "(103 (load err))"
expect "$IMPL" "(104 (load ok) (rep dv e) (rep yaml e) (rep json e) (rep hjson e) (rep flat e) (rep flat_i64 e) (rep custom e))"
# the number of distinct Display strings under the matrix optimisation depends on the hash seeds
expect "$IMPL" "(111 (load ok) (det 0 1 1 tfff tfff) (det 7 1 1 tfff tfff) (det 15 "
expect "$IMPL" " 1 ffff ffff) (threads unopt 1) (threads opt 1) (purity 1))"
expect "$IMPL" "(112 (load ok) (threads unopt 1) (threads opt -) (purity 1))"
expect "$IMPL" "(113 (load err))"
expect "$IMPL" "(121 (load ok) (reload ok) (trees 1) (examples 1) (verdicts fftm fftm) (reload_opt ok) (flag 1) (verdicts_opt fftm fftm) (trees_opt 1) (fromvalue ok) (len 237))"
# known finding D23: from_str accepts the non-string identifier name, from_value does not
expect "$IMPL" "(122 (load ok) (reload ok) (trees 1) (examples 1) (verdicts t t) (reload_opt ok) (flag 1) (verdicts_opt t t) (trees_opt 1) (fromvalue err) (len 115))"
expect "$IMPL" "(123 (load ok) (reload ok) (trees 1) (examples 1) (verdicts tm tm) (reload_opt ok) (flag 1) (verdicts_opt tm tm) (trees_opt 1) (fromvalue ok) (len 144))"
expect "$IMPL" "(124 (load err))"

# ---- a panic inside optimise() (known finding D21: >= 55297 matrix columns) -------------------
BIG="$WORK/big.jsonl"
awk 'BEGIN {
    printf "{\"k\":\"rule\",\"id\":60,\"rule\":\"detection:\\n  A:\\n  - f0: 2\\n";
    for (i = 0; i < 55400; i++) printf "  - f%d: 1\\n", i;
    printf "  condition: A\\ntrue_positives: []\\ntrue_negatives: []\\n\",";
    printf "\"docs\":[{\"t\":\"o\",\"v\":[[\"f7\",{\"t\":\"i\",\"v\":\"1\"}]]}],\"sw\":[0,10,2],\"reads\":false}\n";
}' > "$BIG"
"$BIN" "$WORK/big.impl" "$WORK/big.model" < "$BIG"
echo "big case impl.out: $(cat "$WORK/big.impl")"
echo "big case model.in: $(wc -c < "$WORK/big.model") bytes, $(wc -l < "$WORK/big.model") line(s)"
expect "$WORK/big.impl" "(60 (load ok) (res 0 t) (res 10 x) (res 2 t) (x (fromstr ok)))"
expect "$IMPL" "(58 harness_error)"
expect "$IMPL" "(91 harness_error)"
expect "$IMPL" "(92 harness_error)"
expect "$IMPL" "(93 harness_error)"
expect "$IMPL" "(-1 harness_error)"
expect "$IMPL" "(95 harness_error)"
expect "$MODEL" "(tok 1 (s 65 32 97 110 100 32 110 111 116 32 66) (oracle (re) (rem) (fparse "
expect "$MODEL" "(find 43 (obj) ())"

if [ "$fail" = 0 ]; then echo "selftest: OK"; else echo "selftest: FAILED"; fi
exit "$fail"
