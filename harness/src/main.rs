//! Correspondence-check harness (see /verif/PROTOCOL.md).
//!
//!   harness <impl_out_path> <model_in_path>   < cases.jsonl
//!
//! One line per case is written to each file, in input order (line-aligned).  Every call into
//! the tau-engine crate runs under `catch_unwind`; a case the harness itself cannot process gives
//! `(ID harness_error)` in both files.

mod doc;
mod extra;
mod oracle;
mod sexp;

use std::collections::BTreeSet;
use std::fs::File;
use std::io::{BufRead, BufWriter, Write};
use std::panic::{catch_unwind, AssertUnwindSafe};

use tau_engine::core::parser::{parse_identifier, Expression, IdentifierParser, Tokeniser};
use tau_engine::core::solve_expression;
use tau_engine::{Document, Object, Optimisations, Rule};

use doc::{DObj, Recorder};
use oracle::{Inputs, RegexCache};
use sexp::Sx;

/// (impl.out line, model.in line)
type Out = (String, String);

struct Ctx {
    cache: RegexCache,
    id_scan: regex::Regex,
}

// ---------------------------------------------------------------------------------------------
// helpers
// ---------------------------------------------------------------------------------------------

/// Run a piece of crate code; `None` means it panicked.
#[inline]
fn guarded<T>(f: impl FnOnce() -> T) -> Option<T> {
    catch_unwind(AssertUnwindSafe(f)).ok()
}

fn both(id: &str, word: &str) -> Out {
    let s = format!("({} {})", id, word);
    (s.clone(), s)
}

fn kind(err: &tau_engine::Error) -> &'static str {
    // The inner enums `Parse` / `Token` are not re-exported: go through `Debug`.
    match format!("{:?}", err.kind()).as_str() {
        "Parse(InvalidExpression)" => "invalid_expr",
        "Parse(InvalidIdentifier)" => "invalid_ident",
        "Parse(InvalidToken)" => "invalid_token",
        "Parse(LedFollowing)" => "led_following",
        "Parse(LedPreceding)" => "led_preceding",
        "Rule" => "rule",
        "Token(InvalidCharacter)" => "invalid_char",
        "Token(InvalidNumber)" => "invalid_num",
        "Validation" => "validation",
        _ => "unknown_kind",
    }
}

fn case_id(v: &serde_json::Value) -> Option<String> {
    match v.get("id")? {
        serde_json::Value::Number(n) if n.is_i64() || n.is_u64() => Some(n.to_string()),
        _ => None,
    }
}

fn flag(v: &serde_json::Value, name: &str) -> Option<bool> {
    match v.get(name) {
        None | Some(serde_json::Value::Null) => Some(false),
        Some(serde_json::Value::Bool(b)) => Some(*b),
        Some(serde_json::Value::Number(n)) => match n.as_u64() {
            Some(0) => Some(false),
            Some(1) => Some(true),
            _ => None,
        },
        _ => None,
    }
}

/// `(KIND ID S O)` for the three string-input kinds.
fn model_line_for_string(kindword: &str, id: &str, s: &str, ctx: &mut Ctx) -> String {
    let mut inp = Inputs::new();
    inp.rs.insert(s.to_owned());
    let mut w = Sx::new();
    w.head(kindword);
    w.atom(id);
    w.str(s);
    oracle::render(&mut w, &inp, &mut ctx.cache);
    w.close();
    w.finish()
}

fn begin(id: &str) -> Sx {
    let mut w = Sx::new();
    w.open();
    w.atom(id);
    w
}

// ---------------------------------------------------------------------------------------------
// tok
// ---------------------------------------------------------------------------------------------

fn case_tok(id: &str, v: &serde_json::Value, ctx: &mut Ctx) -> Option<Out> {
    let s = v.get("s")?.as_str()?.to_owned();
    let model = model_line_for_string("tok", id, &s, ctx);

    let mut w = begin(id);
    match guarded(|| s.tokenise()) {
        None => w.atom("panic"),
        Some(Err(e)) => {
            w.atom("err");
            w.atom(kind(&e));
        }
        Some(Ok(tokens)) => {
            w.atom("ok");
            for t in &tokens {
                sexp::token(&mut w, t);
            }
        }
    }
    w.close();
    Some((w.finish(), model))
}

// ---------------------------------------------------------------------------------------------
// cond
//
// `parser::parse` is pub(crate), so the observable part is: the tokeniser's own errors, then
// whether a minimal rule around the condition loads (identifiers A..D are defined) and, if it
// does, the parsed `detection.expression`.
// ---------------------------------------------------------------------------------------------

fn cond_rule_text(s: &str) -> Option<String> {
    let quoted = serde_json::to_string(s).ok()?;
    Some(format!(
        "detection:\n  condition: {}\n  A: {{a: x}}\n  B: {{b: x}}\n  C: {{c: x}}\n  D: {{d: x}}\ntrue_positives: []\ntrue_negatives: []\n",
        quoted
    ))
}

fn case_cond(id: &str, v: &serde_json::Value, ctx: &mut Ctx) -> Option<Out> {
    let s = v.get("s")?.as_str()?.to_owned();

    let mut w = begin(id);
    match guarded(|| s.tokenise()) {
        None => w.atom("panic"),
        Some(Err(e)) => {
            w.atom("err");
            w.atom(kind(&e));
        }
        Some(Ok(_)) => {
            // The JSON quoting must survive YAML unchanged, otherwise the case says nothing.
            let text = match cond_rule_text(&s) {
                Some(t) => t,
                None => return Some(both(id, "skip")),
            };
            let survives = match serde_yaml::from_str::<serde_yaml::Value>(&text) {
                Ok(y) => {
                    y.get("detection")
                        .and_then(|d| d.get("condition"))
                        .and_then(|c| c.as_str())
                        == Some(s.as_str())
                }
                Err(_) => false,
            };
            if !survives {
                return Some(both(id, "skip"));
            }
            match guarded(|| Rule::from_str(&text)) {
                None => w.atom("panic"),
                Some(Err(_)) => {
                    w.atom("err");
                    w.atom("rule");
                }
                Some(Ok(rule)) => {
                    w.atom("ok");
                    sexp::expr(&mut w, &rule.detection.expression);
                }
            }
        }
    }
    w.close();
    let model = model_line_for_string("cond", id, &s, ctx);
    Some((w.finish(), model))
}

// ---------------------------------------------------------------------------------------------
// ident
// ---------------------------------------------------------------------------------------------

fn case_ident(id: &str, v: &serde_json::Value, ctx: &mut Ctx) -> Option<Out> {
    let s = v.get("s")?.as_str()?.to_owned();
    let model = model_line_for_string("ident", id, &s, ctx);

    let mut w = begin(id);
    let arg = s.clone();
    match guarded(move || arg.into_identifier()) {
        None => w.atom("panic"),
        Some(Err(e)) => {
            w.atom("err");
            w.atom(kind(&e));
        }
        Some(Ok(i)) => {
            w.atom("ok");
            sexp::identifier(&mut w, &i);
        }
    }
    w.close();
    Some((w.finish(), model))
}

// ---------------------------------------------------------------------------------------------
// pid
// ---------------------------------------------------------------------------------------------

fn case_pid(id: &str, v: &serde_json::Value, ctx: &mut Ctx) -> Option<Out> {
    let text = v.get("yaml")?.as_str()?;
    let y: serde_yaml::Value = match serde_yaml::from_str(text) {
        Ok(y) => y,
        Err(_) => return Some(both(id, "skip")),
    };

    let mut inp = Inputs::new();
    inp.add_yaml_rs(&y);
    let mut m = Sx::new();
    m.head("pid");
    m.atom(id);
    sexp::yaml(&mut m, &y);
    oracle::render(&mut m, &inp, &mut ctx.cache);
    m.close();

    let mut w = begin(id);
    match guarded(|| parse_identifier(&y)) {
        None => w.atom("panic"),
        Some(Err(e)) => {
            w.atom("err");
            w.atom(kind(&e));
        }
        Some(Ok(e)) => {
            w.atom("ok");
            sexp::expr(&mut w, &e);
        }
    }
    w.close();
    Some((w.finish(), m.finish()))
}

// ---------------------------------------------------------------------------------------------
// find
// ---------------------------------------------------------------------------------------------

fn case_find(id: &str, v: &serde_json::Value) -> Option<Out> {
    let root = doc::parse_doc(v.get("doc")?)?;
    let mut keys: Vec<String> = Vec::new();
    for k in v.get("keys")?.as_array()? {
        keys.push(k.as_str()?.to_owned());
    }

    let mut m = Sx::new();
    m.head("find");
    m.atom(id);
    doc::render_obj(&mut m, &root);
    m.open();
    for k in &keys {
        m.str(k);
    }
    m.close();
    m.close();

    let mut w = begin(id);
    for k in &keys {
        // The result is rendered inside the guard as well: iterating a returned array goes
        // through the crate's `Array` impl for `Vec`.
        let r = guarded(|| {
            let mut part = Sx::new();
            match Object::find(&root, k) {
                Some(val) => {
                    part.head("some");
                    doc::render_found(&mut part, &root, &val);
                    part.close();
                }
                None => part.unit("none"),
            }
            part.finish()
        });
        match r {
            Some(s) => w.atom(&s),
            None => w.unit("panic"),
        }
    }
    w.close();
    Some((w.finish(), m.finish()))
}

// ---------------------------------------------------------------------------------------------
// rule
// ---------------------------------------------------------------------------------------------

/// Three-valued observation of one document.  Returns the verdict character and the keys passed
/// to the top-level `Document::find` (during both solves).
fn observe(
    expr: &Expression,
    negated: &Expression,
    ids: &std::collections::HashMap<String, Expression>,
    d: &DObj,
) -> (char, BTreeSet<String>) {
    let rec = Recorder::new(d);
    let verdict = observe_doc(expr, negated, ids, &rec);
    (verdict, rec.take())
}

/// The same observation on any `Document` (whatever its representation).
fn observe_doc(
    expr: &Expression,
    negated: &Expression,
    ids: &std::collections::HashMap<String, Expression>,
    d: &dyn Document,
) -> char {
    match guarded(|| solve_expression(expr, ids, d)) {
        None => 'p',
        Some(true) => 't',
        Some(false) => match guarded(|| solve_expression(negated, ids, d)) {
            None => 'p',
            Some(true) => 'f',
            Some(false) => 'm',
        },
    }
}

fn yaml_examples<'a>(y: &'a serde_yaml::Value, name: &str) -> &'a [serde_yaml::Value] {
    y.get(name)
        .and_then(|v| v.as_sequence())
        .map(|v| v.as_slice())
        .unwrap_or(&[])
}

/// Outcome of `validate()` on a rule, cross-checked against `matches()` on each example:
/// "ok" | "err I ..." | "panic" | "inconsistent" (validate() disagrees with matches(), or its
/// message does not name exactly the failing examples).
fn validate_outcome(rule: &Rule) -> String {
    // Indices of failing examples, by re-running `matches` on each of them exactly as
    // `Rule::validate` does (a non-mapping example is a failure).
    let indices = guarded(|| {
        let mut bad: Vec<usize> = Vec::new();
        for (i, t) in rule.true_positives.iter().enumerate() {
            match t.as_mapping() {
                Some(m) => {
                    if !rule.matches(m) {
                        bad.push(i);
                    }
                }
                None => bad.push(i),
            }
        }
        for (i, t) in rule.true_negatives.iter().enumerate() {
            match t.as_mapping() {
                Some(m) => {
                    if rule.matches(m) {
                        bad.push(1000 + i);
                    }
                }
                None => bad.push(1000 + i),
            }
        }
        bad
    });
    // Some(None) = Ok(true); Some(Some((n, msg))) = Err naming n examples
    let own = guarded(|| match rule.validate() {
        Ok(_) => None,
        Err(e) => {
            let msg = format!("{}", e);
            Some((msg.matches("true positive check").count() + msg.matches("true negative check").count(), msg))
        }
    });
    match (indices, own) {
        (Some(bad), Some(named)) => {
            let ok = named.is_none();
            // the message must name EACH failing example (its Debug text, quoted), in the order of the lists
            let mut names_each = true;
            if let Some((_, msg)) = &named {
                let mut from = 0usize;
                for i in &bad {
                    let t = if *i >= 1000 { rule.true_negatives.get(*i - 1000) } else { rule.true_positives.get(*i) };
                    let quoted = match t {
                        Some(t) => format!("'{:?}'", t),
                        None => String::new(),
                    };
                    match msg[from..].find(&quoted) {
                        Some(p) => from += p + quoted.len(),
                        None => {
                            names_each = false;
                            break;
                        }
                    }
                }
            }
            let named = named.map(|(n, _)| n);
            if ok != bad.is_empty() || (!ok && named != Some(bad.len())) || !names_each {
                "inconsistent".to_string()
            } else if ok {
                "ok".to_string()
            } else {
                let mut s = String::from("err");
                for i in bad {
                    s.push_str(&format!(" {}", i));
                }
                s
            }
        }
        _ => "panic".to_string(),
    }
}

fn validate_part(w: &mut Sx, rule: &Rule) {
    w.head("validate");
    w.atom(&validate_outcome(rule));
    w.close();
}

fn case_rule(id: &str, v: &serde_json::Value, ctx: &mut Ctx) -> Option<Out> {
    let text = v.get("rule")?.as_str()?;
    let mut docs: Vec<DObj> = Vec::new();
    for d in v.get("docs")?.as_array()? {
        docs.push(doc::parse_doc(d)?);
    }
    let mut sw: Vec<u8> = Vec::new();
    for n in v.get("sw")?.as_array()? {
        let n = n.as_u64()?;
        if n > 15 {
            return None;
        }
        sw.push(n as u8);
    }
    let reads = flag(v, "reads")?;
    let validate = flag(v, "validate")?;
    let trees = flag(v, "trees")?;
    let otrees = flag(v, "otrees")?;

    let y: serde_yaml::Value = match serde_yaml::from_str(text) {
        Ok(y) => y,
        Err(_) => return Some(both(id, "skip")),
    };

    // ---- model.in ----------------------------------------------------------------------------
    let mut inp = Inputs::new();
    inp.add_yaml_rs(&y);
    for d in &docs {
        doc::collect_obj(d, &mut inp.ds, &mut inp.floats);
    }
    if validate {
        // The examples are evaluated as documents too.
        for name in ["true_positives", "true_negatives"] {
            for ex in yaml_examples(&y, name) {
                inp.add_yaml_ds(ex);
            }
        }
    }
    let mut m = Sx::new();
    m.head("rule");
    m.atom(id);
    sexp::yaml(&mut m, &y);
    m.open();
    for d in &docs {
        doc::render_obj(&mut m, d);
    }
    m.close();
    m.open();
    for n in &sw {
        m.int(*n);
    }
    m.close();
    m.open();
    m.bool(reads);
    m.bool(validate);
    m.bool(trees);
    m.bool(otrees);
    m.close();
    oracle::render(&mut m, &inp, &mut ctx.cache);
    m.close();
    let model = m.finish();

    // ---- impl.out ----------------------------------------------------------------------------
    let mut w = begin(id);
    // crate-only extra, stripped by the orchestrator before the line diff: what
    // Rule::from_str says about the text (the model is tied to Rule::from_value)
    let fromstr = match guarded(|| Rule::from_str(text)) {
        None => "panic",
        Some(Err(_)) => "err",
        Some(Ok(_)) => "ok",
    };
    let mut extra = format!("(x (fromstr {})", fromstr);
    let vsw: Vec<u8> = v
        .get("vsw")
        .and_then(|a| a.as_array())
        .map(|a| a.iter().filter_map(|n| n.as_u64()).filter(|n| *n <= 15).map(|n| n as u8).collect())
        .unwrap_or_default();
    let rule = match guarded(|| Rule::from_value(y.clone())) {
        None => {
            w.head("load");
            w.atom("panic");
            w.close();
            extra.push(')');
            w.atom(&extra);
            w.close();
            return Some((w.finish(), model));
        }
        Some(Err(_)) => {
            w.head("load");
            w.atom("err");
            w.close();
            extra.push(')');
            w.atom(&extra);
            w.close();
            return Some((w.finish(), model));
        }
        Some(Ok(r)) => r,
    };
    let mut extra = extra;
    for n in &vsw {
        let n = *n;
        let optimised = guarded(|| {
            rule.clone().optimise(Optimisations {
                coalesce: n & 1 != 0,
                shake: n & 2 != 0,
                rewrite: n & 4 != 0,
                matrix: n & 8 != 0,
            })
        });
        let out = match optimised {
            None => "panic".to_string(),
            Some(r) => validate_outcome(&r),
        };
        extra.push_str(&format!(" (vopt {} {})", n, out));
    }
    extra.push(')');
    w.head("load");
    w.atom("ok");
    w.close();

    if trees {
        w.head("cond");
        sexp::expr(&mut w, &rule.detection.expression);
        w.close();
        w.head("ids");
        let mut names: Vec<&String> = rule.detection.identifiers.keys().collect();
        names.sort();
        for n in names {
            w.open();
            w.str(n);
            sexp::expr(&mut w, &rule.detection.identifiers[n]);
            w.close();
        }
        w.close();
    }

    let mut reads_part = Sx::new();
    let mut gets_part = String::new();
    let mut otree_part = Sx::new();
    for n in &sw {
        let n = *n;
        let optimised = guarded(|| {
            rule.clone().optimise(Optimisations {
                coalesce: n & 1 != 0,
                shake: n & 2 != 0,
                rewrite: n & 4 != 0,
                matrix: n & 8 != 0,
            })
        });
        w.head("res");
        w.int(n);
        if reads {
            reads_part.head("reads");
            reads_part.int(n);
        }
        if otrees {
            // the optimised trees themselves (the optimiser is deterministic since fix D22)
            otree_part.head("otree");
            otree_part.int(n);
            match &optimised {
                None => otree_part.atom("x"),
                Some(r) => {
                    otree_part.head("cond");
                    sexp::expr(&mut otree_part, &r.detection.expression);
                    otree_part.close();
                    otree_part.head("ids");
                    let mut names: Vec<&String> = r.detection.identifiers.keys().collect();
                    names.sort();
                    for name in names {
                        otree_part.open();
                        otree_part.str(name);
                        sexp::expr(&mut otree_part, &r.detection.identifiers[name]);
                        otree_part.close();
                    }
                    otree_part.close();
                }
            }
            otree_part.close();
        }
        match optimised {
            None => w.atom("x"),
            Some(r) => {
                let expr = &r.detection.expression;
                let ids = &r.detection.identifiers;
                match guarded(|| Expression::Negate(Box::new(expr.clone()))) {
                    None => w.atom("x"),
                    Some(negated) => {
                        let mut verdicts = String::with_capacity(docs.len());
                        for (di, d) in docs.iter().enumerate() {
                            if reads {
                                doc::get_log_start();
                            }
                            let (c, keys) = observe(expr, &negated, ids, d);
                            verdicts.push(c);
                            if reads {
                                // every key asked of the root or of a nested object, hex (crate-only)
                                let gets = doc::get_log_take();
                                gets_part.push_str(&format!(" (gets {} {}", n, di));
                                for k in &gets {
                                    gets_part.push_str(" h");
                                    for b in k.bytes() {
                                        gets_part.push_str(&format!("{:02x}", b));
                                    }
                                }
                                gets_part.push(')');
                            }
                            if reads {
                                if c == 'p' {
                                    reads_part.unit("panic");
                                } else {
                                    reads_part.open();
                                    for k in &keys {
                                        reads_part.str(k);
                                    }
                                    reads_part.close();
                                }
                            }
                        }
                        if !verdicts.is_empty() {
                            w.atom(&verdicts);
                        }
                    }
                }
            }
        }
        w.close();
        if reads {
            reads_part.close();
        }
    }
    if reads && !reads_part.buf.is_empty() {
        w.atom(&reads_part.buf);
    }
    if otrees && !otree_part.buf.is_empty() {
        w.atom(&otree_part.buf);
    }

    if validate {
        validate_part(&mut w, &rule);
    }
    if !gets_part.is_empty() && extra.ends_with(')') {
        extra.truncate(extra.len() - 1);
        extra.push_str(&gets_part);
        extra.push(')');
    }
    w.atom(&extra);
    w.close();
    Some((w.finish(), model))
}

// ---------------------------------------------------------------------------------------------
// driver
// ---------------------------------------------------------------------------------------------

fn process(line: &str, ctx: &mut Ctx) -> Out {
    let parsed: Option<serde_json::Value> = serde_json::from_str(line).ok();
    let id = parsed
        .as_ref()
        .and_then(case_id)
        .or_else(|| {
            ctx.id_scan
                .captures(line)
                .map(|c| c[1].to_owned())
        })
        .unwrap_or_else(|| "-1".to_owned());

    let v = match parsed {
        Some(v) => v,
        None => return both(&id, "harness_error"),
    };
    if case_id(&v).is_none() {
        return both(&id, "harness_error");
    }
    let k = match v.get("k").and_then(|k| k.as_str()) {
        Some(k) => k.to_owned(),
        None => return both(&id, "harness_error"),
    };

    // The outer guard catches the harness' own failures (the crate calls have their own).
    let r = catch_unwind(AssertUnwindSafe(|| match k.as_str() {
        "tok" => case_tok(&id, &v, ctx),
        "cond" => case_cond(&id, &v, ctx),
        "ident" => case_ident(&id, &v, ctx),
        "pid" => case_pid(&id, &v, ctx),
        "find" => case_find(&id, &v),
        "rule" => case_rule(&id, &v, ctx),
        "rep" => extra::case_rep(&id, &v),
        "det" => extra::case_det(&id, &v),
        "rt" => extra::case_rt(&id, &v),
        "prim" => extra::case_prim(&id, &v),
        _ => None,
    }));
    match r {
        Ok(Some(out)) => out,
        _ => both(&id, "harness_error"),
    }
}

fn run(impl_path: String, model_path: String) -> std::io::Result<()> {
    let mut impl_out = BufWriter::with_capacity(1 << 16, File::create(&impl_path)?);
    let mut model_in = BufWriter::with_capacity(1 << 20, File::create(&model_path)?);
    let mut ctx = Ctx {
        cache: RegexCache::new(),
        id_scan: regex::Regex::new(r#""id"\s*:\s*(-?[0-9]+)"#).expect("id regex"),
    };

    let stdin = std::io::stdin();
    let mut input = stdin.lock();
    let mut raw: Vec<u8> = Vec::with_capacity(1 << 16);
    loop {
        raw.clear();
        if input.read_until(b'\n', &mut raw)? == 0 {
            break;
        }
        // Invalid UTF-8 is a malformed case, not a reason to stop.
        let line = String::from_utf8_lossy(&raw);
        let line = line.trim_end_matches(['\n', '\r']);
        if line.trim().is_empty() {
            continue;
        }
        let (a, b) = process(line, &mut ctx);
        impl_out.write_all(a.as_bytes())?;
        impl_out.write_all(b"\n")?;
        model_in.write_all(b.as_bytes())?;
        model_in.write_all(b"\n")?;
        // Keep both files line-aligned on disk even if a later case kills the process
        // (stack overflow / abort cannot be caught).
        impl_out.flush()?;
        model_in.flush()?;
    }
    impl_out.flush()?;
    model_in.flush()?;
    Ok(())
}

fn main() {
    let args: Vec<String> = std::env::args().collect();
    if args.len() != 3 {
        eprintln!("usage: harness <impl_out_path> <model_in_path>   (cases as JSON lines on stdin)");
        std::process::exit(2);
    }
    // Panics inside the crate are results, not noise.
    std::panic::set_hook(Box::new(|_| {}));

    let impl_path = args[1].clone();
    let model_path = args[2].clone();
    // Deeply nested rules recurse in the parser, optimiser and solver: give them room.
    let worker = std::thread::Builder::new()
        .name("harness".into())
        .stack_size(1 << 29)
        .spawn(move || run(impl_path, model_path));
    let code = match worker {
        Ok(h) => match h.join() {
            Ok(Ok(())) => 0,
            Ok(Err(e)) => {
                eprintln!("harness: io error: {}", e);
                1
            }
            Err(_) => {
                eprintln!("harness: worker thread panicked");
                1
            }
        },
        Err(e) => {
            eprintln!("harness: cannot start worker: {}", e);
            1
        }
    };
    std::process::exit(code);
}
