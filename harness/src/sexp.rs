//! S-expression writer and renderers for everything PROTOCOL.md names:
//! strings `S`, YAML values `Y`, tokens `TK`, expressions `E`, searches `SR`,
//! patterns `P`, and crate `Value`s seen through the trait objects.
//!
//! Canonical layout: one space between siblings, none after `(` or before `)`.

use std::fmt::Write as _;

use tau_engine::core::parser::{
    BoolSym, DelSym, Expression, Identifier, Match, MatchSym, MatchType, MiscSym, ModSym, Pattern,
    Search, Token,
};
use tau_engine::Value;

pub struct Sx {
    pub buf: String,
}

impl Sx {
    pub fn new() -> Self {
        Sx {
            buf: String::with_capacity(256),
        }
    }

    #[inline]
    fn sep(&mut self) {
        if let Some(&c) = self.buf.as_bytes().last() {
            if c != b'(' {
                self.buf.push(' ');
            }
        }
    }

    /// `(`
    #[inline]
    pub fn open(&mut self) {
        self.sep();
        self.buf.push('(');
    }

    /// `)`
    #[inline]
    pub fn close(&mut self) {
        self.buf.push(')');
    }

    /// A bare symbol (or any pre-rendered text).
    #[inline]
    pub fn atom(&mut self, a: &str) {
        self.sep();
        self.buf.push_str(a);
    }

    /// `(head`
    #[inline]
    pub fn head(&mut self, h: &str) {
        self.open();
        self.buf.push_str(h);
    }

    /// `(head)`
    #[inline]
    pub fn unit(&mut self, h: &str) {
        self.head(h);
        self.close();
    }

    #[inline]
    pub fn int<T: std::fmt::Display>(&mut self, n: T) {
        self.sep();
        let _ = write!(self.buf, "{}", n);
    }

    #[inline]
    pub fn bool(&mut self, b: bool) {
        self.atom(if b { "1" } else { "0" });
    }

    #[inline]
    pub fn bits(&mut self, f: f64) {
        self.int(f.to_bits());
    }

    /// `(s c1 c2 ...)`
    pub fn str(&mut self, s: &str) {
        self.head("s");
        for c in s.chars() {
            self.int(c as u32);
        }
        self.close();
    }

    pub fn finish(self) -> String {
        self.buf
    }
}

// ---------------------------------------------------------------------------------------------
// YAML values
// ---------------------------------------------------------------------------------------------

pub fn yaml(w: &mut Sx, y: &serde_yaml::Value) {
    use serde_yaml::Value as Y;
    match y {
        Y::Null => w.unit("ynull"),
        Y::Bool(b) => {
            w.head("ybool");
            w.bool(*b);
            w.close();
        }
        Y::Number(n) => {
            if n.is_i64() || n.is_u64() {
                w.head("yint");
                match n.as_i64() {
                    Some(i) if i < 0 => w.int(i),
                    _ => match n.as_u64() {
                        Some(u) => w.int(u),
                        None => w.int(n.as_i64().unwrap_or(0)),
                    },
                }
                w.close();
            } else {
                w.head("yfloat");
                w.bits(n.as_f64().unwrap_or(f64::NAN));
                w.close();
            }
        }
        Y::String(s) => {
            w.head("ystr");
            w.str(s);
            w.close();
        }
        Y::Sequence(s) => {
            w.head("yseq");
            for v in s {
                yaml(w, v);
            }
            w.close();
        }
        Y::Mapping(m) => {
            w.head("ymap");
            for (k, v) in m {
                w.open();
                yaml(w, k);
                yaml(w, v);
                w.close();
            }
            w.close();
        }
        Y::Tagged(t) => {
            w.head("ytag");
            w.str(&t.tag.to_string());
            yaml(w, &t.value);
            w.close();
        }
    }
}

// ---------------------------------------------------------------------------------------------
// Tokens
// ---------------------------------------------------------------------------------------------

pub fn boolsym(s: &BoolSym) -> &'static str {
    match s {
        BoolSym::And => "and",
        BoolSym::Or => "or",
        BoolSym::Equal => "eq",
        BoolSym::GreaterThan => "gt",
        BoolSym::GreaterThanOrEqual => "ge",
        BoolSym::LessThan => "lt",
        BoolSym::LessThanOrEqual => "le",
    }
}

pub fn modsym(s: &ModSym) -> &'static str {
    match s {
        ModSym::Flt => "flt",
        ModSym::Int => "int",
        ModSym::Not => "not",
        ModSym::Str => "str",
    }
}

pub fn token(w: &mut Sx, t: &Token) {
    match t {
        Token::Identifier(s) => {
            w.head("id");
            w.str(s);
            w.close();
        }
        Token::Integer(i) => {
            w.head("int");
            w.int(*i);
            w.close();
        }
        Token::Float(f) => {
            w.head("float");
            w.bits(*f);
            w.close();
        }
        Token::Operator(o) => {
            w.head("op");
            w.atom(boolsym(o));
            w.close();
        }
        Token::Delimiter(d) => {
            w.head("del");
            w.atom(match d {
                DelSym::Comma => "comma",
                DelSym::LeftParenthesis => "lp",
                DelSym::RightParenthesis => "rp",
            });
            w.close();
        }
        Token::Modifier(m) => {
            w.head("mod");
            w.atom(modsym(m));
            w.close();
        }
        Token::Miscellaneous(m) => {
            w.head("misc");
            w.atom(match m {
                MiscSym::Not => "not",
            });
            w.close();
        }
        Token::Match(m) => {
            w.head("match");
            w.atom(match m {
                MatchSym::All => "all",
                MatchSym::Of => "of",
            });
            w.close();
        }
    }
}

// ---------------------------------------------------------------------------------------------
// Expressions
// ---------------------------------------------------------------------------------------------

fn tagged_str(w: &mut Sx, head: &str, s: &str) {
    w.head(head);
    w.str(s);
    w.close();
}

fn match_type(w: &mut Sx, m: &MatchType) {
    match m {
        MatchType::Contains(s) => tagged_str(w, "contains", s),
        MatchType::EndsWith(s) => tagged_str(w, "endswith", s),
        MatchType::Exact(s) => tagged_str(w, "exact", s),
        MatchType::StartsWith(s) => tagged_str(w, "startswith", s),
    }
}

pub fn search(w: &mut Sx, s: &Search) {
    match s {
        Search::AhoCorasick(_, mts, ci) => {
            w.head("aho");
            w.open();
            for m in mts {
                match_type(w, m);
            }
            w.close();
            w.bool(*ci);
            w.close();
        }
        Search::Any => w.unit("any"),
        Search::Contains(s) => tagged_str(w, "contains", s),
        Search::EndsWith(s) => tagged_str(w, "endswith", s),
        Search::Exact(s) => tagged_str(w, "exact", s),
        Search::StartsWith(s) => tagged_str(w, "startswith", s),
        Search::Regex(r, ci) => {
            w.head("regex");
            w.str(r.as_str());
            w.bool(*ci);
            w.close();
        }
        Search::RegexSet(rs, ci) => {
            w.head("regexset");
            w.open();
            for p in rs.patterns() {
                w.str(p);
            }
            w.close();
            w.bool(*ci);
            w.close();
        }
    }
}

pub fn expr(w: &mut Sx, e: &Expression) {
    match e {
        Expression::BooleanGroup(sym, es) => {
            w.head("group");
            w.atom(boolsym(sym));
            for e in es {
                expr(w, e);
            }
            w.close();
        }
        Expression::BooleanExpression(l, sym, r) => {
            w.head("bexp");
            expr(w, l);
            w.atom(boolsym(sym));
            expr(w, r);
            w.close();
        }
        Expression::Boolean(b) => {
            w.head("bool");
            w.bool(*b);
            w.close();
        }
        Expression::Cast(s, m) => {
            w.head("cast");
            w.str(s);
            w.atom(modsym(m));
            w.close();
        }
        Expression::Field(s) => tagged_str(w, "field", s),
        Expression::Float(f) => {
            w.head("float");
            w.bits(*f);
            w.close();
        }
        Expression::Identifier(s) => tagged_str(w, "ident", s),
        Expression::Integer(i) => {
            w.head("int");
            w.int(*i);
            w.close();
        }
        Expression::Match(m, e) => {
            w.head("match");
            match m {
                Match::All => w.atom("all"),
                Match::Of(n) => {
                    w.head("of");
                    w.int(*n);
                    w.close();
                }
            }
            expr(w, e);
            w.close();
        }
        Expression::Matrix(cols, rows) => {
            w.head("matrix");
            w.open();
            for c in cols {
                w.str(c);
            }
            w.close();
            w.open();
            for row in rows {
                w.open();
                for cell in row {
                    match cell {
                        None => w.unit("none"),
                        Some(e) => {
                            w.head("some");
                            expr(w, e);
                            w.close();
                        }
                    }
                }
                w.close();
            }
            w.close();
            w.close();
        }
        Expression::Negate(e) => {
            w.head("neg");
            expr(w, e);
            w.close();
        }
        Expression::Nested(s, e) => {
            w.head("nested");
            w.str(s);
            expr(w, e);
            w.close();
        }
        Expression::Null => w.unit("null"),
        Expression::Search(s, f, cast) => {
            w.head("search");
            search(w, s);
            w.str(f);
            w.bool(*cast);
            w.close();
        }
    }
}

// ---------------------------------------------------------------------------------------------
// Identifier patterns
// ---------------------------------------------------------------------------------------------

pub fn identifier(w: &mut Sx, i: &Identifier) {
    fn z(w: &mut Sx, h: &str, n: i64) {
        w.head(h);
        w.int(n);
        w.close();
    }
    fn f(w: &mut Sx, h: &str, n: f64) {
        w.head(h);
        w.bits(n);
        w.close();
    }
    match &i.pattern {
        Pattern::Any => w.unit("any"),
        Pattern::Contains(s) => tagged_str(w, "contains", s),
        Pattern::EndsWith(s) => tagged_str(w, "endswith", s),
        Pattern::Exact(s) => tagged_str(w, "exact", s),
        Pattern::StartsWith(s) => tagged_str(w, "startswith", s),
        Pattern::Regex(r) => tagged_str(w, "regex", r.as_str()),
        Pattern::Equal(n) => z(w, "eq", *n),
        Pattern::GreaterThan(n) => z(w, "gt", *n),
        Pattern::GreaterThanOrEqual(n) => z(w, "ge", *n),
        Pattern::LessThan(n) => z(w, "lt", *n),
        Pattern::LessThanOrEqual(n) => z(w, "le", *n),
        Pattern::FEqual(n) => f(w, "feq", *n),
        Pattern::FGreaterThan(n) => f(w, "fgt", *n),
        Pattern::FGreaterThanOrEqual(n) => f(w, "fge", *n),
        Pattern::FLessThan(n) => f(w, "flt", *n),
        Pattern::FLessThanOrEqual(n) => f(w, "fle", *n),
    }
    w.bool(i.ignore_case);
}

// ---------------------------------------------------------------------------------------------
// Crate values seen only through the trait objects (fallback renderer; `doc.rs` renders the
// harness' own tree directly whenever the returned reference can be located in it).
// ---------------------------------------------------------------------------------------------

pub fn value_via_traits(w: &mut Sx, v: &Value<'_>) {
    match v {
        Value::Null => w.unit("null"),
        Value::Bool(b) => {
            w.head("bool");
            w.bool(*b);
            w.close();
        }
        Value::Float(f) => {
            w.head("float");
            w.bits(*f);
            w.close();
        }
        Value::Int(i) => {
            w.head("int");
            w.int(*i);
            w.close();
        }
        Value::UInt(u) => {
            w.head("uint");
            w.int(*u);
            w.close();
        }
        Value::String(s) => {
            w.head("str");
            w.str(s);
            w.close();
        }
        Value::Array(a) => {
            w.head("arr");
            for x in a.iter() {
                value_via_traits(w, &x);
            }
            w.close();
        }
        Value::Object(o) => {
            w.head("obj");
            for k in o.keys() {
                w.open();
                w.str(&k);
                match o.get(&k) {
                    Some(x) => value_via_traits(w, &x),
                    None => w.unit("none"),
                }
                w.close();
            }
            w.close();
        }
    }
}
