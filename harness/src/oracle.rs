//! Oracle tables `O` (model.in only), filled per "Oracle closure" in PROTOCOL.md.
//!
//!   RS  strings of the rule YAML (keys and values, any depth) / the input string
//!   DS  string leaves of the documents + `to_string` renderings of their scalars
//!
//! Every table is de-duplicated and printed in sorted order so that the output is deterministic.

use std::collections::{BTreeMap, BTreeSet, HashMap};

use regex::{Regex, RegexBuilder};

use crate::sexp::Sx;

/// Compiled regexes are kept across cases: the same patterns recur a lot.
pub struct RegexCache {
    map: HashMap<(String, bool), Option<Regex>>,
}

const CACHE_LIMIT: usize = 20_000;

impl RegexCache {
    pub fn new() -> Self {
        RegexCache {
            map: HashMap::new(),
        }
    }

    fn get(&mut self, p: &str, ci: bool) -> Option<&Regex> {
        if self.map.len() > CACHE_LIMIT {
            self.map.clear();
        }
        self.map
            .entry((p.to_owned(), ci))
            .or_insert_with(|| RegexBuilder::new(p).case_insensitive(ci).build().ok())
            .as_ref()
    }
}

#[derive(Default)]
pub struct Inputs {
    pub rs: BTreeSet<String>,
    pub ds: BTreeSet<String>,
    /// Floats that occur in a document or in the rule YAML.
    pub floats: Vec<f64>,
}

impl Inputs {
    pub fn new() -> Self {
        Self::default()
    }

    /// RS + floats of a YAML value (keys and values, any depth).
    pub fn add_yaml_rs(&mut self, y: &serde_yaml::Value) {
        use serde_yaml::Value as Y;
        match y {
            Y::Null | Y::Bool(_) => {}
            Y::Number(n) => {
                if !(n.is_i64() || n.is_u64()) {
                    if let Some(f) = n.as_f64() {
                        self.floats.push(f);
                    }
                }
            }
            Y::String(s) => {
                if !self.rs.contains(s.as_str()) {
                    self.rs.insert(s.clone());
                }
            }
            Y::Sequence(s) => {
                for v in s {
                    self.add_yaml_rs(v);
                }
            }
            Y::Mapping(m) => {
                for (k, v) in m {
                    self.add_yaml_rs(k);
                    self.add_yaml_rs(v);
                }
            }
            Y::Tagged(t) => self.add_yaml_rs(&t.value),
        }
    }

    /// A YAML value used *as a document* (true_positives / true_negatives under `validate`):
    /// its leaves go to DS exactly as the crate's `AsValue for serde_yaml::Value` exposes them.
    pub fn add_yaml_ds(&mut self, y: &serde_yaml::Value) {
        use serde_yaml::Value as Y;
        match y {
            Y::Null => {}
            Y::Bool(b) => {
                self.ds.insert(b.to_string());
            }
            Y::Number(n) => {
                if let Some(u) = n.as_u64() {
                    self.ds.insert(u.to_string());
                } else if let Some(i) = n.as_i64() {
                    self.ds.insert(i.to_string());
                } else if let Some(f) = n.as_f64() {
                    self.ds.insert(f.to_string());
                    self.floats.push(f);
                }
            }
            Y::String(s) => {
                if !self.ds.contains(s.as_str()) {
                    self.ds.insert(s.clone());
                }
            }
            Y::Sequence(s) => {
                for v in s {
                    self.add_yaml_ds(v);
                }
            }
            Y::Mapping(m) => {
                for (_, v) in m {
                    self.add_yaml_ds(v);
                }
            }
            Y::Tagged(t) => self.add_yaml_ds(&t.value),
        }
    }
}

/// All regex sources the crate can derive from `r`:
///  * drop 0 or 1 leading `i`, then exactly one leading `?`                     (into_identifier)
///  * optionally strip a leading `.*` and/or a trailing `.*`                    (rewrite)
fn regex_candidates(r: &str, out: &mut BTreeSet<String>) {
    let mut bases: Vec<&str> = Vec::with_capacity(2);
    if let Some(x) = r.strip_prefix('?') {
        bases.push(x);
    }
    if let Some(x) = r.strip_prefix('i').and_then(|x| x.strip_prefix('?')) {
        bases.push(x);
    }
    for b in bases {
        let no_head = b.strip_prefix(".*");
        let no_tail = b.strip_suffix(".*");
        out.insert(b.to_owned());
        if let Some(x) = no_head {
            out.insert(x.to_owned());
            // the crate strips the prefix first, then the suffix of what is left
            if let Some(y) = x.strip_suffix(".*") {
                out.insert(y.to_owned());
            }
        }
        if let Some(x) = no_tail {
            out.insert(x.to_owned());
            if let Some(y) = x.strip_prefix(".*") {
                out.insert(y.to_owned());
            }
        }
    }
}

fn fparse_candidates(r: &str, out: &mut BTreeSet<String>) {
    // suffixes from character offsets 0..=3
    // (offset == number of characters gives the empty suffix)
    for i in r
        .char_indices()
        .map(|(i, _)| i)
        .chain(std::iter::once(r.len()))
        .take(4)
    {
        out.insert(r[i..].to_owned());
    }
    // maximal runs of `is_numeric() || '.'`
    let mut run = String::new();
    for c in r.chars() {
        if c.is_numeric() || c == '.' {
            run.push(c);
        } else if !run.is_empty() {
            out.insert(std::mem::take(&mut run));
        }
    }
    if !run.is_empty() {
        out.insert(run);
    }
}

pub fn render(w: &mut Sx, inp: &Inputs, cache: &mut RegexCache) {
    // ---- re / rem ----------------------------------------------------------------------------
    let mut pats: BTreeSet<String> = BTreeSet::new();
    for r in &inp.rs {
        regex_candidates(r, &mut pats);
    }

    w.head("oracle");

    w.head("re");
    let mut compiling: Vec<(&str, bool)> = Vec::new();
    for p in &pats {
        for ci in [false, true] {
            let ok = cache.get(p, ci).is_some();
            w.open();
            w.str(p);
            w.bool(ci);
            w.bool(ok);
            w.close();
            if ok {
                compiling.push((p.as_str(), ci));
            }
        }
    }
    w.close();

    w.head("rem");
    if !inp.ds.is_empty() {
        for (p, ci) in &compiling {
            // sorted by (pattern, ci, haystack) since `pats` and `ds` are both ordered
            let re = match cache.get(p, *ci) {
                Some(re) => re.clone(),
                None => continue,
            };
            for d in &inp.ds {
                w.open();
                w.str(p);
                w.bool(*ci);
                w.str(d);
                w.bool(re.is_match(d));
                w.close();
            }
        }
    }
    w.close();

    // ---- fparse ------------------------------------------------------------------------------
    let mut fp_in: BTreeSet<String> = BTreeSet::new();
    for d in &inp.ds {
        fp_in.insert(d.clone());
    }
    for r in &inp.rs {
        fparse_candidates(r, &mut fp_in);
    }
    let mut fshow: BTreeMap<u64, String> = BTreeMap::new();
    for f in &inp.floats {
        fshow.entry(f.to_bits()).or_insert_with(|| f.to_string());
    }
    w.head("fparse");
    for s in &fp_in {
        w.open();
        w.str(s);
        match s.parse::<f64>() {
            Ok(f) => {
                w.bits(f);
                fshow.entry(f.to_bits()).or_insert_with(|| f.to_string());
            }
            Err(_) => w.atom("none"),
        }
        w.close();
    }
    w.close();

    // ---- fshow -------------------------------------------------------------------------------
    w.head("fshow");
    for (bits, s) in &fshow {
        w.open();
        w.int(*bits);
        w.str(s);
        w.close();
    }
    w.close();

    // ---- alnum / num -------------------------------------------------------------------------
    let mut chars: BTreeSet<char> = BTreeSet::new();
    for r in &inp.rs {
        for c in r.chars() {
            if !c.is_ascii() {
                chars.insert(c);
            }
        }
    }
    w.head("alnum");
    for c in &chars {
        w.open();
        w.int(*c as u32);
        w.bool(c.is_alphanumeric());
        w.close();
    }
    w.close();
    w.head("num");
    for c in &chars {
        w.open();
        w.int(*c as u32);
        w.bool(c.is_numeric());
        w.close();
    }
    w.close();

    w.close();
}
