//! Crate-only case kinds (PROTOCOL.md, "Crate-only kinds"): `rep` (representation
//! independence), `det` (determinism) and `rt` (serialisation round-trip).
//!
//! None of them is evaluated by the model: the `model.in` line is always `(ID skip)`.
//! Every call into the tau-engine crate runs under `guarded()`.

use std::collections::{BTreeSet, HashMap, HashSet};
use std::sync::Arc;

use tau_engine::core::parser::Expression;
use tau_engine::{AsValue, Document, Object, Optimisations, Rule, Value};

use crate::doc::{self, DObj, DV};
use crate::sexp::{self, Sx};
use crate::{begin, guarded, observe_doc, Out};

// ---------------------------------------------------------------------------------------------
// shared
// ---------------------------------------------------------------------------------------------

fn done(w: Sx, id: &str) -> Out {
    (w.finish(), format!("({} skip)", id))
}

fn tagged(w: &mut Sx, head: &str, word: &str) {
    w.head(head);
    w.atom(word);
    w.close();
}

/// A verdict string as an atom; the empty string (no documents) is written as `e`.
fn vatom(w: &mut Sx, s: &str) {
    if s.is_empty() {
        w.atom("e");
    } else {
        w.atom(s);
    }
}

fn rule_and_docs(v: &serde_json::Value) -> Option<(String, Vec<DObj>)> {
    let text = v.get("rule")?.as_str()?.to_owned();
    let mut docs: Vec<DObj> = Vec::new();
    for d in v.get("docs")?.as_array()? {
        docs.push(doc::parse_doc(d)?);
    }
    Some((text, docs))
}

/// `Rule::from_str`; on failure the word to print after `load`.
fn load(text: &str) -> Result<Rule, &'static str> {
    match guarded(|| Rule::from_str(text)) {
        None => Err("panic"),
        Some(Err(_)) => Err("err"),
        Some(Ok(r)) => Ok(r),
    }
}

fn from_value_word(text: &str) -> &'static str {
    match serde_yaml::from_str::<serde_yaml::Value>(text) {
        Err(_) => "err",
        Ok(y) => match guarded(|| Rule::from_value(y)) {
            None => "panic",
            Some(Err(_)) => "err",
            Some(Ok(_)) => "ok",
        },
    }
}

/// from_value of the text's YAML value next to the rule from_str built from the text: `ok` only
/// if it loads to the same trees and the same examples.
fn from_value_same(text: &str, r1: &Rule) -> &'static str {
    match serde_yaml::from_str::<serde_yaml::Value>(text) {
        Err(_) => "err",
        Ok(y) => match guarded(|| Rule::from_value(y)) {
            None => "panic",
            Some(Err(_)) => "err",
            Some(Ok(r2)) => {
                if same_trees(r1, &r2)
                    && r1.true_positives == r2.true_positives
                    && r1.true_negatives == r2.true_negatives
                {
                    "ok"
                } else {
                    "differs"
                }
            }
        },
    }
}

#[allow(dead_code)]
fn load_failed(id: &str, word: &str) -> Out {
    let mut w = begin(id);
    tagged(&mut w, "load", word);
    w.close();
    done(w, id)
}

fn opts(n: u8) -> Optimisations {
    Optimisations {
        coalesce: n & 1 != 0,
        shake: n & 2 != 0,
        rewrite: n & 4 != 0,
        matrix: n & 8 != 0,
    }
}

/// Three-valued verdicts (t/f/m/p) of a rule over the harness' own trees; `x` if the negated
/// expression cannot even be built.
fn verdicts(rule: &Rule, docs: &[DObj]) -> String {
    let expr = &rule.detection.expression;
    let ids = &rule.detection.identifiers;
    match guarded(|| Expression::Negate(Box::new(expr.clone()))) {
        None => "x".to_string(),
        Some(negated) => docs
            .iter()
            .map(|d| observe_doc(expr, &negated, ids, d))
            .collect(),
    }
}

/// The protocol rendering of `detection.expression` and the identifiers sorted by name.
fn trees(rule: &Rule) -> Option<String> {
    guarded(|| {
        let mut w = Sx::new();
        w.head("cond");
        sexp::expr(&mut w, &rule.detection.expression);
        w.close();
        w.head("ids");
        let mut names: Vec<&String> = rule.detection.identifiers.keys().collect();
        names.sort();
        for n in names {
            w.open();
            w.str(n);
            sexp::expr(&mut w, &rule.detection.identifiers[n]);
            w.close();
        }
        w.close();
        w.finish()
    })
}

// ---------------------------------------------------------------------------------------------
// rep: the same document in several representations
//
// Map-based representations cannot hold duplicate keys: the first entry is kept, which is the
// entry `DObj::get` returns (the solver never asks an object for `keys()` / `len()`).
// ---------------------------------------------------------------------------------------------

fn first_entries(o: &DObj) -> Vec<(&String, &DV)> {
    let mut seen: HashSet<&str> = HashSet::new();
    let mut out = Vec::with_capacity(o.0.len());
    for (k, v) in &o.0 {
        if seen.insert(k.as_str()) {
            out.push((k, v));
        }
    }
    out
}

fn to_yaml(v: &DV) -> serde_yaml::Value {
    use serde_yaml::Value as Y;
    match v {
        DV::Null => Y::Null,
        DV::Bool(b) => Y::Bool(*b),
        DV::Float(f) => Y::Number(serde_yaml::Number::from(*f)),
        DV::Int(i) => Y::Number(serde_yaml::Number::from(*i)),
        DV::UInt(u) => Y::Number(serde_yaml::Number::from(*u)),
        DV::Str(s) => Y::String(s.clone()),
        DV::Arr(a) => Y::Sequence(a.iter().map(to_yaml).collect()),
        DV::Obj(o) => Y::Mapping(to_yaml_mapping(o)),
    }
}

fn to_yaml_mapping(o: &DObj) -> serde_yaml::Mapping {
    let mut m = serde_yaml::Mapping::new();
    for (k, v) in first_entries(o) {
        m.insert(serde_yaml::Value::String(k.clone()), to_yaml(v));
    }
    m
}

/// `None` if a NaN / infinite float occurs anywhere.
fn to_json(v: &DV) -> Option<serde_json::Value> {
    use serde_json::Value as J;
    Some(match v {
        DV::Null => J::Null,
        DV::Bool(b) => J::Bool(*b),
        DV::Float(f) => J::Number(serde_json::Number::from_f64(*f)?),
        DV::Int(i) => J::Number(serde_json::Number::from(*i)),
        DV::UInt(u) => J::Number(serde_json::Number::from(*u)),
        DV::Str(s) => J::String(s.clone()),
        DV::Arr(a) => {
            let mut out = Vec::with_capacity(a.len());
            for x in a {
                out.push(to_json(x)?);
            }
            J::Array(out)
        }
        DV::Obj(o) => J::Object(to_json_map(o)?),
    })
}

fn to_json_map(o: &DObj) -> Option<serde_json::Map<String, serde_json::Value>> {
    let mut m = serde_json::Map::new();
    for (k, v) in first_entries(o) {
        m.insert(k.clone(), to_json(v)?);
    }
    Some(m)
}

/// A hand-written `Document` (not `Object`): splits the key on `.` itself and walks the tree.
struct Custom<'a>(&'a DObj);

impl Document for Custom<'_> {
    fn find(&self, key: &str) -> Option<Value<'_>> {
        if key.contains('[') {
            return Object::find(self.0, key);
        }
        let mut cur: &DObj = self.0;
        let mut parts = key.split('.').peekable();
        while let Some(k) = parts.next() {
            let v = cur.0.iter().find(|(n, _)| n == k).map(|(_, v)| v)?;
            if parts.peek().is_none() {
                return Some(v.as_value());
            }
            match v {
                DV::Obj(o) => cur = o,
                _ => return None,
            }
        }
        None
    }
}

// ---- flat -----------------------------------------------------------------------------------

#[derive(Clone, Copy, PartialEq)]
enum Leaf {
    Str,
    Int,
    Float,
    Bool,
}

#[derive(Clone, Copy)]
enum Shape {
    /// `HashMap<String, T>`
    Scalar,
    /// `HashMap<String, Option<T>>`
    Opt,
    /// `HashMap<String, Vec<T>>`
    Arr,
}

struct FlatPlan {
    /// `None`: no typed leaf at all (empty document, only nulls, only empty arrays)
    leaf: Option<Leaf>,
    shape: Shape,
    nonneg: bool,
    fit_i64: bool,
}

fn flat_plan(d: &DObj) -> Option<FlatPlan> {
    let mut leaf: Option<Leaf> = None;
    let mut nonneg = true;
    let mut fit_i64 = true;
    let mut note = |v: &DV| -> Option<()> {
        let l = match v {
            DV::Str(_) => Leaf::Str,
            DV::Float(_) => Leaf::Float,
            DV::Bool(_) => Leaf::Bool,
            DV::Int(i) => {
                if *i < 0 {
                    nonneg = false;
                }
                Leaf::Int
            }
            DV::UInt(u) => {
                if *u > i64::MAX as u64 {
                    fit_i64 = false;
                }
                Leaf::Int
            }
            DV::Null | DV::Arr(_) | DV::Obj(_) => return None,
        };
        match leaf {
            None => {
                leaf = Some(l);
                Some(())
            }
            Some(x) if x == l => Some(()),
            Some(_) => None,
        }
    };
    let (mut scalars, mut arrays, mut nulls) = (0usize, 0usize, 0usize);
    for (_, v) in first_entries(d) {
        match v {
            DV::Null => {
                scalars += 1;
                nulls += 1;
            }
            DV::Arr(items) => {
                arrays += 1;
                for x in items {
                    note(x)?;
                }
            }
            DV::Obj(_) => return None,
            other => {
                scalars += 1;
                note(other)?;
            }
        }
    }
    let shape = if arrays == 0 {
        if nulls > 0 {
            Shape::Opt
        } else {
            Shape::Scalar
        }
    } else if scalars == 0 {
        Shape::Arr
    } else {
        return None;
    };
    Some(FlatPlan {
        leaf,
        shape,
        nonneg,
        fit_i64,
    })
}

/// Builds `HashMap<String, T>` / `HashMap<String, Option<T>>` / `HashMap<String, Vec<T>>` and
/// observes it (all three are `Document`s through the crate's blanket `Object` impl).
fn flat_eval<T: AsValue>(
    d: &DObj,
    shape: Shape,
    conv: impl Fn(&DV) -> Option<T>,
    obs: &dyn Fn(&dyn Document) -> char,
) -> Option<char> {
    let entries = first_entries(d);
    Some(match shape {
        Shape::Scalar => {
            let mut m: HashMap<String, T> = HashMap::new();
            for (k, v) in entries {
                m.insert(k.clone(), conv(v)?);
            }
            obs(&m)
        }
        Shape::Opt => {
            let mut m: HashMap<String, Option<T>> = HashMap::new();
            for (k, v) in entries {
                let x = match v {
                    DV::Null => None,
                    other => Some(conv(other)?),
                };
                m.insert(k.clone(), x);
            }
            obs(&m)
        }
        Shape::Arr => {
            let mut m: HashMap<String, Vec<T>> = HashMap::new();
            for (k, v) in entries {
                let items = match v {
                    DV::Arr(items) => items,
                    _ => return None,
                };
                let mut out = Vec::with_capacity(items.len());
                for x in items {
                    out.push(conv(x)?);
                }
                m.insert(k.clone(), out);
            }
            obs(&m)
        }
    })
}

fn conv_string(v: &DV) -> Option<String> {
    match v {
        DV::Str(s) => Some(s.clone()),
        _ => None,
    }
}

fn conv_i64(v: &DV) -> Option<i64> {
    match v {
        DV::Int(i) => Some(*i),
        DV::UInt(u) => i64::try_from(*u).ok(),
        _ => None,
    }
}

fn conv_u64(v: &DV) -> Option<u64> {
    match v {
        DV::UInt(u) => Some(*u),
        DV::Int(i) => u64::try_from(*i).ok(),
        _ => None,
    }
}

fn conv_f64(v: &DV) -> Option<f64> {
    match v {
        DV::Float(f) => Some(*f),
        _ => None,
    }
}

fn conv_bool(v: &DV) -> Option<bool> {
    match v {
        DV::Bool(b) => Some(*b),
        _ => None,
    }
}

/// (`flat`, `flat_i64`)
fn flat_pair(d: &DObj, obs: &dyn Fn(&dyn Document) -> char) -> (char, char) {
    let plan = match flat_plan(d) {
        Some(p) => p,
        None => return ('-', '-'),
    };
    let s = plan.shape;
    let flat = match plan.leaf {
        None | Some(Leaf::Str) => flat_eval(d, s, conv_string, obs),
        Some(Leaf::Float) => flat_eval(d, s, conv_f64, obs),
        Some(Leaf::Bool) => flat_eval(d, s, conv_bool, obs),
        Some(Leaf::Int) => {
            if plan.nonneg {
                flat_eval(d, s, conv_u64, obs)
            } else if plan.fit_i64 {
                flat_eval(d, s, conv_i64, obs)
            } else {
                None
            }
        }
    };
    let flat_i64 = if plan.leaf == Some(Leaf::Int) && plan.fit_i64 {
        flat_eval(d, s, conv_i64, obs)
    } else {
        None
    };
    (flat.unwrap_or('-'), flat_i64.unwrap_or('-'))
}

pub fn case_rep(id: &str, v: &serde_json::Value) -> Option<Out> {
    let (text, docs) = rule_and_docs(v)?;
    let rule = match load(&text) {
        Ok(r) => r,
        Err(word) => return Some(load_failed(id, word)),
    };
    let expr = &rule.detection.expression;
    let ids = &rule.detection.identifiers;

    const NAMES: [&str; 7] = ["dv", "yaml", "json", "hjson", "flat", "flat_i64", "custom"];
    let mut strs: Vec<String> = NAMES.iter().map(|_| String::with_capacity(docs.len())).collect();

    match guarded(|| Expression::Negate(Box::new(expr.clone()))) {
        None => {
            for s in strs.iter_mut() {
                s.push('x');
            }
        }
        Some(negated) => {
            let obs = |d: &dyn Document| observe_doc(expr, &negated, ids, d);
            for d in &docs {
                let mut row: [char; 7] = ['-'; 7];
                row[0] = obs(d);
                let mapping = to_yaml_mapping(d);
                row[1] = obs(&mapping);
                if let Some(map) = to_json_map(d) {
                    let top: HashMap<String, serde_json::Value> =
                        map.iter().map(|(k, v)| (k.clone(), v.clone())).collect();
                    let value = serde_json::Value::Object(map);
                    row[2] = obs(&value);
                    row[3] = obs(&top);
                }
                let (flat, flat_i64) = flat_pair(d, &obs);
                row[4] = flat;
                row[5] = flat_i64;
                row[6] = obs(&Custom(d));
                for (s, c) in strs.iter_mut().zip(row) {
                    s.push(c);
                }
            }
        }
    }

    let mut w = begin(id);
    tagged(&mut w, "load", "ok");
    for (name, s) in NAMES.iter().zip(&strs) {
        w.head("rep");
        w.atom(name);
        vatom(&mut w, s);
        w.close();
    }
    w.close();
    Some(done(w, id))
}

// ---------------------------------------------------------------------------------------------
// det: repeated optimise() (fresh hash seeds), shared-rule threads, purity of matches()
// ---------------------------------------------------------------------------------------------

/// `Arc<Rule>` crosses threads below, which the compiler accepts only for `Rule: Send + Sync`.
#[allow(dead_code)]
fn rule_is_send_sync() {
    fn check<T: Send + Sync>() {}
    check::<Rule>();
    check::<DObj>();
}

fn display(rule: &Rule) -> String {
    guarded(|| {
        let mut parts = vec![format!("{}", rule.detection.expression)];
        let mut names: Vec<&String> = rule.detection.identifiers.keys().collect();
        names.sort();
        for n in names {
            parts.push(format!("{}", rule.detection.identifiers[n]));
        }
        parts.join(";")
    })
    .unwrap_or_else(|| "panic".to_string())
}

fn matches_char(rule: &Rule, d: &DObj) -> char {
    match guarded(|| rule.matches(d)) {
        None => 'p',
        Some(true) => '1',
        Some(false) => '0',
    }
}

const ROUNDS: usize = 50;

/// Number of distinct per-thread results.  Per document a thread reports `1` / `0` (the same
/// in all rounds), `v` (varied between rounds) or `p` (panicked at least once).
fn thread_test(rule: Arc<Rule>, docs: Arc<Vec<DObj>>, threads: usize) -> usize {
    let mut handles = Vec::with_capacity(threads);
    for t in 0..threads {
        let rule = Arc::clone(&rule);
        let docs = Arc::clone(&docs);
        let h = std::thread::Builder::new()
            .stack_size(1 << 26)
            .spawn(move || {
                let n = docs.len();
                let mut out: Vec<char> = vec!['-'; n];
                if n == 0 {
                    return String::new();
                }
                let off = t % n;
                for _ in 0..ROUNDS {
                    for j in 0..n {
                        let i = (j + off) % n;
                        let c = matches_char(&rule, &docs[i]);
                        out[i] = match (out[i], c) {
                            ('-', c) => c,
                            ('p', _) | (_, 'p') => 'p',
                            (a, b) if a == b => a,
                            _ => 'v',
                        };
                    }
                }
                out.into_iter().collect::<String>()
            })
            .expect("spawn");
        handles.push(h);
    }
    let mut seen: BTreeSet<String> = BTreeSet::new();
    for h in handles {
        seen.insert(h.join().unwrap_or_else(|_| "thread_panic".to_string()));
    }
    seen.len()
}

fn pure(rule: &Rule, docs: &[DObj]) -> bool {
    let fwd: Vec<char> = docs.iter().map(|d| matches_char(rule, d)).collect();
    let mut rev: Vec<char> = docs.iter().rev().map(|d| matches_char(rule, d)).collect();
    rev.reverse();
    let again: Vec<char> = docs.iter().map(|d| matches_char(rule, d)).collect();
    fwd == rev && fwd == again
}

pub fn case_det(id: &str, v: &serde_json::Value) -> Option<Out> {
    let (text, docs) = rule_and_docs(v)?;
    let mut sw: Vec<u8> = Vec::new();
    for n in v.get("sw")?.as_array()? {
        let n = n.as_u64()?;
        if n > 15 {
            return None;
        }
        sw.push(n as u8);
    }
    let reps = v.get("reps")?.as_u64()?;
    let threads = v.get("threads")?.as_u64()?;
    if reps == 0 || reps > 100_000 || threads == 0 || threads > 256 {
        return None;
    }
    let rule = match load(&text) {
        Ok(r) => r,
        Err(word) => return Some(load_failed(id, word)),
    };

    let mut w = begin(id);
    tagged(&mut w, "load", "ok");

    for n in &sw {
        let n = *n;
        let mut displays: BTreeSet<String> = BTreeSet::new();
        let mut all: BTreeSet<String> = BTreeSet::new();
        let mut first: Option<String> = None;
        for _ in 0..reps {
            let (d, vs) = match guarded(|| rule.clone().optimise(opts(n))) {
                None => ("x".to_string(), "x".to_string()),
                Some(r) => (display(&r), verdicts(&r, &docs)),
            };
            displays.insert(d);
            if first.is_none() {
                first = Some(vs.clone());
            }
            all.insert(vs);
        }
        w.head("det");
        w.int(n);
        w.int(displays.len());
        w.int(all.len());
        vatom(&mut w, first.as_deref().unwrap_or(""));
        for s in &all {
            vatom(&mut w, s);
        }
        w.close();
    }

    let optimised: Option<Option<Rule>> = sw
        .last()
        .map(|n| guarded(|| rule.clone().optimise(opts(*n))));
    let docs = Arc::new(docs);
    let unopt = Arc::new(rule);

    w.head("threads");
    w.atom("unopt");
    w.int(thread_test(Arc::clone(&unopt), Arc::clone(&docs), threads as usize));
    w.close();

    let mut is_pure = pure(&unopt, &docs);
    w.head("threads");
    w.atom("opt");
    match optimised {
        None => w.atom("-"),
        Some(None) => w.atom("x"),
        Some(Some(r)) => {
            let r = Arc::new(r);
            w.int(thread_test(Arc::clone(&r), Arc::clone(&docs), threads as usize));
            is_pure = is_pure && pure(&r, &docs);
        }
    }
    w.close();

    w.head("purity");
    w.bool(is_pure);
    w.close();
    w.close();
    Some(done(w, id))
}

// ---------------------------------------------------------------------------------------------
// rt: serde_yaml::to_string -> Rule::from_str
// ---------------------------------------------------------------------------------------------

/// Serialise and load again: the text (if any), the reloaded rule (if any) and the word to print.
fn reload(rule: &Rule) -> (Option<String>, Option<Rule>, &'static str) {
    let s = match guarded(|| serde_yaml::to_string(rule)) {
        None => return (None, None, "ser_panic"),
        Some(Err(_)) => return (None, None, "ser_err"),
        Some(Ok(s)) => s,
    };
    match guarded(|| Rule::from_str(&s)) {
        None => (Some(s), None, "panic"),
        Some(Err(_)) => (Some(s), None, "err"),
        Some(Ok(r)) => (Some(s), Some(r), "ok"),
    }
}

fn same_trees(a: &Rule, b: &Rule) -> bool {
    match (trees(a), trees(b)) {
        (Some(x), Some(y)) => x == y,
        _ => false,
    }
}

pub fn case_rt(id: &str, v: &serde_json::Value) -> Option<Out> {
    let (text, docs) = rule_and_docs(v)?;
    let r1 = match load(&text) {
        Ok(r) => r,
        Err(word) => {
            // from_str rejects the text: what does from_value say about the equivalent value?
            let mut w = begin(id);
            tagged(&mut w, "load", word);
            tagged(&mut w, "fromvalue", from_value_word(&text));
            w.close();
            return Some(done(w, id));
        }
    };

    let mut w = begin(id);
    tagged(&mut w, "load", "ok");

    // ---- plain ---------------------------------------------------------------------------------
    let (s, r2, word) = reload(&r1);
    tagged(&mut w, "reload", word);
    let v1 = verdicts(&r1, &docs);
    match &r2 {
        Some(r2) => {
            w.head("trees");
            w.bool(same_trees(&r1, r2));
            w.close();
            w.head("examples");
            w.bool(
                r1.true_positives == r2.true_positives && r1.true_negatives == r2.true_negatives,
            );
            w.close();
            w.head("verdicts");
            vatom(&mut w, &v1);
            vatom(&mut w, &verdicts(r2, &docs));
            w.close();
        }
        None => {
            tagged(&mut w, "trees", "-");
            tagged(&mut w, "examples", "-");
            w.head("verdicts");
            vatom(&mut w, &v1);
            w.atom("-");
            w.close();
        }
    }

    // ---- optimised -----------------------------------------------------------------------------
    match guarded(|| r1.clone().optimise(Optimisations::default())) {
        None => {
            tagged(&mut w, "reload_opt", "opt_panic");
            tagged(&mut w, "flag", "-");
            w.head("verdicts_opt");
            w.atom("x");
            w.atom("-");
            w.close();
            tagged(&mut w, "trees_opt", "-");
        }
        Some(r3) => {
            let (s3, r4, word) = reload(&r3);
            tagged(&mut w, "reload_opt", word);
            w.head("flag");
            match &s3 {
                Some(s3) => w.bool(s3.contains("optimised: true")),
                None => w.atom("-"),
            }
            w.close();
            w.head("verdicts_opt");
            vatom(&mut w, &verdicts(&r3, &docs));
            match &r4 {
                Some(r4) => vatom(&mut w, &verdicts(r4, &docs)),
                None => w.atom("-"),
            }
            w.close();
            w.head("trees_opt");
            match &r4 {
                Some(r4) => w.bool(same_trees(&r1, r4)),
                None => w.atom("-"),
            }
            w.close();
        }
    }

    // ---- from_value next to from_str -------------------------------------------------------------
    tagged(&mut w, "fromvalue", from_value_same(&text, &r1));

    w.head("len");
    match &s {
        Some(s) => w.int(s.len()),
        None => w.atom("-"),
    }
    w.close();
    w.close();
    Some(done(w, id))
}

// ---------------------------------------------------------------------------------------------
// prim: the crate's AsValue adapters for Rust's own types, at their boundary values (C11)
// ---------------------------------------------------------------------------------------------

fn show_value(v: &Value<'_>) -> String {
    match v {
        Value::Null => "null".to_owned(),
        Value::Bool(b) => format!("bool:{}", b),
        Value::Float(f) => format!("float:{}", f.to_bits()),
        Value::Int(i) => format!("int:{}", i),
        Value::UInt(u) => format!("uint:{}", u),
        Value::String(s) => format!("str:{}", s.len()),
        Value::Array(a) => {
            let items: Vec<String> = a.iter().map(|x| show_value(&x)).collect();
            format!("arr[{}]", items.join(","))
        }
        Value::Object(o) => format!("obj:{}", o.len()),
    }
}

pub fn case_prim(id: &str, _v: &serde_json::Value) -> Option<Out> {
    let mut rows: Vec<(String, String)> = Vec::new();
    macro_rules! ints {
        ($($ty:ident),+) => {$(
            for x in [<$ty>::MIN, <$ty>::MIN / 2, 0 as $ty, 1 as $ty, <$ty>::MAX / 2 + 1, <$ty>::MAX] {
                let label = format!("{}:{}", stringify!($ty), x);
                let r = guarded(|| show_value(&x.as_value())).unwrap_or_else(|| "panic".to_owned());
                rows.push((label, r));
                // through the std adapters
                let r = guarded(|| show_value(&Some(x).as_value())).unwrap_or_else(|| "panic".to_owned());
                rows.push((format!("Option<{}>:{}", stringify!($ty), x), r));
                let r = guarded(|| show_value(&vec![x, x].as_value())).unwrap_or_else(|| "panic".to_owned());
                rows.push((format!("Vec<{}>:{}", stringify!($ty), x), r));
                let mut m: HashMap<String, $ty> = HashMap::new();
                m.insert("n".to_owned(), x);
                let r = guarded(|| match Object::find(&m, "n") { Some(v) => show_value(&v), None => "none".to_owned() })
                    .unwrap_or_else(|| "panic".to_owned());
                rows.push((format!("HashMap<String,{}>:{}", stringify!($ty), x), r));
            }
        )+};
    }
    ints!(i8, i16, i32, i64, isize, u8, u16, u32, u64, usize);
    for x in [0.0f32, -0.0, 1.5, f32::MAX, f32::MIN_POSITIVE, f32::INFINITY] {
        rows.push((format!("f32:{}", x.to_bits()), guarded(|| show_value(&x.as_value())).unwrap_or_else(|| "panic".to_owned())));
    }
    for x in [0.0f64, -0.0, 1.5, f64::MAX, f64::MIN_POSITIVE, f64::NEG_INFINITY, 9007199254740993.0] {
        rows.push((format!("f64:{}", x.to_bits()), guarded(|| show_value(&x.as_value())).unwrap_or_else(|| "panic".to_owned())));
    }
    for x in [true, false] {
        rows.push((format!("bool:{}", x), guarded(|| show_value(&x.as_value())).unwrap_or_else(|| "panic".to_owned())));
    }
    rows.push(("unit".to_owned(), guarded(|| show_value(&().as_value())).unwrap_or_else(|| "panic".to_owned())));
    rows.push(("None<i64>".to_owned(), guarded(|| show_value(&(None as Option<i64>).as_value())).unwrap_or_else(|| "panic".to_owned())));
    rows.push(("String:abc".to_owned(), guarded(|| show_value(&"abc".to_owned().as_value())).unwrap_or_else(|| "panic".to_owned())));
    rows.push(("str:abcd".to_owned(), guarded(|| show_value(&"abcd".as_value())).unwrap_or_else(|| "panic".to_owned())));
    let hs: HashSet<u16> = [7u16].into_iter().collect();
    rows.push(("HashSet<u16>:7".to_owned(), guarded(|| show_value(&hs.as_value())).unwrap_or_else(|| "panic".to_owned())));
    let mut w = begin(id);
    for (label, r) in rows {
        w.open();
        w.atom(&label.replace(' ', ""));
        w.atom(&r.replace(' ', ""));
        w.close();
    }
    w.close();
    Some(done(w, id))
}
