//! The harness' own document tree.  It is built from the tagged JSON of PROTOCOL.md and exposed
//! to the crate through `AsValue` / `Array` / `Object` so that every kind survives exactly:
//! `Value::Null/Bool/Float/Int/UInt/String/Array/Object`.

use std::borrow::Cow;
use std::collections::BTreeSet;
use std::sync::Mutex;

use tau_engine::{AsValue, Document, Object, Value};

use crate::sexp::Sx;

#[derive(Clone, Debug)]
pub enum DV {
    Null,
    Bool(bool),
    Float(f64),
    Int(i64),
    UInt(u64),
    Str(String),
    /// `Vec<V: AsValue>` already implements `Array` (and `AsValue`) in the crate.
    Arr(Vec<DV>),
    Obj(DObj),
}

/// Objects get their own newtype: the crate has `impl<O: Object> AsValue for O`, so `Object`
/// and `AsValue` must not be implemented by hand on the same type.
#[derive(Clone, Debug)]
pub struct DObj(pub Vec<(String, DV)>);

impl AsValue for DV {
    #[inline]
    fn as_value(&self) -> Value<'_> {
        match self {
            DV::Null => Value::Null,
            DV::Bool(b) => Value::Bool(*b),
            DV::Float(f) => Value::Float(*f),
            DV::Int(i) => Value::Int(*i),
            DV::UInt(u) => Value::UInt(*u),
            DV::Str(s) => Value::String(Cow::Borrowed(s.as_str())),
            DV::Arr(a) => Value::Array(a),
            DV::Obj(o) => Value::Object(o),
        }
    }
}

/// Log of every key passed to `Object::get` on ANY object of a document tree (the root and every
/// nested object), switched on around one observation (C16: keys asked of nested objects).
pub static GET_LOG_ON: std::sync::atomic::AtomicBool = std::sync::atomic::AtomicBool::new(false);
pub static GET_LOG: Mutex<BTreeSet<String>> = Mutex::new(BTreeSet::new());

pub fn get_log_start() {
    let mut g = GET_LOG.lock().unwrap_or_else(|e| e.into_inner());
    g.clear();
    GET_LOG_ON.store(true, std::sync::atomic::Ordering::SeqCst);
}

pub fn get_log_take() -> BTreeSet<String> {
    GET_LOG_ON.store(false, std::sync::atomic::Ordering::SeqCst);
    let mut g = GET_LOG.lock().unwrap_or_else(|e| e.into_inner());
    std::mem::take(&mut *g)
}

impl Object for DObj {
    // `find` is deliberately NOT overridden: the crate's default implementation is under test.

    /// First entry with that key.
    #[inline]
    fn get(&self, key: &str) -> Option<Value<'_>> {
        if GET_LOG_ON.load(std::sync::atomic::Ordering::Relaxed) {
            let mut g = GET_LOG.lock().unwrap_or_else(|e| e.into_inner());
            if !g.contains(key) {
                g.insert(key.to_owned());
            }
        }
        self.0
            .iter()
            .find(|(k, _)| k == key)
            .map(|(_, v)| v.as_value())
    }

    #[inline]
    fn keys(&self) -> Vec<Cow<'_, str>> {
        self.0
            .iter()
            .map(|(k, _)| Cow::Borrowed(k.as_str()))
            .collect()
    }

    #[inline]
    fn len(&self) -> usize {
        self.0.len()
    }
}

// ---------------------------------------------------------------------------------------------
// Tagged JSON -> tree
// ---------------------------------------------------------------------------------------------

fn payload_str(v: &serde_json::Value) -> Option<String> {
    match v.get("v")? {
        serde_json::Value::String(s) => Some(s.clone()),
        serde_json::Value::Number(n) => Some(n.to_string()),
        _ => None,
    }
}

pub fn parse_dv(v: &serde_json::Value) -> Option<DV> {
    let t = v.get("t")?.as_str()?;
    Some(match t {
        "n" => DV::Null,
        "b" => DV::Bool(v.get("v")?.as_bool()?),
        "f" => DV::Float(f64::from_bits(payload_str(v)?.trim().parse::<u64>().ok()?)),
        "i" => DV::Int(payload_str(v)?.trim().parse::<i64>().ok()?),
        "u" => DV::UInt(payload_str(v)?.trim().parse::<u64>().ok()?),
        "s" => DV::Str(v.get("v")?.as_str()?.to_owned()),
        "a" => {
            let items = v.get("v")?.as_array()?;
            let mut out = Vec::with_capacity(items.len());
            for i in items {
                out.push(parse_dv(i)?);
            }
            DV::Arr(out)
        }
        "o" => DV::Obj(parse_obj_entries(v.get("v")?)?),
        _ => return None,
    })
}

fn parse_obj_entries(v: &serde_json::Value) -> Option<DObj> {
    let items = v.as_array()?;
    let mut out = Vec::with_capacity(items.len());
    for i in items {
        let pair = i.as_array()?;
        if pair.len() != 2 {
            return None;
        }
        out.push((pair[0].as_str()?.to_owned(), parse_dv(&pair[1])?));
    }
    Some(DObj(out))
}

/// A top-level document: must be `{"t":"o",...}`.
pub fn parse_doc(v: &serde_json::Value) -> Option<DObj> {
    match parse_dv(v)? {
        DV::Obj(o) => Some(o),
        _ => None,
    }
}

// ---------------------------------------------------------------------------------------------
// Rendering `V`
// ---------------------------------------------------------------------------------------------

pub fn render_dv(w: &mut Sx, v: &DV) {
    match v {
        DV::Null => w.unit("null"),
        DV::Bool(b) => {
            w.head("bool");
            w.bool(*b);
            w.close();
        }
        DV::Float(f) => {
            w.head("float");
            w.bits(*f);
            w.close();
        }
        DV::Int(i) => {
            w.head("int");
            w.int(*i);
            w.close();
        }
        DV::UInt(u) => {
            w.head("uint");
            w.int(*u);
            w.close();
        }
        DV::Str(s) => {
            w.head("str");
            w.str(s);
            w.close();
        }
        DV::Arr(a) => render_arr(w, a),
        DV::Obj(o) => render_obj(w, o),
    }
}

pub fn render_arr(w: &mut Sx, a: &[DV]) {
    w.head("arr");
    for x in a {
        render_dv(w, x);
    }
    w.close();
}

pub fn render_obj(w: &mut Sx, o: &DObj) {
    w.head("obj");
    for (k, v) in &o.0 {
        w.open();
        w.str(k);
        render_dv(w, v);
        w.close();
    }
    w.close();
}

// ---------------------------------------------------------------------------------------------
// Rendering a `Value` returned by the crate.
//
// Scalars are rendered from the `Value` itself.  `Value::Array` / `Value::Object` are references
// into the harness' tree, so the node they point at is located by address and rendered in full
// from the tree (this keeps duplicate keys visible, which `keys()`+`get()` could not).  If the
// reference cannot be located (the crate fabricated an aggregate of its own) the generic
// trait-based renderer is used.
// ---------------------------------------------------------------------------------------------

enum Node<'a> {
    Arr(&'a Vec<DV>),
    Obj(&'a DObj),
}

fn locate_in_dv<'a>(v: &'a DV, addr: *const u8) -> Option<Node<'a>> {
    match v {
        DV::Arr(a) => {
            if (a as *const Vec<DV>) as *const u8 == addr {
                return Some(Node::Arr(a));
            }
            a.iter().find_map(|x| locate_in_dv(x, addr))
        }
        DV::Obj(o) => locate_in_obj(o, addr),
        _ => None,
    }
}

fn locate_in_obj<'a>(o: &'a DObj, addr: *const u8) -> Option<Node<'a>> {
    if (o as *const DObj) as *const u8 == addr {
        return Some(Node::Obj(o));
    }
    o.0.iter().find_map(|(_, x)| locate_in_dv(x, addr))
}

pub fn render_found(w: &mut Sx, root: &DObj, v: &Value<'_>) {
    match v {
        Value::Array(a) => {
            let addr = (*a as *const dyn tau_engine::Array) as *const u8;
            match locate_in_obj(root, addr) {
                Some(Node::Arr(x)) => render_arr(w, x),
                _ => crate::sexp::value_via_traits(w, v),
            }
        }
        Value::Object(o) => {
            let addr = (*o as *const dyn Object) as *const u8;
            match locate_in_obj(root, addr) {
                Some(Node::Obj(x)) => render_obj(w, x),
                _ => crate::sexp::value_via_traits(w, v),
            }
        }
        _ => crate::sexp::value_via_traits(w, v),
    }
}

// ---------------------------------------------------------------------------------------------
// Recording wrapper: implements `Document` (not `Object`), records every key passed to the
// top-level `find`, and delegates to the crate's default `Object::find` of the tree.
// A `Mutex` (not `RefCell`) so that the type is `Send + Sync` for the `sync` feature build.
// ---------------------------------------------------------------------------------------------

pub struct Recorder<'a> {
    doc: &'a DObj,
    keys: Mutex<BTreeSet<String>>,
}

impl<'a> Recorder<'a> {
    pub fn new(doc: &'a DObj) -> Self {
        Recorder {
            doc,
            keys: Mutex::new(BTreeSet::new()),
        }
    }

    pub fn take(&self) -> BTreeSet<String> {
        let mut g = self.keys.lock().unwrap_or_else(|e| e.into_inner());
        std::mem::take(&mut *g)
    }
}

impl Document for Recorder<'_> {
    fn find(&self, key: &str) -> Option<Value<'_>> {
        {
            let mut g = self.keys.lock().unwrap_or_else(|e| e.into_inner());
            if !g.contains(key) {
                g.insert(key.to_owned());
            }
        }
        Object::find(self.doc, key)
    }
}

// ---------------------------------------------------------------------------------------------
// DS collection for the oracle: string leaves + `to_string` renderings of scalars; floats.
// ---------------------------------------------------------------------------------------------

pub fn collect_dv(v: &DV, ds: &mut BTreeSet<String>, floats: &mut Vec<f64>) {
    match v {
        DV::Null => {}
        DV::Bool(b) => {
            ds.insert(b.to_string());
        }
        DV::Float(f) => {
            ds.insert(f.to_string());
            floats.push(*f);
        }
        DV::Int(i) => {
            ds.insert(i.to_string());
        }
        DV::UInt(u) => {
            ds.insert(u.to_string());
        }
        DV::Str(s) => {
            if !ds.contains(s.as_str()) {
                ds.insert(s.clone());
            }
        }
        DV::Arr(a) => {
            for x in a {
                collect_dv(x, ds, floats);
            }
        }
        DV::Obj(o) => collect_obj(o, ds, floats),
    }
}

pub fn collect_obj(o: &DObj, ds: &mut BTreeSet<String>, floats: &mut Vec<f64>) {
    for (_, x) in &o.0 {
        collect_dv(x, ds, floats);
    }
}
