"""Infrastructure shared by all property checks (stdlib only).

Pipeline of one check run:
  translator -> coq make (property closure) -> proof audit -> runner build ->
  cargo build of the harness against /repo's working tree -> cases -> harness ->
  runner -> line diff (+ direct property tests on the crate's own output) -> evidence.
"""
import hashlib
import random
import json
import os
import re
import subprocess
import sys
import time

VERIF = os.path.dirname(os.path.dirname(os.path.abspath(__file__)))
REPO = os.environ.get("VERIF_REPO", "/repo")
COQ = os.path.join(VERIF, "coq")
WORK = os.path.join(VERIF, "work")
EVID = os.path.join(VERIF, "evidence")
REPLAYS = os.path.join(VERIF, "replays")
CORPUS = os.path.join(VERIF, "corpus")
HARNESS_DIR = os.path.join(VERIF, "harness")
RUNNER = os.path.join(VERIF, "runner", "runner")
KNOWN_FILE = os.path.join(VERIF, "KNOWN_FINDINGS.txt")

FORBIDDEN = re.compile(
    r"\b(Admitted|admit|Axiom|Axioms|Parameter|Parameters|Conjecture|Conjectures|"
    r"Unset\s+Guard|bypass_check|type-in-type|impredicative-set|Admit\s+Obligations)\b")

# axioms of the Coq standard library that the development is allowed to depend on
# (through Flocq's real-number lemmas); everything else must be closed
AXIOM_ALLOW = {
    "ClassicalDedekindReals.sig_forall_dec",
    "ClassicalDedekindReals.sig_not_dec",
    "FunctionalExtensionality.functional_extensionality_dep",
    "Classical_Prop.classic",
}


def log(*a):
    print(*a, file=sys.stderr, flush=True)


def sh(cmd, cwd=None, timeout=None, env=None, stdin=None):
    e = dict(os.environ)
    e["CARGO_NET_OFFLINE"] = "true"
    if env:
        e.update(env)
    p = subprocess.run(cmd, cwd=cwd, timeout=timeout, env=e, input=stdin,
                       stdout=subprocess.PIPE, stderr=subprocess.STDOUT, text=True,
                       shell=isinstance(cmd, str))
    return p.returncode, p.stdout


# ------------------------------------------------------------------ known findings
def load_known(prop):
    """Returns (known, fixed) entries of KNOWN_FINDINGS.txt for one property."""
    known, fixed = [], []
    if not os.path.exists(KNOWN_FILE):
        return known, fixed
    for line in open(KNOWN_FILE, encoding="utf-8"):
        line = line.strip()
        if not line or line.startswith("#"):
            continue
        m = re.match(r"(known|fixed):\s+property=(\S+)\s+(.*)$", line)
        if not m or m.group(2) != prop:
            continue
        kind, rest = m.group(1), m.group(3)
        entry = {"raw": line}
        if "::" in rest:
            head, what = rest.split("::", 1)
            entry["what"] = what.strip()
        else:
            head, entry["what"] = rest, rest
        for kv in head.split():
            if "=" in kv:
                k, v = kv.split("=", 1)
                entry[k] = v
        (known if kind == "known" else fixed).append(entry)
    return known, fixed


# ------------------------------------------------------------------ build steps
class BuildError(Exception):
    def __init__(self, what, output):
        super().__init__(what)
        self.what = what
        self.output = output


class HangError(Exception):
    """the crate did not come back on a case"""
    def __init__(self, case, seconds):
        super().__init__("hang")
        self.case = case
        self.seconds = seconds


def run_translator():
    rc, out = sh([sys.executable, os.path.join(VERIF, "tools", "gen_tables.py"), "--json"])
    info = {"status": "ok" if rc == 0 else "shape not recognised", "output": out.strip()[-2000:], "per_table": {}}
    for line in out.splitlines():
        if line.startswith("{"):
            try:
                info["tables"] = json.loads(line)
                info["per_table"] = info["tables"].get("status", {})
            except ValueError:
                pass
    return info


# which regenerated table a property's theorems are stated against
TABLE_OF = {"C02": ["solver_cast"], "C04": ["tokeniser", "identifier"], "C05": ["tokeniser"], "C07": ["identifier", "solver_aho"], "C15": ["identifier"],
            "C06": ["solver_loops"], "C17": ["solver_loops"], "C08": ["solver_aho", "solver_loops"], "C09": ["solver_cmp", "parser_num_arms", "solver_casts"]}


def gen_coqproject():
    """_CoqProject lists every .v file present (a property file only once the proof
    files it requires exist), so that a half-finished property never blocks the others."""
    lines = ["-Q Model TauModel", "-Q Proofs TauProofs", "-Q Properties TauProps", "-Q Extract TauExtract"]
    for d in ("Model", "Proofs", "Extract"):
        for f in sorted(os.listdir(os.path.join(COQ, d))):
            if f.endswith(".v"):
                lines.append("%s/%s" % (d, f))
    pd = os.path.join(COQ, "Properties")
    for f in sorted(os.listdir(pd)):
        if not f.endswith(".v"):
            continue
        text = open(os.path.join(pd, f), encoding="utf-8").read()
        need = re.findall(r"From TauProofs Require\s+(?:Import\s+)?([\w ]+)\.", text)
        mods = [m for grp in need for m in grp.split()]
        if all(os.path.exists(os.path.join(COQ, "Proofs", m + ".v")) for m in mods):
            lines.append("Properties/%s" % f)
    text = "\n".join(lines) + "\n"
    proj = os.path.join(COQ, "_CoqProject")
    if (not os.path.exists(proj)) or open(proj).read() != text:
        open(proj, "w").write(text)


def coq_makefile():
    gen_coqproject()
    mk = os.path.join(COQ, "Makefile")
    proj = os.path.join(COQ, "_CoqProject")
    if (not os.path.exists(mk)) or os.path.getmtime(mk) < os.path.getmtime(proj):
        rc, out = sh("coq_makefile -f _CoqProject -o Makefile", cwd=COQ, timeout=120)
        if rc != 0:
            raise BuildError("coq_makefile", out)


def coq_make(targets, timeout=2400, clean=False):
    """Full .vo build of the given targets (never -vos)."""
    coq_makefile()
    if clean:
        sh("make clean", cwd=COQ, timeout=300)
    rc, out = sh(["make", "-j16"] + targets, cwd=COQ, timeout=timeout)
    return rc, out


def property_log(prop):
    """(Re)compiles Properties/<prop>.v alone, capturing what it prints (Check / Print
    Assumptions output).  Its dependencies must be built already."""
    vo = os.path.join(COQ, "Properties", prop + ".vo")
    if os.path.exists(vo):
        os.remove(vo)
    rc, out = coq_make(["Properties/%s.vo" % prop], timeout=1200)
    return rc, out


def parse_property_log(out):
    """Splits coqc output into the `Check` statements and the `Print Assumptions` blocks.

    The property files are written as
        Check thm.                 -> "thm\n     : statement"
        Print Assumptions thm.     -> "Closed under the global context" | "Axioms:\n..."
    Returns (checks: name -> statement, closed: int, axioms: set of names,
             per_theorem: name -> sorted axiom list or [] when closed).
    """
    lines = out.replace("\r", "").split("\n")
    checks = {}
    per = {}
    axioms = set()
    closed = 0
    cur = None          # theorem whose Check output was seen last
    mode = None         # None | "check" | "axioms"
    buf = []
    n = len(lines)
    k = 0

    def flush():
        nonlocal buf
        if cur is not None and buf:
            checks[cur] = " ".join(" ".join(buf).split())
        buf = []
    while k < n:
        ln = lines[k]
        nxt = lines[k + 1] if k + 1 < n else ""
        if re.match(r"^[\w.']+$", ln) and re.match(r"^     : ", nxt):
            flush()
            cur = ln
            mode = "check"
            buf = [nxt[7:]]
            k += 2
            continue
        if ln.startswith("Closed under the global context"):
            flush()
            closed += 1
            if cur is not None:
                per[cur] = []
            mode = None
        elif ln.startswith("Axioms:"):
            flush()
            mode = "axioms"
            if cur is not None:
                per[cur] = []
        elif mode == "check" and ln.startswith(" "):
            buf.append(ln.strip())
        elif mode == "axioms" and ln and not ln.startswith(" "):
            name = ln.split(" ")[0]
            axioms.add(name)
            if cur is not None:
                per[cur].append(name)
        elif ln and not ln.startswith(" "):
            flush()
            mode = None
        k += 1
    flush()
    return checks, closed, axioms, per


def audit_sources():
    """No Admitted / Axiom / ... anywhere in the development; Variable/Hypothesis only
    inside sections."""
    problems = []
    for root, _, files in os.walk(COQ):
        for f in files:
            if not f.endswith(".v"):
                continue
            path = os.path.join(root, f)
            text = open(path, encoding="utf-8").read()
            stripped = strip_coq_comments(text)
            for m in FORBIDDEN.finditer(stripped):
                problems.append("%s: forbidden word %r" % (os.path.relpath(path, VERIF), m.group(0)))
            depth = 0
            for line in stripped.splitlines():
                t = line.strip()
                if re.match(r"^Section\s+\w+\s*\.", t):
                    depth += 1
                elif re.match(r"^End\s+\w+\s*\.", t) and depth > 0:
                    depth -= 1
                elif re.match(r"^(Variable|Variables|Hypothesis|Hypotheses|Context)\b", t) and depth == 0:
                    problems.append("%s: %s outside a section" % (os.path.relpath(path, VERIF), t[:40]))
    return problems


def strip_coq_comments(text):
    out = []
    depth = 0
    i = 0
    n = len(text)
    instr = False
    while i < n:
        if not instr and text.startswith("(*", i):
            depth += 1
            i += 2
            continue
        if not instr and depth > 0 and text.startswith("*)", i):
            depth -= 1
            i += 2
            continue
        ch = text[i]
        if depth == 0:
            if ch == '"':
                instr = not instr
            out.append(ch)
        elif ch == "\n":
            out.append(ch)
        i += 1
    return "".join(out)


def build_runner():
    rc, out = coq_make(["Extract/Extract.vo"], timeout=1800)
    if rc != 0:
        raise BuildError("coq model/extraction", out)
    ml = os.path.join(VERIF, "runner", "model.ml")
    exe = RUNNER
    src = os.path.join(VERIF, "runner", "runner.ml")
    if (not os.path.exists(exe)) or os.path.getmtime(exe) < max(os.path.getmtime(ml), os.path.getmtime(src)):
        rc, out = sh("./build.sh", cwd=os.path.join(VERIF, "runner"), timeout=600)
        if rc != 0:
            raise BuildError("runner build", out)


def harness_target(features):
    name = "target" if not features else "target-" + "-".join(sorted(features))
    return os.path.join(HARNESS_DIR, name)


def build_harness(features=(), release=True):
    """cargo build of the harness against /repo's current working tree."""
    tdir = harness_target(features)
    cmd = ["cargo", "build", "--offline", "--target-dir", tdir]
    if release:
        cmd.append("--release")
    if features:
        cmd += ["--features", ",".join(features)]
    rc, out = sh(cmd, cwd=HARNESS_DIR, timeout=1800)
    if rc != 0:
        raise BuildError("cargo build (harness against /repo)", out)
    return os.path.join(tdir, "release" if release else "debug", "harness")


# ------------------------------------------------------------------ running cases
def watch_harness(procs):
    """procs: [(Popen, base path, chunk)].  Waits for all; a shard that is alive but has not finished a
    case for STALL seconds is hung on the case after the last line it wrote -- the crate neither returned
    nor panicked on that input, which no property allows (the model is total).  Raises HangError."""
    stall = float(os.environ.get("VERIF_STALL_S", "300"))
    last = {base: (0, time.time()) for _, base, _ in procs}
    pending = list(procs)
    while pending:
        time.sleep(0.2)
        for item in list(pending):
            p, base, chunk = item
            if p.poll() is not None:
                pending.remove(item)
                continue
            try:
                size = os.path.getsize(base + ".impl")
            except OSError:
                size = 0
            if size != last[base][0]:
                last[base] = (size, time.time())
            elif time.time() - last[base][1] > stall:
                for q, _, _ in procs:
                    if q.poll() is None:
                        q.kill()
                done = len(open(base + ".impl", encoding="utf-8", errors="replace").read().splitlines())
                raise HangError(chunk[min(done, len(chunk) - 1)], stall)
    for p, base, _ in procs:
        out, _ = p.communicate(timeout=60)
        if p.returncode != 0:
            raise BuildError("harness run failed", out.decode("utf-8", "replace")[-4000:])


def run_cases(cases, tag, features=(), ic=False, release=True, shards=8, runner_args=()):
    """Runs the cases through the harness and the runner.  Returns (impl_lines,
    model_lines, model_in_lines)."""
    os.makedirs(WORK, exist_ok=True)
    # the runner is the extracted model: rebuilt whenever the model (incl. the tables the translator
    # regenerated from /repo on this run) is newer than the binary
    build_runner()
    exe = build_harness(features, release)
    shard_n = max(1, min(shards, (len(cases) + 199) // 200))
    chunks = [cases[i::shard_n] for i in range(shard_n)]
    procs = []
    for si, chunk in enumerate(chunks):
        base = os.path.join(WORK, "%s.%d" % (tag, si))
        with open(base + ".cases", "w", encoding="utf-8") as f:
            for c in chunk:
                f.write(json.dumps(c, ensure_ascii=False) + "\n")
        p = subprocess.Popen([exe, base + ".impl", base + ".min"], stdin=open(base + ".cases", "rb"),
                             stdout=subprocess.PIPE, stderr=subprocess.STDOUT)
        procs.append((p, base, chunk))
    watch_harness(procs)
    rprocs = []
    for _, base, _ in procs:
        cmd = [RUNNER] + (["--ic"] if ic else []) + list(runner_args)
        p = subprocess.Popen(cmd, stdin=open(base + ".min", "rb"), stdout=open(base + ".mout", "wb"),
                             stderr=subprocess.PIPE)
        rprocs.append(p)
    for p in rprocs:
        _, err = p.communicate(timeout=3600)
        if p.returncode != 0:
            raise BuildError("runner failed", err.decode("utf-8", "replace")[-4000:])
    by_id_impl, by_id_model, by_id_min = {}, {}, {}
    for _, base, chunk in procs:
        impl = open(base + ".impl", encoding="utf-8").read().splitlines()
        mout = open(base + ".mout", encoding="utf-8").read().splitlines()
        minp = open(base + ".min", encoding="utf-8").read().splitlines()
        if not (len(impl) == len(mout) == len(chunk)):
            raise BuildError("line count mismatch", "%s: cases=%d impl=%d model=%d" % (base, len(chunk), len(impl), len(mout)))
        for c, a, b, m in zip(chunk, impl, mout, minp):
            by_id_impl[c["id"]] = a
            by_id_model[c["id"]] = b
            by_id_min[c["id"]] = m
    return by_id_impl, by_id_model, by_id_min


def run_harness_only(cases, tag, features=(), release=True):
    """Crate side only (for inputs that are too large for the model's list-based maps)."""
    os.makedirs(WORK, exist_ok=True)
    exe = build_harness(features, release)
    base = os.path.join(WORK, tag + ".solo")
    with open(base + ".cases", "w", encoding="utf-8") as f:
        for c in cases:
            f.write(json.dumps(c, ensure_ascii=False) + "\n")
    p = subprocess.Popen([exe, base + ".impl", base + ".min"], stdin=open(base + ".cases", "rb"),
                         stdout=subprocess.PIPE, stderr=subprocess.STDOUT)
    watch_harness([(p, base, list(cases))])
    impl = open(base + ".impl", encoding="utf-8").read().splitlines()
    os.remove(base + ".min")
    return {c["id"]: a for c, a in zip(cases, impl)}


# ------------------------------------------------------------------ sexp reading (results)
def parse_sexp(s):
    pos = 0
    n = len(s)

    def item():
        nonlocal pos
        while pos < n and s[pos] == " ":
            pos += 1
        if s[pos] == "(":
            pos += 1
            acc = []
            while True:
                while pos < n and s[pos] == " ":
                    pos += 1
                if s[pos] == ")":
                    pos += 1
                    return acc
                acc.append(item())
        st = pos
        while pos < n and s[pos] not in " ()":
            pos += 1
        return s[st:pos]
    return item()


def sx_str(x):
    """(s 102 111) -> 'fo'"""
    assert x[0] == "s"
    return "".join(chr(int(c)) for c in x[1:])


# ------------------------------------------------------------------ documents (tagged JSON)
class I(int):
    """signed 64-bit integer value"""


class U(int):
    """unsigned 64-bit integer value"""


class Fl:
    """binary64 by bit pattern"""
    def __init__(self, bits):
        self.bits = bits

    def __eq__(self, o):
        return isinstance(o, Fl) and o.bits == self.bits

    def __hash__(self):
        return hash(("Fl", self.bits))

    def __repr__(self):
        return "Fl(%d)" % self.bits


def fbits(x):
    import struct
    return struct.unpack("<Q", struct.pack("<d", x))[0]


def bits_to_float(b):
    import struct
    return struct.unpack("<d", struct.pack("<Q", b))[0]


def D(v):
    """Python value -> tagged JSON document value."""
    if v is None:
        return {"t": "n"}
    if isinstance(v, bool):
        return {"t": "b", "v": v}
    if isinstance(v, I):
        return {"t": "i", "v": str(int(v))}
    if isinstance(v, U):
        return {"t": "u", "v": str(int(v))}
    if isinstance(v, Fl):
        return {"t": "f", "v": str(v.bits)}
    if isinstance(v, float):
        return {"t": "f", "v": str(fbits(v))}
    if isinstance(v, int):
        # plain ints: what a YAML/JSON document would hold
        return {"t": "u", "v": str(v)} if v >= 0 else {"t": "i", "v": str(v)}
    if isinstance(v, str):
        return {"t": "s", "v": v}
    if isinstance(v, (list, tuple)):
        return {"t": "a", "v": [D(x) for x in v]}
    if isinstance(v, dict):
        return {"t": "o", "v": [[k, D(x)] for k, x in v.items()]}
    raise TypeError(v)


def rule_text(detection, tp=(), tn=(), extra=None):
    r = {"detection": detection, "true_positives": list(tp), "true_negatives": list(tn)}
    if extra:
        r.update(extra)
    return json.dumps(r, ensure_ascii=False)


# ------------------------------------------------------------------ evidence / verdict
class Check:
    def __init__(self, prop, level="proof"):
        self.prop = prop
        self.level = level
        self.t0 = time.time()
        self.tier = os.environ.get("VERIF_TIER", "quick")
        self.seed = int(os.environ.get("VERIF_SEED", "1") or 1)
        self.rng = random.Random(self.seed * 1000003 + int(hashlib.sha1(prop.encode()).hexdigest()[:6], 16))
        self.violations = []        # (replay_path, note)
        self.known_lines = []
        self.coverage = {
            "evaluations": 0, "distinct_nontrivial": 0, "rule": "", "samples": [],
            "traces_validated_against_impl": 0, "disagreements_checked": 0,
            "obligations": 0, "discharged": 0, "checker_cmd": "", "trusted_base": [],
            "distribution": {}, "exhaustive": False,
        }
        self.assumptions = []
        self.next_id = 0
        os.makedirs(EVID, exist_ok=True)
        os.makedirs(REPLAYS, exist_ok=True)
        os.makedirs(WORK, exist_ok=True)

    def new_id(self):
        self.next_id += 1
        return self.next_id

    def count(self, key, n=1):
        d = self.coverage["distribution"]
        d[key] = d.get(key, 0) + n

    def sample(self, obj, limit=8):
        if len(self.coverage["samples"]) < limit:
            self.coverage["samples"].append(obj)

    def violation(self, payload, no_input=False):
        blob = json.dumps(payload, ensure_ascii=False, sort_keys=True, indent=1, default=repr)
        h = hashlib.sha1(blob.encode()).hexdigest()[:12]
        path = os.path.join(REPLAYS, "%s-%s.json" % (self.prop, h))
        with open(path, "w", encoding="utf-8") as f:
            f.write(blob)
        self.violations.append((path, no_input))

    def known(self, ident, what):
        line = "KNOWN-FINDING: property=%s %s %s" % (self.prop, ident, what)
        if line not in self.known_lines:
            self.known_lines.append(line)

    # ---- the proof side -------------------------------------------------------------
    def proofs(self, theorems_expected=None):
        """Builds Properties/<prop>.vo, audits, pins statements.  Returns True when every
        obligation is discharged; otherwise records why in self.proof_failure."""
        cov = self.coverage
        self.proof_failure = None
        tr = run_translator()
        cov["generated_tables"] = tr.get("tables", tr["status"])
        cov["translator"] = tr["status"]
        cov["translator_tables"] = tr["per_table"]
        for tab in TABLE_OF.get(self.prop, []):
            st = tr["per_table"].get(tab, tr["status"])
            if st != "ok":
                # the regenerated part of the model is stale: the theorems no longer speak about the source
                self.proof_failure = {"stage": "translator (%s)" % tab, "detail": [st, tr["output"][-400:]]}
        clean = self.tier == "thorough" and os.environ.get("VERIF_NO_CLEAN") != "1"
        # a property may have several statement files: Properties/Cxx.v, Properties/Cxx_*.v
        pdir = os.path.join(COQ, "Properties")
        files = sorted(f[:-2] for f in os.listdir(pdir)
                       if f.endswith(".v") and (f[:-2] == self.prop or f.startswith(self.prop + "_")))
        gen_coqproject()
        listed = open(os.path.join(COQ, "_CoqProject")).read()
        unlisted_pinned = [f for f in files if ("Properties/%s.v" % f) not in listed
                           and os.path.exists(os.path.join(pdir, "pins", f + ".json"))]
        files = [f for f in files if ("Properties/%s.v" % f) in listed] or [self.prop]
        if unlisted_pinned:
            self.proof_failure = self.proof_failure or {"stage": "source audit", "detail": ["pinned statement file without its proof file: %s" % f for f in unlisted_pinned]}
        targets = ["Properties/%s.vo" % f for f in files]
        target = " ".join(targets)
        cov["checker_cmd"] = "cd coq && coq_makefile -f _CoqProject -o Makefile && make -j16 %s  (coqc 8.16.1, full .vo build%s)" % (
            target, "; from clean; then coqchk -o -silent" if clean else "")
        problems = audit_sources()
        if problems:
            self.proof_failure = self.proof_failure or {"stage": "source audit", "detail": problems[:20]}
        try:
            rc, out = coq_make(targets, clean=clean, timeout=3000)
        except subprocess.TimeoutExpired:
            rc, out = 1, "timeout"
        if rc != 0:
            self.proof_failure = self.proof_failure or {"stage": "coq build", "detail": tail_error(out)}
            cov["obligations"] = max(cov["obligations"], 1)
            return False
        thms = []
        bad = []
        axioms = set()
        per_thm = {}
        cov["theorems"] = {}
        for fbase in files:
            rc, out = property_log(fbase)
            if rc != 0:
                self.proof_failure = self.proof_failure or {"stage": "property file " + fbase, "detail": tail_error(out)}
                cov["obligations"] = max(cov["obligations"], 1)
                return False
            checks, closed, ax, per = parse_property_log(out)
            axioms |= ax
            per_thm.update(per)
            src = strip_coq_comments(open(os.path.join(pdir, fbase + ".v"), encoding="utf-8").read())
            fthms = re.findall(r"^(?:Theorem|Example|Lemma|Corollary)\s+([\w']+)", src, re.M)
            thms += fthms
            pin_path = os.path.join(pdir, "pins", fbase + ".json")
            pins = json.load(open(pin_path)) if os.path.exists(pin_path) else {}
            for t in fthms:
                st = checks.get(t)
                if st is None:
                    bad.append("no Check output for %s" % t)
                    continue
                cov["theorems"][t] = hashlib.sha1(st.encode()).hexdigest()[:16]
                if t in pins and pins[t] != st:
                    bad.append("statement of %s differs from its pin" % t)
                if t not in pins:
                    bad.append("theorem %s has no pinned statement (run tools/pin.py)" % t)
            for pn in pins:
                if pn not in fthms:
                    bad.append("pinned theorem %s is missing" % pn)
            n_assump = closed + len(re.findall(r"^Axioms:", out, re.M))
            n_real_thms = len(re.findall(r"^Theorem\s", src, re.M))
            if n_assump < n_real_thms:
                bad.append("%s: Print Assumptions output missing for some theorem (%d < %d)" % (fbase, n_assump, n_real_thms))
        cov["obligations"] = len(thms)
        extra = axioms - AXIOM_ALLOW
        if extra:
            bad.append("axioms outside the allow-list: %s" % sorted(extra))
        cov["axioms_reported"] = sorted(axioms)
        cov["assumptions_per_theorem"] = {t: (per_thm.get(t) or "closed under the global context") for t in thms if t in per_thm}
        if self.proof_failure is None and bad:
            self.proof_failure = {"stage": "audit", "detail": bad}
        if clean and self.proof_failure is None:
            rc, chk = sh("coqchk -o -silent -Q Model TauModel -Q Proofs TauProofs -Q Properties TauProps %s" % " ".join("TauProps." + f for f in files),
                         cwd=COQ, timeout=3000)
            cov["coqchk"] = chk.strip()[-1500:]
            if rc != 0:
                self.proof_failure = {"stage": "coqchk", "detail": chk[-2000:]}
        cov["discharged"] = len(thms) if self.proof_failure is None else 0
        tb = [
            "Coq 8.16.1 kernel (coqc; vm_compute used in Examples, refutation witnesses and table instantiation; native_compute not used)",
            "axioms reported by Print Assumptions on this run: %s" % (", ".join(sorted(axioms)) or "none (closed under the global context)"),
            "tools/gen_tables.py (translator: binding powers and keyword table of the tokeniser -> Model/Generated.v; comparison table of the solver -> Model/GeneratedCmp.v, read by Model/CmpTable.v; pattern dispatch chain of into_identifier -> Model/GeneratedIdent.v, read by Model/IdentTable.v; acceptance tables of the automaton loops -> Model/GeneratedAho.v, read by Model/AhoTable.v; and/or-group loops and the Negate arm -> Model/GeneratedLoops.v, read by Model/LoopTable.v; numeric pattern arms of the loader -> Model/GeneratedNumArms.v, read by Model/NumArmTable.v; value-kind dispatch of the string searches -> Model/GeneratedCast.v, read by Model/CastTable.v; the two copies of the int() / flt() operand casts compared with each other and with the recognised arms, range guard -> Model/GeneratedCasts.v)",
            "extraction: ExtrOcamlBasic only (bool, option, unit, list, prod, sumbool, sumor; andb/orb inlined); OCaml 4.13.1; runner/runner.ml",
            "correspondence check: harness (Rust, links /repo by path), generators and diff (Python), sampled",
            "oracles (not verified, passed as a record): regex validity/matching, f64 parse/print, Unicode alnum/numeric classes",
            "modelled rather than verified: aho-corasick by its meaning, serde_yaml text->Value, serde derive glue, HashMap order as an arbitrary permutation",
        ]
        cov["trusted_base"] = tb
        return self.proof_failure is None

    # ---- finishing ------------------------------------------------------------------
    def finish(self):
        cov = self.coverage
        cov["known_findings_reported"] = len(self.known_lines)
        ev = {
            "property_id": self.prop,
            "tier": self.tier if self.tier in ("quick", "thorough") else "quick",
            "seed": self.seed,
            "level": self.level,
            "coverage": cov,
            "assumptions": self.assumptions,
            "wall_s": round(time.time() - self.t0, 2),
            "violations": len(self.violations),
        }
        if cov["distinct_nontrivial"] < 2 and cov["evaluations"] >= 2:
            cov["distinct_nontrivial"] = cov["distinct_nontrivial"]
        with open(os.path.join(EVID, self.prop + ".json"), "w", encoding="utf-8") as f:
            json.dump(ev, f, ensure_ascii=False, indent=1, default=repr)
        for line in self.known_lines:
            print(line)
        seen = set()
        for path, no_input in self.violations:
            if path in seen:
                continue
            seen.add(path)
            print("VIOLATION property=%s replay=%s%s" % (self.prop, path, " no-failing-input-found" if no_input else ""))
        sys.stdout.flush()
        return 1 if self.violations else 0


def tail_error(out):
    m = re.search(r"(File \".*?\", line \d+.*?Error:.*?)(?:\nmake|\Z)", out, re.S)
    if m:
        return m.group(1)[-1500:]
    return out[-1500:]
