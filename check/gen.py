"""Structure-first generators of rules and of documents derived from them (DESIGN.md 3.3).

Every random choice comes from the `random.Random` passed in.  Rules are Python dicts that
are emitted as JSON text (JSON is YAML); documents are Python values (see lib.D).
"""
from lib import I, U, Fl, fbits

FIELDS = ["f", "g", "h", "k"]
NESTED_FIELDS = ["n", "m"]
DOTTED = ["a.b", "p.q"]

STR_PATTERNS = [
    "foo", "ab", "abc", "bc", "fo*", "*oo", "*o*", "*ab*", "a*", "*c", "*", "**", "",
    "?^fo", "?o+", "?.*oo", "?fo.*", "?.*o.*", "?^ab$", "?b", "?(a|b)c",
    "'*x*'", '"foo"', "'a'", "''",
    "iFOO", "ifoo", "i*OO", "iFo*", "i*O*", "i?^FO", "iAB", "i*B*", "i",
    "i?O+", "i?^AB", "i?Bc", "i?OO$", "?^A", "?O",
    "if", "in", "i*", "1", "5", "true", "x.y", "a b",
    # quotes that do not pair up are plain text
    "\"fo'", "'ab\"", "i\"FOO'",
]
NUM_PATTERNS = [">=5", ">5", "<5", "<=5", "=5", ">4.5", "<=5.5", "=5.0", ">-3", "<100", ">=0"]
NUM_VALUES = [5, 0, 1, -3, 6, 4, 5.5, 5.0, 100, 9223372036854775807]
HAY = ["", "foo", "FOO", "Foo", "foobar", "xfoo", "ab", "abc", "AB", "xaby", "bc", "c", "a", "o", "oo", "zzz", "*x*",
       "fo", "x.y", "a b", "1", "5", "true", "i", "f", "n", "aXbc", "foo\nbar", "äfoo", "FOO bar ab", "\"fo'", "'ab\"", "\"foo'"]


def pick(rng, xs):
    return xs[rng.randrange(len(xs))]


def gen_pattern_value(rng, kinds=("str", "num", "bool", "null")):
    k = pick(rng, kinds)
    if k == "str":
        return pick(rng, STR_PATTERNS)
    if k == "num":
        return pick(rng, NUM_PATTERNS) if rng.random() < 0.6 else pick(rng, NUM_VALUES)
    if k == "bool":
        return rng.random() < 0.5
    return None


def gen_list(rng, depth, allow_nested=True):
    n = pick(rng, [1, 2, 2, 3, 3, 4])
    mode = rng.random()
    out = []
    if mode < 0.2:
        fam = pick(rng, FAMILIES)
        for _ in range(max(n, 2)):
            out.append(pick(rng, fam))
    elif mode < 0.3:
        # two families mixed: several batches side by side
        f1, f2 = pick(rng, FAMILIES), pick(rng, FAMILIES)
        for _ in range(max(n, 3)):
            out.append(pick(rng, f1 if rng.random() < 0.5 else f2))
    elif mode < 0.55:
        for _ in range(n):
            out.append(pick(rng, STR_PATTERNS))
    elif mode < 0.7:
        for _ in range(n):
            out.append(gen_pattern_value(rng, ("num",)))
    elif mode < 0.8 and allow_nested and depth > 0:
        for _ in range(n):
            out.append(gen_mapping(rng, depth - 1, 2))
    else:
        for _ in range(n):
            out.append(gen_pattern_value(rng))
    return out


NEG = True      # module switch: when False no negation and no none-of is generated anywhere


def gen_key(rng, field, value_is_list, allow_mod=True):
    if not allow_mod:
        return field
    r = rng.random()
    if value_is_list and r < 0.35:
        if rng.random() < 0.5:
            return "all(%s)" % field
        return "of(%s, %d)" % (field, pick(rng, [0, 1, 1, 2, 2, 3] if NEG else [1, 1, 2, 2, 3]))
    if r < 0.45 and NEG:
        return "not(%s)" % field
    if r < 0.52:
        return "int(%s)" % field
    if r < 0.57:
        return "flt(%s)" % field
    if r < 0.64:
        return "str(%s)" % field
    return field


def gen_mapping(rng, depth, max_entries=3):
    n = pick(rng, [1, 1, 2, 2, 3][:max(1, max_entries + 2)])
    n = min(n, max_entries)
    m = {}
    for _ in range(n):
        r = rng.random()
        if r < 0.15 and depth > 0:
            field = pick(rng, NESTED_FIELDS)
            if rng.random() < 0.7:
                m[field] = gen_mapping(rng, depth - 1, 2)
            else:
                m[field] = [gen_mapping(rng, depth - 1, 2) for _ in range(pick(rng, [1, 2]))]
            continue
        field = pick(rng, FIELDS + DOTTED[:1]) if rng.random() < 0.9 else pick(rng, DOTTED + ["arr[0]", "arr[1]"])
        if r < 0.5:
            v = gen_list(rng, depth)
            key = gen_key(rng, field, True)
            # casts and lists: keep mostly type-correct so that rules load
            if key.startswith("int(") or key.startswith("flt("):
                v = [gen_pattern_value(rng, ("num",)) for _ in v]
            if key.startswith("str("):
                v = [x if isinstance(x, str) and not any(x.startswith(p) for p in (">", "<", "=")) else "foo" for x in v]
            if (key.startswith("not(") or key.startswith("all(") or key.startswith("of(")) and any(isinstance(x, dict) for x in v) and key.startswith("not("):
                key = field
        else:
            v = gen_pattern_value(rng)
            key = gen_key(rng, field, False)
            if key.startswith("int(") or key.startswith("flt("):
                v = gen_pattern_value(rng, ("num",))
            if key.startswith("str(") and not isinstance(v, str):
                v = pick(rng, ["5", "true", "foo", "1*"]) if rng.random() < 0.5 else v
            if key.startswith("str(") and isinstance(v, str) and any(v.startswith(p) for p in (">", "<", "=")):
                v = "5"
        m[key] = v
    return m


def gen_identifier(rng, depth=2):
    r = rng.random()
    if r < 0.7:
        return gen_mapping(rng, depth)
    return [gen_mapping(rng, depth, 2) for _ in range(pick(rng, [1, 2, 2, 3]))]


def gen_condition(rng, names, fields, depth=3, neg=True, quant=True, casts=True):
    def atom():
        r = rng.random()
        if quant and r < 0.15:
            return "all(%s)" % pick(rng, names)
        if quant and r < 0.3:
            return "of(%s, %d)" % (pick(rng, names), pick(rng, [0, 1, 1, 2, 2, 3] if NEG else [1, 1, 2, 2, 3]))
        if casts and r < 0.38:
            f = pick(rng, fields)
            c = rng.random()
            if c < 0.5:
                return "int(%s) %s %d" % (f, pick(rng, ["==", ">", ">=", "<", "<="]), pick(rng, [0, 1, 5, 6]))
            if c < 0.8:
                return "flt(%s) %s %s" % (f, pick(rng, ["==", ">", "<="]), pick(rng, ["0.5", "5.0", "5.5"]))
            return "str(%s) == str(%s)" % (f, pick(rng, fields))
        return pick(rng, names)

    def expr(d):
        if d == 0 or rng.random() < 0.3:
            a = atom()
            if neg and rng.random() < 0.25 and " " not in a.replace(", ", ","):
                return "not " + a
            if neg and rng.random() < 0.1:
                return "not (%s)" % a
            return a
        l, r = expr(d - 1), expr(d - 1)
        op = pick(rng, ["and", "or"])
        s = "%s %s %s" % (l, op, r)
        c = rng.random()
        if c < 0.3:
            s = "(%s)" % s
        elif neg and c < 0.42:
            s = "not (%s)" % s
        return s
    return expr(rng.randint(0, depth))


def gen_rule(rng, neg=True, quant=True, casts=True, nids=None):
    n = nids or pick(rng, [1, 2, 2, 3, 4])
    names = ["A", "B", "C", "D"][:n]
    det = {}
    for nm in names:
        det[nm] = gen_identifier(rng)
    det["condition"] = gen_condition(rng, names, FIELDS + DOTTED[:1], neg=neg, quant=quant, casts=casts)
    return det


# ------------------------------------------------------------------ documents
def rule_fields(det):
    """All field names mentioned by keys of the identifiers, with nesting: returns a tree
    {field: {"leaf": bool, "sub": tree}}."""
    import re

    def strip_key(k):
        m = re.match(r"^\s*(?:all|not|int|flt|str|string)\((.*)\)\s*$", k)
        if m:
            return m.group(1)
        m = re.match(r"^\s*of\((.*),\s*\d+\)\s*$", k)
        if m:
            return m.group(1)
        return k

    def walk(m, tree):
        for k, v in m.items():
            f = strip_key(k)
            node = tree.setdefault(f, {"leaf": False, "sub": {}, "strs": [], "nums": []})
            if isinstance(v, dict):
                walk(v, node["sub"])
            elif isinstance(v, list):
                for x in v:
                    if isinstance(x, dict):
                        walk(x, node["sub"])
                    else:
                        node["leaf"] = True
                        (node["strs"] if isinstance(x, str) else node["nums"]).append(x)
            else:
                node["leaf"] = True
                (node["strs"] if isinstance(v, str) else node["nums"]).append(v)
    tree = {}
    for k, v in det.items():
        if k == "condition":
            import re as _re
            for f in _re.findall(r"(?:int|flt|str)\(([^)]*)\)", v):
                tree.setdefault(f, {"leaf": True, "sub": {}, "strs": [], "nums": []})["leaf"] = True
            continue
        if isinstance(v, dict):
            walk(v, tree)
        elif isinstance(v, list):
            for x in v:
                if isinstance(x, dict):
                    walk(x, tree)
    return tree


def needle_text(p):
    q = p[1:] if p.startswith("i") and len(p) > 1 else p
    if q.startswith("?"):
        return None
    q = q.strip("*").strip("'\"")
    return q


FAMILIES = [
    ["i?^FO", "i?O+", "i?^AB", "i?Bc", "i?OO$"],          # case-insensitive regexes (one regex set)
    ["?^fo", "?o+", "?.*oo", "?fo.*", "?b", "?(a|b)c"],     # regexes
    ["i*OO", "iFo*", "i*O*", "iAB", "i*B*", "iFOO"],        # case-insensitive needles (one automaton)
    ["fo*", "*oo", "*o*", "*ab*", "a*", "*c", "foo", "abc"],  # needles (one automaton)
]


REGEX_EXAMPLES = {"^fo": "foo", "o+": "foo", ".*oo": "xoo", "fo.*": "xfoo", ".*o.*": "o", "^ab$": "ab", "b": "abc",
                  "(a|b)c": "xbc", "^FO": "fox", "O+": "xoy", "^AB": "abx", "Bc": "xbC", "OO$": "fOo", "^A": "Ab", "O": "xO"}


def match_for(rng, p):
    """a value that the pattern p accepts (best effort)"""
    if isinstance(p, bool) or p is None:
        return p
    if isinstance(p, (int, float)):
        return p
    ci = False
    q = p
    if q.startswith("i") and len(q) > 0:
        ci = True
        q = q[1:]
    if q.startswith("?"):
        v = REGEX_EXAMPLES.get(q[1:], "foo")
    elif q[:2] in (">=", "<="):
        try:
            v = float(q[2:]) if "." in q else int(q[2:])
        except ValueError:
            v = 5
    elif q[:1] in (">", "<", "="):
        try:
            n = float(q[1:]) if "." in q else int(q[1:])
        except ValueError:
            n = 5
        v = n + 1 if q[0] == ">" else (n - 1 if q[0] == "<" else n)
    elif q == "*":
        v = "zzz"
    elif len(q) >= 2 and q.startswith("*") and q.endswith("*"):
        v = "x" + q[1:-1] + "y"
    elif q.startswith("*"):
        v = "x" + q[1:]
    elif q.endswith("*"):
        v = q[:-1] + "y"
    elif len(q) >= 2 and q[0] == q[-1] and q[0] in "'\"":
        v = q[1:-1]
    else:
        v = q
    if ci and isinstance(v, str) and rng.random() < 0.5:
        v = v.upper()
    return v


def gen_leaf_value(rng, node):
    r = rng.random()
    pats = node["strs"] + node["nums"]
    if pats and r < 0.42:
        v = match_for(rng, pick(rng, pats))
        if isinstance(v, float):
            return Fl(fbits(v))
        if rng.random() < 0.1:
            return [v, "zzz"]
        return v
    if r < 0.6:
        cands = list(HAY)
        for p in node["strs"]:
            t = needle_text(p)
            if t is not None:
                cands += [t, t.upper(), t.lower(), "x" + t, t + "y", "x" + t + "y", t[:-1]]
        return pick(rng, cands)
    if r < 0.76:
        c = [5, 0, 1, -3, 6, 4, 100, I(5), U(5), I(-1), U(9223372036854775807), U(9223372036854775808),
             U(18446744073709551615), I(-9223372036854775808), Fl(fbits(5.0)), Fl(fbits(5.5)), Fl(fbits(4.5)),
             Fl(fbits(float("nan"))), Fl(fbits(1e30)), Fl(fbits(-0.0))]
        return pick(rng, c)
    if r < 0.81:
        return rng.random() < 0.5
    if r < 0.84:
        return None
    if r < 0.94:
        n = pick(rng, [0, 1, 2, 3])
        return [gen_leaf_value(rng, node) if rng.random() < 0.8 else {"n": 1} for _ in range(n)]
    return {"x": 1}


def gen_doc(rng, tree, depth=0):
    d = {}
    for f, node in tree.items():
        r = rng.random()
        if r < 0.15:
            continue                       # absent
        if node["sub"] and r < 0.8:
            c = rng.random()
            if c < 0.08:
                v = {}                                   # empty nested object
            elif c < 0.14:
                v = {"zz_extra": pick(rng, [1, "foo", None])}   # only unaddressed keys
            elif c < 0.55:
                v = gen_doc(rng, node["sub"], depth + 1)
            elif c < 0.85:
                v = [gen_doc(rng, node["sub"], depth + 1) if rng.random() < 0.8 else pick(rng, [1, "foo", None])
                     for _ in range(pick(rng, [0, 1, 2, 3]))]
            else:
                v = gen_leaf_value(rng, node)
        else:
            v = gen_leaf_value(rng, node)
        place(d, f, v)
    if rng.random() < 0.3:
        d["noise"] = pick(rng, ["zzz", 1, None, {"f": "foo"}])
    return d


def place(d, key, v):
    """Puts v where the key addresses it (dotted / indexed keys build the intermediate
    containers)."""
    import re
    parts = key.split(".")
    cur = d
    for i, part in enumerate(parts):
        m = re.match(r"^(.*)\[(\d+)\]$", part)
        last = i == len(parts) - 1
        if m:
            name, idx = m.group(1), int(m.group(2))
            arr = cur.setdefault(name, [])
            if not isinstance(arr, list):
                return
            while len(arr) <= idx:
                arr.append("pad")
            if last:
                arr[idx] = v
            else:
                if not isinstance(arr[idx], dict):
                    arr[idx] = {}
                cur = arr[idx]
        else:
            if last:
                cur[part] = v
            else:
                nxt = cur.setdefault(part, {})
                if not isinstance(nxt, dict):
                    return
                cur = nxt
