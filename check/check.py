#!/usr/bin/env python3
"""check <property> [--tier quick|thorough] [--replay FILE]

Exit 0: the property held on everything explored (KNOWN-FINDING lines may be printed).
Exit 1: at least one `VIOLATION property=<id> replay=<path>` line was printed.
"""
import importlib
import json
import os
import sys
import traceback

sys.path.insert(0, os.path.dirname(os.path.abspath(__file__)))
import lib  # noqa: E402


def main():
    args = sys.argv[1:]
    if not args:
        print(__doc__)
        return 2
    prop = args[0]
    if "--tier" in args:
        os.environ["VERIF_TIER"] = args[args.index("--tier") + 1]
    replay = args[args.index("--replay") + 1] if "--replay" in args else None
    mod = importlib.import_module("props." + prop)
    ck = lib.Check(prop)
    try:
        if replay:
            return mod.replay(ck, json.load(open(replay, encoding="utf-8")))
        mod.run(ck)
    except lib.HangError as e:
        case = {k: v for k, v in e.case.items() if not k.startswith("_")}
        lib.log("HANG: no result within %d s on case %s" % (e.seconds, json.dumps(case)[:400]))
        ck.coverage["hang"] = {"seconds": e.seconds, "case": case}
        ck.violation({"property": prop, "kind": "direct",
                      "what": "the crate did not return within %d s on this input: neither a rule, an error, a verdict nor "
                              "a panic (the model is total: it returns on every input)" % e.seconds,
                      "rule": case.get("rule", case.get("text", "")), "replay_case": case})
    except lib.BuildError as e:
        # the machinery itself could not run: that is a broken check, reported as such
        lib.log("BUILD ERROR: %s\n%s" % (e.what, e.output[-3000:]))
        ck.coverage["build_error"] = {"what": e.what, "output": e.output[-3000:]}
        ck.violation({"property": prop, "kind": "machinery",
                      "broken": e.what, "detail": e.output[-3000:],
                      "note": "the check could not be built/run against the current tree; "
                              "the property is therefore not shown to hold"}, no_input=True)
    except Exception:
        tb = traceback.format_exc()
        lib.log(tb)
        ck.coverage["internal_error"] = tb[-3000:]
        ck.violation({"property": prop, "kind": "machinery", "broken": "orchestrator exception",
                      "detail": tb[-3000:]}, no_input=True)
    return ck.finish()


if __name__ == "__main__":
    sys.exit(main())
