"""C17  Order of operands never decides whether and/or is true."""
import copy
import itertools

import gen
import lib
from lib import D, rule_text
from props import common, rulebase


# as loaded, and as optimised by default (the optimiser re-batches or-operands per field: its grouping
# keys must not make the written order matter either)
SWS = [0, 15]


def gen_cond_tree(rng, names, depth):
    if depth == 0 or rng.random() < 0.3:
        r = rng.random()
        if r < 0.15:
            return ("leaf", "all(%s)" % rng.choice(names))
        if r < 0.3:
            return ("leaf", "of(%s, %d)" % (rng.choice(names), rng.choice([1, 1, 2])))
        return ("leaf", rng.choice(names))
    op = rng.choice(["and", "or"])
    n = rng.choice([2, 2, 3, 4])
    return (op, [gen_cond_tree(rng, names, depth - 1) for _ in range(n)])


def render(t):
    if t[0] == "leaf":
        return t[1]
    return "(" + (" %s " % t[0]).join(render(c) for c in t[1]) + ")"


def permute_tree(rng, t):
    if t[0] == "leaf":
        return t
    kids = [permute_tree(rng, c) for c in t[1]]
    rng.shuffle(kids)
    return (t[0], kids)


def permute_yaml(rng, v, top=True):
    """Shuffles every list and every mapping of an identifier value."""
    if isinstance(v, dict):
        items = [(k, permute_yaml(rng, x, False)) for k, x in v.items()]
        rng.shuffle(items)
        return dict(items)
    if isinstance(v, list):
        xs = [permute_yaml(rng, x, False) for x in v]
        rng.shuffle(xs)
        return xs
    return v


def all_perms_of_first_list(det):
    """exhaustive permutations of the first list with 2..4 members found in the identifiers"""
    path = None

    def find(v, p):
        nonlocal path
        if path is not None:
            return
        if isinstance(v, list) and 2 <= len(v) <= 4:
            path = p
            return
        if isinstance(v, dict):
            for k, x in v.items():
                find(x, p + [k])
        elif isinstance(v, list):
            for i, x in enumerate(v):
                find(x, p + [i])
    for k, v in det.items():
        if k != "condition":
            find(v, [k])
    if path is None:
        return []
    out = []
    cur = det
    for k in path:
        cur = cur[k]
    for perm in itertools.permutations(range(len(cur))):
        d2 = copy.deepcopy(det)
        c2 = d2
        for k in path[:-1]:
            c2 = c2[k]
        c2[path[-1]] = [cur[i] for i in perm]
        out.append(d2)
    return out[1:]


def run(ck):
    thorough = ck.tier == "thorough"
    rng = ck.rng
    ck.proofs()
    gen.NEG = False
    try:
        n = 1500 if thorough else 300
        groups = []
        cases = []
        for _ in range(n):
            det = gen.gen_rule(rng, neg=False, casts=False)
            names = [k for k in det if k != "condition"]
            tree = gen_cond_tree(rng, names, 2)
            det["condition"] = render(tree)
            ftree = gen.rule_fields(det)
            docs = [D(gen.gen_doc(rng, ftree)) for _ in range(5)]
            variants = [det]
            for _ in range(3):
                v = {k: permute_yaml(rng, x) for k, x in det.items() if k != "condition"}
                v["condition"] = render(permute_tree(rng, tree))
                variants.append(v)
            variants += all_perms_of_first_list(det)[:23]
            ids = []
            for v in variants:
                c = {"k": "rule", "id": ck.new_id(), "rule": rule_text(v), "docs": docs, "sw": SWS}
                cases.append(c)
                ids.append(c["id"])
            groups.append(ids)
        # entries of one sequence that all address the SAME field through different key forms and
        # pattern kinds (cast / no cast, case sensitive / insensitive, needle / regex / number): the
        # optimiser regroups them per (field, cast, case) -- every order must give the same verdict
        pats = ["5*", "*5", "*5*", "5", "i5*", "ix*", "iX5", "x*", "*x", "?^5", "?5$", "i?^X", "true", "t*", "i*RU*", 5, ">4", "<=5", True]
        vals = [5, "5", 5.0, True, "true", "x5", "X5", "5x", 55, [5, "x"], ["x5", True], None]
        for _ in range(150 if thorough else 40):
            k = rng.choice([2, 3, 3, 4])
            entries = []
            for _ in range(k):
                key = rng.choice(["f", "f", "str(f)", "str(f)", "g"])
                pat = rng.choice(pats)
                if key == "str(f)" and not isinstance(pat, str):
                    pat = str(pat).lower()
                if key == "str(f)" and pat[:1] in "<>":
                    pat = "5*"
                entries.append({key: pat if rng.random() < 0.75 else [pat, rng.choice([p for p in pats if isinstance(p, str) and p[:1] not in "<>"])]})
            cond = rng.choice(["A", "A", "of(A, 1)", "A or B", "B or A or C"])
            det = {"A": entries, "B": {"h": "q"}, "C": {"h": "r"}, "condition": cond}
            docs = [D({"f": v, "g": rng.choice(vals)}) for v in rng.sample(vals, 6)] + [D({})]
            ids = []
            for perm in itertools.permutations(range(k)):
                v = dict(det)
                v["A"] = [entries[i] for i in perm]
                c = {"k": "rule", "id": ck.new_id(), "rule": rule_text(v), "docs": docs, "sw": SWS}
                cases.append(c)
                ids.append(c["id"])
            groups.append(ids)
            ck.count("family:same_field_mixed_entries")
        # rows that are twins except for one attribute of one predicate (case flag, cast, match type):
        # whichever is written first, both must survive the optimiser
        twins = [(["*foo*", "*bar*"], ["i*foo*", "i*bar*"]), (["foo", "bar"], ["ifoo", "ibar"]), (["foo*", "bar*"], ["*foo", "*bar"]),
                 (["?foo", "?bar"], ["i?foo", "i?bar"]), ("foo", "ifoo"), ("*foo*", "foo"), ("?^foo", "i?^foo")]
        tdocs = [D(d) for d in ({"cmd": "FOO", "user": "root"}, {"cmd": "foo", "user": "root"}, {"cmd": "xfoo", "user": "root"},
                                {"cmd": "BAR", "user": "adm"}, {"cmd": "foo"}, {"user": "root"}, {})]
        for a, b in twins:
            rows = [{"cmd": a, "user": "root"}, {"cmd": b, "user": "root"}, {"cmd": "zzz", "user": "adm"}]
            ids = []
            for perm in itertools.permutations(range(3)):
                for det in ({"A": [rows[i] for i in perm], "condition": "A"},
                            {"X0": rows[0], "X1": rows[1], "X2": rows[2], "condition": " or ".join("X%d" % i for i in perm)}):
                    c = {"k": "rule", "id": ck.new_id(), "rule": rule_text(det), "docs": tdocs, "sw": SWS}
                    cases.append(c)
                    ids.append(c["id"])
            groups.append(ids)
            ck.count("family:twin_rows")
    finally:
        gen.NEG = True
    send = rulebase.wire(cases)
    impl, model, _ = lib.run_cases(send, "C17")
    by_id = {c["id"]: c for c in cases}
    direct_failed = set()
    evals = 0
    nontrivial = set()
    for ids in groups:
        base = rulebase.parse_rule_line(impl[ids[0]])
        if base["load"] != "ok":
            ck.count("load:" + str(base["load"]))
            continue
        b = base["res"].get(0, "")
        for ch in b:
            ck.count("root:" + ch)
        for vid in ids[1:]:
            v = rulebase.parse_rule_line(impl[vid])
            evals += 1
            ck.count("variants")
            if v["load"] != "ok":
                bad = "a permuted rule does not load"
                r = ""
            else:
                bad = None
                for sw in SWS:
                    b = base["res"].get(sw, "")
                    r = v["res"].get(sw, "")
                    if len(b) != len(r):
                        bad = "switch set %d: the permuted rule does not evaluate like the written one (%r / %r)" % (sw, b, r)
                    for x, y in zip(b, r):
                        if (x == "t") != (y == "t"):
                            bad = ("switch set %d: reordering operands / members / entries changed the verdict of a rule "
                                   "without negation or none-of" % sw)
                    if bad:
                        break
                if len(set(base["res"].get(0, ""))) > 1:
                    nontrivial.add(vid)
            if bad:
                if len(direct_failed) < 4:
                    ck.violation({"property": "C17", "kind": "direct", "what": bad,
                                  "rule": by_id[ids[0]]["rule"], "permuted": by_id[vid]["rule"], "docs": by_id[vid]["docs"],
                                  "results": [b, r],
                                  "replay_case": {"k": "rule", "id": 1, "rule": by_id[vid]["rule"], "docs": by_id[vid]["docs"], "sw": SWS}})
                direct_failed.add(vid)
    ck.coverage["evaluations"] = evals
    ck.coverage["distinct_nontrivial"] = len(nontrivial)
    ck.coverage["rule"] = (
        "random rules without negation and without none-of; each is compared with three variants in which every list, every "
        "mapping, every sequence of mappings and the operands of every and/or of the condition are shuffled, and with all "
        "permutations (exhaustive up to 4 members) of one member list; 5 documents each; verdicts must be equal, for the rule as "
        "loaded and as optimised with the default switches. The model is "
        "compared with the crate on every variant. Non-trivial = the verdict of the rule is not constant over its documents.")
    for ids in groups[:3]:
        ck.sample({"rule": by_id[ids[0]]["rule"][:400], "permuted": by_id[ids[1]]["rule"][:400],
                   "crate": [common.strip_extra(impl[ids[0]])[-60:], common.strip_extra(impl[ids[1]])[-60:]]})
    common.compare(ck, send, impl, model, "loader + solver on permuted rules", "or_perm, and_perm_truth, of_perm, positive_context_truth", direct_failed)
    common.proof_gate(ck, bool(direct_failed))


def replay(ck, payload):
    case = payload.get("replay_case") or payload.get("case")
    if not case:
        print("nothing to replay in this file")
        return 2
    impl, model, _ = lib.run_cases([{k: v for k, v in case.items() if not k.startswith("_")}], "C17replay")
    print("crate:", impl[case["id"]])
    print("model:", model[case["id"]])
    return 0
