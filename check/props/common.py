"""Helpers shared by the per-property modules."""
import re

import lib

X_RE = re.compile(r" \(x (?:\([^()]*\) ?)*\)")


K_RE = re.compile(r" \(k(?: \([0-9 ]*\))*\)")


SP_RE = re.compile(r" \(sp [a-z?]*\)")


TH_RE = re.compile(r" \(th[0-9 ]*\)")


def strip_known(line):
    """Removes the model-only `(k (sw class ...) ...)` and `(sp ...)` elements from a model.out line."""
    return TH_RE.sub("", SP_RE.sub("", K_RE.sub("", line)))


def scope_of(line):
    """switch sets for which the end-to-end C01 theorem applies to this rule (Model/Scope.v)"""
    m = TH_RE.search(line)
    return set(int(x) for x in m.group(0)[4:-1].split()) if m else set()


def spec_of(line):
    m = SP_RE.search(line)
    return m.group(0)[5:-1] if m else None


def known_of(line):
    """-> {switch set: [class numbers]}"""
    m = K_RE.search(line)
    out = {}
    if m:
        for grp in re.findall(r"\(([0-9 ]+)\)", m.group(0)):
            nums = [int(x) for x in grp.split()]
            out[nums[0]] = nums[1:]
    return out


def strip_extra(line):
    """Removes the crate-only `(x ...)` element from an impl.out line."""
    return X_RE.sub("", line)


def extra_of(line):
    m = re.search(r"\(x ((?:\([^()]*\) ?)*)\)", line)
    out = {}
    if m:
        for k, v in re.findall(r"\((\w+) ([^()]*)\)", m.group(1)):
            out[k] = v
    return out


def lines_agree(a, b):
    """Structural comparison for model lines with order-dependent alternatives:
    `(res_alt N complete|partial (res N S1) (res N S2) ...)` matches `(res N Si)` for some i;
    a `partial` alternative list that does not contain the crate's value is not a
    disagreement (the enumeration of hash orders was cut), it is counted as not compared
    by returning None."""
    if "_alt " not in b:
        return False
    try:
        xa = lib.parse_sexp(a)
        xb = lib.parse_sexp(b)
    except Exception:
        return False
    if len(xa) != len(xb):
        return False
    verdict = True
    for ea, eb in zip(xa, xb):
        if ea == eb:
            continue
        if isinstance(eb, list) and eb and eb[0] in ("res_alt", "reads_alt"):
            if ea in eb[3:]:
                continue
            if eb[2] == "partial":
                verdict = None
                continue
        return False
    return verdict


def compare(ck, cases, impl, model, layer, theorem_hint, direct_failed_ids=(), max_report=3):
    """Line diff of crate vs model.  A disagreement on a case that also fails the direct
    property test is already reported there; any other disagreement breaks the tie between
    model and code and is reported with no-failing-input-found (the direct tests of the
    property have been run on the same inputs and did not fail)."""
    agree = 0
    dis = []
    unmodelled = 0
    for c in cases:
        cid = c["id"]
        a = strip_extra(impl[cid])
        b = strip_known(model[cid])
        if b.endswith(" unmodelled)") or " miss " in b[:40] or b.endswith(" skip)") or "harness_error" in a:
            unmodelled += 1
            if " miss " in b[:40]:
                ck.count("oracle_miss")
            continue
        if "runner_error" in b:
            dis.append((c, a, b))
            continue
        ag = True if a == b else lines_agree(a, b)
        if ag is None:
            unmodelled += 1
            ck.count("hash_order_enumeration_cut")
        elif ag:
            agree += 1
        else:
            dis.append((c, a, b))
    ck.coverage["traces_validated_against_impl"] += agree
    ck.coverage["disagreements_checked"] += len(dis)
    ck.count("not_compared(unmodelled/skip)", unmodelled)
    reported = 0
    if direct_failed_ids and dis:
        # a concrete failing input has been reported already: the disagreements are listed in
        # the evidence but not reported a second time as "no failing input found"
        ck.coverage.setdefault("disagreements_not_reported_separately", 0)
        ck.coverage["disagreements_not_reported_separately"] += len(dis)
        return agree, dis
    for c, a, b in dis:
        if c["id"] in direct_failed_ids:
            continue
        if reported >= max_report:
            break
        reported += 1
        ck.violation({
            "property": ck.prop, "kind": "correspondence",
            "layer": layer, "broken": "model and crate disagree on this case (%s)" % theorem_hint,
            "case": c, "crate": a[:4000], "model": b[:4000], "seed": ck.seed,
            "note": "the direct property tests of this check ran on the same inputs without failing, "
                    "so no concrete failing input is known; the theorems about the model no longer "
                    "speak about this code",
        }, no_input=True)
    return agree, dis


def proof_gate(ck, search_found):
    """Reports a broken proof obligation.  `search_found` says whether the direct tests of
    this run found a concrete failing input (then that is the replay, already reported)."""
    if ck.proof_failure is None:
        return
    if search_found:
        return
    ck.violation({
        "property": ck.prop, "kind": "proof",
        "broken": ck.proof_failure,
        "note": "a proof obligation of this property no longer checks; the search over the "
                "generated inputs found no concrete failing input",
    }, no_input=True)
