"""C04  Loading arbitrary text returns a rule or an error, never a panic."""
import itertools
import json

import lib
from lib import D, rule_text
from props import common
import gen

ALPHA = ["a", "(", ")", " ", "-", ".", '"', "'", "*", "?", "i", "é", "1", "=", ">", "<", ",", "[", "#"]


def yaml_shapes(rng, depth):
    """arbitrary YAML values as Python objects (JSON-expressible)"""
    r = rng.random()
    if depth == 0 or r < 0.45:
        return rng.choice([None, True, False, 0, 1, -1, 5.5, 18446744073709551615, 9223372036854775808, "", "x", "*", '"', "'",
                           "i'", "i\"", "?(", "?a", ">=", ">=x", ">1.", "=", "i", "**", "i**", "-", "1 and", "a b", "é*", "*é",
                           "i*É*", "\u0000", "a\nb", "not(", "all(", "of(a,", "int(x)", "''", '""', "'x", "x'", "?" + "(" * 50,
                           "?a{1000}{1000}"])
    if r < 0.75:
        n = rng.randint(0, 3)
        return {rng.choice(["f", "g", "all(f)", "of(f, 1)", "of(f, -1)", "of(f)", "not(f)", "int(f)", "flt(f)", "str(f)", "f g", "f and g",
                            "a.b", "a[0]", "", " ", "(", "f)", "not f", "1", "f == 1", "all(f) and g", "é", "#x", "-"]):
                yaml_shapes(rng, depth - 1) for _ in range(n)}
    return [yaml_shapes(rng, depth - 1) for _ in range(rng.randint(0, 3))]


def deep(n, leaf, kind):
    v = leaf
    for _ in range(n):
        v = {"n": v} if kind == "map" else [v]
    return v


def run(ck):
    thorough = ck.tier == "thorough"
    rng = ck.rng
    ck.proofs()
    maxlen = 4 if thorough else 3
    strings = [""]
    for n in range(1, maxlen + 1):
        if n <= 2 or thorough and n <= 3:
            strings += ["".join(p) for p in itertools.product(ALPHA, repeat=n)]
        else:
            for _ in range(4000):
                strings.append("".join(rng.choice(ALPHA) for _ in range(n)))
    for _ in range(3000 if thorough else 600):
        n = rng.randint(4, 12)
        strings.append("".join(rng.choice(ALPHA + ["and ", "or ", "not ", "int(", "all(", "of(", "A", "B", "\t", "\n", "\x0b", "\x0c", "\r", "٣", "½", "𝟙", "́"]) for _ in range(n)))
    # every character the tokeniser (or Unicode) calls white space, in every position of small
    # conditions and keys: each must be skipped or rejected, never looped on
    for ws in [" ", "\t", "\n", "\x0b", "\x0c", "\r", "\x1c", "\x1f", "\x85", "\xa0", "\u1680", "\u2028", "\u3000", "\ufeff"]:
        for tmpl in ("%s", "A%s", "%sA", "A%sand%sB", "A and%sB", "A%sor B", "not%sA", "not %sA", "(%sA)", "all(%sA)", "of(A,%s1)",
                     "int(%sf) > 1", "f%s", "%sf", "int(f%s)", "f%s== 1", "1%s", "%s1", "1.%s5", "i%s*", "?%s"):
            strings.append(tmpl.replace("%s", ws))
            strings.append(tmpl.replace("%s", ws * 3))
    strings = list(dict.fromkeys(strings))
    cases = []
    for s in strings:
        cases.append({"k": "tok", "id": ck.new_id(), "s": s})
        cases.append({"k": "ident", "id": ck.new_id(), "s": s})
    for s in strings[::3] + [x for x in strings if any(ord(ch) < 32 or ord(ch) in (0x85, 0xa0, 0x1680, 0x2028, 0x3000, 0xfeff) for ch in x)]:
        cases.append({"k": "cond", "id": ck.new_id(), "s": s})
    # mapping keys and pattern values in every position of an identifier block
    pid_cases = []
    for s in strings[::5] + [x for x in strings if any(ord(ch) < 32 and ch != "\t" for ch in x)][:400]:
        for shape in ({s: "x"}, {"f": s}, {"f": [s, "y"]}, {"all(f)": [s]}, {"f": {s: "x"}}, [{"f": s}], {"str(f)": [s, 1]}):
            pid_cases.append({"k": "pid", "id": ck.new_id(), "yaml": json.dumps(shape, ensure_ascii=False)})
    for _ in range(2500 if thorough else 600):
        pid_cases.append({"k": "pid", "id": ck.new_id(), "yaml": json.dumps(yaml_shapes(rng, 4), ensure_ascii=False)})
    for n in (1, 8, 32, 64):
        pid_cases.append({"k": "pid", "id": ck.new_id(), "yaml": json.dumps(deep(n, {"f": "x"}, "map"))})
        pid_cases.append({"k": "pid", "id": ck.new_id(), "yaml": json.dumps({"f": deep(n, "x", "seq")})})
    # whole rules: arbitrary shapes in every position
    rule_cases = []
    for _ in range(2500 if thorough else 600):
        r = rng.random()
        det = gen.gen_rule(rng) if r < 0.5 else {"A": yaml_shapes(rng, 3), "condition": rng.choice(["A", "A and B", "not A", rng.choice(strings)])}
        top = {"detection": det, "true_positives": [], "true_negatives": []}
        m = rng.random()
        if m < 0.08:
            del top["true_positives"]
        elif m < 0.16:
            top["true_negatives"] = yaml_shapes(rng, 2)
        elif m < 0.24:
            top["detection"] = yaml_shapes(rng, 3)
        elif m < 0.3:
            top["optimised"] = yaml_shapes(rng, 1)
        elif m < 0.36:
            top["detection"]["condition"] = yaml_shapes(rng, 2)
        elif m < 0.42:
            top["true_positives"] = [yaml_shapes(rng, 2) for _ in range(2)]
        rule_cases.append({"k": "rule", "id": ck.new_id(), "rule": json.dumps(top, ensure_ascii=False), "docs": [D({"f": "x"})],
                           "sw": [0], "validate": True})
    for n in (8, 32, 64):
        top = {"detection": {"A": deep(n, {"f": "x"}, "map"), "condition": "A"}, "true_positives": [deep(n, {"f": "x"}, "map")], "true_negatives": []}
        rule_cases.append({"k": "rule", "id": ck.new_id(), "rule": json.dumps(top), "docs": [D(deep(min(n, 28), {"f": "x"}, "map"))], "sw": [0, 15], "validate": True})
        cond = "(" * n + "A" + ")" * n
        rule_cases.append({"k": "rule", "id": ck.new_id(), "rule": rule_text({"A": {"f": "x"}, "condition": cond}), "docs": [D({"f": "x"})], "sw": [0, 15]})
        cond = "not " * n + "A"
        rule_cases.append({"k": "rule", "id": ck.new_id(), "rule": rule_text({"A": {"f": "x"}, "condition": cond}), "docs": [D({"f": "x"})], "sw": [0, 15]})
    # raw text that is not even YAML (serde_yaml's own layer; crate-only, no panic)
    raw = ["", ":", "- x", "detection: [", "detection:\n  condition: A\n  A: {f: x", "\t", "%YAML 9", "&a *a", "? x", "!!binary x",
           "detection: !foo {A: {f: x}, condition: A}\ntrue_positives: []\ntrue_negatives: []",
           "detection: &d {A: {f: x}, condition: A}\ntrue_positives: []\ntrue_negatives: []\nx: *d",
           "detection: {A: !t {f: x}, condition: A}\ntrue_positives: []\ntrue_negatives: []",
           "detection: {A: {f: !t x}, condition: A}\ntrue_positives: []\ntrue_negatives: []",
           "detection: {A: {f: x}, condition: !t A}\ntrue_positives: !t []\ntrue_negatives: []",
           "!r {detection: {A: {f: x}, condition: A}, true_positives: [!t {f: x}], true_negatives: [], optimised: !b false}",
           "[false, {condition: A, A: {f: x}}, [], []]", "1: {condition: A, A: {f: x}}\n2: []\n3: []",
           "detection:\n  condition: A\n  A: {f: x}\n  1: {f: x}\ntrue_positives: []\ntrue_negatives: []",
           "detection:\n  condition: 1\n  A: {f: x}\ntrue_positives: []\ntrue_negatives: []",
           "detection: {condition: A, A: {f: x}, A: {g: y}}\ntrue_positives: []\ntrue_negatives: []",
           "detection: {condition: A, A: {f: x}}\ntrue_positives: ~\ntrue_negatives: null",
           "detection: {condition: A, A: {f: x}}\ntrue_positives:\ntrue_negatives:",
           "detection: {condition: A, A: {f: x}}\ntrue_positives: !t ~\ntrue_negatives: []",
           "detection: {condition: A, A: {f: x}}\ntrue_positives: [~]\ntrue_negatives: [null, {f: x}]",
           "detection: ~\ntrue_positives: []\ntrue_negatives: []",
           "detection: {condition: ~, A: {f: x}}\ntrue_positives: []\ntrue_negatives: []",
           "detection: {condition: A, A: ~}\ntrue_positives: []\ntrue_negatives: []",
           "detection: {condition: A, A: {f: x}}\ntrue_positives: []\ntrue_negatives: []\noptimised: ~"]
    for t in raw:
        rule_cases.append({"k": "rule", "id": ck.new_id(), "rule": t, "docs": [], "sw": [0], "validate": True, "_raw": True})

    allc = cases + pid_cases + rule_cases
    send = [{k: v for k, v in c.items() if not k.startswith("_")} for c in allc]
    impl, model, _ = lib.run_cases(send, "C04")
    direct_failed = set()
    evals = 0
    nontrivial = set()
    for c in allc:
        evals += 1
        line = impl[c["id"]]
        kind = c["k"]
        body = line.split(" ", 1)[1] if " " in line else ""
        outcome = "ok" if body.startswith("ok") or body.startswith("(load ok)") else ("err" if body.startswith("err") or body.startswith("(load err)") else body[:12])
        ck.count("%s:%s" % (kind, outcome.split(")")[0]))
        if outcome in ("ok", "err"):
            nontrivial.add((kind, c.get("s") or c.get("yaml") or c.get("rule")))
        if "panic" in line:
            if len(direct_failed) < 5:
                ck.violation({"property": "C04", "kind": "direct", "what": "a loading layer panicked",
                              "layer": kind, "input": c.get("s") or c.get("yaml") or c.get("rule"), "crate": line[:500],
                              "replay_case": {k: v for k, v in c.items() if not k.startswith("_")}})
            direct_failed.add(c["id"])
    # compiled-size limits of the regex crate (not modelled: Oracles.re_valid is per pattern): every member
    # of a list compiles on its own, the set the loader builds from them does not (D35, repaired) --
    # crate only, must be an error or a rule, never a panic
    big_cases = []
    for n in (60000, 80000, 100000, 150000):
        a, b = "?[a-z]{%d}x" % n, "?[a-z]{%d}y" % n
        for det in ({"A": {"f": [a, b]}, "condition": "A"}, {"A": {"f": ["i" + a, "i" + b]}, "condition": "A"},
                    {"A": {"all(f)": [a, b]}, "condition": "A"}, {"A": {"f": [a, b, "foo*"]}, "condition": "not A"},
                    {"A": {"n": {"f": [a, b]}}, "condition": "A"}, {"A": {"f": a}, "condition": "A"}):
            big_cases.append({"k": "rule", "id": ck.new_id(), "rule": rule_text(det), "docs": [], "sw": [0]})
    # the same for the needle automata (D38, repaired): aho-corasick refuses a DFA above 2^31 state slots,
    # i.e. about 8.4 MB of needle text once more than 128 byte values occur
    base = "".join(chr(c) for c in range(0x23, 0x7f) if chr(c) not in "*?'\"\\") + "".join(chr(c) for c in range(0xa1, 0x100))
    long_text = (base * (8_400_000 // len(base.encode("utf-8")) + 1))
    half = long_text[:len(long_text) // 2]
    for det in ({"A": {"f": "i*" + long_text + "*"}, "condition": "A"}, {"A": {"f": "i" + long_text}, "condition": "A"},
                {"A": {"f": ["*" + half + "*", "*" + half[1:] + "x*"]}, "condition": "A"}):
        big_cases.append({"k": "rule", "id": ck.new_id(), "rule": rule_text(det), "docs": [], "sw": [0]})
    bout = lib.run_harness_only(big_cases, "C04big")
    for c in big_cases:
        evals += 1
        line = bout[c["id"]]
        ck.count("oversized_regex_set:" + ("panic" if "panic" in line else ("err" if "(load err)" in line else "ok")))
        if "panic" in line:
            if len(direct_failed) < 5:
                ck.violation({"property": "C04", "kind": "direct", "what": "loading panicked on regexes / needles whose set or automaton exceeds the size limit of the regex / aho-corasick crate",
                              "layer": "rule", "input": c["rule"][:200], "crate": line[:300], "replay_case": c})
            direct_failed.add(c["id"])
    ck.coverage["evaluations"] = evals
    ck.coverage["distinct_nontrivial"] = len(nontrivial)
    ck.coverage["exhaustive"] = True
    ck.coverage["exhaustive_space"] = ("all strings over the %d-character alphabet %s up to length %d as condition / pattern / (sampled) mapping key"
                                       % (len(ALPHA), "".join(ALPHA), 3 if thorough else 2))
    ck.coverage["rule"] = (
        "each string is fed to the tokeniser, to into_identifier, (every third) to the condition loader and (every fifth) to "
        "parse_identifier in seven positions; random YAML shapes (depth <= 4, nesting up to 64) as identifier blocks and in every "
        "position of whole rules (Rule::from_value and Rule::from_str), plus raw non-YAML text; all under catch_unwind. "
        "Non-trivial = the layer returned Ok or Err; distinct = distinct (layer, input).")
    for c in (cases[101], pid_cases[40], rule_cases[7]):
        ck.sample({"case": {k: v for k, v in c.items() if not k.startswith("_")}, "crate": impl[c["id"]][:300]})
    common.compare(ck, send, impl, model, "tokenise / into_identifier / parse_identifier / load", "tokenise_total, into_identifier_total, load_rule_total", direct_failed)
    common.proof_gate(ck, bool(direct_failed))


def replay(ck, payload):
    case = payload.get("replay_case") or payload.get("case")
    if not case:
        print("nothing to replay in this file")
        return 2
    impl, model, _ = lib.run_cases([{k: v for k, v in case.items() if not k.startswith("_")}], "C04replay")
    print("crate:", impl[case["id"]])
    print("model:", model[case["id"]])
    return 0
