"""C06  Three-valued connectives obey their truth tables."""
import itertools

import lib
from lib import D, rule_text
from props import common

VALS = "tfm"


def t_or(v):
    return "t" if "t" in v else ("f" if "f" in v else "m")


def t_and(v):
    for x in v:
        if x != "t":
            return x
    return "t"


def t_not(x):
    return {"t": "f", "f": "t", "m": "f"}[x]


def t_of(n, v):
    if n == 0:
        return "f" if "t" in v else ("t" if "f" in v else "m")
    if v.count("t") >= n:
        return "t"
    return "m" if all(x == "m" for x in v) else "f"


def doc_for(vec):
    d = {}
    for i, x in enumerate(vec):
        if x == "t":
            d["f%d" % (i + 1)] = "v"
        elif x == "f":
            d["f%d" % (i + 1)] = "w"
    return d


def ident_defs(k):
    return {"X%d" % i: {"f%d" % i: "v"} for i in range(1, k + 1)}


def build_cases(ck, maxk):
    """Returns a list of (case, form, k, expected_fn) where expected_fn maps an operand vector
    to the expected result."""
    out = []

    def add(form, k, det, exp, docs=None, vecs=None):
        if vecs is None:
            vecs = ["".join(p) for p in itertools.product(VALS, repeat=k)]
            docs = [doc_for(v) for v in vecs]
        c = {"k": "rule", "id": ck.new_id(), "rule": rule_text(det), "docs": [D(d) for d in docs], "sw": [0, 15],
             "_form": form, "_k": k, "_vecs": vecs, "_exp": [exp(v) for v in vecs], "_docs": docs}
        out.append(c)

    for k in range(1, maxk + 1):
        names = ["X%d" % i for i in range(1, k + 1)]
        defs = ident_defs(k)
        if k >= 2:
            # binary chains (left-associated by the parser) and parenthesised right nesting
            add("binary_and", k, dict(defs, condition=" and ".join(names)), t_and)
            add("binary_or", k, dict(defs, condition=" or ".join(names)), t_or)
            right = names[-1]
            for nme in reversed(names[:-1]):
                right = "(%s and %s)" % (nme, right)
            add("binary_and_right", k, dict(defs, condition=right), t_and)
            right = names[-1]
            for nme in reversed(names[:-1]):
                right = "(%s or %s)" % (nme, right)
            add("binary_or_right", k, dict(defs, condition=right), t_or)
        # group forms: a mapping with k entries (and), a sequence of k mappings (or)
        add("group_and", k, {"A": {"f%d" % i: "v" for i in range(1, k + 1)}, "condition": "A"}, t_and)
        add("group_or", k, {"A": [{"f%d" % i: "v"} for i in range(1, k + 1)], "condition": "A"}, t_or)
        add("not_group_and", k, {"A": {"f%d" % i: "v" for i in range(1, k + 1)}, "condition": "not A"},
            lambda v: t_not(t_and(v)))
        add("not_group_or", k, {"A": [{"f%d" % i: "v"} for i in range(1, k + 1)], "condition": "not A"},
            lambda v: t_not(t_or(v)))
        # all()/of() over an identifier: entries of a sequence, entries of a mapping
        seq = [{"f%d" % i: "v"} for i in range(1, k + 1)]
        mp = {"f%d" % i: "v" for i in range(1, k + 1)}
        for body, tag in ((seq, "seq"), (mp, "map")):
            if tag == "map" and k == 1:
                # a one-entry mapping is a single predicate, not a list of members: all(A) = A
                pass
            add("all_ident_" + tag, k, {"A": body, "condition": "all(A)"}, t_and)
            for n in range(0, k + 2):
                add("of_ident_%s_%d" % (tag, n), k, {"A": body, "condition": "of(A, %d)" % n},
                    (lambda n: (lambda v: t_of(n, v)))(n))
    # not on a single identifier, double use in conditions
    add("not", 1, dict(ident_defs(1), condition="not X1"), lambda v: t_not(v[0]))
    add("not_and", 2, dict(ident_defs(2), condition="not X1 and X2"), lambda v: t_and([t_not(v[0]), v[1]]))
    add("and_not", 2, dict(ident_defs(2), condition="X1 and not X2"), lambda v: t_and([v[0], t_not(v[1])]))
    add("or_not", 2, dict(ident_defs(2), condition="X1 or not X2"), lambda v: t_or([v[0], t_not(v[1])]))
    # negated operands on both sides and negated binary connectives (De Morgan pairs: the tables say
    # they are NOT interchangeable when an operand is missing)
    add("not_or_not", 2, dict(ident_defs(2), condition="not X1 or not X2"), lambda v: t_or([t_not(v[0]), t_not(v[1])]))
    add("not_and_not", 2, dict(ident_defs(2), condition="not X1 and not X2"), lambda v: t_and([t_not(v[0]), t_not(v[1])]))
    add("not_paren_or", 2, dict(ident_defs(2), condition="not (X1 or X2)"), lambda v: t_not(t_or(v)))
    add("not_paren_and", 2, dict(ident_defs(2), condition="not (X1 and X2)"), lambda v: t_not(t_and(v)))
    add("not_or_not_3", 3, dict(ident_defs(3), condition="not X1 or not X2 or not X3"), lambda v: t_or([t_not(x) for x in v]))
    add("not_and_not_3", 3, dict(ident_defs(3), condition="not X1 and not X2 and not X3"), lambda v: t_and([t_not(x) for x in v]))
    add("or_not_or", 3, dict(ident_defs(3), condition="X1 or not X2 or X3"), lambda v: t_or([v[0], t_not(v[1]), v[2]]))
    add("and_or_mix", 3, dict(ident_defs(3), condition="X1 and X2 or X3"), lambda v: t_and([v[0], t_or(v[1:])]))
    add("or_and_mix", 3, dict(ident_defs(3), condition="X1 or X2 and X3"), lambda v: t_and([t_or(v[:2]), v[2]]))

    # all()/of() over a key list on one field: operands are t/f together, or all missing
    tpat = ["*a*", "*b*", "a*", "*ab"]     # true on the value "ab"
    fpat = ["*x*", "*y*", "x*", "*z"]      # false on the value "ab"
    for k in range(1, maxk + 1):
        for bits in itertools.product("tf", repeat=k):
            vec = "".join(bits)
            pats = [tpat[i] if b == "t" else fpat[i] for i, b in enumerate(bits)]
            docs = [{"k": "ab"}, {}]
            vecs = [vec, "m" * k]
            add("all_keylist_batched", k, {"A": {"all(k)": pats}, "condition": "A"}, t_and, docs, vecs)
            for n in range(0, k + 2):
                add("of_keylist_batched_%d" % n, k, {"A": {"of(k, %d)" % n: pats}, "condition": "A"},
                    (lambda n: (lambda v: t_of(n, v)))(n), docs, vecs)
            # the other batched forms: a regex set (all members regexes), case-insensitive needles
            # (one automaton), and the same under `not`
            rpat = ["?" + (("a", "b", "^a", "ab$")[i] if b == "t" else ("x", "y", "^x", "z$")[i]) for i, b in enumerate(bits)]
            ipat = ["i" + p.upper() for p in pats]
            for tag, pp in (("regexset", rpat), ("ci", ipat)):
                add("all_keylist_%s" % tag, k, {"A": {"all(k)": pp}, "condition": "A"}, t_and, docs, vecs)
                add("not_all_keylist_%s" % tag, k, {"A": {"all(k)": pp}, "condition": "not A"}, lambda v: t_not(t_and(v)), docs, vecs)
                for n in range(0, k + 2):
                    add("of_keylist_%s_%d" % (tag, n), k, {"A": {"of(k, %d)" % n: pp}, "condition": "A"},
                        (lambda n: (lambda v: t_of(n, v)))(n), docs, vecs)
            # unbatched: one plain needle and regexes (at most one needle per batch, regex singly)
            if k == 2:
                upats = [pats[0], "?" + ("a" if bits[1] == "t" else "x")]
                add("all_keylist_unbatched", k, {"A": {"all(k)": upats}, "condition": "A"}, t_and, docs, vecs)
                for n in range(0, k + 2):
                    add("of_keylist_unbatched_%d" % n, k, {"A": {"of(k, %d)" % n: upats}, "condition": "A"},
                        (lambda n: (lambda v: t_of(n, v)))(n), docs, vecs)
    return out


def results_of(line):
    """-> (load, three-valued results as loaded, results as optimised by default or None)"""
    x = lib.parse_sexp(common.strip_extra(line))
    load = None
    res = {}
    for el in x[1:]:
        if isinstance(el, list) and el:
            if el[0] == "load":
                load = el[1]
            if el[0] == "res":
                res[int(el[1])] = el[2] if len(el) > 2 else ""
    return load, res.get(0), res.get(15)


def run(ck):
    thorough = ck.tier == "thorough"
    ck.proofs()
    cases = build_cases(ck, 4)
    send = [{k: v for k, v in c.items() if not k.startswith("_")} for c in cases]
    impl, model, _ = lib.run_cases(send, "C06", runner_args=["--known"])
    direct_failed = set()
    evals = 0
    nontrivial = set()
    for c in cases:
        load, res, res15 = results_of(impl[c["id"]])
        if load != "ok" or res is None or len(res) != len(c["_vecs"]):
            ck.violation({"property": "C06", "kind": "direct", "what": "rule did not load or evaluate",
                          "rule": c["rule"], "crate": impl[c["id"]][:500]})
            direct_failed.add(c["id"])
            continue
        for vec, exp, got, doc in zip(c["_vecs"], c["_exp"], res, c["_docs"]):
            evals += 1
            ck.count("form:" + c["_form"].rstrip("0123456789_"))
            ck.count("expected:" + exp)
            if len(set(vec)) > 1 or c["_k"] == 1:
                nontrivial.add((c["_form"], c["_k"], vec))
            if got != exp:
                if c["id"] not in direct_failed and len(direct_failed) < 4:
                    ck.violation({"property": "C06", "kind": "direct",
                                  "what": "connective result differs from its truth table",
                                  "form": c["_form"], "operands": vec, "expected": exp, "crate": got,
                                  "rule": c["rule"], "doc": D(doc),
                                  "replay_case": {"k": "rule", "id": 1, "rule": c["rule"], "docs": [D(doc)], "sw": [0]}})
                direct_failed.add(c["id"])
        # the same rule as optimised by default: "a rule matches only when the whole condition is true" -- the
        # verdict must be the table's.  Where a listed class of C01 (D13, D16, D17: negative positions)
        # accepts the rule for these switches the comparison is left to C01.
        if c["id"] in direct_failed:
            continue
        c15 = common.known_of(model[c["id"]]).get(15, [])
        if any(k in (13, 16, 17) for k in c15):
            ck.count("optimised_form_left_to_C01")
            continue
        if res15 is None or len(res15) != len(c["_vecs"]):
            ck.violation({"property": "C06", "kind": "direct", "what": "the rule as optimised by default did not evaluate",
                          "rule": c["rule"], "crate": impl[c["id"]][:500]})
            direct_failed.add(c["id"])
            continue
        ck.count("optimised_form_compared")
        for vec, exp, got, doc in zip(c["_vecs"], c["_exp"], res15, c["_docs"]):
            evals += 1
            if (got == "t") != (exp == "t"):
                if c["id"] not in direct_failed and len(direct_failed) < 4:
                    ck.violation({"property": "C06", "kind": "direct",
                                  "what": "as optimised by default the rule's verdict differs from the truth table of its connectives",
                                  "form": c["_form"], "operands": vec, "expected": exp, "crate_optimised": got,
                                  "rule": c["rule"], "doc": D(doc),
                                  "replay_case": {"k": "rule", "id": 1, "rule": c["rule"], "docs": [D(doc)], "sw": [15]}})
                direct_failed.add(c["id"])
    ck.coverage["evaluations"] = evals
    ck.coverage["distinct_nontrivial"] = len(nontrivial)
    ck.coverage["exhaustive"] = True
    ck.coverage["exhaustive_space"] = (
        "binary / group / not / all() / of() over identifier (sequence and mapping bodies) for arity 1..4 x {t,f,m}^k x "
        "thresholds 0..k+1; all()/of() over a key list (batched automaton form and unbatched form) for arity 1..4 x "
        "{t,f}^k and all-missing x thresholds 0..k+1  -- %d rules, %d (rule, document) evaluations" % (len(cases), evals))
    ck.coverage["rule"] = (
        "operands are steered to true/false/missing by the document (field equal / different / absent); the expected "
        "result is computed by an independent Python table (or: max; and: first non-true; not; all; of n>=1; of 0) and "
        "compared three-valued (e and Negate(e)); the same rules as optimised by the default switches must give the "
        "table's VERDICT (comparison left to C01 where one of its listed classes accepts the rule). Non-trivial = operand vector not constant (or arity 1); distinct = "
        "distinct (form, arity, vector).")
    for c in (cases[3], cases[40], cases[-1]):
        _, res, _ = results_of(impl[c["id"]])
        ck.sample({"form": c["_form"], "rule": c["rule"], "operand_vectors": c["_vecs"][:9], "expected": "".join(c["_exp"][:9]),
                   "crate": (res or "")[:9]})
    common.compare(ck, send, impl, model, "solver connectives", "or_group_spec, and_group_spec, of_pos_spec, forms_agree_*", direct_failed)
    common.proof_gate(ck, bool(direct_failed))


def replay(ck, payload):
    case = payload.get("replay_case") or payload.get("case")
    if not case:
        print("nothing to replay in this file")
        return 2
    impl, model, _ = lib.run_cases([{k: v for k, v in case.items() if not k.startswith("_")}], "C06replay")
    print("crate:", impl[case["id"]])
    print("model:", model[case["id"]])
    for k in ("form", "operands", "expected"):
        if k in payload:
            print(k + ":", payload[k])
    return 0
