"""C14  Rule serialisation round-trips."""
import gen
import lib
from lib import D, rule_text
from props import common, rulebase
from props.C13 import doc_to_yaml

QUOTING = ["*x", "?re", "'q'", '"q"', "1", "1.5", "true", "null", "~", "- x", "a: b", " lead", "trail ", "", "#c", "!t", "&a", "*a", "@x", "`b",
           "é", "multi\nline", "tab\tx", "[a]", "{a}", "a, b", "0x10", "1e3", ".5", "+1", "no", "yes", "i*", "i?x", ">=5", "y", "N"]


def run(ck):
    thorough = ck.tier == "thorough"
    rng = ck.rng
    ck.proofs()
    known, _ = lib.load_known("C14")
    listed = set(int(k.get("classifier", "0")) for k in known)
    n = 1500 if thorough else 350
    cases = []
    for _ in range(n):
        det = gen.gen_rule(rng)
        tree = gen.rule_fields(det)
        docs = [gen.gen_doc(rng, tree) for _ in range(4)]
        tp = [doc_to_yaml(d) for d in docs[:1]]
        cases.append({"k": "rt", "id": ck.new_id(), "rule": rule_text(det, tp, [{"zz": 1}, 7]), "docs": [D(d) for d in docs]})
    for q in QUOTING:
        for det in ({"A": {"f": q}, "condition": "A"}, {"A": {"f": [q, "x"]}, "condition": "A"}, {"A": {q: "x"}, "condition": "A"},
                    {"A": {"all(f)": [q]}, "B": [{"g": q}], "condition": "A or B"}):
            cases.append({"k": "rt", "id": ck.new_id(), "rule": rule_text(det, [{"f": q}], []), "docs": [D({"f": q}), D({"f": "x"}), D({})]})
    # block-style text as authors write it
    cases.append({"k": "rt", "id": ck.new_id(), "docs": [D({"f": "*x"})],
                  "rule": "detection:\n  A:\n    f: '*x'\n    g:\n    - \"?re\"\n    - 'true'\n  condition: A\ntrue_positives:\n- f: '1'\ntrue_negatives: []\n"})
    # conditions with line breaks, tabs and repeated blanks between tokens (block scalars as authors
    # write them): the serialised condition must still be the same condition
    ids = {"A": {"foo": "foo*"}, "B": {"bar": "*bar"}, "notB": {"bar": "nope"}, "C": {"baz": 1}}
    wdocs = [D({"foo": "foobar", "bar": "foobar"}), D({"foo": "foobar", "bar": "nope"}), D({"foo": "x"}), D({"baz": 1}), D({})]
    for cond in ("A\nand B", "A and\nB", "A and not \nB", "A\n  and B\n  and not C", "A\tand\tB", "A   or   B", "(A\n)\nor (\nB )", "not\nA",
                 "all(A)\nor of(B,\n 1)", " A and B ", "A and not\n notB", "A or\r\nB"):
        cases.append({"k": "rt", "id": ck.new_id(), "rule": rule_text(dict(ids, condition=cond), [], []), "docs": wdocs})
    cases.append({"k": "rt", "id": ck.new_id(), "docs": wdocs,
                  "rule": "detection:\n  A: {foo: 'foo*'}\n  B: {bar: '*bar'}\n  C: {baz: 1}\n  condition: |\n    A\n    and B\n    and not C\ntrue_positives: []\ntrue_negatives: []\n"})
    cases.append({"k": "rt", "id": ck.new_id(), "docs": wdocs,
                  "rule": "detection:\n  A: {foo: 'foo*'}\n  B: {bar: '*bar'}\n  condition: >\n    A\n    or\n    B\ntrue_positives: []\ntrue_negatives: []\n"})
    # example lists written as null / left empty
    det1 = '{"A": {"f": "x"}, "condition": "A"}'
    for text, nul in (('{"detection": %s, "true_positives": null, "true_negatives": null}' % det1, True),
                      ('{"detection": %s, "true_positives": [], "true_negatives": null}' % det1, True),
                      ('detection: %s\ntrue_positives: ~\ntrue_negatives: []\n' % det1, True),
                      ('detection: %s\ntrue_positives:\ntrue_negatives:\n' % det1, False),
                      ('{"detection": %s, "true_positives": {}, "true_negatives": []}' % det1, False),
                      ('{"detection": %s, "true_negatives": []}' % det1, False)):
        cases.append({"k": "rt", "id": ck.new_id(), "rule": text, "docs": [D({"f": "x"})], "_null_examples": nul})
    # a literal `<<` key (YAML's merge key): the crate resolves no merges, so it is an ordinary key for
    # from_str and from_value alike -- in an example document, as a field of a block, as an identifier
    mdet = '{"A": {"f": "x"}, "condition": "A"}'
    for text in ('{"detection": %s, "true_positives": [{"<<": {"f": "x"}, "g": 1}], "true_negatives": [{"<<": {"g": 2}}]}' % mdet,
                 '{"detection": %s, "true_positives": [{"f": "x", "<<": 3}], "true_negatives": []}' % mdet,
                 '{"detection": %s, "true_positives": [{"f": "x", "<<": [{"f": "y"}, {"g": 1}]}], "true_negatives": []}' % mdet,
                 '{"detection": {"A": {"f": "x", "<<": {"g": "y"}}, "condition": "A"}, "true_positives": [], "true_negatives": []}',
                 '{"detection": {"A": {"f": "x", "<<": "y"}, "condition": "A"}, "true_positives": [], "true_negatives": []}',
                 '{"detection": {"A": {"f": "x"}, "<<": {"B": {"g": "y"}}, "condition": "A"}, "true_positives": [], "true_negatives": []}',
                 '{"detection": {"A": {"f": "x"}, "<<": 1, "condition": "A"}, "true_positives": [], "true_negatives": []}',
                 'detection:\n  A: &a {f: x}\n  B:\n    <<: *a\n    g: y\n  condition: A or B\ntrue_positives:\n- &d {f: x}\n- <<: *d\n  g: y\ntrue_negatives: []\n',
                 '{"<<": {"true_negatives": []}, "detection": %s, "true_positives": []}' % mdet):
        cases.append({"k": "rt", "id": ck.new_id(), "rule": text, "docs": [D({"f": "x"}), D({"g": "y"}), D({"f": "x", "g": "y"}), D({})]})
    kfw = []
    for entry, w in rulebase.known_witnesses("C14"):
        if w:
            kfw.append({"k": "rt", "id": ck.new_id(), "rule": w["rule"], "docs": [], "_e": entry})
    send = rulebase.wire(cases + kfw)
    impl, model, _ = lib.run_cases(send, "C14")
    direct_failed = set()
    evals = 0
    nontrivial = set()
    for c in cases:
        x = lib.parse_sexp(impl[c["id"]])
        f = {}
        for el in x[1:]:
            if isinstance(el, list):
                f[el[0]] = el[1:]
        ck.count("load:" + str(f.get("load", ["?"])[0]))
        if f.get("load", [""])[0] != "ok":
            if f.get("load", [""])[0] == "err" and f.get("fromvalue") == ["ok"]:
                # from_value accepts what from_str rejects
                if c.get("_null_examples") and 34 in listed:
                    ck.count("known_class_D34")
                else:
                    if len(direct_failed) < 4:
                        ck.violation({"property": "C14", "kind": "direct", "what": "from_value accepts the value of a text that from_str rejects",
                                      "rule": c["rule"], "crate": impl[c["id"]],
                                      "replay_case": {k: v for k, v in c.items() if not k.startswith("_")}})
                    direct_failed.add(c["id"])
            continue
        evals += 1
        nontrivial.add(c["rule"])
        problems = []
        if f.get("reload") != ["ok"]:
            problems.append("the serialised rule does not load: %s" % f.get("reload"))
        if f.get("trees") == ["0"]:
            problems.append("the reloaded rule has another condition or other identifiers")
        if f.get("examples") == ["0"]:
            problems.append("the reloaded rule has other examples")
        v = f.get("verdicts", [])
        if len(v) == 2 and v[0] != v[1]:
            problems.append("verdicts differ after the round trip: %s" % v)
        if f.get("reload_opt") not in (["ok"], ["opt_panic"]):
            problems.append("the serialised optimised rule does not load: %s" % f.get("reload_opt"))
        if f.get("reload_opt") == ["ok"]:
            if f.get("flag") == ["0"]:
                problems.append("the optimised flag is lost")
            if f.get("trees_opt") == ["0"]:
                problems.append("reloading the serialised optimised rule gives other trees than the original text")
        fv = f.get("fromvalue", ["?"])[0]
        if fv != "ok":
            problems.append("from_str accepts the text but from_value rejects the equivalent value (%s)" % fv
                            if fv != "differs" else "from_value of the equivalent value gives another rule (trees or examples) than from_str of the text")
        if problems:
            if len(direct_failed) < 4:
                ck.violation({"property": "C14", "kind": "direct", "what": "; ".join(problems), "rule": c["rule"], "crate": impl[c["id"]],
                              "replay_case": {k: v for k, v in c.items() if not k.startswith("_")}})
            direct_failed.add(c["id"])
    for c in kfw:
        x = impl[c["id"]]
        cls = int(c["_e"].get("classifier", "0"))
        if cls == 40:
            still = "(load ok)" in x and "(reload ser_err)" in x
        elif cls == 41:
            still = "(load ok)" in x and ("(reload err)" in x or "(examples 0)" in x)
        else:
            still = ("(load ok)" in x and "(fromvalue err)" in x) or ("(load err)" in x and "(fromvalue ok)" in x)
        if still:
            ck.known(c["_e"].get("id"), c["_e"]["what"])
        else:
            ck.count("known_witness_no_longer_fails:" + str(c["_e"].get("id")))
    ck.coverage["evaluations"] = evals
    ck.coverage["distinct_nontrivial"] = len(nontrivial)
    ck.coverage["rule"] = (
        "random rules (with examples) and a quoting-sensitive family (%d strings such as '*x', '?re', quoted literals, numeric- and "
        "boolean-looking text, YAML indicators, multi-line) in value, list-member, key and example position are loaded, serialised with "
        "serde_yaml::to_string, loaded again and compared (trees, examples, three-valued verdicts on 3-4 documents); the same after "
        "optimisation (flag kept, trees equal the original text's); from_str vs from_value. Crate-only; the theorems cover the "
        "value level. Non-trivial = the rule loads." % len(QUOTING))
    for c in cases[:2] + cases[-1:]:
        ck.sample({"rule": c["rule"][:300], "crate": impl[c["id"]]})
    ck.assumptions.append("serde_yaml's printer/parser pair is the identity on the values a rule holds: checked on every generated rule, not proved")
    common.proof_gate(ck, bool(direct_failed))


def replay(ck, payload):
    case = payload.get("replay_case")
    if not case:
        return 2
    out = lib.run_harness_only([case], "C14replay")
    print("crate:", out[case["id"]])
    return 0
