"""Shared machinery of the checks that work on whole random rules (C01, C02, C03, C12, C16, ...)."""
import json
import os

import gen
import lib
from lib import D, rule_text
from props import common


def gen_rule_cases(ck, n_rules, docs_per_rule, sw, reads=False, validate=False, trees=False, **kw):
    rng = ck.rng
    cases = []
    for _ in range(n_rules):
        det = gen.gen_rule(rng, **kw)
        tree = gen.rule_fields(det)
        docs = [gen.gen_doc(rng, tree) for _ in range(docs_per_rule)]
        c = {"k": "rule", "id": ck.new_id(), "rule": rule_text(det), "docs": [D(d) for d in docs], "sw": list(sw),
             "_det": det, "_docs": docs}
        if reads:
            c["reads"] = True
        if validate:
            c["validate"] = True
        if trees:
            c["trees"] = True
        cases.append(c)
    return cases


def wire(cases):
    return [{k: v for k, v in c.items() if not k.startswith("_")} for c in cases]


def parse_rule_line(line):
    """-> dict(load=..., res={sw: str}, reads={sw: [...]}, validate=..., cond=, ids=)"""
    x = lib.parse_sexp(common.strip_known(common.strip_extra(line)))
    out = {"load": None, "res": {}, "reads": {}, "validate": None, "res_alt": {}, "raw": x}
    for el in x[1:]:
        if not isinstance(el, list) or not el:
            if el in ("skip", "unmodelled", "harness_error"):
                out["load"] = el
            continue
        h = el[0]
        if h == "load":
            out["load"] = el[1]
        elif h == "res":
            out["res"][int(el[1])] = el[2] if len(el) > 2 else ""
        elif h == "res_alt":
            out["res_alt"][int(el[1])] = (el[2], [(e[2] if len(e) > 2 else "") for e in el[3:]])
        elif h == "reads":
            out["reads"][int(el[1])] = el[2:]
        elif h == "validate":
            out["validate"] = el[1:]
        elif h == "cond":
            out["cond"] = el[1]
        elif h == "ids":
            out["ids"] = el[1:]
    return out


def known_witnesses(prop):
    """[(entry, witness dict)] for the `known:` lines of this property that have a corpus witness"""
    known, _ = lib.load_known(prop)
    out = []
    for k in known:
        w = k.get("witness")
        if w and w != "generated":
            path = os.path.join(lib.VERIF, w)
            if os.path.exists(path):
                out.append((k, json.load(open(path, encoding="utf-8"))))
            else:
                out.append((k, None))
        else:
            out.append((k, None))
    return out


def witness_cases(ck, prop, repeat=12):
    """The witnesses of the known findings as cases (each repeated so that hash-order
    dependent ones have a chance to show both outcomes)."""
    cases = []
    for entry, w in known_witnesses(prop):
        if w is None:
            continue
        n = repeat if w.get("order_dependent") else 1
        for _ in range(n):
            cases.append({"k": "rule", "id": ck.new_id(), "rule": w["rule"], "docs": [w["doc"]], "sw": [0, w["sw"]],
                          "_kf": entry, "_w": w})
    return cases


def corpus_cases(ck, sw, **flags):
    """Every witness under corpus/kf (of listed AND of repaired findings) as an ordinary case: a
    repaired defect that comes back is then found by the direct tests like any other input."""
    import glob
    out = []
    for path in sorted(glob.glob(os.path.join(lib.VERIF, "corpus", "kf", "D*.json"))):
        try:
            w = json.load(open(path, encoding="utf-8"))
        except Exception:
            continue
        if not isinstance(w, dict) or "rule" not in w or "doc" not in w:
            continue
        c = {"k": "rule", "id": ck.new_id(), "rule": w["rule"], "docs": [w["doc"]], "sw": list(sw), "_corpus": w.get("id")}
        c.update(flags)
        out.append(c)
    return out
