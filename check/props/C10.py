"""C10  Field paths resolve to exactly the addressed value."""
import itertools
import re

import lib
from lib import D, I, U, rule_text
from props import common

NAMES = ["a", "b"]
IDX = [None, 0, 1]


def values(depth):
    """All small document values to the given depth (as Python values)."""
    base = ["v", None]
    if depth == 0:
        return base
    sub = values(depth - 1)
    out = list(base)
    # objects over keys a, b: each absent or any sub-value
    opts = [("absent",)] + [("val", s) for s in sub]
    for oa in opts:
        for ob in opts:
            o = {}
            if oa[0] == "val":
                o["a"] = oa[1]
            if ob[0] == "val":
                o["b"] = ob[1]
            out.append(o)
    # arrays of length 0..2
    out.append([])
    for s in sub:
        out.append([s])
    for s in sub:
        for t in sub:
            out.append([s, t])
    return out


def render_path(p):
    return ".".join(n if i is None else "%s[%d]" % (n, i) for (n, i) in p)


def py_resolve(root, p):
    """The reference descent (independent of the crate and of the Coq model)."""
    cur = root
    for (n, i) in p:
        if not isinstance(cur, dict) or n not in cur:
            return ("none",)
        nxt = cur[n]
        if i is not None:
            if not isinstance(nxt, list) or i >= len(nxt):
                return ("none",)
            nxt = nxt[i]
        cur = nxt
    return ("some", cur)


def sx_value(v):
    """Python value -> the sexp text the harness prints for it."""
    def s(x):
        return "(s%s)" % "".join(" %d" % ord(ch) for ch in x)
    if v is None:
        return "(null)"
    if isinstance(v, bool):
        return "(bool %d)" % (1 if v else 0)
    if isinstance(v, str):
        return "(str %s)" % s(v)
    if isinstance(v, list):
        return "(arr%s)" % "".join(" " + sx_value(x) for x in v)
    if isinstance(v, dict):
        return "(obj%s)" % "".join(" (%s %s)" % (s(k), sx_value(x)) for k, x in v.items())
    if isinstance(v, int):
        return "(uint %d)" % v if v >= 0 else "(int %d)" % v
    raise TypeError(v)


def split_results(line):
    """`(ID R R ...)` -> list of the R texts."""
    x = lib.parse_sexp(line)
    return x[1:]


def unparse(x):
    if isinstance(x, list):
        return "(" + " ".join(unparse(y) for y in x) + ")"
    return x


def run(ck):
    thorough = ck.tier == "thorough"
    rng = ck.rng
    ok_proofs = ck.proofs()

    # ---------------------------------------------------------------- sweep of find()
    vals2 = values(2)
    if not thorough:
        vals2 = [v for v in vals2 if not isinstance(v, (dict, list))] + rng.sample(
            [v for v in vals2 if isinstance(v, (dict, list))], 250)
    docs = []
    for v in vals2:
        docs.append({"a": v})
        docs.append({"a": v, "b": "hit"})
    maxd = 4 if thorough else 3
    segs = [(n, i) for n in NAMES for i in IDX]
    paths = []
    for d in range(1, maxd + 1):
        if d == 4:
            # depth 4: all name choices, indices only on two positions (keeps the sweep finite and small)
            for p in itertools.product(segs, repeat=3):
                for last in segs:
                    paths.append(list(p) + [last])
        else:
            paths.extend(list(p) for p in itertools.product(segs, repeat=d))
    if not thorough:
        pass
    keys = [render_path(p) for p in paths]
    cases = []
    for doc in docs:
        cases.append({"k": "find", "id": ck.new_id(), "doc": D(doc), "keys": keys, "_doc": doc})
    # arbitrary key strings (totality)
    alpha = ["a", "b", ".", "[", "]", "0", "1", "+", "-", " ", "é", "9", "c"]
    weird = ["", ".", "..", "a.", ".a", "a..b", "a[", "a]", "a[]", "a[0", "a[0]]", "a[[0]", "a[0][1]", "a[0][0]", "a[1][0]", "a[0][9]", "a[0][1][2]", "a[0][]", "a[+1]",
             "a[-1]", "a[ 1]", "a[18446744073709551615]", "a[18446744073709551616]", "a[00]", "[0]", "a.[0]",
             "a[0].b", "a]b[", "é[0]", "a[0]é]", "a[1]x]", "a[1]]", "a[1]0]", "a]b[1]", "a]b[0]", "b.a[1]]", "a[0]].b", "a[1]].b", "a]b"]
    for _ in range(3000 if thorough else 600):
        n = rng.randint(1, 7)
        weird.append("".join(rng.choice(alpha) for _ in range(n)))
    weird_docs = [
        {"a": [["x", "y"], {"b": 1}], "b": {"a": "deep"}, "": {"": "empty"}, "a[0]": "literal", "é": [1, 2]},
        {"a": {"b": {"a": [0, 1, 2]}, "": "e"}, "b": "hit"},
        {"a": "scalar", "b": []},
        {"a": ["p", "q", "r"], "a]b": ["s", "t"], "b": {"a": ["u", "v"]}, "a[1]]": "lit"},
    ]
    weird_cases = []
    for doc in weird_docs:
        weird_cases.append({"k": "find", "id": ck.new_id(), "doc": D(doc), "keys": weird, "_doc": doc})

    # ---------------------------------------------------------------- nested vs dotted (rules)
    pats = ["x", "*x*", "?^x", 5, True]
    inner_vals = ["x", "axb", "y", 5, True, None, [], ["x"], {"c": "x"}]
    rule_cases = []
    for pat in pats:
        nested = rule_text({"A": {"a": {"b": pat}}, "condition": "A"})
        dotted = rule_text({"A": {"a.b": pat}, "condition": "A"})
        deep_n = rule_text({"A": {"a": {"b": {"c": pat}}}, "condition": "A"})
        deep_d = rule_text({"A": {"a.b.c": pat}, "condition": "A"})
        docs_r = []
        for iv in inner_vals:
            docs_r.append({"a": {"b": iv}})
            docs_r.append({"a": {"c": iv}, "b": iv})
            docs_r.append({"a": [{"b": iv}, {"b": "x"}]})
            docs_r.append({"a": [{"b": iv}, {"q": 1}, 7]})
            docs_r.append({"a": {"b": {"c": iv}}})
        docs_r += [{}, {"a": 1}, {"a": None}, {"a": []}, {"a": [1, 2]}, {"b": "x"}]
        for text, tag in ((nested, "nested"), (dotted, "dotted"), (deep_n, "deep_nested"), (deep_d, "deep_dotted")):
            rule_cases.append({"k": "rule", "id": ck.new_id(), "rule": text, "docs": [D(d) for d in docs_r],
                               "sw": [0], "_docs": docs_r, "_tag": tag, "_pat": pat})

    all_cases = cases + weird_cases + rule_cases
    send = [{k: v for k, v in c.items() if not k.startswith("_")} for c in all_cases]
    impl, model, _ = lib.run_cases(send, "C10")

    # ---------------------------------------------------------------- direct tests
    direct_failed = set()
    evals = 0
    nontrivial = set()
    for c in cases:
        res = split_results(impl[c["id"]])
        doc = c["_doc"]
        for p, key, r in zip(paths, keys, res):
            evals += 1
            exp = py_resolve(doc, p)
            exp_txt = "(none)" if exp[0] == "none" else "(some %s)" % sx_value(exp[1])
            got = unparse(r)
            if exp[0] == "some" or (len(p) > 1 and py_resolve(doc, p[:1])[0] == "some"):
                nontrivial.add((c["id"], key))
            ck.count("find:" + ("found" if exp[0] == "some" else "none"))
            if got != exp_txt:
                if c["id"] not in direct_failed and len(direct_failed) < 3:
                    ck.violation({"property": "C10", "kind": "direct", "what": "Object::find returned a value other than the addressed one",
                                  "doc": D(doc), "key": key, "expected": exp_txt, "crate": got,
                                  "replay_case": {"k": "find", "id": 1, "doc": D(doc), "keys": [key]}})
                direct_failed.add(c["id"])
    for c in weird_cases:
        res = split_results(impl[c["id"]])
        for key, r in zip(weird, res):
            evals += 1
            ck.count("find:arbitrary_key")
            if re.match(r"^[a-z]*\[[0-9]+\](\[[0-9]*\])+$", key) and unparse(r) != "(none)":
                # more than one index in a segment is not a path (D37, repaired): missing, never the first index
                if c["id"] not in direct_failed:
                    ck.violation({"property": "C10", "kind": "direct", "what": "a segment with more than one index resolved to a value (fabricated from a shorter path)",
                                  "doc": c["doc"], "key": key, "crate": unparse(r),
                                  "replay_case": {"k": "find", "id": 1, "doc": c["doc"], "keys": [key]}})
                direct_failed.add(c["id"])
            if unparse(r) == "(panic)":
                if c["id"] not in direct_failed:
                    ck.violation({"property": "C10", "kind": "direct", "what": "Object::find panicked",
                                  "doc": c["doc"], "key": key,
                                  "replay_case": {"k": "find", "id": 1, "doc": c["doc"], "keys": [key]}})
                direct_failed.add(c["id"])
    # any key string: the lookup must be the reference lookup (Model/Value.v `obj_find`, proved equal
    # to the descent of Model/PathSpec.v on well-formed paths and pinned to the crate on the others);
    # a value returned where the reference finds none is a fabricated value, a differing one a wrong one
    for c in cases + weird_cases:
        if c["id"] in direct_failed:
            continue
        ra, rm = split_results(impl[c["id"]]), split_results(model[c["id"]])
        for key, a, m in zip(c["keys"], ra, rm):
            if unparse(a) != unparse(m):
                if len(direct_failed) < 4:
                    ck.violation({"property": "C10", "kind": "direct",
                                  "what": "Object::find differs from the reference lookup on this key (a value from another path, or a value lost)",
                                  "doc": c["doc"], "key": key, "expected": unparse(m), "crate": unparse(a),
                                  "replay_case": {"k": "find", "id": 1, "doc": c["doc"], "keys": [key]}})
                direct_failed.add(c["id"])
                break
    # nested == dotted whenever the intermediates are objects; nested over arrays = exists
    by_pat = {}
    for c in rule_cases:
        x = lib.parse_sexp(common.strip_extra(impl[c["id"]]))
        res = None
        for el in x[1:]:
            if isinstance(el, list) and el and el[0] == "res":
                res = el[2] if len(el) > 2 else ""
        by_pat.setdefault(repr(c["_pat"]), {})[c["_tag"]] = (c, res)
    for pat, d in by_pat.items():
        for (nt, dt, depth) in (("nested", "dotted", 1), ("deep_nested", "deep_dotted", 2)):
            (cn, rn), (cd, rd) = d[nt], d[dt]
            if rn is None or rd is None:
                ck.violation({"property": "C10", "kind": "direct", "what": "rule did not load", "rule": cn["rule"]})
                continue
            for i, doc in enumerate(cn["_docs"]):
                evals += 1
                inter = doc.get("a")
                objs = isinstance(inter, dict) and (depth == 1 or isinstance(inter.get("b"), dict))
                if objs:
                    nontrivial.add((cn["id"], i))
                    ck.count("nested_vs_dotted:objects")
                    if rn[i] != rd[i]:
                        if cn["id"] not in direct_failed:
                            ck.violation({"property": "C10", "kind": "direct",
                                          "what": "nested mapping and dotted key disagree although the intermediate values are objects",
                                          "rule_nested": cn["rule"], "rule_dotted": cd["rule"], "doc": D(doc),
                                          "nested": rn[i], "dotted": rd[i]})
                        direct_failed.add(cn["id"])
                elif isinstance(inter, list) and depth == 1:
                    # some element satisfies the block
                    ck.count("nested_over_array")
                    nontrivial.add((cn["id"], i))
                    single = []
                    for el in inter:
                        if isinstance(el, dict):
                            # verdict of the block on that element = dotted-rule verdict on {a: el}
                            j = None
                            for jj, dd in enumerate(cn["_docs"]):
                                if dd == {"a": el}:
                                    j = jj
                            single.append(rn[j] if j is not None else None)
                    if None not in single:
                        exp = "t" if "t" in single else "f"
                        if rn[i] != exp:
                            if cn["id"] not in direct_failed:
                                ck.violation({"property": "C10", "kind": "direct",
                                              "what": "nested mapping over an array of objects is not 'some element satisfies it'",
                                              "rule": cn["rule"], "doc": D(doc), "expected": exp, "crate": rn[i]})
                            direct_failed.add(cn["id"])

    ck.coverage["evaluations"] = evals
    ck.coverage["distinct_nontrivial"] = len(nontrivial)
    ck.coverage["exhaustive"] = thorough
    ck.coverage["exhaustive_space"] = (
        "all well-formed paths over names {a,b} x index {none,0,1} to depth %d (%d paths) x %d documents "
        "(all values to nesting depth 2 over {a,b}%s, with and without a root-level decoy key b)"
        % (maxd, len(paths), len(docs), "" if thorough else "; 250 container shapes sampled in the quick tier"))
    ck.coverage["rule"] = (
        "complete sweep of Object::find over small documents and well-formed paths against an independent Python "
        "descent; arbitrary key strings (brackets, dots, signs, non-ASCII, u64 overflow) for totality; nested-vs-dotted "
        "and nested-over-array rules. Non-trivial = the lookup succeeds or fails only after a successful first step; "
        "distinct = distinct (document, key).")
    ck.sample({"doc": docs[7], "key": keys[40], "crate": unparse(split_results(impl[cases[7]["id"]])[40])})
    ck.sample({"doc": weird_docs[0], "key": "a[0][1]", "crate": unparse(split_results(impl[weird_cases[0]["id"]])[weird.index("a[0][1]")])})
    ck.sample({"rule": rule_cases[0]["rule"], "docs": rule_cases[0]["_docs"][:4], "crate": common.strip_extra(impl[rule_cases[0]["id"]])[:300]})

    # ---------------------------------------------------------------- correspondence
    common.compare(ck, send, impl, model, "Object::find / nested blocks", "find_exact, nested_on_object", direct_failed)
    common.proof_gate(ck, bool(direct_failed))


def replay(ck, payload):
    case = payload.get("replay_case") or payload.get("case")
    if not case:
        print("nothing to replay in this file")
        return 2
    impl, model, _ = lib.run_cases([{k: v for k, v in case.items() if not k.startswith("_")}], "C10replay")
    print("crate:", impl[case["id"]])
    print("model:", model[case["id"]])
    if "expected" in payload:
        print("expected:", payload["expected"])
    return 0
