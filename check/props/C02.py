"""C02  Verdicts follow the documented rule language."""
import covfam
import gen
import lib
from lib import D, rule_text
from props import common, rulebase


def run(ck):
    thorough = ck.tier == "thorough"
    rng = ck.rng
    ck.proofs()
    known, _ = lib.load_known("C02")
    listed = set(int(k.get("classifier", "0")) for k in known)
    n = 3000 if thorough else 600
    cases = rulebase.gen_rule_cases(ck, n, 8, [0])
    # the README / lib.rs examples
    docs_ex = [{"foo": "foobar", "bar": "foobar", "foobar": "foobar"}, {"foo": "bar", "bar": "foo", "foobar": "barfoo"},
               {"phrase": "the quick brown fox"}, {"phrase": "the quick brown BEAR"}, {}]
    for det in ({"A": {"foo": "foo*", "bar": "*bar"}, "B": {"foobar": ["foobar", "foobaz"]}, "condition": "A and B"},
                {"A": {"all(phrase)": ["*quick*", "*brown*"]}, "B": {"phrase": "ibear"}, "condition": "A and not B"}):
        cases.append({"k": "rule", "id": ck.new_id(), "rule": rule_text(det), "docs": [D(d) for d in docs_ex], "sw": [0], "_docs": docs_ex})
    # the coverage families (check/covfam.py): casts against every value kind, cast comparisons,
    # lists beyond 64 needles, nested or-of-ands over arrays, loader errors
    for fam, det, docs, extra in covfam.all_cases():
        cases.append({"k": "rule", "id": ck.new_id(), "rule": rule_text(det, extra=extra), "docs": [D(d) for d in docs], "sw": [0],
                      "_docs": docs, "_fam": fam})
        ck.count("family:" + fam)
    wit = []
    for entry, w in rulebase.known_witnesses("C02"):
        if w:
            wit.append({"k": "rule", "id": ck.new_id(), "rule": w["rule"], "docs": [w["doc"]], "sw": [0], "_e": entry, "_w": w})
    for c in cases:
        c["trees"] = True       # the loaded expression trees themselves are part of the compared line
    send = rulebase.wire(cases + wit)
    impl, model, _ = lib.run_cases(send, "C02", runner_args=["--spec"])
    direct_failed = set()
    evals = 0
    nontrivial = set()
    suppressed = 0
    for c in cases:
        a = rulebase.parse_rule_line(impl[c["id"]])
        if a["load"] != "ok":
            ck.count("load:" + str(a["load"]))
            continue
        res = a["res"].get(0, "")
        spec = common.spec_of(model[c["id"]]) or ""
        classes = common.known_of(model[c["id"]]).get(0, [])
        la, lb = common.strip_extra(impl[c["id"]]), common.strip_known(model[c["id"]])
        agrees = la == lb
        if len(set(res)) > 1:
            nontrivial.add(c["rule"])
        for i, (x, y) in enumerate(zip(res, spec)):
            evals += 1
            ck.count("root:" + x)
            if y == "?":
                ck.count("spec_undefined")
                continue
            if x != y:
                acc = [k for k in classes if k in listed]
                if agrees and acc:
                    suppressed += 1
                    for k in acc:
                        ck.count("known_class_D%d" % k)
                    continue
                if len(direct_failed) < 4 and c["id"] not in direct_failed:
                    ck.violation({"property": "C02", "kind": "direct",
                                  "what": "the rule's result differs from the documented rule language (reference interpreter working on the YAML and the document)",
                                  "rule": c["rule"], "doc": c["docs"][i], "crate": x, "reference": y, "verdict_differs": (x == "t") != (y == "t"),
                                  "model_reproduces_crate": agrees, "classes_accepting": classes,
                                  "replay_case": {"k": "rule", "id": 1, "rule": c["rule"], "docs": [c["docs"][i]], "sw": [0]}})
                direct_failed.add(c["id"])
    ck.coverage["suppressed_as_known"] = suppressed
    seen_ids = set()
    for c in wit:
        a = rulebase.parse_rule_line(impl[c["id"]])
        spec = common.spec_of(model[c["id"]]) or ""
        res = a["res"].get(0, "")
        e = c["_e"]
        if a["load"] == "ok" and res != spec and e.get("id") not in seen_ids:
            seen_ids.add(e.get("id"))
            ck.known(e.get("id"), e["what"])
    ck.coverage["evaluations"] = evals
    ck.coverage["distinct_nontrivial"] = len(nontrivial)
    ck.coverage["rule"] = (
        "structure-first random rules (every pattern kind, key modifiers, lists, nested blocks, sequences of mappings, conditions "
        "with and/or/not/all()/of()/casts) x 8 documents derived from each rule; the crate's three-valued result is compared with "
        "the extracted reference semantics Model/Spec.v, which works from the YAML of the rule and the document value, not from "
        "the engine's expression tree; a difference is suppressed only when the engine model reproduces the crate AND a listed "
        "classifier (D10/D11, D24, D26, D27, D28, D30, D32) accepts the rule. Non-trivial = result not constant over the documents.")
    for c in cases[:2] + cases[-1:]:
        ck.sample({"rule": c["rule"][:500], "crate": common.strip_extra(impl[c["id"]])[-60:], "reference": common.spec_of(model[c["id"]])})
    common.compare(ck, send, impl, model, "loader + solver (unoptimised)", "refinement of Model/Spec.v", direct_failed)
    common.proof_gate(ck, bool(direct_failed))


def replay(ck, payload):
    case = payload.get("replay_case") or payload.get("case")
    if not case:
        return 2
    impl, model, _ = lib.run_cases([{k: v for k, v in case.items() if not k.startswith("_")}], "C02replay", runner_args=["--spec"])
    print("crate:", impl[case["id"]])
    print("model:", model[case["id"]])
    return 0
