"""C07  String predicates are exact for all strings, single or batched."""
import itertools
import re

import lib
from lib import D, rule_text
from props import common, rulebase


def ascii_lower(s):
    return "".join(chr(ord(c) + 32) if "A" <= c <= "Z" else c for c in s)


def classify(p):
    if p == "":
        return ("exact", "")
    c = p[0]
    if c == "?":
        return ("regex", p[1:])
    if c in "><=":
        return ("numeric", None)
    if p == "*":
        return ("any", None)
    if p.startswith("*") and p.endswith("*"):
        return ("contains", p[1:-1])
    if p.startswith("*"):
        return ("ends", p[1:])
    if p.endswith("*"):
        return ("starts", p[:-1])
    if len(p) >= 2 and ((p[0] == '"' and p[-1] == '"') or (p[0] == "'" and p[-1] == "'")):
        return ("exact", p[1:-1])
    return ("exact", p)


def documented(p, h, ic=False):
    """Independent reference of the documented meaning; None for non-string patterns."""
    if ic:
        ci, q = True, p
    elif p.startswith("i"):
        ci, q = True, p[1:]
    else:
        ci, q = False, p
    k, t = classify(q)
    if k == "numeric":
        return None
    if k == "regex":
        try:
            return re.search(t, h, re.I if ci else 0) is not None
        except re.error:
            return None
    if k == "any":
        return True
    a, b = (ascii_lower(t), ascii_lower(h)) if ci else (t, h)
    if k == "contains":
        return a in b
    if k == "ends":
        return b.endswith(a)
    if k == "starts":
        return b.startswith(a)
    return a == b


SAFE_REGEX = ["a", "^a", "a$", "^ab$", "a.b", "a+", "(a|b)b", "[ab]a", "A", "^$", "b*a", ".*a", "a.*", ".*"]


def run(ck, ic=False, tag="C07"):
    thorough = ck.tier == "thorough"
    rng = ck.rng
    ck.proofs()
    alpha = ["a", "b", "A"]
    nmax, hmax = (3, 5) if thorough else (2, 3)
    needles = [""] + ["".join(p) for n in range(1, nmax + 1) for p in itertools.product(alpha, repeat=n)]
    hays = [""] + ["".join(p) for n in range(1, hmax + 1) for p in itertools.product(alpha, repeat=n)]
    if thorough:
        hays = hays[:1] + rng.sample(hays[1:], 150)
    pats = []
    for n in needles:
        for form in ("%s", "%s*", "*%s", "*%s*", "'%s'", '"%s"'):
            base = form % n
            pats.append(base)
            pats.append("i" + base)
    pats += ["?" + r for r in SAFE_REGEX] + ["i?" + r for r in SAFE_REGEX]
    pats += ["*", "i*", "**", "i**", "i", "ii", "iI", "I", "'", '"', "i'", "'a", "a'", "*'a'*", "'*a*'", '"*"', "'a*", "*a'", "a*b", "*a*b*",
             "a**", "**a", "i'A'", 'i"Ab"', "*é*", "iÉ", "é", "iÄ", "iä*", "*𝟙",
             # quotes that do not pair up: plain text, nothing is stripped
             "\"a'", "'a\"", "i\"a'", "i'A\"", "\"ab'", "'\"", "\"'", "'a'b'", "\"a\"b", "''a", "a\"\"", "i''", "i\"\"", "'\"a\"'", "\"'a'\""]
    pats = list(dict.fromkeys(pats))
    extra_hays = ["aXb", "ab ab", "é", "É", "Ä", "ä", "äb", "x*y", "'a'", '"', "'", "i", "I", "*", "a*", "𝟙", "a\nb", "AB", "aB",
                  "\"a'", "'a\"", "\"A'", "\"ab'", "'\"", "\"'", "a'b", "'a'b'", "\"a\"", "'a", "a\"", "\"\"", "''"]
    hays_all = hays + extra_hays
    docs = [{"f": h} for h in hays_all] + [{}]
    ddocs = [D(d) for d in docs]
    cases = []
    for p in pats:
        cases.append({"k": "rule", "id": ck.new_id(), "rule": rule_text({"A": {"f": p}, "condition": "A"}), "docs": ddocs, "sw": [0],
                      "_pats": [p]})
    # lists of 2-4 mixed members on one field
    pool = [p for p in pats if documented(p, "", ic) is not None]
    nl = 1500 if thorough else 400
    for _ in range(nl):
        k = rng.choice([2, 2, 3, 4])
        members = [rng.choice(pool) for _ in range(k)]
        cases.append({"k": "rule", "id": ck.new_id(), "rule": rule_text({"A": {"f": members}, "condition": "A"}), "docs": ddocs, "sw": [0, 15],
                      "_pats": members})
        # the same members written as separate entries / separate identifiers: the OPTIMISER batches them
        # (shake merges the searches of one field into automata and regex sets)
        if rng.random() < 0.5:
            det = {"A": [{"f": m} for m in members], "condition": "A"}
        else:
            det = {"X%d" % i: {"f": m} for i, m in enumerate(members)}
            det["condition"] = " or ".join("X%d" % i for i in range(len(members)))
        cases.append({"k": "rule", "id": ck.new_id(), "rule": rule_text(det), "docs": ddocs, "sw": [0, 15], "_pats": members})
    # random longer strings: multi-byte characters, needle longer than haystack, overlapping and repeated needles
    longs = ["abababab", "aaaa", "aaab", "baaa", "xabcabcx", "ÄäÄä", "𝟙𝟙a𝟙", "a" * 40, "ab" * 17 + "a"]
    long_pats = ["*aba*", "aba*", "*aba", "*aa*", "i*ABAB*", "*abab*", "*bab", "abababab", "abababababab*", "*ä*", "i*Ä*", "*𝟙a*", "?(ab)+a$", "?^a{40}$"]
    ldocs = [D({"f": h}) for h in longs]
    for p in long_pats:
        cases.append({"k": "rule", "id": ck.new_id(), "rule": rule_text({"A": {"f": p}, "condition": "A"}), "docs": ldocs, "sw": [0],
                      "_pats": [p], "_hays": longs})
    for _ in range(60):
        members = [rng.choice(long_pats) for _ in range(rng.choice([2, 3, 4]))]
        cases.append({"k": "rule", "id": ck.new_id(), "rule": rule_text({"A": {"f": members}, "condition": "A"}), "docs": ldocs, "sw": [0, 15],
                      "_pats": members, "_hays": longs})
        cases.append({"k": "rule", "id": ck.new_id(), "rule": rule_text({"A": [{"f": m} for m in members], "condition": "A"}), "docs": ldocs, "sw": [0, 15],
                      "_pats": members, "_hays": longs})
    send = rulebase.wire(cases)
    feats = ("ignore_case",) if ic else ()
    impl, model, _ = lib.run_cases(send, tag, features=feats, ic=ic)
    direct_failed = set()
    evals = 0
    nontrivial = set()
    for c in cases:
        a = rulebase.parse_rule_line(impl[c["id"]])
        members = c["_pats"]
        hs = c.get("_hays")
        if hs is None:
            hs = hays_all + [None]
        exp_load = all(documented(m, "", ic) is not None or classify(m[1:] if (m.startswith("i") and not ic) else m)[0] == "numeric" for m in members)
        if a["load"] != "ok":
            ck.count("load:" + str(a["load"]))
            continue
        if any(documented(m, "", ic) is None for m in members):
            ck.count("numeric_or_skipped")
            continue
        for swn in c["sw"]:
          res = a["res"].get(swn, "")
          if len(res) != len(hs):
            res = "?" * len(hs)
          if swn:
            ck.count("optimised_form_compared")
          for h, got in zip(hs, res):
            evals += 1
            if h is None:
                exp = "m"
            else:
                exp = "t" if any(documented(m, h, ic) for m in members) else "f"
            ck.count("expected:" + exp)
            ck.count("members:%d" % len(members))
            if exp != "m":
                nontrivial.add((c["rule"], h))
            if got != exp:
                if len(direct_failed) < 4 and c["id"] not in direct_failed:
                    ck.violation({"property": "C07", "kind": "direct",
                                  "what": "a string predicate (single or list) differs from the documented relation",
                                  "patterns": members, "haystack": h, "expected": exp, "crate": got, "rule": c["rule"], "ignore_case_build": ic,
                                  "switch_set": swn,
                                  "replay_case": {"k": "rule", "id": 1, "rule": c["rule"], "docs": [D({"f": h} if h is not None else {})], "sw": [swn]}})
                direct_failed.add(c["id"])
    ck.coverage["evaluations"] = evals
    ck.coverage["distinct_nontrivial"] = len(nontrivial)
    ck.coverage["exhaustive"] = True
    ck.coverage["exhaustive_space"] = (
        "all needles over {a,b,A} up to length %d in the six surface forms (plain, x*, *x, *x*, single- and double-quoted) with and "
        "without the i prefix, plus regexes and special texts (%d patterns) x all haystacks over {a,b,A} up to length %d%s plus "
        "multi-byte / special haystacks and the absent field" % (nmax, len(pats), hmax, " (150 sampled in this tier)" if thorough else ""))
    ck.coverage["rule"] = (
        "single-field rules evaluated three-valued on the crate and compared with an independent Python implementation of the "
        "documented relation (Python `re` for a fixed set of portable regexes); lists of 2-4 mixed members must be true exactly "
        "when some member is; long strings with overlapping and repeated needles and multi-byte characters. Non-trivial = "
        "field present; distinct = distinct (rule, haystack).")
    for c in (cases[5], cases[len(pats) + 3], cases[-1]):
        ck.sample({"rule": c["rule"], "crate": common.strip_extra(impl[c["id"]])[:200]})
    common.compare(ck, send, impl, model, "into_identifier + list batching + search", "single_pattern_exact, batched_list_exact", direct_failed)
    common.proof_gate(ck, bool(direct_failed))


def replay(ck, payload):
    case = payload.get("replay_case") or payload.get("case")
    if not case:
        print("nothing to replay in this file")
        return 2
    impl, model, _ = lib.run_cases([{k: v for k, v in case.items() if not k.startswith("_")}], "C07replay")
    print("crate:", impl[case["id"]])
    print("model:", model[case["id"]])
    if "expected" in payload:
        print("expected:", payload["expected"])
    return 0
