"""C12  Loading, optimising and matching are deterministic and pure."""
import re
import subprocess

import gen
import lib
from lib import D, rule_text
from props import common, rulebase

SWS = [0, 5, 2, 3, 8, 9, 15]


def source_audit():
    """matches takes &self and Rule holds no interior mutability"""
    problems = []
    for f in ("rule.rs", "solver.rs", "parser.rs", "optimiser.rs", "identifier.rs", "value.rs"):
        text = open("%s/src/%s" % (lib.REPO, f), encoding="utf-8").read()
        text = re.sub(r"#\[cfg\(test\)\].*", "", text, flags=re.S)
        for m in re.finditer(r"\b(RefCell|Cell<|Mutex|RwLock|Atomic\w+|static\s+mut|unsafe|thread_local!|OnceCell|lazy_static!)", text):
            problems.append("%s: %s" % (f, m.group(0)))
    if not re.search(r"pub fn matches\(&self", open("%s/src/rule.rs" % lib.REPO, encoding="utf-8").read()):
        problems.append("rule.rs: matches does not take &self")
    return problems


def run(ck):
    thorough = ck.tier == "thorough"
    rng = ck.rng
    ck.proofs()
    known, _ = lib.load_known("C12")
    listed = set(int(k.get("classifier", "0")) for k in known)
    n = 900 if thorough else 220
    reps = 12 if thorough else 6
    det_cases, rule_cases = [], []
    for _ in range(n):
        det = gen.gen_rule(rng)
        tree = gen.rule_fields(det)
        docs = [D(gen.gen_doc(rng, tree)) for _ in range(5)]
        cid = ck.new_id()
        text = rule_text(det)
        det_cases.append({"k": "det", "id": cid, "rule": text, "docs": docs, "sw": SWS, "reps": reps, "threads": 16 if thorough else 8})
        # the same rule through the model (under the crate's map order; trees compared structurally)
        rule_cases.append({"k": "rule", "id": cid, "rule": text, "docs": docs, "sw": SWS})
    # coverage families in which the optimiser's maps hold several keys (ties in every sort key,
    # merged nested blocks, matrices): the output order must not vary from call to call
    import covfam
    for fam, det, fdocs, extra in covfam.all_cases():
        if fam not in ("sort_ties", "sort_comparators", "nested_and_merge", "nested_matrix", "matrix_duplicate_fields", "wide_matrix"):
            continue
        if fam == "wide_matrix" and len(det.get("A", [])) > 140:
            continue
        docs = [D(d) for d in fdocs[:6]]
        cid = ck.new_id()
        text = rule_text(det, extra=extra)
        det_cases.append({"k": "det", "id": cid, "rule": text, "docs": docs, "sw": SWS, "reps": max(reps, 10), "threads": 4})
        rule_cases.append({"k": "rule", "id": cid, "rule": text, "docs": docs, "sw": SWS})
        ck.count("family:" + fam)
    # rules that share a regex SOURCE but not its case mode, and rules that share needles: whatever one
    # rule's optimisation leaves behind in the process must not reach the next (the second process below
    # sees all cases in the opposite order, i.e. with a different history)
    for src, hay in (("pow.rsh", "POWERSHELL"), ("^ab+c$", "ABBC"), ("x[0-9]+", "X42"), (".*foo.*", "FOO"), ("a|b", "B")):
        for pats in (["?" + src], ["i?" + src], ["?" + src, "i?" + src + "z"], ["i?" + src, "?" + src + "z"]):
            for shape in ("scalar", "seq"):
                det = {"A": {"f": pats[0]} if (shape == "scalar" and len(pats) == 1) else [{"f": q} for q in pats] + [{"g": "?" + src}],
                       "condition": "A"}
                docs = [D({"f": hay}), D({"f": hay.lower()}), D({"g": hay}), D({"g": hay.lower()}), D({})]
                cid = ck.new_id()
                text = rule_text(det)
                det_cases.append({"k": "det", "id": cid, "rule": text, "docs": docs, "sw": [0, 4, 6, 15], "reps": 3, "threads": 2})
                rule_cases.append({"k": "rule", "id": cid, "rule": text, "docs": docs, "sw": [0, 4, 6, 15]})
                ck.count("family:same_regex_source_two_case_modes")
    wit = rulebase.known_witnesses("C12")
    wcases = []
    for entry, w in wit:
        if w:
            wcases.append({"k": "det", "id": ck.new_id(), "rule": w["rule"], "docs": [w["doc"]], "sw": [w["sw"]], "reps": 40, "threads": 2, "_e": entry, "_w": w})
    impl, _, _ = lib.run_cases(rulebase.wire(det_cases + wcases), "C12det")
    # a second process: the same cases again IN THE OPPOSITE ORDER (a different history of loads and
    # optimisations before each case), results must be identical where nothing is order dependent
    impl2, _, _ = lib.run_cases(rulebase.wire(list(reversed(det_cases))), "C12det2")
    for c in rule_cases:
        c["otrees"] = True      # optimised trees, structurally, against the model under Order.rust_ord
    implr, modelr, _ = lib.run_cases(rulebase.wire(rule_cases), "C12rule", runner_args=["--known"])
    direct_failed = set()
    evals = 0
    nontrivial = set()
    suppressed = 0
    for c in det_cases:
        x = lib.parse_sexp(impl[c["id"]])
        x2 = lib.parse_sexp(impl2[c["id"]])
        if not (len(x) > 1 and x[1] == ["load", "ok"]):
            ck.count("load:err")
            continue
        ck.count("load:ok")
        classes = common.known_of(modelr[c["id"]])
        mr = rulebase.parse_rule_line(modelr[c["id"]])
        dets = {int(e[1]): e for e in x[1:] if isinstance(e, list) and e[0] == "det"}
        dets2 = {int(e[1]): e for e in x2[1:] if isinstance(e, list) and e[0] == "det"}
        misc = {e[0] + " " + e[1]: e[2] for e in x[1:] if isinstance(e, list) and e[0] == "threads"}
        purity = [e[1] for e in x[1:] if isinstance(e, list) and e[0] == "purity"]
        bad = []
        for sw, e in dets.items():
            evals += reps
            dd, dv = int(e[2]), int(e[3])
            first = e[4]
            order_dep_model = sw in mr["res_alt"]
            if dd > 1 or dv > 1:
                nontrivial.add((c["rule"], sw))
            # the property is about VERDICTS (match / no match); a false/missing flip at the root is
            # not one (it would be under a `not`, which is then part of the rule and shows here)
            proj = lambda s: "".join("t" if ch == "t" else ("p" if ch in "px" else "n") for ch in s)
            verdicts = set(proj(s) for s in e[4:])
            if dv > 1 and len(verdicts) == 1:
                ck.count("three_valued_flip_without_verdict_change")
            if len(verdicts) > 1 or (sw in dets2 and proj(dets2[sw][4]) != proj(first)):
                acc = [k for k in classes.get(sw, []) if k in listed]
                if order_dep_model and acc:
                    suppressed += 1
                    for k in acc:
                        ck.count("known_class_D%d(verdict)" % k)
                else:
                    bad.append("switch set %d: verdicts differ between repeated optimise calls / processes: %s vs %s" % (sw, e[5:], dets2.get(sw, ["?"] * 5)[4]))
            if dd > 1:
                # printed tree differs between calls: the Display-level known class D22 (ties in
                # shake_1's sorts, nested keys and matrix columns are left to the hash map)
                if (sw & 2 or sw & 8) and 22 in listed:
                    suppressed += 1
                    ck.count("known_class_D22(display)")
                else:
                    bad.append("switch set %d: the optimised expression prints differently from call to call" % sw)
        for k, v in misc.items():
            if v not in ("1", "-", "x"):
                bad.append("threads sharing one rule disagree (%s: %s distinct results)" % (k, v))
        if purity and purity[0] != "1":
            bad.append("a verdict depends on which documents were matched before")
        if bad:
            if len(direct_failed) < 4:
                ck.violation({"property": "C12", "kind": "direct", "what": "; ".join(bad[:4]), "rule": c["rule"], "docs": c["docs"],
                              "crate": impl[c["id"]][:1500], "model": common.strip_known(modelr[c["id"]])[:800], "classes": classes,
                              "replay_case": {k: v for k, v in c.items() if not k.startswith("_")}})
            direct_failed.add(c["id"])
    ck.coverage["suppressed_as_known"] = suppressed
    for c in wcases:
        x = lib.parse_sexp(impl[c["id"]])
        e = [el for el in x[1:] if isinstance(el, list) and el[0] == "det"]
        entry = c["_e"]
        if e and (int(e[0][3]) > 1 or (entry.get("id") == "D22" and int(e[0][2]) > 1)):
            ck.known(entry.get("id"), entry["what"])
        else:
            ck.count("known_witness_showed_one_outcome_in_this_run:" + str(entry.get("id")))
            # order-dependent findings may need more repetitions to show both outcomes; the model decides
            ck.known(entry.get("id"), entry["what"])
    audit = source_audit()
    ck.coverage["source_audit"] = audit or "matches(&self); no Cell/RefCell/Mutex/Atomic/static mut/unsafe in the non-test sources"
    if audit:
        ck.violation({"property": "C12", "kind": "direct", "what": "interior mutability or unsafe state appeared in the crate", "detail": audit})
        direct_failed.add(-1)
    ck.coverage["evaluations"] = evals
    ck.coverage["distinct_nontrivial"] = len(nontrivial)
    ck.coverage["rule"] = (
        "each random rule is optimised %d times per switch set %s in one process (fresh hash seeds per call) and again in a second "
        "process: printed trees and three-valued verdicts on 5 documents are compared; %d threads share one Rule and match the "
        "documents in different rotations (unoptimised and fully optimised); matching in forward / reverse / forward order must "
        "agree. Since fix D22 (ordered maps in the optimiser) nothing is suppressed: any verdict or print difference between "
        "calls is a violation; the optimised trees are also compared structurally with the model's (Model/Order.v rust_ord). "
        "Non-trivial = something differed between calls." % (reps, SWS, 16 if thorough else 8))
    for c in det_cases[:2]:
        ck.sample({"rule": c["rule"][:300], "crate": impl[c["id"]][:500]})
    common.compare(ck, rulebase.wire(rule_cases), implr, modelr, "optimiser under the crate's map order (Model/Order.v)", "rust_ord_perm, optimise_order_irrelevant_in_scope; trees by correspondence", direct_failed)
    common.proof_gate(ck, bool(direct_failed))


def replay(ck, payload):
    case = payload.get("replay_case")
    if not case:
        return 2
    out = lib.run_harness_only([case], "C12replay")
    print("crate:", out[case["id"]])
    return 0
