"""C03  An accepted rule can always be evaluated (no panic after load)."""
import lib
from lib import D, I, U, Fl, fbits, rule_text
from props import common, rulebase
import gen
import covfam

ALL_SW = list(range(16))

ADVERSARIAL = [None, True, [], {}, [[]], [{}], [None, 1, "x", []], U(18446744073709551615), I(-9223372036854775808),
               U(9223372036854775808), Fl(fbits(float("nan"))), Fl(fbits(float("inf"))), Fl(fbits(-0.0)), Fl(fbits(1e308)),
               "", "\u0000", "é" * 40, "a" * 300, {"a": {"a": {"a": {"a": {}}}}}, [[[[["x"]]]]],
               [{"f": "foo"}, {"g": 5}, 7], {"b": [{"c": [{"d": "x"}]}]}]


def place_all(tree, v, depth=0):
    d = {}
    for f, node in tree.items():
        if node["sub"] and depth < 3:
            gen.place(d, f, place_all(node["sub"], v, depth + 1) if not isinstance(v, list) else [place_all(node["sub"], v, depth + 1), v])
        else:
            gen.place(d, f, v)
    return d


def run(ck):
    thorough = ck.tier == "thorough"
    rng = ck.rng
    ck.proofs()
    known, _ = lib.load_known("C03")
    listed = set(int(k.get("classifier", "0")) for k in known)
    n = 2000 if thorough else 350
    cases = []
    for _ in range(n):
        det = gen.gen_rule(rng)
        tree = gen.rule_fields(det)
        docs = [gen.gen_doc(rng, tree) for _ in range(3)]
        for v in rng.sample(ADVERSARIAL, 5):
            docs.append(place_all(tree, v))
        docs.append({})
        cases.append({"k": "rule", "id": ck.new_id(), "rule": rule_text(det, [docs[0] if False else {}], [1]), "docs": [D(d) for d in docs],
                      "sw": ALL_SW, "validate": True, "vsw": [15], "_docs": docs})
    # conditions fix D3 is about: non-predicate operands must be rejected at load time
    for cond in ["A and 1", "A and int(x)", "A or not(A)", "1 and A", "A and (int(x))", "not A and flt(x)", "A or 1.5", "(A) and (1)",
                 "A and all(A)", "A and of(A, 1)", "not (A and 1)", "A and int(x) == 1", "int(x) == 1 and A", "A and not 1"]:
        cases.append({"k": "rule", "id": ck.new_id(), "rule": rule_text({"A": {"f": "x"}, "condition": cond}), "docs": [D({"f": "x", "x": 1}), D({})],
                      "sw": ALL_SW, "validate": True, "_docs": []})
    # the coverage families (check/covfam.py): casts against every value kind, cast comparisons in
    # conditions, lists beyond 64 needles, nested or-of-ands over arrays, shapes the loader must reject
    for fam, det, docs, extra in covfam.all_cases():
        cases.append({"k": "rule", "id": ck.new_id(), "rule": rule_text(det, extra=extra), "docs": [D(d) for d in docs],
                      "sw": ALL_SW, "validate": True, "_docs": docs})
        ck.count("family:" + fam)
    for c in rulebase.corpus_cases(ck, ALL_SW, validate=True):
        c["_docs"] = []
        cases.append(c)
    for c in cases:
        c["otrees"] = True
    wit = rulebase.witness_cases(ck, "C03", repeat=1)
    allc = cases + wit
    send = rulebase.wire(allc)
    impl, model, _ = lib.run_cases(send, "C03", runner_args=["--known"])
    direct_failed = set()
    evals = 0
    nontrivial = set()
    suppressed = 0
    for c in cases:
        line = impl[c["id"]]
        a = rulebase.parse_rule_line(line)
        if a["load"] == "panic":
            ck.violation({"property": "C03", "kind": "direct", "what": "loading panicked", "rule": c["rule"]})
            direct_failed.add(c["id"])
            continue
        if a["load"] != "ok":
            ck.count("load:" + str(a["load"]))
            continue
        ck.count("load:ok")
        nontrivial.add(c["rule"])
        classes = common.known_of(model[c["id"]])
        la, lb = common.strip_extra(line), common.strip_known(model[c["id"]])
        agrees = (la == lb) or (common.lines_agree(la, lb) is True)
        bad_sw = []
        for sw in ALL_SW:
            r = a["res"].get(sw, "")
            evals += max(1, len(r))
            if "p" in r or r == "x":
                cls = [k for k in classes.get(sw, []) if k in listed]
                if agrees and cls:
                    suppressed += 1
                    for k in cls:
                        ck.count("known_class_%d" % k)
                else:
                    bad_sw.append((sw, r))
        v = a["validate"]
        if v and v[0] == "panic":
            bad_sw.append(("validate", "panic"))
        if "(vopt 15 panic)" in line and not [k for k in classes.get(15, []) if k in listed]:
            bad_sw.append(("validate(optimised)", "panic"))
        if bad_sw:
            if len(direct_failed) < 4:
                ck.violation({"property": "C03", "kind": "direct",
                              "what": "a rule that loaded panics in optimise(), matches() or validate()",
                              "rule": c["rule"], "where": bad_sw[:4], "docs": c["docs"], "model_reproduces": agrees,
                              "replay_case": {"k": "rule", "id": 1, "rule": c["rule"], "docs": c["docs"], "sw": ALL_SW, "validate": True}})
            direct_failed.add(c["id"])
    ck.coverage["suppressed_as_known"] = suppressed
    still = {}
    for c in wit:
        a = rulebase.parse_rule_line(impl[c["id"]])
        w = c["_w"]
        r = a["res"].get(w["sw"], "")
        still[w["id"]] = a["load"] == "ok" and ("p" in r or r == "x")
    for k in known:
        if k.get("witness") == "generated":
            continue
        if still.get(k.get("id")):
            ck.known(k.get("id"), k["what"])
    from props import C01
    d21_known = any(k.get("id") == "D21" for k in known)
    big = {"k": "rule", "id": 1, "rule": C01.d21_rule(), "docs": [D({"g": "y0"}), D({})], "sw": [0, 8, 15]}
    out = lib.run_harness_only([big], "C03d21")
    r = rulebase.parse_rule_line(out[1])
    if r["load"] == "ok":
        for sw in (8, 15):
            res = r["res"].get(sw, "")
            if res == "x" or "p" in res:
                if d21_known:
                    for k in known:
                        if k.get("id") == "D21":
                            ck.known("D21", k["what"])
                else:
                    ck.violation({"property": "C03", "kind": "direct",
                                  "what": "optimise() or matches() panics on an or-group over more than 55296 distinct fields with the matrix switch",
                                  "rule": "(generated: props.C01.d21_rule())", "result": res,
                                  "replay_case": {"generated": "props.C01.d21_rule()", "sw": [0, sw]}})
                    direct_failed.add(-21)
    evals += 1
    # compiled-size limits of the regex crate (not modelled): regexes that compile one by one, written as
    # separate entries / identifiers of one field, which shake merges into a set that does not (D36,
    # repaired) -- crate only: optimise and matches must not panic and must keep the verdict
    big_cases = []
    for n in (60000, 80000, 100000):
        a, b = "?[a-z]{%d}x" % n, "?[a-z]{%d}y" % n
        for det in ({"A": [{"f": a}, {"f": b}], "condition": "A"}, {"A": {"f": a}, "B": {"f": b}, "C": {"g": "x"}, "condition": "A or B or C"},
                    {"A": [{"f": "i" + a}, {"f": "i" + b}, {"f": "?foo"}], "condition": "not A"},
                    {"A": [{"n": {"f": a}}, {"n": {"f": b}}], "condition": "A"}):
            big_cases.append({"k": "rule", "id": ck.new_id(), "rule": rule_text(det),
                              "docs": [D({"f": "x"}), D({"f": "foo"}), D({"g": "x"}), D({"n": {"f": "y"}}), D({})], "sw": [0, 2, 3, 7, 15]})
    # the same for needles (D39, repaired): two needles of 4.2 MB each load as plain searches, shake merges
    # them into one automaton that aho-corasick refuses
    base = "".join(chr(c) for c in range(0x23, 0x7f) if chr(c) not in "*?'\"\\") + "".join(chr(c) for c in range(0xa1, 0x100))
    half = (base * (4_200_100 // len(base.encode("utf-8")) + 1))
    for det in ({"A": [{"f": "*" + half + "*"}, {"f": "*" + half[1:] + "x*"}], "condition": "A"},       # no common prefix: the trie does not share states
                {"A": {"f": "*" + half + "*"}, "B": {"f": half[2:] + "y*"}, "C": {"g": "x"}, "condition": "A or B or C"}):
        big_cases.append({"k": "rule", "id": ck.new_id(), "rule": rule_text(det),
                          "docs": [D({"f": "x"}), D({"g": "x"}), D({})], "sw": [0, 3, 15]})
    bout = lib.run_harness_only(big_cases, "C03big")
    for c in big_cases:
        evals += 1
        r = rulebase.parse_rule_line(bout[c["id"]])
        ck.count("oversized_regex_set:load_" + str(r["load"]))
        if r["load"] != "ok":
            continue
        base = r["res"].get(0, "")
        for sw in (2, 3, 7, 15):
            if sw not in c["sw"]:
                continue
            res = r["res"].get(sw, "")
            if res == "x" or "p" in res or [i for i, (p, q) in enumerate(zip(base, res)) if (p == "t") != (q == "t")]:
                if len(direct_failed) < 4:
                    ck.violation({"property": "C03", "kind": "direct",
                                  "what": "optimise() or matches() panics (or the verdict changes) when shake merges regexes / needles whose set / automaton exceeds the size limit of the regex / aho-corasick crate",
                                  "rule": c["rule"][:300], "switch_set": sw, "unoptimised": base, "optimised": res,
                                  "replay_case": dict(c, sw=[0, sw])})
                direct_failed.add(c["id"])
    ck.coverage["evaluations"] = evals
    ck.coverage["distinct_nontrivial"] = len(nontrivial)
    ck.coverage["rule"] = (
        "random accepted rules x 16 switch sets x 9 documents each (3 derived from the rule, 5 adversarial: wrong kinds, empty "
        "containers, u64/i64 extremes, NaN/inf, deep nesting, long and non-ASCII strings placed on every field the rule names, "
        "and the empty document), plus validate() on the unoptimised and the fully optimised rule, all under catch_unwind; the "
        "model must predict a panic exactly where the crate panics. Non-trivial = the rule loaded; distinct = distinct rule text.")
    for c in cases[:2]:
        ck.sample({"rule": c["rule"][:500], "crate": common.strip_extra(impl[c["id"]])[:400]})
    common.compare(ck, send, impl, model, "loader + optimiser + solver (panic behaviour)", "solve_wf_no_panic, load_wf", direct_failed)
    common.proof_gate(ck, bool(direct_failed))


def replay(ck, payload):
    case = payload.get("replay_case") or payload.get("case")
    if not case:
        print("nothing to replay in this file")
        return 2
    impl, model, _ = lib.run_cases([{k: v for k, v in case.items() if not k.startswith("_")}], "C03replay", runner_args=["--known"])
    print("crate:", impl[case["id"]])
    print("model:", model[case["id"]])
    return 0
