"""C09  Numeric comparisons and casts are order-correct and overflow-safe."""
import math
import re
from fractions import Fraction

import lib
from lib import D, I, U, Fl, fbits, bits_to_float, rule_text
from props import common

I64_MIN, I64_MAX, U64_MAX = -(2 ** 63), 2 ** 63 - 1, 2 ** 64 - 1
OPS = {"=": "eq", ">": "gt", ">=": "ge", "<": "lt", "<=": "le"}
COND_OPS = {"==": "eq", ">": "gt", ">=": "ge", "<": "lt", "<=": "le"}

RUST_F64 = re.compile(r"^[+-]?(?:inf|infinity|nan|(?:[0-9]+\.?[0-9]*|\.[0-9]+)(?:[eE][+-]?[0-9]+)?)$", re.I)


def rust_parse_f64(s):
    if not RUST_F64.match(s):
        return None
    try:
        return float(s)
    except ValueError:
        return None


def rust_parse_i64(s):
    if not re.match(r"^[+-]?[0-9]+$", s):
        return None
    v = int(s)
    return v if I64_MIN <= v <= I64_MAX else None


def rel(op, a, b):
    return {"eq": a == b, "gt": a > b, "ge": a >= b, "lt": a < b, "le": a <= b}[op]


def frel(op, a, b):
    if math.isnan(a) or math.isnan(b):
        return False
    return rel(op, a, b)


def kind(v):
    if v is None:
        return "null"
    if isinstance(v, bool):
        return "bool"
    if isinstance(v, (I, U)):
        return "int"
    if isinstance(v, Fl):
        return "float"
    if isinstance(v, str):
        return "str"
    if isinstance(v, list):
        return "arr"
    return "obj"


def round_half_away(x):
    fr = Fraction(x)
    n = math.floor(abs(fr) + Fraction(1, 2))
    return -n if fr < 0 else n


def cast_int(v):
    """None = not convertible"""
    k = kind(v)
    if k == "bool":
        return 1 if v else 0
    if k == "int":
        return int(v) if int(v) <= I64_MAX else None
    if k == "float":
        x = bits_to_float(v.bits)
        if math.isnan(x) or math.isinf(x):
            return None
        r = round_half_away(x)
        return r if I64_MIN <= r <= I64_MAX else None
    if k == "str":
        return rust_parse_i64(v)
    return None


def cast_flt(v):
    k = kind(v)
    if k == "bool":
        return 1.0 if v else 0.0
    if k == "int":
        return float(int(v))
    if k == "float":
        return bits_to_float(v.bits)
    if k == "str":
        return rust_parse_f64(v)
    return None


MISSING = object()


def expect_pattern(op, const, v):
    """field pattern / bare number: kind-strict comparison"""
    if v is MISSING:
        return "m"
    if isinstance(const, float):
        if kind(v) != "float":
            return "f"
        return "t" if frel(op, bits_to_float(v.bits), const) else "f"
    if kind(v) != "int":
        return "f"
    return "t" if rel(op, int(v), const) else "f"


def expect_cast(castk, op, const, v, flip=False):
    if v is MISSING:
        return "m"
    x = cast_int(v) if castk == "int" else cast_flt(v)
    if x is None:
        return "f"
    a, b = (const, x) if flip else (x, const)
    if castk == "int":
        return "t" if rel(op, a, b) else "f"
    return "t" if frel(op, a, b) else "f"


def values(rng, thorough):
    vs = [I(I64_MIN), I(-1), U(0), U(1), U(5), I(5), U(I64_MAX), I(I64_MAX), U(2 ** 63), U(U64_MAX), I(-5), U(6), U(4),
          Fl(fbits(0.0)), Fl(fbits(-0.0)), Fl(fbits(0.5)), Fl(fbits(1.5)), Fl(fbits(-1.5)), Fl(fbits(2.5)), Fl(fbits(-2.5)),
          Fl(fbits(5.0)), Fl(fbits(4.5)), Fl(fbits(5.5)), Fl(fbits(float(2 ** 53 + 2))), Fl(fbits(float(2 ** 53 - 1))),
          Fl(fbits(1e30)), Fl(fbits(-1e30)), Fl(fbits(9223372036854775808.0)), Fl(fbits(18446744073709551616.0)),
          Fl(fbits(9223372036854777856.0)), Fl(fbits(-9223372036854775808.0)),
          Fl(fbits(9223372036854774784.0)), Fl(fbits(float("nan"))), Fl(fbits(float("inf"))), Fl(fbits(float("-inf"))),
          Fl(fbits(5e-324)), Fl(fbits(1.7976931348623157e308)), Fl(fbits(0.49999999999999994)),
          "5", "-5", "+5", "5.0", "abc", "", " 5", "5 ", "1e3", "nan", "inf", "-inf", "Infinity", "9223372036854775807",
          "9223372036854775808", "-9223372036854775808", "-9223372036854775809", "0x10", "1_000", "٥", ".5", "5.", "1e400", "+.5e-1",
          True, False, None, [], {}, [U(5)], MISSING]
    n = 400 if thorough else 40
    for _ in range(n):
        c = rng.random()
        if c < 0.35:
            vs.append(I(rng.randint(I64_MIN, I64_MAX)))
        elif c < 0.6:
            vs.append(U(rng.randint(0, U64_MAX)))
        elif c < 0.9:
            vs.append(Fl(rng.getrandbits(64)))
        else:
            vs.append(str(rng.randint(-10 ** 20, 10 ** 20)))
    return vs


def consts_int(rng, thorough):
    cs = [0, 1, -1, 5, I64_MAX, I64_MIN, I64_MAX - 1, 2 ** 53]
    for _ in range(6 if thorough else 2):
        cs.append(rng.randint(I64_MIN, I64_MAX))
    return cs


def consts_flt():
    return [0.0, 0.5, 1.5, -1.5, 5.0, 1e30, 9.223372036854776e18, 2.5]


def fl_text(x):
    s = repr(x)
    if "e" in s or "E" in s or "." not in s:
        # the pattern syntax needs a '.' and has no exponent form: print positionally
        s = format(Fraction(x).limit_denominator(10 ** 30).numerator / Fraction(x).limit_denominator(10 ** 30).denominator, "f") if False else ("%.1f" % x)
    return s


def run(ck):
    thorough = ck.tier == "thorough"
    rng = ck.rng
    ck.proofs()
    vals = values(rng, thorough)
    docs = [({} if v is MISSING else {"f": v}) for v in vals]
    ddocs = [D(d) for d in docs]
    cases = []

    def add(det, exp, tag):
        # comparisons written in the condition are also run as optimised by default (shake and matrix
        # rewrite them): the verdict must still be the mathematical relation
        cases.append({"k": "rule", "id": ck.new_id(), "rule": rule_text(det), "docs": ddocs, "sw": [0, 15] if tag.startswith("cast_") else [0],
                      "_exp": exp, "_tag": tag})

    for c in consts_int(rng, thorough):
        for sym, op in OPS.items():
            add({"A": {"f": "%s%d" % (sym, c)}, "condition": "A"}, [expect_pattern(op, c, v) for v in vals], "pattern_int:" + op)
            # the same predicate as a list member (the loader has a second copy of the numeric arms for lists)
            add({"A": {"f": ["%s%d" % (sym, c)]}, "condition": "A"}, [expect_pattern(op, c, v) for v in vals], "pattern_int_list1:" + op)
            add({"A": {"f": ["%s%d" % (sym, c), "%s%d" % (sym, c)]}, "condition": "A"}, [expect_pattern(op, c, v) for v in vals], "pattern_int_list2:" + op)
        add({"A": {"f": c}, "condition": "A"}, [expect_pattern("eq", c, v) for v in vals], "bare_int")
        if c >= 0:
            for sym, op in COND_OPS.items():
                add({"A": {"f": "*"}, "condition": "int(f) %s %d" % (sym, c)}, [expect_cast("int", op, c, v) for v in vals], "cast_int:" + op)
                add({"A": {"f": "*"}, "condition": "%d %s int(f)" % (c, sym)}, [expect_cast("int", op, c, v, True) for v in vals], "cast_int_flipped:" + op)
            add({"A": {"int(f)": c}, "condition": "A"}, [expect_cast("int", "eq", c, v) for v in vals], "key_int_cast")
            add({"A": {"int(f)": ">=%d" % c}, "condition": "A"}, [expect_cast("int", "ge", c, v) for v in vals], "key_int_cast_ge")
            add({"A": {"int(f)": ["<=%d" % c]}, "condition": "A"}, [expect_cast("int", "le", c, v) for v in vals], "key_int_cast_le_list1")
    # bare integer constants above i64::MAX (the rule language has no other way to write them)
    for c in (2 ** 63, 2 ** 63 + 1, U64_MAX - 1, U64_MAX):
        add({"A": {"f": c}, "condition": "A"}, [expect_pattern("eq", c, v) for v in vals], "bare_int_above_i64")
        add({"A": {"f": [c, c]}, "condition": "A"}, [expect_pattern("eq", c, v) for v in vals], "bare_int_above_i64_list")
    for c in consts_flt():
        txt = "%.1f" % c if c < 1e20 else "%.1f" % c
        cc = float(txt)
        for sym, op in OPS.items():
            add({"A": {"f": "%s%s" % (sym, txt)}, "condition": "A"}, [expect_pattern(op, cc, v) for v in vals], "pattern_flt:" + op)
            add({"A": {"f": ["%s%s" % (sym, txt)]}, "condition": "A"}, [expect_pattern(op, cc, v) for v in vals], "pattern_flt_list1:" + op)
            add({"A": {"f": ["%s%s" % (sym, txt), "%s%s" % (sym, txt)]}, "condition": "A"}, [expect_pattern(op, cc, v) for v in vals], "pattern_flt_list2:" + op)
        add({"A": {"f": cc}, "condition": "A"}, [expect_pattern("eq", cc, v) for v in vals], "bare_flt")
        if cc >= 0:
            for sym, op in COND_OPS.items():
                add({"A": {"f": "*"}, "condition": "flt(f) %s %s" % (sym, txt)}, [expect_cast("flt", op, cc, v) for v in vals], "cast_flt:" + op)
            add({"A": {"flt(f)": "<%s" % txt}, "condition": "A"}, [expect_cast("flt", "lt", cc, v) for v in vals], "key_flt_cast_lt")
            add({"A": {"flt(f)": ["<=%s" % txt]}, "condition": "A"}, [expect_cast("flt", "le", cc, v) for v in vals], "key_flt_cast_le_list1")

    send = [{k: v for k, v in c.items() if not k.startswith("_")} for c in cases]
    impl, model, _ = lib.run_cases(send, "C09")
    known, _ = lib.load_known("C09")
    listed = set(int(k.get("classifier", "0")) for k in known)
    d43_hits = 0
    direct_failed = set()
    evals = 0
    nontrivial = set()
    by_tag_results = {}
    for c in cases:
        x = lib.parse_sexp(common.strip_extra(impl[c["id"]]))
        res = None
        res15 = None
        load = None
        for el in x[1:]:
            if isinstance(el, list) and el and el[0] == "res":
                if el[1] == "0":
                    res = el[2] if len(el) > 2 else ""
                else:
                    res15 = el[2] if len(el) > 2 else ""
            if isinstance(el, list) and el and el[0] == "load":
                load = el[1]
        if load != "ok" or res is None or len(res) != len(vals):
            ck.violation({"property": "C09", "kind": "direct", "what": "rule did not load or evaluate", "rule": c["rule"],
                          "crate": impl[c["id"]][:400]})
            direct_failed.add(c["id"])
            continue
        by_tag_results[(c["_tag"], c["rule"])] = res
        if res15 is not None:
            ck.count("optimised_form_compared")
            for v, exp, got, dd in zip(vals, c["_exp"], res15 if len(res15) == len(vals) else "?" * len(vals), c["docs"]):
                evals += 1
                if (got == "t") != (exp == "t"):
                    if c["id"] not in direct_failed and len(direct_failed) < 4:
                        ck.violation({"property": "C09", "kind": "direct",
                                      "what": "as optimised by default a comparison of the condition differs from the mathematical relation",
                                      "form": c["_tag"], "rule": c["rule"], "doc": dd, "expected": exp, "crate_optimised": got,
                                      "replay_case": {"k": "rule", "id": 1, "rule": c["rule"], "docs": [dd], "sw": [15]}})
                    direct_failed.add(c["id"])
        for v, exp, got, dd in zip(vals, c["_exp"], res, ddocs):
            evals += 1
            ck.count("form:" + c["_tag"].split(":")[0])
            ck.count("value:" + ("missing" if v is MISSING else kind(v)))
            ck.count("expected:" + exp)
            if exp != "m":
                nontrivial.add((c["rule"], repr(v)))
            if got != exp and c["_tag"].startswith("bare_int_above_i64") and 43 in listed:
                # listed finding D43: the constant is read as a double
                d43_hits += 1
                ck.count("known_class_D43")
                continue
            if got != exp:
                if c["id"] not in direct_failed and len(direct_failed) < 4:
                    ck.violation({"property": "C09", "kind": "direct",
                                  "what": "numeric predicate differs from the mathematical relation / documented cast",
                                  "form": c["_tag"], "rule": c["rule"], "doc": dd, "expected": exp, "crate": got,
                                  "replay_case": {"k": "rule", "id": 1, "rule": c["rule"], "docs": [dd], "sw": [0]}})
                direct_failed.add(c["id"])
    if d43_hits:
        for k in known:
            if k.get("id") == "D43":
                ck.known("D43", k["what"])
    ck.coverage["suppressed_as_known"] = d43_hits
    ck.coverage["evaluations"] = evals
    ck.coverage["distinct_nontrivial"] = len(nontrivial)
    ck.coverage["exhaustive"] = True
    ck.coverage["exhaustive_space"] = (
        "operators {=,>,>=,<,<=} x %d integer and %d float constants x %d field values (i64/u64 boundaries, +-0.0, "
        "fractions, 2^53+-, huge doubles, NaN, +-inf, numeric and non-numeric strings, booleans, null, containers, "
        "absent) in pattern, bare-number, int()/flt() condition-cast (both operand orders) and key-cast form; "
        "plus random 64-bit values" % (len(consts_int(lib.random.Random(0), thorough)), len(consts_flt()), len(vals)))
    ck.coverage["rule"] = (
        "every (rule, value) pair is evaluated three-valued on the crate and compared with an independent Python "
        "reference using exact integer/rational arithmetic; non-trivial = the field is present; distinct = distinct "
        "(rule text, value).")
    for c in (cases[0], cases[len(cases) // 2], cases[-1]):
        ck.sample({"rule": c["rule"], "values": [repr(v) if v is not MISSING else "absent" for v in vals[:12]],
                   "expected": "".join(c["_exp"][:12]),
                   "crate": by_tag_results.get((c["_tag"], c["rule"]), "")[:12]})
    common.compare(ck, send, impl, model, "numeric comparisons and casts", "cmp_int_complete, cast_int_spec, float_trichotomy", direct_failed)
    common.proof_gate(ck, bool(direct_failed))


def replay(ck, payload):
    case = payload.get("replay_case") or payload.get("case")
    if not case:
        print("nothing to replay in this file")
        return 2
    impl, model, _ = lib.run_cases([{k: v for k, v in case.items() if not k.startswith("_")}], "C09replay")
    print("crate:", impl[case["id"]])
    print("model:", model[case["id"]])
    if "expected" in payload:
        print("expected:", payload["expected"])
    return 0
