"""C11  Verdict is independent of how the document is represented."""
import gen
import lib
from lib import D, I, U, Fl, fbits, rule_text
from props import common, rulebase

REPS = ["dv", "yaml", "json", "hjson", "flat", "flat_i64", "custom"]


def flat_docs(rng, tree):
    """documents whose fields are all of one scalar type (for the HashMap<String, T> forms)"""
    out = []
    names = [k for k in tree if "." not in k and "[" not in k] or ["f"]
    for kind in ("str", "u", "i", "f", "b", "vec", "opt"):
        d = {}
        for nme in names:
            node = tree.get(nme, {"strs": [], "nums": []})
            if kind == "str":
                v = gen.match_for(rng, rng.choice(node["strs"])) if node["strs"] and rng.random() < 0.6 else rng.choice(gen.HAY)
                d[nme] = v if isinstance(v, str) else str(v)
            elif kind == "u":
                d[nme] = U(rng.choice([0, 1, 5, 6, 100, 2 ** 63 - 1, 2 ** 63, 2 ** 64 - 1]))
            elif kind == "i":
                d[nme] = I(rng.choice([0, 1, 5, -1, -3, 6, 2 ** 63 - 1, -2 ** 63]))
            elif kind == "f":
                d[nme] = Fl(fbits(rng.choice([0.0, 5.0, 5.5, -1.5, 1e30, 0.5])))
            elif kind == "b":
                d[nme] = rng.random() < 0.5
            elif kind == "vec":
                d[nme] = [rng.choice(gen.HAY) for _ in range(rng.choice([0, 1, 2]))]
            else:
                d[nme] = None if rng.random() < 0.4 else rng.choice(gen.HAY)
        out.append(d)
    return out


def run(ck):
    thorough = ck.tier == "thorough"
    rng = ck.rng
    ck.proofs()
    n = 1500 if thorough else 350
    cases = []
    for _ in range(n):
        det = gen.gen_rule(rng)
        tree = gen.rule_fields(det)
        docs = [gen.gen_doc(rng, tree) for _ in range(4)] + flat_docs(rng, tree)
        cases.append({"k": "rep", "id": ck.new_id(), "rule": rule_text(det), "docs": [D(d) for d in docs], "_docs": docs})
    # boundary values under every numeric predicate
    for pat in [">5", ">=5", "<5", "=5", 5, ">=9223372036854775807", "<0", "=0", "=9223372036854775807", ">9223372036854775807",
                "<=9223372036854775807", "<9223372036854775807", 9223372036854775807, ">9223372036854775806", "<=9223372036854775806"]:
        for key in ["f", "int(f)", "flt(f)", "str(f)"]:
            v = pat
            if key.startswith("flt") and isinstance(pat, str):
                v = pat + ".0"
            if key.startswith("str"):
                v = str(pat).lstrip("<>=")
            det = {"A": {key: v}, "condition": "A"}
            docs = [{"f": x} for x in [I(5), U(5), I(0), U(0), I(-1), U(2 ** 63 - 1), I(2 ** 63 - 1), U(2 ** 63), U(2 ** 64 - 1), I(-2 ** 63),
                                       Fl(fbits(5.0)), "5", True, None, [I(5)], [U(5)], {"g": I(5)}]]
            cases.append({"k": "rep", "id": ck.new_id(), "rule": rule_text(det), "docs": [D(d) for d in docs], "_docs": docs})
    send = rulebase.wire(cases)
    impl, model, _ = lib.run_cases(send, "C11")
    direct_failed = set()
    evals = 0
    nontrivial = set()
    for c in cases:
        x = lib.parse_sexp(impl[c["id"]])
        reps = {}
        load = None
        for el in x[1:]:
            if isinstance(el, list) and el[0] == "load":
                load = el[1]
            if isinstance(el, list) and el[0] == "rep":
                reps[el[1]] = el[2] if len(el) > 2 else ""
        ck.count("load:" + str(load))
        if load != "ok":
            continue
        base = reps.get("dv", "")
        if base == "e":
            continue
        for name in REPS[1:]:
            s = reps.get(name, "")
            for i, (a, b) in enumerate(zip(base, s)):
                if b == "-":
                    ck.count("not_expressible:" + name)
                    continue
                evals += 1
                ck.count("compared:" + name)
                if a != "m":
                    nontrivial.add((c["rule"], i, name))
                if (a == "t") != (b == "t") or ("p" in (a, b) and a != b):
                    if len(direct_failed) < 4 and c["id"] not in direct_failed:
                        ck.violation({"property": "C11", "kind": "direct",
                                      "what": "the verdict depends on the representation of the document",
                                      "rule": c["rule"], "doc": c["docs"][i], "representation": name, "dv": a, "other": b,
                                      "all": reps, "replay_case": {"k": "rep", "id": 1, "rule": c["rule"], "docs": [c["docs"][i]]}})
                    direct_failed.add(c["id"])
    # the crate's AsValue adapters for Rust's own types at their boundary values, alone and through
    # Option / Vec / HashMap: signed -> Int, unsigned -> UInt (no wrap), floats -> the same double
    pid = ck.new_id()
    pout = lib.run_harness_only([{"k": "prim", "id": pid}], "C11prim")
    rows = [el for el in lib.parse_sexp(pout[pid])[1:] if isinstance(el, list) and len(el) == 2]
    if len(rows) < 200:
        ck.violation({"property": "C11", "kind": "direct", "what": "the adapter table of the harness is incomplete", "crate": pout[pid][:400]})
        direct_failed.add(pid)
    import struct
    for label, got in rows:
        ty, _, val = label.partition(":")
        inner = ty
        wrap = None
        for w in ("Option<", "Vec<", "HashMap<String,"):
            if ty.startswith(w):
                wrap, inner = w, ty[len(w):-1]
        if inner in ("i8", "i16", "i32", "i64", "isize"):
            exp = "int:%d" % int(val)
        elif inner in ("u8", "u16", "u32", "u64", "usize"):
            exp = "uint:%d" % int(val)
        elif inner == "f32":
            exp = "float:%d" % struct.unpack("<Q", struct.pack("<d", struct.unpack("<f", struct.pack("<I", int(val)))[0]))[0]
        elif inner == "f64":
            exp = "float:%d" % int(val)
        elif inner == "bool":
            exp = "bool:" + val
        elif ty in ("unit", "None<i64>"):
            exp = "null"
        elif ty in ("String", "str"):
            exp = "str:%d" % len(val)
        elif ty == "HashSet<u16>":
            exp = "arr[uint:%s]" % val
        else:
            exp = None
        if wrap == "Vec<" and exp:
            exp = "arr[%s,%s]" % (exp, exp)
        evals += 1
        ck.count("adapter:" + (wrap or "") + inner)
        if exp is None or got != exp:
            if len(direct_failed) < 4:
                ck.violation({"property": "C11", "kind": "direct",
                              "what": "a Rust value reaches the engine as a different value or kind than the same number written in YAML / JSON "
                                      "(signed -> Int, unsigned -> UInt, floats -> the same double)",
                              "rust_value": label, "as_value": got, "expected": exp,
                              "replay_case": {"k": "prim", "id": 1}})
            direct_failed.add(pid)
    ck.coverage["evaluations"] = evals
    ck.coverage["distinct_nontrivial"] = len(nontrivial)
    ck.coverage["rule"] = (
        "every document (4 derived from the rule + 7 single-typed flat ones per rule; 64-bit boundary values under every numeric "
        "predicate) is rendered as the harness tree, serde_yaml::Mapping, serde_json::Value, HashMap<String, serde_json::Value>, "
        "HashMap<String, T / Option<T> / Vec<T>> (u64 and i64 variants) and a hand-written Document; verdicts must agree with the "
        "tree's; the AsValue adapters of every Rust integer / float type (and Option, Vec, HashSet, HashMap of them) are "
        "compared at their boundary values with the kind and value the same number has in YAML / JSON. The model side is the theorem (the rule kind ties the solver model elsewhere). Non-trivial = field present.")
    for c in cases[:2] + cases[-1:]:
        ck.sample({"rule": c["rule"][:300], "crate": impl[c["id"]][:400]})
    ck.coverage["traces_validated_against_impl"] = 0
    ck.assumptions.append("that the Rust generic AsValue/Array/Object impls are what Model/Repr.v says (Int for signed, UInt for unsigned and for every non-negative YAML/JSON integer) is sampled by these runs, not proved")
    common.proof_gate(ck, bool(direct_failed))


def replay(ck, payload):
    case = payload.get("replay_case")
    if not case:
        return 2
    out = lib.run_harness_only([case], "C11replay")
    print("crate:", out[case["id"]])
    return 0
