"""C13  validate() agrees with matches() on the rule's own examples."""
import json
import re

import gen
import lib
from lib import D, rule_text
from props import common, rulebase


def doc_to_yaml(d):
    """Python document value -> plain JSON-able value (what a rule file would contain)."""
    if isinstance(d, dict):
        return {k: doc_to_yaml(v) for k, v in d.items()}
    if isinstance(d, (list, tuple)):
        return [doc_to_yaml(v) for v in d]
    if isinstance(d, lib.Fl):
        x = lib.bits_to_float(d.bits)
        return x if x == x and abs(x) != float("inf") else 0.5
    if isinstance(d, (lib.I, lib.U)):
        return int(d)
    return d


def run(ck):
    thorough = ck.tier == "thorough"
    rng = ck.rng
    ck.proofs()
    n = 1500 if thorough else 350
    cases = []
    for _ in range(n):
        det = gen.gen_rule(rng)
        tree = gen.rule_fields(det)
        tp, tn = [], []
        for lst in (tp, tn):
            for _ in range(rng.choice([0, 1, 2, 3])):
                r = rng.random()
                if r < 0.7:
                    lst.append(doc_to_yaml(gen.gen_doc(rng, tree)))
                elif r < 0.8:
                    lst.append({})
                else:
                    lst.append(rng.choice([1, "x", None, [], [{"f": "foo"}], True, 1.5]))
        text = rule_text(det, tp, tn)
        cases.append({"k": "rule", "id": ck.new_id(), "rule": text, "docs": [], "sw": [0], "validate": True,
                      "vsw": [1, 2, 4, 8, 15, rng.randrange(16)], "_tp": tp, "_tn": tn})
    # tagged mapping examples and the D2 witness
    cases.append({"k": "rule", "id": ck.new_id(), "sw": [0], "docs": [], "validate": True, "vsw": [15],
                  "rule": "detection: {A: {f: x}, condition: A}\ntrue_positives: [!t {f: x}, 1]\ntrue_negatives: [!t {f: y}, [1]]", "_tp": [0, 1], "_tn": [0, 1]})
    cases.append({"k": "rule", "id": ck.new_id(), "sw": [0], "docs": [], "validate": True, "vsw": [0, 15],
                  "rule": rule_text({"A": {"f": "x"}, "condition": "A"}, [1], []), "_tp": [1], "_tn": []})
    # tagged VALUES inside example documents (scalars, nested mappings, sequence elements)
    cases.append({"k": "rule", "id": ck.new_id(), "sw": [0], "docs": [], "validate": True, "vsw": [0, 15],
                  "rule": "detection: {A: {f: x, n: {g: y}}, B: {h: '*z*'}, condition: A or B}\n"
                          "true_positives: [{f: !t x, n: !u {g: !v y}}, {h: [!w az, b]}, {f: x, n: [!t {g: y}]}]\n"
                          "true_negatives: [{f: !t y}, {h: !t [q]}, {n: !t 5}]", "_tp": [0, 1, 2], "_tn": [0, 1, 2]})
    # examples that are equal as YAML values (serde_yaml's Eq / Hash) or nearly so, but not for the
    # solver: signed float zeros under str(), 1 vs 1.0, repeated examples, the same example in both lists
    pairs = [("str(x): '0'", "{x: 0.0}", "{x: -0.0}"), ("str(x): '-*'", "{x: -0.0}", "{x: 0.0}"), ("x: 1", "{x: 1}", "{x: 1.0}"),
             ("str(x): '1'", "{x: 1}", "{x: 1.0}"), ("x: '=1.0'", "{x: 1.0}", "{x: 1}"), ("str(x): 'true'", "{x: true}", "{x: 'true'}"),
             ("x: foo", "{x: foo}", "{x: foo}"), ("int(x): 0", "{x: 0.0}", "{x: -0.0}"), ("x: ~", "{x: ~}", "{x: null}")]
    for body, e1, e2 in pairs:
        for tp_txt, tn_txt in (("[%s, %s]" % (e1, e2), "[]"), ("[%s]" % e1, "[%s]" % e2), ("[]", "[%s, %s]" % (e1, e2)),
                               ("[%s, %s, %s]" % (e2, e1, e2), "[%s]" % e1)):
            cases.append({"k": "rule", "id": ck.new_id(), "sw": [0], "docs": [], "validate": True, "vsw": [0, 15],
                          "rule": "detection: {A: {%s}, condition: A}\ntrue_positives: %s\ntrue_negatives: %s\n" % (body, tp_txt, tn_txt),
                          "_tp": [0], "_tn": [0]})
    send = rulebase.wire(cases)
    impl, model, _ = lib.run_cases(send, "C13")
    direct_failed = set()
    evals = 0
    nontrivial = set()
    for c in cases:
        line = impl[c["id"]]
        r = rulebase.parse_rule_line(line)
        if r["load"] != "ok":
            ck.count("load:" + str(r["load"]))
            continue
        evals += 1
        v = r["validate"]
        outcome = v[0] if v else "absent"
        ck.count("validate:" + outcome)
        ck.count("examples:%d" % (len(c["_tp"]) + len(c["_tn"])))
        if c["_tp"] or c["_tn"]:
            nontrivial.add(c["rule"])
        bad = outcome in ("panic", "inconsistent", "absent")
        vopts = re.findall(r"\(vopt (\d+) ([^()]*)\)", line)
        for swn, out in vopts:
            evals += 1
            ck.count("validate_optimised:" + out.split()[0])
            if out.split()[0] in ("inconsistent",):
                bad = True
            if out.split()[0] == "panic":
                # optimise()/matches() panics on optimised rules belong to C03/C01 (known classes D19/D21);
                # here only validate's own consistency is judged
                ck.count("validate_optimised:panic_in_optimised_rule")
        if bad:
            if len(direct_failed) < 4:
                ck.violation({"property": "C13", "kind": "direct",
                              "what": "validate() panicked, or disagrees with matches() on the rule's examples, or does not name exactly the failing examples",
                              "rule": c["rule"], "crate": line[:800],
                              "replay_case": {k: v for k, v in c.items() if not k.startswith("_")}})
            direct_failed.add(c["id"])
    ck.coverage["evaluations"] = evals
    ck.coverage["distinct_nontrivial"] = len(nontrivial)
    ck.coverage["rule"] = (
        "random rules with 0-3 true_positives and true_negatives each (documents derived from the rule, empty mappings, "
        "non-mapping entries, tagged mappings); the harness re-runs matches() on every example, compares with validate()'s "
        "Ok/Err and with the number of examples its message names, for the unoptimised rule and six optimised variants; the "
        "model's validate is compared with the crate's. Non-trivial = at least one example; distinct = distinct rule text.")
    for c in cases[:2] + cases[-2:]:
        ck.sample({"rule": c["rule"][:500], "crate": impl[c["id"]][-200:]})
    common.compare(ck, send, impl, model, "validate", "validate_ok_iff, validate_names_failing", direct_failed)
    common.proof_gate(ck, bool(direct_failed))


def replay(ck, payload):
    case = payload.get("replay_case") or payload.get("case")
    if not case:
        print("nothing to replay in this file")
        return 2
    impl, model, _ = lib.run_cases([{k: v for k, v in case.items() if not k.startswith("_")}], "C13replay")
    print("crate:", impl[case["id"]])
    print("model:", model[case["id"]])
    return 0
