"""C05  Condition grammar: fixed precedence, associativity and parentheses."""
import itertools

import lib
from lib import D, rule_text
from props import common

IDS = ["A", "B", "C", "D"]


# ------------------------------------------------------------------ reference (stratified grammar)
class PErr(Exception):
    pass


def ref_tokens(s):
    """A tokeniser for the restricted alphabet the generator uses: identifiers A-D and
    words, and, or, not, parentheses; returns a list of strings."""
    out = []
    i = 0
    while i < len(s):
        ch = s[i]
        if ch == " ":
            i += 1
        elif ch in "()":
            out.append(ch)
            i += 1
        else:
            j = i
            while j < len(s) and s[j] not in " ()":
                j += 1
            out.append(s[i:j])
            i = j
    return out


def ref_parse(toks):
    """andx ::= orx {and orx} ; orx ::= un {or un} ; un ::= not un | atom ; atom ::= id | ( andx )"""
    pos = [0]

    def peek():
        return toks[pos[0]] if pos[0] < len(toks) else None

    def eat():
        t = peek()
        pos[0] += 1
        return t

    def atom():
        t = eat()
        if t is None:
            raise PErr()
        if t == "(":
            e = andx()
            if eat() != ")":
                raise PErr()
            return e
        if t in (")", "and", "or", "not"):
            raise PErr()
        return ("id", t)

    def un():
        if peek() == "not":
            eat()
            return ("not", un())
        return atom()

    def orx():
        e = un()
        while peek() == "or":
            eat()
            e = ("or", e, un())
        return e

    def andx():
        e = orx()
        while peek() == "and":
            eat()
            e = ("and", e, orx())
        return e
    e = andx()
    if pos[0] != len(toks):
        raise PErr()
    return e


def s_of(x):
    return "(s%s)" % "".join(" %d" % ord(c) for c in x)


def ref_sexp(e):
    if e[0] == "id":
        return "(ident %s)" % s_of(e[1])
    if e[0] == "not":
        return "(neg %s)" % ref_sexp(e[1])
    return "(bexp %s %s %s)" % (ref_sexp(e[1]), e[0], ref_sexp(e[2]))


def ref_eval(e, env):
    if e[0] == "id":
        return env[e[1]]
    if e[0] == "not":
        return {"t": "f", "f": "t", "m": "f"}[ref_eval(e[1], env)]
    a = ref_eval(e[1], env)
    if e[0] == "and":
        if a != "t":
            return a
        return ref_eval(e[2], env)
    if a == "t":
        return "t"
    b = ref_eval(e[2], env)
    if b == "t":
        return "t"
    return "m" if (a == "m" and b == "m") else "f"


# ------------------------------------------------------------------ enumeration of conditions
def trees(nops, leaves):
    """all reference trees with exactly nops binary operators over the given leaves (in order)"""
    if nops == 0:
        return [("id", leaves[0])]
    out = []
    for k in range(nops):
        for op in ("and", "or"):
            for l in trees(k, leaves[:k + 1]):
                for r in trees(nops - 1 - k, leaves[k + 1:]):
                    out.append((op, l, r))
    return out


PREC = {"and": 1, "or": 2}


def render(e, mode):
    """Renders a tree as condition text.  mode 'min' uses only the parentheses the grammar
    needs; 'full' parenthesises every binary sub-expression; 'spaces' doubles every space and
    pads parentheses."""
    def go(e, parent, side):
        if e[0] == "id":
            return e[1]
        if e[0] == "not":
            inner = go(e[1], "not", "r")
            return "not " + inner
        l = go(e[1], e[0], "l")
        r = go(e[2], e[0], "r")
        s = "%s %s %s" % (l, e[0], r)
        need = False
        if parent == "not":
            need = True
        elif parent in PREC:
            if PREC[e[0]] < PREC[parent]:
                need = True
            elif PREC[e[0]] == PREC[parent] and side == "r":
                need = True
        if mode == "full" or need:
            s = "(" + s + ")"
        return s
    s = go(e, None, None)
    if mode == "full":
        s = "(" + s + ")" if e[0] != "id" else s
    if mode == "spaces":
        s = " " + s.replace(" ", "  ").replace("(", "( ").replace(")", " )") + " "
    return s


def add_nots(rng, e, p):
    if e[0] == "id":
        r = rng.random()
        if r < p * 0.25:
            return ("not", ("not", e))          # double negation is NOT the identity (missing -> true)
        return ("not", e) if r < p else e
    if e[0] == "not":
        return ("not", add_nots(rng, e[1], p))
    t = (e[0], add_nots(rng, e[1], p), add_nots(rng, e[2], p))
    return ("not", t) if rng.random() < p / 2 else t


def run(ck):
    thorough = ck.tier == "thorough"
    rng = ck.rng
    ck.proofs()
    maxops = 4 if thorough else 3
    conds = []        # (text, expected tree or None, family id)
    fam = 0
    for n in range(0, maxops + 1):
        for t in trees(n, IDS[:n + 1] if n < 4 else ["A", "B", "C", "D", "A"]):
            variants = [t]
            # negations: one deterministic family with not on every leaf, plus random ones
            variants.append(add_nots(lib.random.Random(fam), t, 1.0) if n <= 2 else add_nots(rng, t, 0.4))
            for v in variants:
                fam += 1
                for mode in ("min", "full", "spaces"):
                    conds.append((render(v, mode), v, fam, mode))
    # keyword-prefix words and arbitrary token soup (errors must agree between model and crate)
    soup_words = ["A", "B", "and", "or", "not", "(", ")", "all(A)", "of(B, 1)", "int(x) == 1", "1", "android", "nothing"]
    soups = []
    for _ in range(800 if thorough else 250):
        k = rng.randint(1, 7)
        soups.append(" ".join(rng.choice(soup_words) for _ in range(k)))
    soups += ["not not A", "not not not A", "not ( not A )", "B and not not A", "not ( not A ) or B", "not not ( A and B )", "not not A and not not B",
              "not ( not ( not A ) )", "( not not A ) or B",
              "A and", "and A", "A or or B", "not", "not not A", "not (not A)", "(A", "A)", "((A))", "()", "A and (B", "A B",
              "all(A) and of(B, 2)", "of(A, 0) or not all(B)", "int(x) == 1 and A", "A and int(x) >= 1", "1 == int(x)",
              "int(x) == flt(y)", "str(x) == str(y) or A", "not int(x) == 1", "A and 1", "A or not(B)", "flt(x) > 0.5 and not A",
              "A and\tB", "A\tand B", "A  and   B", " A", "A ", "A and B ", "andA", "A andB", "A and(B)", "not(A)", "not (A)"]

    cases = []
    for text, tree, f, mode in conds:
        cases.append({"k": "cond", "id": ck.new_id(), "s": text, "_tree": tree, "_fam": f, "_mode": mode})
    soup_cases = [{"k": "cond", "id": ck.new_id(), "s": s} for s in soups]
    # tokeniser cases: the same texts + keyword-prefixed words
    words = ["android", "order", "nothing", "allow", "offline", "andy", "orx", "notable", "integer", "strx", "flt", "all", "of",
             "and", "or", "not", "string", "ANDROID", "And", "a_b", "a1", "a.b[0]", "int", "str"]
    tok_cases = [{"k": "tok", "id": ck.new_id(), "s": w} for w in words]
    tok_cases += [{"k": "tok", "id": ck.new_id(), "s": w + " and " + w2} for w in words[:12] for w2 in words[:6]]
    tok_cases += [{"k": "tok", "id": ck.new_id(), "s": s} for s in soups[:200]]
    # verdict level: rules whose identifiers are steered to t/f/m
    rule_cases = []
    sample_trees = [c for c in conds if c[3] == "min"]
    if not thorough:
        sample_trees = [c for c in sample_trees if c[2] % 3 == 0] + sample_trees[:40]
    for text, tree, f, mode in sample_trees:
        names = sorted(set(leaf_names(tree)))
        vecs = ["".join(p) for p in itertools.product("tfm", repeat=len(names))]
        docs = []
        for v in vecs:
            d = {}
            for nme, x in zip(names, v):
                if x == "t":
                    d["f" + nme] = "v"
                elif x == "f":
                    d["f" + nme] = "w"
            docs.append(d)
        det = {nme: {"f" + nme: "v"} for nme in names}
        for variant in ("min", "full", "spaces"):
            det2 = dict(det, condition=render(tree, variant))
            rule_cases.append({"k": "rule", "id": ck.new_id(), "rule": rule_text(det2), "docs": [D(d) for d in docs], "sw": [0],
                               "_tree": tree, "_names": names, "_vecs": vecs, "_variant": variant, "_fam": f})
    # identifiers that merely begin with keyword letters
    kw_names = ["android", "order", "nothing", "allow", "offline"]
    det = {nme: {"f": "v%d" % i} for i, nme in enumerate(kw_names)}
    det["condition"] = "android or order and nothing or not allow and offline"
    kw_docs = [{"f": "v%d" % i} for i in range(5)] + [{}]
    rule_cases.append({"k": "rule", "id": ck.new_id(), "rule": rule_text(det), "docs": [D(d) for d in kw_docs], "sw": [0],
                       "trees": True, "_kw": True})

    allc = cases + soup_cases + tok_cases + rule_cases
    send = [{k: v for k, v in c.items() if not k.startswith("_")} for c in allc]
    impl, model, _ = lib.run_cases(send, "C05")

    direct_failed = set()
    evals = 0
    nontrivial = set()
    by_fam = {}
    for c in cases:
        evals += 1
        got = common.strip_extra(impl[c["id"]])
        exp = "(%d ok %s)" % (c["id"], ref_sexp(c["_tree"]))
        ck.count("cond:" + c["_mode"])
        if c["_tree"][0] != "id":
            nontrivial.add(c["s"])
        if got != exp:
            if len(direct_failed) < 4:
                ck.violation({"property": "C05", "kind": "direct",
                              "what": "the parsed condition is not the tree the grammar assigns (precedence / associativity / parentheses / spaces)",
                              "condition": c["s"], "expected": exp, "crate": got,
                              "replay_case": {"k": "cond", "id": c["id"], "s": c["s"]}})
            direct_failed.add(c["id"])
        by_fam.setdefault(c["_fam"], set()).add(got.split(" ", 1)[1] if " " in got else got)
    for f, outs in by_fam.items():
        if len(outs) > 1 and len(direct_failed) < 6:
            ck.violation({"property": "C05", "kind": "direct",
                          "what": "redundant parentheses or extra spaces change the parsed tree", "family": f,
                          "trees": sorted(outs)[:4]})
            direct_failed.add(-f)
    for c in tok_cases:
        evals += 1
        ck.count("tok")
    for c in soup_cases:
        evals += 1
        ck.count("cond:soup")
        words = ref_tokens(c["s"])
        # only texts in canonical spacing (every token, parentheses included, separated by one space), where the
        # reference tokeniser of this script and the crate's keyword rules (`not(` is a modifier, `and(` is no keyword) agree
        if all(w in ("A", "B", "C", "D", "and", "or", "not", "(", ")") for w in words) and " ".join(words) == c["s"] \
                and not c["s"].endswith(("and", "or", "not")):
            try:
                t = ref_parse(words)
            except PErr:
                continue
            got = common.strip_extra(impl[c["id"]])
            exp = "(%d ok %s)" % (c["id"], ref_sexp(t))
            ck.count("cond:soup_in_grammar")
            if got != exp:
                if len(direct_failed) < 6:
                    ck.violation({"property": "C05", "kind": "direct",
                                  "what": "the parsed condition is not the tree the grammar assigns",
                                  "condition": c["s"], "expected": exp, "crate": got,
                                  "replay_case": {"k": "cond", "id": c["id"], "s": c["s"]}})
                direct_failed.add(c["id"])
    for c in rule_cases:
        x = lib.parse_sexp(common.strip_extra(impl[c["id"]]))
        res = None
        for el in x[1:]:
            if isinstance(el, list) and el and el[0] == "res":
                res = el[2] if len(el) > 2 else ""
        if c.get("_kw"):
            evals += len(kw_docs)
            # android or (order and nothing) ... with or tighter than and:
            # (android or order) and (nothing or not allow) and offline
            expk = []
            for d in kw_docs:
                env = {}
                for i, nme in enumerate(kw_names):
                    env[nme] = "m" if "f" not in d else ("t" if d["f"] == "v%d" % i else "f")
                t = ref_parse(ref_tokens(det["condition"]))
                expk.append(ref_eval(t, env))
            if res != "".join(expk):
                ck.violation({"property": "C05", "kind": "direct", "what": "keyword-prefixed words are not ordinary identifiers",
                              "rule": c["rule"], "expected": "".join(expk), "crate": res, "line": impl[c["id"]][:600]})
                direct_failed.add(c["id"])
            continue
        if res is None or len(res) != len(c["_vecs"]):
            ck.violation({"property": "C05", "kind": "direct", "what": "rule did not load", "rule": c["rule"], "crate": impl[c["id"]][:300]})
            direct_failed.add(c["id"])
            continue
        for v, got in zip(c["_vecs"], res):
            evals += 1
            env = dict(zip(c["_names"], v))
            exp = ref_eval(c["_tree"], env)
            ck.count("verdict:" + exp)
            nontrivial.add((c["_fam"], v))
            if got != exp:
                if c["id"] not in direct_failed and len(direct_failed) < 6:
                    ck.violation({"property": "C05", "kind": "direct", "what": "verdict differs from the grammar's meaning",
                                  "rule": c["rule"], "assignment": env, "expected": exp, "crate": got})
                direct_failed.add(c["id"])
    ck.coverage["evaluations"] = evals
    ck.coverage["distinct_nontrivial"] = len(nontrivial)
    ck.coverage["exhaustive"] = True
    ck.coverage["exhaustive_space"] = (
        "every and/or tree shape with up to %d binary operators over identifiers A-D (plus negated variants), each rendered with "
        "minimal parentheses, with every sub-expression parenthesised, and with doubled spaces; verdicts over all 3^k "
        "true/false/missing assignments%s" % (maxops, "" if thorough else " (every third family in the quick tier)"))
    ck.coverage["rule"] = (
        "the crate's parse tree (structural rendering of the Expression) is compared with the tree of an independent "
        "recursive-descent parser of the documented grammar; verdicts with an independent three-valued evaluator; random token "
        "soup and keyword-prefixed words for the error / tokeniser side. Non-trivial = at least one operator; distinct = "
        "distinct condition text / (family, assignment).")
    ck.sample({"condition": cases[30]["s"], "crate": common.strip_extra(impl[cases[30]["id"]])})
    ck.sample({"condition": cases[-1]["s"], "crate": common.strip_extra(impl[cases[-1]["id"]])})
    ck.sample({"soup": soup_cases[3]["s"], "crate": common.strip_extra(impl[soup_cases[3]["id"]])})
    ck.sample({"rule": rule_cases[-1]["rule"], "crate": common.strip_extra(impl[rule_cases[-1]["id"]])[:400]})
    common.compare(ck, send, impl, model, "tokeniser + Pratt parser", "pratt_complete, space_doubling, keyword_prefix_words", direct_failed)
    common.proof_gate(ck, bool(direct_failed))


def leaf_names(e):
    if e[0] == "id":
        return [e[1]]
    if e[0] == "not":
        return leaf_names(e[1])
    return leaf_names(e[1]) + leaf_names(e[2])


def replay(ck, payload):
    case = payload.get("replay_case") or payload.get("case")
    if not case:
        print("nothing to replay in this file")
        return 2
    impl, model, _ = lib.run_cases([{k: v for k, v in case.items() if not k.startswith("_")}], "C05replay")
    print("crate:", impl[case["id"]])
    print("model:", model[case["id"]])
    if "expected" in payload:
        print("expected:", payload["expected"])
    return 0
