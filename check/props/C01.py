"""C01  Optimisation never changes a verdict."""
import json

import covfam
import lib
from lib import D, rule_text
from props import common, rulebase

ALL_SW = list(range(16))


def d21_rule(n=55400):
    """an or-group over more than 55296 distinct fields, one of which occurs twice (so that
    the matrix pass fires)"""
    seq = [{"f%d" % i: "x"} for i in range(n)]
    seq += [{"g": "y0"}, {"g": "y1"}]
    return rule_text({"A": seq, "condition": "A"})


def fails(base, opt):
    """indices of documents on which the optimised rule differs in verdict from the
    unoptimised one, or panics where the unoptimised one does not"""
    if opt == "x":
        return [-1]
    out = []
    for i, (p, q) in enumerate(zip(base, opt)):
        if (p == "t") != (q == "t") or (q == "p" and p != "p"):
            out.append(i)
    return out


def run(ck):
    thorough = ck.tier == "thorough"
    ck.proofs()
    known, _fixed = lib.load_known("C01")
    listed = {}
    for k in known:
        listed.setdefault(int(k.get("classifier", "0")), []).append(k)

    n_rules = 2500 if thorough else 450
    cases = rulebase.gen_rule_cases(ck, n_rules, 6, ALL_SW)
    # the interactions the property names, forced: regexes starting/ending with .*, lists under
    # counters, fields missing under negation
    forced = [
        ({"A": {"f": "?.*foo"}, "B": {"f": "?foo.*"}, "condition": "A or B"}, [{"f": "xfoo"}, {"f": "bar"}, {}]),
        ({"A": {"f": ["?.*a", "?b.*", "?.*c.*"]}, "condition": "all(A) or A"}, [{"f": "abc"}, {"f": "b"}, {}]),
        ({"A": {"f": "?.*?foo"}, "B": {"g": "?x\\.*"}, "condition": "A or B"}, [{"f": "foo", "g": "x."}, {}]),
        ({"A": {"all(f)": ["*a*", "*b*", "*c*"]}, "condition": "A"}, [{"f": "abc"}, {"f": "ab"}, {}]),
        ({"A": {"of(f, 2)": ["*a*", "*b*", "?c"]}, "condition": "not A"}, [{"f": "ac"}, {"f": "a"}, {}]),
        ({"A": {"f": "x"}, "B": {"g": "y"}, "condition": "not A and not B"}, [{}, {"f": "x"}, {"g": "z"}]),
        ({"A": [{"f": "a", "g": "b"}, {"f": "c", "g": "d"}, {"f": "e"}], "condition": "A"}, [{"f": "a", "g": "b"}, {"f": "e"}, {"f": "a"}, {}]),
        ({"A": [{"f": "a", "g": "b"}, {"f": "c", "g": "d"}], "B": {"h": "x"}, "condition": "A and B"}, [{"f": "c", "g": "d", "h": "x"}, {"f": "c"}, {}]),
        ({"A": {"n": {"f": "a"}}, "B": {"n": {"g": "b"}}, "condition": "A and B"}, [{"n": {"f": "a", "g": "b"}}, {"n": [{"f": "a"}, {"g": "b"}]}, {}]),
        ({"A": {"f": ["foo", "bar"], "g": ["ifoo", "i*bar"]}, "condition": "A"}, [{"f": "foo", "g": "FOO"}, {"f": "bar", "g": "xBAR"}, {"f": "foo"}]),
        ({"X": [{"f": {"all(k)": ["*a*", "?b"]}}, {"f": {"g": "x"}}], "condition": "X"}, [{"f": [{"k": "a"}, {"k": "b"}]}, {"f": [{"k": "ab"}]}, {"f": {"k": "ab"}}, {"f": [{"g": "x"}]}, {}]),
        ({"A": {"f": {"all(k)": ["*a*", "?b"]}}, "B": {"f": {"g": "x"}}, "C": {"h": "y"}, "condition": "A and B and C"},
         [{"f": [{"k": "a", "g": "x"}, {"k": "b"}], "h": "y"}, {"f": [{"k": "ab", "g": "x"}], "h": "y"}, {"h": "y"}]),
        ({"X": {"f": [{"all(k)": ["*a*", "?b"]}, {"all(k)": ["*c*", "?d"]}]}, "condition": "X"}, [{"f": [{"k": "a"}, {"k": "b"}]}, {"f": [{"k": "cd"}]}, {}]),
        ({"A": {"f": ["i?^foo", "i?bar$", "baz"]}, "condition": "A"}, [{"f": "FOOD"}, {"f": "crowBar"}, {"f": "baz"}, {"f": "x"}, {}]),
        ({"A": {"f": "i?^foo"}, "B": {"f": "i?bar$"}, "C": {"f": "?baz"}, "condition": "A or B or not C"}, [{"f": "FOOD"}, {"f": "crowBar"}, {"f": "bazz"}, {}]),
        ({"A": {"f": ["?^foo", "?bar$", "ibaz", "iqux"]}, "condition": "not A"}, [{"f": "food"}, {"f": "BAZ"}, {"f": "Qux"}, {"f": "x"}, {}]),
    ]
    for det, docs in forced:
        cases.append({"k": "rule", "id": ck.new_id(), "rule": rule_text(det), "docs": [D(d) for d in docs], "sw": ALL_SW,
                      "_det": det, "_docs": docs})
    for fam, det, docs, extra in covfam.all_cases(skip=("wide_matrix_quant",) + ((("loader_errors",) if not thorough else ()))):
        cases.append({"k": "rule", "id": ck.new_id(), "rule": rule_text(det, extra=extra), "docs": [D(d) for d in docs], "sw": ALL_SW,
                      "_det": det, "_docs": docs})
        ck.count("family:" + fam)
    for c in rulebase.corpus_cases(ck, ALL_SW):
        c["_det"] = None
        c["_docs"] = []
        cases.append(c)
    wit = rulebase.witness_cases(ck, "C01")
    for c in cases:
        c["otrees"] = True      # the optimised trees themselves are part of the compared line
        c["trees"] = True       # ... and the loaded ones
    allc = cases + wit
    send = rulebase.wire(allc)
    impl, model, _ = lib.run_cases(send, "C01", runner_args=["--known"])

    direct_failed = set()
    reported_machinery = set()
    evals = 0
    nontrivial = set()
    suppressed = 0
    for c in cases:
        a = rulebase.parse_rule_line(impl[c["id"]])
        if a["load"] != "ok":
            ck.count("load:" + str(a["load"]))
            continue
        ck.count("load:ok")
        classes = common.known_of(model[c["id"]])
        scope = common.scope_of(model[c["id"]])
        ck.count("rules_with_some_switch_set_in_theorem_scope", 1 if scope else 0)
        for sw in scope:
            ck.count("in_theorem_scope:sw%d" % sw)
        for sw in c["sw"]:
            if sw not in scope:
                # why: a listed class applies to this rule and switch set (the verdict can really change), or the
                # scope predicate is merely conservative
                ks = sorted(k for k in classes.get(sw, []) if k in (13, 16, 17))
                ck.count("outside_scope:sw%d:%s" % (sw, "class_" + "_".join("D%d" % k for k in ks) if ks else "conservative"))
                # scope_complete (Properties/C01_outside.v): a rule as loaded outside the three classifiers is
                # inside the scope.  The runner evaluates both predicates: they must agree with the theorem.
                if not ks and "optimised: true" not in c["rule"] and '"optimised": true' not in c["rule"]:
                    ck.count("scope_and_classifiers_contradict_scope_complete")
                    if "scope_complete" not in reported_machinery:
                        reported_machinery.add("scope_complete")
                        ck.violation({"property": "C01", "kind": "correspondence",
                                      "what": "the extracted runner puts a loaded rule outside the scope although no classifier of D13/D16/D17 "
                                              "accepts it: this contradicts the theorem scope_complete, so the runner no longer computes "
                                              "the predicates the theorems are about",
                                      "rule": c["rule"], "switch_set": sw, "model": model[c["id"]][-300:]}, no_input=True)
        line_a = common.strip_extra(impl[c["id"]])
        line_b = common.strip_known(model[c["id"]])
        agrees = (line_a == line_b) or (common.lines_agree(line_a, line_b) is True)
        base = a["res"].get(0, "")
        for ch in base:
            ck.count("root:" + ch)
        if len(set(base)) > 1:
            nontrivial.add(c["rule"])
        for sw in ALL_SW[1:]:
            opt = a["res"].get(sw)
            if opt is None:
                continue
            evals += max(1, len(base))
            bad = fails(base, opt)
            if not bad:
                continue
            cls = classes.get(sw, [])
            accepted = [k for k in cls if k in listed]
            in_scope = sw in scope
            if in_scope:
                # scope_all_sound (Properties/C01_matrix.v; scope_sound for the sets without matrix): the verdict is preserved for
                # this rule and switch set on every document and hash order: no known class applies
                accepted = []
            if agrees and accepted:
                suppressed += 1
                for k in accepted:
                    ck.count("known_class_D%d" % k)
                continue
            if len(direct_failed) < 4 and c["id"] not in direct_failed:
                i = bad[0]
                ck.violation({"property": "C01", "kind": "direct",
                              "what": "the optimised rule gives another verdict than the unoptimised rule (or optimise/matches panics)",
                              "rule": c["rule"], "switches": {"coalesce": bool(sw & 1), "shake": bool(sw & 2), "rewrite": bool(sw & 4), "matrix": bool(sw & 8)},
                              "doc": c["docs"][i] if i >= 0 else None, "unoptimised": base, "optimised": opt,
                              "model_reproduces": agrees, "classes_accepting": cls, "inside_theorem_scope": in_scope,
                              "replay_case": {"k": "rule", "id": 1, "rule": c["rule"], "docs": c["docs"], "sw": [0, sw]}})
            direct_failed.add(c["id"])
    ck.coverage["suppressed_as_known"] = suppressed

    # ---- the listed findings: replay each witness; still failing -> KNOWN-FINDING line
    still = {}
    for c in wit:
        a = rulebase.parse_rule_line(impl[c["id"]])
        w = c["_w"]
        base = a["res"].get(0, "")
        opt = a["res"].get(w["sw"], "")
        if a["load"] == "ok" and fails(base, opt):
            still[w["id"]] = True
        else:
            still.setdefault(w["id"], False)
    for k in known:
        ident = k.get("id")
        if k.get("witness") == "generated":
            continue
        if still.get(ident):
            ck.known(ident, k["what"])
        else:
            ck.count("known_witness_no_longer_fails:" + str(ident))
    # D21 on the crate only (the model's list-based maps are quadratic in the number of fields)
    d21_known = any(k.get("id") == "D21" for k in known)
    big = {"k": "rule", "id": 1, "rule": d21_rule(), "docs": [D({"g": "y0"}), D({"f77": "x"}), D({"g": "zz"}), D({})], "sw": [0, 8, 15]}
    out = lib.run_harness_only([big], "C01d21")
    r = rulebase.parse_rule_line(out[1])
    if r["load"] == "ok":
        base = r["res"].get(0, "")
        for sw in (8, 15):
            opt = r["res"].get(sw)
            if opt is not None and fails(base, opt):
                if d21_known and opt == "x":
                    for k in known:
                        if k.get("id") == "D21":
                            ck.known("D21", k["what"])
                else:
                    ck.violation({"property": "C01", "kind": "direct",
                                  "what": "an or-group over more than 55296 distinct fields: optimise() panics or the verdict changes with the matrix switch",
                                  "rule": "(generated: %d single-field blocks f0..f55399 plus two blocks on g)" % 55400, "unoptimised": base, "optimised": opt,
                                  "replay_case": {"generated": "props.C01.d21_rule()", "sw": [0, sw]}})
                    direct_failed.add(-21)
    evals += 1

    ck.coverage["evaluations"] = evals
    ck.coverage["distinct_nontrivial"] = len(nontrivial)
    ck.coverage["rule"] = (
        "structure-first random rules (1-4 identifiers; mappings, sequences of mappings, nested blocks, key modifiers, every "
        "pattern kind, conditions with and/or/not/all()/of()/casts) x 6 documents derived from each rule (fields absent / "
        "matching / near-miss / wrong kind / arrays / arrays of objects) x all 16 switch sets, three-valued on the crate and on "
        "the model (under the crate's map order, Model/Order.v; the LOADED and the OPTIMISED expression trees of all 16 switch "
        "sets are compared structurally); plus forced interactions, the coverage families, every corpus witness and the "
        "55 400-field rule. The runner marks the switch sets for which the rule lies in a proved scope (scope_all_sound / "
        "scope_quant_all_sound): there no verdict change is accepted at all. "
        "Non-trivial = the unoptimised result is not constant over the documents; distinct = distinct rule text. A failing "
        "(rule, switches) is suppressed only when the model reproduces it and a classifier of a listed finding accepts it.")
    for c in cases[:3]:
        ck.sample({"rule": c["rule"][:600], "docs": c["_docs"][:2], "crate": common.strip_extra(impl[c["id"]])[:300]})
    common.compare(ck, send, impl, model, "optimiser passes + solver on optimised trees (16 switch sets)",
                   "the pass theorems of C01*.v and the scope theorems (scope_all_sound, scope_quant_all_sound); outside the scopes the passes are tied by this correspondence", direct_failed)
    common.proof_gate(ck, bool(direct_failed))


def replay(ck, payload):
    case = payload.get("replay_case") or payload.get("case")
    if not case:
        print("nothing to replay in this file")
        return 2
    impl, model, _ = lib.run_cases([{k: v for k, v in case.items() if not k.startswith("_")}], "C01replay", runner_args=["--known"])
    print("crate:", impl[case["id"]])
    print("model:", model[case["id"]])
    return 0
