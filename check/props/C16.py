"""C16  Matching reads only the fields the rule names."""
import copy

import gen
import lib
from lib import D, rule_text
from props import common, rulebase

SWS = [0, 1, 2, 8, 9, 15]


def first_seg(k):
    return k.split(".")[0].split("[")[0]


def key_segments(tree, out=None):
    """every name `Object::get` may be asked for, on the root or on a nested object: the segments
    (without their [i] index) of every key written anywhere in the rule"""
    out = set() if out is None else out
    for k, node in tree.items():
        for seg in k.split("."):
            out.add(seg.split("[")[0])
        if node["sub"]:
            key_segments(node["sub"], out)
    return out


GETS_RE = None


def gets_of(line):
    """{(switch set, doc index): [keys]} from the crate-only `(gets ..)` elements"""
    import re
    global GETS_RE
    GETS_RE = GETS_RE or re.compile(r"\(gets (\d+) (\d+)((?: h[0-9a-f]*)*)\)")
    out = {}
    for sw, di, ks in GETS_RE.findall(line):
        out[(int(sw), int(di))] = [bytes.fromhex(k[1:]).decode("utf-8", "replace") for k in ks.split()]
    return out


def add_noise(rng, doc, tree):
    """A copy of doc that differs only in fields no predicate addresses -- at the top level
    and inside every nested object that a nested block of the rule walks."""
    d = copy.deepcopy(doc)
    addressed = set(first_seg(k) for k in tree.keys())
    for name in ("zz_noise", "noise", "extra", "q9"):
        if name in addressed:
            continue
        r = rng.random()
        if r < 0.4:
            d[name] = rng.choice(["foo", 5, None, {"f": "foo"}, ["foo"], True])
        elif r < 0.7 and name in d:
            del d[name]
    for f, node in tree.items():
        if not node["sub"] or "." in f or "[" in f:
            continue
        v = d.get(f)
        if isinstance(v, dict):
            d[f] = add_noise(rng, v, node["sub"])
        elif isinstance(v, list):
            d[f] = [add_noise(rng, x, node["sub"]) if isinstance(x, dict) else x for x in v]
    return d


def strip_unaddressed(doc, tree):
    """the document with every unaddressed field removed (nested objects included)"""
    addressed = set(first_seg(k) for k in tree.keys())
    out = {}
    for k, v in doc.items():
        if k not in addressed:
            continue
        node = tree.get(k)
        if node and node["sub"] and isinstance(v, dict):
            out[k] = strip_unaddressed(v, node["sub"])
        elif node and node["sub"] and isinstance(v, list):
            out[k] = [strip_unaddressed(x, node["sub"]) if isinstance(x, dict) else x for x in v]
        else:
            out[k] = v
    return out


def run(ck):
    thorough = ck.tier == "thorough"
    rng = ck.rng
    ck.proofs()
    n = 2000 if thorough else 400
    cases = []
    for _ in range(n):
        det = gen.gen_rule(rng)
        tree = gen.rule_fields(det)
        docs = []
        for _ in range(2):
            d = gen.gen_doc(rng, tree)
            docs.append(d)
            docs.append(add_noise(rng, d, tree))
        d = gen.gen_doc(rng, tree)
        docs.append(strip_unaddressed(d, tree))      # only addressed fields (nested objects may become empty)
        docs.append(add_noise(rng, d, tree))         # the same plus / minus unaddressed ones
        cases.append({"k": "rule", "id": ck.new_id(), "rule": rule_text(det), "docs": [D(d) for d in docs], "sw": SWS,
                      "reads": True, "_keys": set(tree.keys()), "_docs": docs, "_segs": key_segments(tree)})
    # nested blocks inside matrix cells whose block repeats the name of the outer key (the matrix
    # renames the CELL's field to a synthetic column key; nothing inside the block may be renamed)
    for _ in range(60 if thorough else 20):
        f, g, h = rng.sample(["f", "g", "h", "k"], 3)
        inner = rng.choice([{f: "a*"}, {f: "a*", g: 1}, {g: {f: "a*"}}, {"all(%s)" % f: ["*a*", "*b*"]}, {f: ["a*", "b*"]}])
        rows = [{f: inner, g: "x"}, {f: inner if rng.random() < 0.5 else {f: "b*"}, g: "y"}, {g: "z", h: 1}]
        rng.shuffle(rows)
        det = {"A": rows, "B": {f: inner}, "condition": rng.choice(["A", "A or B", "not A", "of(A, 2)", "A and B"])}
        tree = gen.rule_fields(det)
        docs = []
        for _ in range(4):
            d = gen.gen_doc(rng, tree)
            if rng.random() < 0.7:
                d[f] = rng.choice([{f: "ab", g: 1}, {f: "ab", "\u0000": "ab"}, [{f: "ab"}, {g: {f: "ab"}}], {g: {f: "ab", "\u0001": 1}}, {f: "zz", "\u0000": "ab", "\u0001": "ab"}])
                d[g] = rng.choice(["x", "y", "z"])
            docs.append(d)
            docs.append(add_noise(rng, d, tree))
        cases.append({"k": "rule", "id": ck.new_id(), "rule": rule_text(det), "docs": [D(d) for d in docs], "sw": SWS,
                      "reads": True, "_keys": set(tree.keys()), "_docs": docs, "_segs": key_segments(tree)})
        ck.count("family:matrix_cell_nested_same_key")
    # coverage families: cast comparisons with a field on either side, matrices (also evaluated per
    # array element), merged nested blocks, regrouped or-groups, quantified cast bodies
    import covfam
    for fam, det, fdocs, extra in covfam.all_cases(skip=("scalar_casts", "list_casts", "many_needles", "loader_errors", "already_optimised")):
        tree = gen.rule_fields(det)
        docs = []
        for d in fdocs[:12 if not thorough else 40]:
            docs.append(d)
            docs.append(add_noise(rng, d, tree))
        cases.append({"k": "rule", "id": ck.new_id(), "rule": rule_text(det, extra=extra), "docs": [D(d) for d in docs], "sw": SWS,
                      "reads": True, "_keys": set(tree.keys()), "_docs": docs, "_segs": key_segments(tree)})
        ck.count("family:" + fam)
    send = rulebase.wire(cases)
    impl, model, _ = lib.run_cases(send, "C16")
    direct_failed = set()
    evals = 0
    nontrivial = set()
    for c in cases:
        a = rulebase.parse_rule_line(impl[c["id"]])
        if a["load"] != "ok":
            ck.count("load:" + str(a["load"]))
            continue
        gets = gets_of(impl[c["id"]])
        for sw in SWS:
            res = a["res"].get(sw)
            reads = a["reads"].get(sw)
            # keys asked of ANY object of the document tree (nested objects included): only names the rule writes
            for (gsw, di), ks in gets.items():
                if gsw != sw:
                    continue
                evals += 1
                ck.count("nested_gets_checked")
                stray = [k for k in ks if k not in c["_segs"]]
                if stray:
                    if len(direct_failed) < 4 and c["id"] not in direct_failed:
                        ck.violation({"property": "C16", "kind": "direct",
                                      "what": "an object of the document (the root or a nested object) was asked for a name that is not "
                                              "written anywhere in the rule",
                                      "rule": c["rule"], "switch_set": sw, "doc": c["docs"][di], "names_asked": ks,
                                      "names_in_rule": sorted(c["_segs"]), "unexpected": stray,
                                      "replay_case": {"k": "rule", "id": 1, "rule": c["rule"], "docs": [c["docs"][di]], "sw": [sw], "reads": True}})
                    direct_failed.add(c["id"])
            if res is None or res == "x" or reads is None:
                ck.count("not_evaluated(optimise panicked)")
                continue
            for i, r in enumerate(reads):
                evals += 1
                if r == ["panic"]:
                    ck.count("not_evaluated(matches panicked)")
                    continue
                keys = [lib.sx_str(k) for k in r]
                ck.count("keys_read:%d" % min(len(keys), 6))
                if keys:
                    nontrivial.add((c["rule"], i))
                extra = [k for k in keys if k not in c["_keys"]]
                if extra:
                    if len(direct_failed) < 4 and c["id"] not in direct_failed:
                        ck.violation({"property": "C16", "kind": "direct",
                                      "what": "the engine asked the document for a key that is not written in the rule",
                                      "rule": c["rule"], "switch_set": sw, "doc": c["docs"][i], "keys_read": keys,
                                      "keys_in_rule": sorted(c["_keys"]), "unexpected": extra,
                                      "replay_case": {"k": "rule", "id": 1, "rule": c["rule"], "docs": [c["docs"][i]], "sw": [sw], "reads": True}})
                    direct_failed.add(c["id"])
            # pairs (2j, 2j+1) differ only in unaddressed fields
            for j in range(0, len(res) - 1, 2):
                evals += 1
                if "p" in (res[j], res[j + 1]):
                    continue
                if res[j] != res[j + 1]:
                    if len(direct_failed) < 4 and c["id"] not in direct_failed:
                        ck.violation({"property": "C16", "kind": "direct",
                                      "what": "the result changed although the two documents differ only in fields no predicate addresses",
                                      "rule": c["rule"], "switch_set": sw, "docs": [c["docs"][j], c["docs"][j + 1]],
                                      "results": [res[j], res[j + 1]],
                                      "replay_case": {"k": "rule", "id": 1, "rule": c["rule"], "docs": [c["docs"][j], c["docs"][j + 1]], "sw": [sw], "reads": True}})
                    direct_failed.add(c["id"])
    ck.coverage["evaluations"] = evals
    ck.coverage["distinct_nontrivial"] = len(nontrivial)
    ck.coverage["rule"] = (
        "random rules x 3 document pairs (a document and a copy that differs only in fields no predicate addresses) x switch sets "
        "%s, evaluated through a recording Document: the set of keys passed to the top-level Document::find must be a subset of the "
        "keys written in the rule (computed from the YAML by the generator, independently of the crate and of the model), the "
        "results of the two documents of a pair must be equal, and the key sets must equal the model's. Non-trivial = at least "
        "one key read; distinct = distinct (rule, document)." % SWS)
    for c in cases[:3]:
        ck.sample({"rule": c["rule"][:500], "doc": c["_docs"][0], "crate": common.strip_extra(impl[c["id"]])[:500]})
    common.compare(ck, send, impl, model, "keys read by the solver (recording document)", "agree_on_keys, reads_only_rule_keys", direct_failed)
    common.proof_gate(ck, bool(direct_failed))


def replay(ck, payload):
    case = payload.get("replay_case") or payload.get("case")
    if not case:
        print("nothing to replay in this file")
        return 2
    impl, model, _ = lib.run_cases([{k: v for k, v in case.items() if not k.startswith("_")}], "C16replay")
    print("crate:", impl[case["id"]])
    print("model:", model[case["id"]])
    return 0
