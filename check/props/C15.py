"""C15  ignore_case build equals default build with every pattern i-prefixed."""
import copy

import gen
import lib
from lib import D, rule_text
from props import common, rulebase


def prefix_vals(v):
    if isinstance(v, str):
        return "i" + v
    if isinstance(v, list):
        return [prefix_vals(x) for x in v]
    if isinstance(v, dict):
        return {k: prefix_vals(x) for k, x in v.items()}
    return v


def prefix_rule(det):
    return {k: (v if k == "condition" else prefix_vals(v)) for k, v in det.items()}


def run(ck):
    thorough = ck.tier == "thorough"
    rng = ck.rng
    ck.proofs()
    n = 1500 if thorough else 350
    base_cases, pref_cases = [], []
    sws = [0, 15]
    for _ in range(n):
        det = gen.gen_rule(rng)
        tree = gen.rule_fields(det)
        docs = [D(gen.gen_doc(rng, tree)) for _ in range(6)]
        cid = ck.new_id()
        base_cases.append({"k": "rule", "id": cid, "rule": rule_text(det), "docs": docs, "sw": sws})
        pref_cases.append({"k": "rule", "id": cid, "rule": rule_text(prefix_rule(det)), "docs": docs, "sw": sws})
    # values that are NOT string patterns (YAML booleans, numbers) next to string members, under every key
    # form: they cannot be i-prefixed and must mean the same in both builds; documents in other letter cases
    lit_docs = [D({"f": v}) for v in ("TRUE", "True", "true", "FALSE", "5", "x", "X", True, False, 5, "5.5", 5.5, "5.5E0")] + [D({})]
    for key in ("f", "str(f)", "all(f)", "of(f, 1)", "not(f)"):
        for val in (True, False, 5, 5.5, [True, False], [True, "x"], ["X", True], [5, "x"], [5, 6], [True, 5], [5.5, "x"], [False]):
            if key in ("all(f)", "of(f, 1)") and not isinstance(val, list):
                continue
            for cond in ("A", "not A"):
                det = {"A": {key: val}, "condition": cond}
                cid = ck.new_id()
                base_cases.append({"k": "rule", "id": cid, "rule": rule_text(det), "docs": lit_docs, "sw": sws})
                pref_cases.append({"k": "rule", "id": cid, "rule": rule_text(prefix_rule(det)), "docs": lit_docs, "sw": sws})
                ck.count("family:non_string_literals")
    # pattern level: every pattern text through into_identifier in both builds
    pats = gen.STR_PATTERNS + gen.NUM_PATTERNS + ["Foo*", "*BAR", "'Q'", "?A+", "É*", "iÉ", "I", "iI", ">=5", ""]
    id_base = [{"k": "ident", "id": ck.new_id(), "s": p} for p in pats]
    id_pref = [{"k": "ident", "id": c["id"], "s": "i" + c["s"]} for c in id_base]
    # ignore_case build on the rules as written (model run with ic := true)
    impl_ic, model_ic, _ = lib.run_cases(base_cases + id_base, "C15ic", features=("ignore_case",), ic=True)
    # default build on the i-prefixed rules
    impl_df, model_df, _ = lib.run_cases(pref_cases + id_pref, "C15df")
    direct_failed = set()
    evals = 0
    nontrivial = set()
    for c, cp in zip(base_cases, pref_cases):
        a = rulebase.parse_rule_line(impl_ic[c["id"]])
        b = rulebase.parse_rule_line(impl_df[c["id"]])
        evals += 1
        ck.count("load:%s/%s" % (a["load"], b["load"]))
        bad = None
        if a["load"] != b["load"]:
            bad = "one build loads the rule, the other rejects its i-prefixed form"
        elif a["load"] == "ok":
            for sw in sws:
                ra, rb = a["res"].get(sw), b["res"].get(sw)
                if ra is None or rb is None:
                    continue
                for x, y in zip(ra, rb):
                    evals += 1
                    if "p" in (x, y) or "x" in (x, y):
                        continue
                    if (x == "t") != (y == "t"):
                        bad = "verdicts differ between the ignore_case build and the default build on the i-prefixed rule"
                if len(set(ra)) > 1:
                    nontrivial.add(c["rule"])
        if bad:
            if len(direct_failed) < 4:
                ck.violation({"property": "C15", "kind": "direct", "what": bad, "rule": c["rule"], "prefixed_rule": cp["rule"],
                              "docs": c["docs"], "ignore_case_build": common.strip_extra(impl_ic[c["id"]])[:400],
                              "default_build_on_prefixed": common.strip_extra(impl_df[c["id"]])[:400]})
            direct_failed.add(c["id"])
    for c in id_base:
        evals += 1
        x = impl_ic[c["id"]].split(" ", 1)[1]
        y = impl_df[c["id"]].split(" ", 1)[1]
        if x != y:
            if len(direct_failed) < 6:
                ck.violation({"property": "C15", "kind": "direct", "what": "into_identifier differs between the builds",
                              "pattern": c["s"], "ignore_case_build": x, "default_build_on_i_prefixed": y})
            direct_failed.add(c["id"])
    ck.coverage["evaluations"] = evals
    ck.coverage["distinct_nontrivial"] = len(nontrivial)
    ck.coverage["rule"] = (
        "two builds of the harness (default, --features ignore_case): random rules are run as written on the ignore_case build and "
        "with `i` prepended to every string value on the default build, unoptimised and fully optimised, 6 documents each; verdicts "
        "must agree; pattern texts through into_identifier in both builds; the ignore_case build is also compared with the model "
        "evaluated with ic := true. Non-trivial = the result is not constant over the documents.")
    ck.sample({"rule": base_cases[0]["rule"][:400], "ignore_case": common.strip_extra(impl_ic[base_cases[0]["id"]])[:200],
               "default_on_prefixed": common.strip_extra(impl_df[base_cases[0]["id"]])[:200]})
    ck.sample({"pattern": id_base[3]["s"], "ignore_case": impl_ic[id_base[3]["id"]], "default_on_prefixed": impl_df[id_base[3]["id"]]})
    common.compare(ck, rulebase.wire(base_cases + id_base), impl_ic, model_ic, "ignore_case build vs model with ic := true",
                   "ignore_case_eq_prefix, parse_identifier_ignore_case", direct_failed)
    common.compare(ck, rulebase.wire(pref_cases + id_pref), impl_df, model_df, "default build on prefixed rules vs model",
                   "load_rule_ignore_case", direct_failed)
    common.proof_gate(ck, bool(direct_failed))


def replay(ck, payload):
    print("replay: re-run `./check/check C15`; the payload holds both rule texts and the documents")
    return 0
