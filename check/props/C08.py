"""C08  List quantifiers count the members the author wrote."""
import itertools

import lib
from lib import D, rule_text
from props import common, rulebase

STR_MEMBERS = ["*a*", "*b*", "a*", "*c", "abc", "?b", "?^a", "i*B*", "iABC", "*z*", "z*", "?z", "*", "''", "i*Z", "i?B", "i?^A", "i?C$", "i?Z"]
NUM_MEMBERS = [5, ">3", "<9", ">=5", "<=4", "=5", 7, ">5.5"]
BOOL_MEMBERS = [True, False]
MAP_MEMBERS = [{"a": "x"}, {"b": "y"}, {"a": "z"}, {"c": 5}]


def explicit(kind, c, names):
    """condition over one-member identifiers equivalent to the quantifier"""
    n = len(names)
    if kind == "all":
        return " and ".join(names)
    if kind == "any":
        return " or ".join(names)
    if c == 0:
        return "not (%s)" % " or ".join(names)
    if c > n:
        return "%s and not %s" % (names[0], names[0])
    combos = [" and ".join(cmb) for cmb in itertools.combinations(names, c)]
    return " or ".join("(%s)" % x for x in combos)


def run(ck):
    thorough = ck.tier == "thorough"
    rng = ck.rng
    ck.proofs()
    known, _ = lib.load_known("C08")
    listed = set(int(k.get("classifier", "0")) for k in known)
    maxlen = 5 if thorough else 4
    docs_str = [{"k": h} for h in ["abc", "ab", "b", "c", "zzz", "", "ABC", "xbz"]] + [{}]
    docs_num = [{"k": v} for v in [5, 4, 7, 9, 0, 5.5]] + [{}]
    docs_bool = [{"k": True}, {"k": False}, {"k": "x"}, {}]
    docs_map = [{"k": {"a": "x", "b": "y"}}, {"k": {"a": "z"}}, {"k": {"c": 5, "a": "x"}}, {"k": {}}, {"k": 1}, {}]
    pairs = []      # (quantified case, explicit case, meta)
    n_lists = 500 if thorough else 140
    pools = [("str", STR_MEMBERS, docs_str), ("num", NUM_MEMBERS, docs_num), ("bool", BOOL_MEMBERS, docs_bool), ("map", MAP_MEMBERS, docs_map)]
    for _ in range(n_lists):
        kindname, pool, docs = pools[rng.choice([0, 0, 0, 1, 2, 3])]
        n = rng.randint(1, maxlen)
        members = [rng.choice(pool) for _ in range(n)]
        ddocs = [D(d) for d in docs]
        names = ["X%d" % i for i in range(1, n + 1)]
        ex_ids = {nm: {"k": m} for nm, m in zip(names, members)}
        forms = [("any", None, "k")] + [("all", None, "all(k)")] + [("of", c, "of(k, %d)" % c) for c in range(0, n + 2)]
        for kind, c, key in forms:
            q = {"A": {key: members}, "condition": "A"}
            e = dict(ex_ids, condition=explicit(kind, c, names))
            qc = {"k": "rule", "id": ck.new_id(), "rule": rule_text(q), "docs": ddocs, "sw": [0]}
            ec = {"k": "rule", "id": ck.new_id(), "rule": rule_text(e), "docs": ddocs, "sw": [0]}
            pairs.append((qc, ec, {"form": "key:" + kind, "members": members, "threshold": c, "kind": kindname, "docs": docs}))
        # identifier forms: a sequence of one-entry mappings, and a mapping with n entries on distinct fields
        seq = [{"k": m} for m in members]
        for kind, c, cond in [("all", None, "all(X)")] + [("of", c, "of(X, %d)" % c) for c in range(0, n + 2)]:
            q = {"X": seq, "condition": cond}
            e = dict(ex_ids, condition=explicit(kind, c, names))
            qc = {"k": "rule", "id": ck.new_id(), "rule": rule_text(q), "docs": ddocs, "sw": [0, 15]}
            ec = {"k": "rule", "id": ck.new_id(), "rule": rule_text(e), "docs": ddocs, "sw": [0]}
            pairs.append((qc, ec, {"form": "ident_seq:" + kind, "members": members, "threshold": c, "kind": kindname, "docs": docs}))
        # a mapping identifier with n entries on DISTINCT fields k1..kn (an and-group: all(X) / of(X, c)
        # count its entries all the same), also as optimised by default
        if n >= 2:
            keys = ["k%d" % i for i in range(1, n + 1)]
            mdocs = []
            for j in range(len(docs) + 2):
                dd = {}
                for i, kk in enumerate(keys):
                    src = docs[(j * (i + 1) + i) % len(docs)]
                    if "k" in src:
                        dd[kk] = src["k"]
                mdocs.append(dd)
            mddocs = [D(d) for d in mdocs]
            ex_ids2 = {nm: {kk: m} for nm, kk, m in zip(names, keys, members)}
            for kind, c, cond in [("all", None, "all(X)")] + [("of", c, "of(X, %d)" % c) for c in range(0, n + 2)]:
                q = {"X": {kk: m for kk, m in zip(keys, members)}, "condition": cond}
                e = dict(ex_ids2, condition=explicit(kind, c, names))
                qc = {"k": "rule", "id": ck.new_id(), "rule": rule_text(q), "docs": mddocs, "sw": [0, 15]}
                ec = {"k": "rule", "id": ck.new_id(), "rule": rule_text(e), "docs": mddocs, "sw": [0]}
                pairs.append((qc, ec, {"form": "ident_mapping:" + kind, "members": members, "threshold": c, "kind": kindname, "docs": mdocs}))
        # a ONE-entry mapping identifier whose value is the list: all(X) must be X itself
        q = {"X": {"k": members}, "condition": "all(X)"}
        e = {"X": {"k": members}, "condition": "X"}
        qc = {"k": "rule", "id": ck.new_id(), "rule": rule_text(q), "docs": ddocs, "sw": [0]}
        ec = {"k": "rule", "id": ck.new_id(), "rule": rule_text(e), "docs": ddocs, "sw": [0]}
        pairs.append((qc, ec, {"form": "ident_one_entry_mapping:all", "members": members, "threshold": None, "kind": kindname, "docs": docs}))
    cases = [p[0] for p in pairs] + [p[1] for p in pairs]
    send = rulebase.wire(cases)
    impl, model, _ = lib.run_cases(send, "C08", runner_args=["--known"])
    direct_failed = set()
    evals = 0
    nontrivial = set()
    suppressed = 0
    for qc, ec, meta in pairs:
        a = rulebase.parse_rule_line(impl[qc["id"]])
        b = rulebase.parse_rule_line(impl[ec["id"]])
        ck.count("form:" + meta["form"].split(":")[0])
        ck.count("kind:" + meta["kind"])
        if a["load"] != "ok" or b["load"] != "ok":
            # mixed-kind lists under all()/of() are rejected by design; the explicit form then also has to exist
            ck.count("load:%s/%s" % (a["load"], b["load"]))
            if a["load"] == "ok" and b["load"] != "ok":
                pass
            continue
        rb = b["res"].get(0, "")
        la, lb = common.strip_extra(impl[qc["id"]]), common.strip_known(model[qc["id"]])
        agrees = la == lb
        runs = [(0, a["res"].get(0, ""))]
        if 15 in qc["sw"]:
            # the same quantified rule as optimised by default: the members are still counted as written.
            # Where a listed class of C01 (D13, D16, D17: negative positions) accepts the rule for these
            # switches the comparison is left to C01.
            c15 = common.known_of(model[qc["id"]]).get(15, [])
            if any(k in (13, 16, 17) for k in c15):
                ck.count("optimised_form_left_to_C01")
            else:
                runs.append((15, a["res"].get(15, "")))
                ck.count("optimised_form_compared")
        for swn, ra in runs:
          classes = common.known_of(model[qc["id"]]).get(swn, [])
          if len(ra) != len(rb):
            ra = "?" * len(rb)
          for i, (x, y) in enumerate(zip(ra, rb)):
            evals += 1
            if len(meta["members"]) > 1:
                nontrivial.add((qc["rule"], i))
            if (x == "t") != (y == "t"):
                acc = [k for k in classes if k in listed]
                if agrees and acc:
                    suppressed += 1
                    for k in acc:
                        ck.count("known_class_D%d" % k)
                    continue
                if len(direct_failed) < 4 and qc["id"] not in direct_failed:
                    ck.violation({"property": "C08", "kind": "direct",
                                  "what": "a quantified list does not count the members as written (differs from the explicit and/or/not form)",
                                  "form": meta["form"], "members": meta["members"], "threshold": meta["threshold"],
                                  "quantified_rule": qc["rule"], "explicit_rule": ec["rule"], "doc": meta["docs"][i],
                                  "quantified": x, "explicit": y, "switch_set": swn, "model_reproduces": agrees, "classes_accepting": classes,
                                  "replay_case": {"k": "rule", "id": 1, "rule": qc["rule"], "docs": [qc["docs"][i]], "sw": [swn]}})
                direct_failed.add(qc["id"])
    ck.coverage["suppressed_as_known"] = suppressed
    # listed findings
    wit = rulebase.known_witnesses("C08")
    wcases = []
    for entry, w in wit:
        if w is None:
            continue
        wcases.append({"k": "rule", "id": ck.new_id(), "rule": w["rule"], "docs": [w["doc"]], "sw": [0], "_e": entry, "_w": w})
        wcases.append({"k": "rule", "id": ck.new_id(), "rule": w["explicit_rule"], "docs": [w["doc"]], "sw": [0], "_e": entry, "_w": w})
    if wcases:
        wi, _, _ = lib.run_cases(rulebase.wire(wcases), "C08kf")
        for j in range(0, len(wcases), 2):
            a = rulebase.parse_rule_line(wi[wcases[j]["id"]])
            b = rulebase.parse_rule_line(wi[wcases[j + 1]["id"]])
            x, y = a["res"].get(0, "?"), b["res"].get(0, "?")
            if a["load"] == "ok" and b["load"] == "ok" and (x == "t") != (y == "t"):
                e = wcases[j]["_e"]
                ck.known(e.get("id"), e["what"])
    ck.coverage["evaluations"] = evals
    ck.coverage["distinct_nontrivial"] = len(nontrivial)
    ck.coverage["rule"] = (
        "member lists of length 1..%d over strings/regexes, numbers, booleans and mappings x plain / all() / of(k, 0..len+1) on a "
        "key, and all(X) / of(X, n) over identifiers (sequence of one-entry mappings; mapping with n entries on distinct fields; "
        "one-entry mapping holding the list; the identifier forms also as optimised with the default switches), each "
        "compared on the crate with the same rule written out as explicit and/or/not over one-member identifiers, on documents "
        "with scalar fields (and absent). A difference is suppressed only if the model reproduces the quantified result and a "
        "classifier of a listed finding (D10/D11 batches, D24 one-entry mapping) accepts the rule. Non-trivial = more than one member."
        % maxlen)
    for qc, ec, meta in pairs[:3]:
        ck.sample({"quantified": qc["rule"], "explicit": ec["rule"], "crate": [common.strip_extra(impl[qc["id"]])[-40:], common.strip_extra(impl[ec["id"]])[-40:]]})
    common.compare(ck, send, impl, model, "list batching + quantifiers", "quantified_list_exact, quantified_identifier_exact", direct_failed)
    common.proof_gate(ck, bool(direct_failed))


def replay(ck, payload):
    case = payload.get("replay_case") or payload.get("case")
    if not case:
        print("nothing to replay in this file")
        return 2
    impl, model, _ = lib.run_cases([{k: v for k, v in case.items() if not k.startswith("_")}], "C08replay", runner_args=["--known"])
    print("crate:", impl[case["id"]])
    print("model:", model[case["id"]])
    return 0
