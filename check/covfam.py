"""Coverage families: small systematic sweeps aimed at the parts of the crate that the
structure-first random rules reach rarely (found with tools/coverage.sh): casts against every
value kind (scalar and in lists, including the loader's type errors), cast comparisons in
conditions with a field or a constant on either side, all()/of() over identifiers whose body
is one str()-cast list on non-string values, lists of more than 64 needles (the automaton's
second counting path), nested or-of-ands that become a matrix evaluated over arrays of
objects, or-groups of same-kind searches on different fields (the sort comparators of
shake_1), and rules that say `optimised: true` themselves.

Deterministic (no random choice).  Every family is a list of (detection, documents[,
extra top-level keys])."""
from lib import I, U, Fl, fbits

BIG = 9223372036854775808        # i64::MAX + 1
VALS = [True, False, 5, -3, 0, 1, 5.5, 1.0, "5", "5.5", "foo", "true", "1", ">=5", ">=1.5", "<1.5", "<=2.5", ">0.5", "=5.0",
        "=5", None, BIG, 18446744073709551615, -9223372036854775808, "i5", "?^5", "5*", ""]
KEYS = ["f", "not(f)", "int(f)", "flt(f)", "str(f)"]
DOC_VALS = [None, "5", "5.5", 5, I(5), U(5), 5.5, Fl(fbits(5.0)), Fl(fbits(1.0)), Fl(fbits(1.5)), Fl(fbits(0.0)), True, False, "foo", "true", "false", "1", "0",
            1, 0, -3, "-3", U(BIG), U(18446744073709551615), I(-9223372036854775808), Fl(fbits(1e30)), Fl(fbits(float("nan"))),
            Fl(fbits(9.223372036854775807e18)), "1e2", " 5", "5 ", "+5", "0x5", "5.0", ".5", "inf", "NaN", "",
            [5, "5"], [True, 1], [], [[5]], {"x": 1}]


def _docs(field="f", vals=DOC_VALS, with_absent=True):
    ds = [{field: v} for v in vals if v is not None] + [{field: None}]
    if with_absent:
        ds.append({})
    return ds


def scalar_casts():
    out = []
    for k in KEYS:
        for v in VALS:
            out.append(({"A": {k: v}, "condition": "A"}, _docs()))
    # negated, so that false and missing are told apart in the verdict
    for k in ("int(f)", "flt(f)", "str(f)"):
        for v in (True, 5, 5.5, "5", ">=1.5", None):
            out.append(({"A": {k: v}, "condition": "not A"}, _docs()))
    return out


LISTS = [[True, 5], [True, "foo"], [True, False], [5, "5"], [5.5, ">=1.5", "<1.5"], ["foo", 5], [True], [5], [5.5], ["5"],
         ["<=2.5", "<1.5", ">=1.5", ">2.5"], [">=5", "<=5", ">5", "<5", "=5"], [None], [None, "foo"], [5, 5.5], ["=5.0", 5],
         ["foo", "?^5", "5*", "i5"], [1, 0, True], ["true", True], [BIG, 5], [">=1.5", "foo"], [5, ">=5"], [-3, "<0"], [1.0, 1]]
LKEYS = ["f", "not(f)", "int(f)", "flt(f)", "str(f)", "all(f)", "of(f, 1)", "of(f, 2)"]


def list_casts():
    out = []
    for k in LKEYS:
        for v in LISTS:
            out.append(({"A": {k: v}, "condition": "A"}, _docs()))
    # negated, so that false and missing are told apart (D27 / D33: str(k) against null)
    for k in ("str(f)", "f", "int(f)", "flt(f)"):
        for v in ([None, None], [None, "foo"] if k in ("str(f)", "f") else [None, 5], [None]):
            out.append(({"A": {k: v}, "condition": "not A"}, _docs()))
            out.append(({"A": [{k: v[0]}, {k: v[-1]}, {"g": "x"}], "condition": "not A"}, _docs() + [{"g": "x"}]))
    return out


OPS = ["==", ">", ">=", "<", "<="]
NUM_DOCS = [5, I(5), U(5), 5.5, Fl(fbits(5.0)), "5", "5.5", True, False, 0, 6, -3, "foo", U(BIG), Fl(fbits(1e30)), Fl(fbits(float("nan"))), [5], None]


def cond_casts():
    out = []
    base = {"A": {"zz": "zz"}}
    pairs = [(a, b) for a in NUM_DOCS[:11] for b in (5, 5.5, "5", True, 6, -3)] + [(a, a) for a in NUM_DOCS]
    big = [U(BIG), U(18446744073709551615), I(5), U(5), I(-3), U(BIG + 1), I(9223372036854775807), U(9223372036854775807)]
    pairs += [(a, b) for a in big for b in big]
    docs2 = [{"f": a, "g": b} for a, b in pairs if a is not None and b is not None] + [{"f": 5}, {"g": 5}, {}, {"f": None, "g": 5}]
    docs1 = [{"f": a} for a in NUM_DOCS if a is not None] + [{"f": None}, {}]
    for op in OPS:
        for form in ("int(f) %s int(g)", "flt(f) %s flt(g)", "int(f) %s flt(g)", "flt(f) %s int(g)"):
            out.append((dict(base, condition=form % op), docs2))
        for form in ("int(f) %s 5", "5 %s int(f)", "flt(f) %s 5.5", "5.5 %s flt(f)", "flt(f) %s 5", "int(f) %s 5.5", "5 %s flt(f)",
                     "5.5 %s int(f)", "int(f) %s -3", "flt(f) %s 5.0", "int(f) %s 9223372036854775807", "flt(f) %s 1e30",
                     "str(f) %s 5", "int(f) %s foo", "5 %s 5", "int(f) %s true"):
            out.append((dict(base, condition=form % op), docs1))
        out.append((dict(base, condition="A or int(f) %s 5" % op), docs1))
        out.append((dict(base, condition="not int(f) %s 5" % op), docs1))
        out.append((dict(base, condition="not (flt(f) %s 5.5)" % op), docs1))
    for form in ("str(f) == str(g)", "str(f) == str(f)", "A or str(f) == str(g)", "not str(f) == str(g)", "str(f) == foo",
                 "str(f) > str(g)", "int(f) == str(g)", "str(f) == int(g)", "int(f) == int(f) and flt(g) == flt(g)",
                 "int(f) == 5 and int(g) == 5", "int(f) == 5 or int(g) == 5", "not(f)", "not(A)", "int(f)", "5", "int(f) == 5 == 5"):
        out.append((dict(base, condition=form), docs2))
    # field-to-field comparisons as operands of an or-chain that counts a field more than once: the
    # matrix pass must leave them alone (a cell can only read its own column)
    docs3 = [{"f": a, "g": b, "h": c} for a in (5, "5", 5.5, True) for b in (5, 6, "x") for c in (5, 7)] + [{"f": 5}, {"g": 5, "h": 5}, {"zz": "zz"}, {}]
    for form in ("int(f) == int(g) or int(f) == int(h) or A", "flt(f) > flt(g) or flt(f) < flt(h) or A", "A or int(f) == int(g) or int(g) == int(f)",
                 "not (int(f) == int(g) or int(f) == int(h) or A)", "str(f) == str(g) or str(f) == str(h) or A",
                 "int(f) == int(g) or int(f) == 5 or int(f) == 6", "int(f) == 5 or int(f) == int(g) or int(g) == 6 or A"):
        out.append((dict(base, condition=form), docs3))
    return out


def quantified_cast_bodies():
    """all(A) / of(A, n) over a one-entry body whose value is a list under a cast / plain key
    (class D24 for the count; here the point is the evaluation of the automaton and of the regex
    set on numbers, booleans and arrays of them)"""
    out = []
    bodies = [{"str(f)": ["5*", "*5", "*.*"]}, {"str(f)": ["?^5", "?5$", "?\\."]}, {"str(f)": ["true", "tr*", "*ue"]},
              {"f": ["5*", "*5", "*.*"]}, {"f": ["?^5", "?5$"]}, {"str(f)": ["i5*", "i*5"]}, {"str(f)": ["5", "5.5", "true"]},
              {"str(f)": ["5*", "?5$", "*5"]}, {"str(f)": ["?^t", "?e$", "?ru"]}, {"str(f)": ["?^-", "?5$"]}, {"str(f)": ["-*", "*5"]}]
    vals = [5, I(5), U(5), 5.5, Fl(fbits(5.0)), True, False, "5", "5.5", "true", "55", [5, 5.5], [True, "5"], ["5", 5.5, True], [], None, {"x": 1},
            U(BIG), Fl(fbits(1e30)), -3, "5.0", I(-5), [I(5), I(-5)], [I(-5), None, {"x": 1}], [True, False], [None, {"x": 1}], [Fl(fbits(-5.0))],
            [U(5), U(BIG)], "-5", ["-5", I(5)]]
    docs = [{"f": v} for v in vals if v is not None] + [{"f": None}, {}]
    for b in bodies:
        for c in ("all(A)", "of(A, 1)", "of(A, 2)", "of(A, 3)", "A", "not all(A)", "not of(A, 2)"):
            out.append(({"A": b, "condition": c}, docs))
        k, v = list(b.items())[0]
        field = "f"
        inner = k[4:-1] if k.startswith("str(") else k
        if not k.startswith("str("):
            for q in ("all(%s)", "of(%s, 2)"):
                out.append(({"A": {q % inner: v}, "condition": "A"}, docs))
    return out


def many_needles():
    out = []
    for n in (63, 64, 65, 70, 130):
        needles = ["*n%d;*" % i for i in range(n)]
        hay_all = "".join("n%d;" % i for i in range(n))
        hay_most = "".join("n%d;" % i for i in range(n - 1))
        docs = [{"f": hay_all}, {"f": hay_most}, {"f": "n0;"}, {"f": "zzz"}, {"f": [hay_most, hay_all]}, {"f": ["n0;", "n1;"]}, {}]
        out.append(({"A": {"all(f)": needles}, "condition": "A"}, docs))
        out.append(({"A": {"of(f, %d)" % (n - 1): needles}, "condition": "A"}, docs))
        out.append(({"A": {"of(f, 2)": needles}, "condition": "A"}, docs))
        out.append(({"A": {"f": needles}, "condition": "A"}, docs))
        mixed = ["n%d;*" % i if i % 3 == 0 else ("*n%d;" % i if i % 3 == 1 else "n%d;" % i) for i in range(n)]
        out.append(({"A": {"all(f)": mixed}, "condition": "A"}, docs + [{"f": "n0;"}, {"f": "n2;"}, {"f": "xn1;"}]))
        out.append(({"A": {"of(f, 1)": mixed}, "condition": "A"}, docs + [{"f": "n0;"}, {"f": "n2;"}, {"f": "xn1;"}]))
        out.append(({"A": {"all(f)": ["i" + x for x in needles]}, "condition": "A"}, docs + [{"f": hay_all.upper()}]))
    return out


def nested_matrix():
    out = []
    rows = [{"f": "a", "g": "b"}, {"f": "c", "g": "d"}, {"f": "e", "g": "f"}]
    rows2 = [{"f": "a*", "g": "*b"}, {"f": "c", "h": "d"}, {"g": "e"}]
    rows3 = [{"f": "a", "g": 1}, {"f": "c", "g": ">=2"}, {"f": "e", "not(g)": "x"}]
    arr_docs = [
        {"n": [{"f": "a", "g": "b"}]}, {"n": [{"f": "a", "g": "d"}, {"f": "c", "g": "b"}]}, {"n": [{"f": "a"}, {"g": "b"}]},
        {"n": [{"f": "c", "g": "d"}, 1, "x"]}, {"n": []}, {"n": [1, "x", None]}, {"n": {"f": "e", "g": "f"}}, {"n": {"f": "e"}},
        {"n": [{"f": "e", "g": "f", "h": "d"}]}, {"n": [{"f": "c", "h": "d"}]}, {"n": [{"g": "e"}]}, {"n": [{"f": "axx", "g": "xxb"}]},
        {"n": [{"f": "a", "g": 1}]}, {"n": [{"f": "c", "g": 3}]}, {"n": [{"f": "e", "g": "y"}]}, {"n": [{"f": "e"}]}, {"n": "x"}, {"n": None}, {},
        {"n": [[{"f": "a", "g": "b"}]]}, {"n": [{"f": ["a", "c"], "g": ["b"]}]},
    ]
    for r in (rows, rows2, rows3):
        for cond in ("A", "not A", "A and B", "A or B", "all(A)", "of(A, 1)"):
            out.append(({"A": {"n": r}, "B": {"zz": "zz"}, "condition": cond}, arr_docs))
        out.append(({"A": {"n": {"m": r}}, "condition": "A"}, [{"n": {"m": d["n"]}} for d in arr_docs if "n" in d] + [{"n": [{"m": [{"f": "a", "g": "b"}]}]}, {}]))
        out.append(({"A": [{"n": r}, {"k": "x"}], "condition": "A"}, arr_docs + [{"k": "x"}]))
        # the same rows at the top level: the cached matrix path
        out.append(({"A": r, "condition": "A"}, [d["n"][0] for d in arr_docs if isinstance(d.get("n"), list) and d["n"] and isinstance(d["n"][0], dict)] + [{}]))
    return out


def nested_and_merge():
    """identifiers that nest the same field, joined by `and`: shake_1 merges the blocks into ONE
    nested block over all-of-or (and matrix then turns the or-of-ands into a table that the solver
    has to evaluate per array element)"""
    out = []
    docs = [{"n": {"f": "a", "g": "b"}}, {"n": [{"f": "a", "g": "b"}, {"f": "c", "g": "d"}]}, {"n": [{"f": "a", "g": "d"}, {"f": "c", "g": "b"}]},
            {"n": [{"f": "a", "g": "b"}]}, {"n": [{"f": "a", "g": "b", "h": "e"}, {"f": "c", "g": "d", "h": "e"}]}, {"n": []}, {"n": [1, None, "x"]},
            {"n": [{"f": "a"}, {"g": "b"}, {"f": "c", "g": "d"}]}, {"n": {"f": "c", "g": "d"}}, {"n": [{"f": "c", "g": "d"}, {"f": "a", "g": "b"}, 7]},
            {"n": "x"}, {"n": None}, {}, {"n": [{"f": ["a", "c"], "g": ["b", "d"]}]}, {"n": [[{"f": "a", "g": "b"}]]}, {"h": "e"},
            {"n": [{"f": "a", "g": "b"}, {"f": "c", "g": "d"}], "h": "e"}, {"n": [{"f": "a", "g": 1}, {"f": "c", "g": 2}]}]
    blocks = [({"f": "a", "g": "b"}, {"f": "c", "g": "d"}, {"f": "e", "g": "f"}),
              ({"f": "a*", "g": "*b"}, {"f": "c", "g": "d"}, {"h": "e"}),
              ({"f": "a", "g": 1}, {"f": "c", "g": ">=2"}, {"f": "c"}),
              ({"f": "a", "not(g)": "b"}, {"f": "c", "g": "d"}, {"g": "d"})]
    # merges one level down (D29 as first found: the merged block is shaken again)
    deep_docs = [{"f": {"g": [{"k": "a"}, {"k": "b"}]}}, {"f": {"g": [{"k": "ab"}]}}, {"f": {"g": {"h": "z"}}}, {"f": [{"g": [{"k": "a"}, {"k": "b"}]}]}, {}]
    out.append(({"A": [{"f": {"g": {"all(k)": ["*a*", "?b"]}}}, {"f": {"g": {"h": "z"}}}], "condition": "A"}, deep_docs))
    out.append(({"A": {"f": {"g": {"all(k)": ["*a*", "?b"]}}}, "B": {"f": {"g": {"h": "z"}}}, "C": {"w": "d"}, "condition": "A or B or C"}, deep_docs))
    out.append(({"A": {"f": {"g": {"all(k)": [{"p": "a"}, {"q": "b"}]}}}, "B": {"f": {"g": {"z": "c"}}}, "C": {"w": "d"}, "condition": "A or B or C"},
                [{"f": {"g": [{"k": {"p": "a"}}, {"k": {"q": "b"}}]}}, {"f": {"g": {"k": [{"p": "a"}, {"q": "b"}]}}}, {"f": {"g": {"z": "c"}}}, {}]))
    out.append(({"A": {"f": {"g": {"k": "a", "j": "b"}}}, "B": {"f": {"g": {"k": "c"}}}, "C": {"f": {"g": {"all(k)": ["*a*", "?b"]}}}, "condition": "A and B and C"}, deep_docs))
    for b in blocks:
        ids = {"A": {"n": b[0]}, "B": {"n": b[1]}, "C": {"n": b[2]}, "E": {"h": "e"}}
        for cond in ("A and B", "A and B and C", "A and B and E", "not (A and B)", "A and B or C", "(A and B) or E", "all(A) and B", "A and not B",
                     "A or B", "not (A or B)"):
            out.append((dict(ids, condition=cond), docs))
        out.append(({"X": {"n": b[0], "m": {"n": b[1]}}, "Y": {"m": {"n": b[2]}}, "condition": "X and Y"},
                    docs + [{"n": d.get("n"), "m": {"n": d.get("n")}} for d in docs if "n" in d]))
    return out


def _wide(n):
    seq = [{"common": "c0", "f000": "v0"}, {"common": "c1", "f001": "v1"}] + [{"f%03d" % i: "v%d" % i} for i in range(2, n)]
    docs = [{"f%03d" % i: "v%d" % i} for i in (2, 5, n // 2, n - 2, n - 1) if 2 <= i < n]
    docs += [{"common": "c0", "f000": "v0"}, {"common": "c1", "f001": "nope"}, {"common": "nope", "f005": "v5"}, {"common": "c0"},
             {"f%03d" % (n - 1): "nope"}, {}]
    return seq, docs


def wide_matrix():
    """or-groups over many distinct fields: matrices with up to 300 columns (column keys beyond one
    UTF-8 byte from index 128 on)"""
    out = []
    for n in (60, 127, 128, 129, 131, 200, 300):
        seq, docs = _wide(n)
        out.append(({"A": seq, "condition": "A"}, docs))
        out.append(({"A": seq, "B": {"zz": "zz"}, "condition": "B or A"}, docs))
    return out


def wide_matrix_quant():
    out = []
    for n in (127, 129, 131, 200):
        seq, docs = _wide(n)
        for cond in ("of(A, 1)", "not all(A)", "not A", "of(A, 2)"):
            out.append(({"A": seq, "condition": cond}, docs))
    return out


def matrix_duplicate_fields():
    """a member of an or-group that addresses one field twice (plain and cast key, or two identifiers
    on the same field joined by `and`), in first / middle / last position: such a group must not
    become a matrix row that keeps only one of the two conditions"""
    out = []
    docs = [{"a": "xyzbar", "b": 1}, {"a": "foobar", "b": 1}, {"a": "fooxyz", "b": 1}, {"a": "foobar", "b": 2}, {"a": "foobar"}, {"c": "x"},
            {"a": "foobar", "b": 1, "c": "x"}, {"a": 5, "b": 1}, {"a": "5", "b": 1}, {"b": 1}, {}]
    dup = [("a", "foo*"), ("str(a)", "*bar"), ("b", 1)]
    import itertools
    for perm in itertools.permutations(dup):
        m = {k: v for k, v in perm}
        out.append(({"S": [m, {"c": "x"}], "condition": "S"}, docs))
        out.append(({"S": [{"c": "x"}, m, {"c": "y", "b": 2}], "condition": "S"}, docs))
    for k2, v2 in (("int(a)", 5), ("flt(a)", ">=4.5"), ("not(a)", "zzz"), ("a.x", "q")):
        for m in ({"a": "5*", k2: v2, "b": 1}, {"b": 1, "a": "5*", k2: v2}, {k2: v2, "b": 1, "a": "5*"}):
            out.append(({"S": [m, {"c": "x"}], "condition": "S"}, docs + [{"a": 5.5, "b": 1}, {"a": "55", "b": 1}]))
    ids = {"A": {"a": "foo*"}, "B": {"a": "*bar"}, "C": {"b": 1}, "D": {"c": "x"}, "E": {"c": "y"}}
    for cond in ("(A and B and C) or D or E", "(A and C and B) or D or E", "(C and A and B) or D or E", "D or (A and B and C) or E",
                 "(A and B) or D or E", "(A and B and C) or D"):
        out.append((dict(ids, condition=cond), docs))
    return out


def list_of_blocks():
    """lists whose members are mappings (`f: [{a: x}, {b: y}]`), incl. members that are one
    all()-list (class D28 reaching list members), under plain / all() / of() keys"""
    out = []
    docs = [{"f": [{"k": 1}, {"k": 2}]}, {"f": [{"k": 1}]}, {"f": {"k": 1}}, {"f": {"k": [1, 2]}}, {"f": [{"k": 1, "g": "x"}, {"k": 2}]},
            {"f": [{"g": "x"}]}, {"f": []}, {"f": [1, "x"]}, {"f": "x"}, {"f": None}, {}, {"f": [{"k": "ab"}, {"k": "b"}]}, {"f": {"k": "ab", "g": "x"}}]
    members = [{"all(k)": [1, 2]}, {"all(k)": ["*a*", "?b"]}, {"k": 1}, {"g": "x"}, {"k": [1, 2]}, {"k": 1, "g": "x"}, {"of(k, 1)": [1, 2]}, {"k": None},
               {"all(k)": ["*a*", "*b*"]}]
    for i, a in enumerate(members):
        out.append(({"A": {"f": [a]}, "condition": "A"}, docs))
        out.append(({"A": {"f": [a]}, "condition": "not A"}, docs))
        for b in members[i:i + 3]:
            for key in ("f", "all(f)", "of(f, 1)", "of(f, 2)"):
                out.append(({"A": {key: [a, b]}, "condition": "A"}, docs))
        out.append(({"A": {"n": {"f": [a, members[(i + 1) % len(members)]]}}, "condition": "A"}, [{"n": d} for d in docs] + [{"n": [d for d in docs[:4]]}, {}]))
    return out


def sort_comparators():
    out = []
    kinds = {"starts": ["a*", "bb*", "ccc*"], "ends": ["*a", "*bb", "*ccc"], "contains": ["*a*", "*bb*", "*ccc*"], "exact": ["a", "bb", "ccc"],
             "regex": ["?^a", "?bb", "?c+$"], "ci": ["ia*", "i*bb", "i*c*"]}
    docs = [{"f": "a"}, {"g": "bb"}, {"h": "ccc"}, {"f": "xa", "g": "bbx", "h": "xcccx"}, {"f": "A", "g": "BB"}, {"f": "zzz", "g": "zzz", "h": "zzz"},
            {"f": "ccc", "g": "a", "h": "bb"}, {"f": ["a", "zzz"]}, {}]
    for name, ps in kinds.items():
        # three different fields, lengths in descending order so that the sort has work to do
        out.append(({"A": [{"f": ps[2]}, {"g": ps[1]}, {"h": ps[0]}], "condition": "A"}, docs))
        out.append(({"A": {"f": ps[2]}, "B": {"g": ps[1]}, "C": {"h": ps[0]}, "condition": "A or B or C"}, docs))
        out.append(({"A": {"f": ps[2]}, "B": {"g": ps[1]}, "C": {"h": ps[0]}, "condition": "not (A or B or C)"}, docs))
        out.append(({"A": {"f": ps[2]}, "B": {"g": ps[1]}, "C": {"h": ps[0]}, "condition": "of(A, 1) or B or C"}, docs))
    # regex sets and automata on several fields
    out.append(({"A": [{"f": ["?^a", "?a$"]}, {"g": ["?^b", "?b$", "?bb"]}, {"h": ["?c", "?^c"]}], "condition": "A"}, docs))
    out.append(({"A": [{"f": ["i?^a", "i?a$"]}, {"f": ["?^b", "?b$"]}, {"g": ["i?c", "i?^c"]}, {"g": ["?c", "?^d"]}], "condition": "A"}, docs))
    out.append(({"A": [{"f": ["a*", "*b"]}, {"g": ["a*", "*b", "*c*"]}, {"h": ["ia*", "i*b"]}, {"k": ["ia*", "i*b", "ic"]}], "condition": "A"},
                docs + [{"k": "C"}, {"h": "AB"}]))
    out.append(({"A": [{"str(f)": "5*"}, {"str(g)": "55*"}, {"f": "5*"}, {"int(g)": 5}], "condition": "A"},
                docs + [{"f": 5}, {"g": 55}, {"g": 5}, {"f": "5"}]))
    return out


def sort_ties():
    """the SAME pattern (needle, regex, regex set, automaton) on two or three different fields of one
    or-group: every key the sorts of shake_1 look at is tied, so the output order is whatever the
    maps yield -- it must be the same on every call, and the order matters under all()/of()/not"""
    out = []
    docs = [{"cmd": "good"}, {"parent": "good"}, {"cmd": "evil"}, {"parent": "evilx", "cmd": "good"}, {"cmd": "good", "parent": "good", "user": "good"},
            {"user": "evil"}, {}, {"cmd": ["good", "evil"]}, {"cmd": 5, "parent": "evil"}]
    for p in ("?^evil", "i?^EVIL", "evil*", "*evil", "*evil*", "evil", "ievil*", ["?^evil", "?vil$"], ["evil*", "*vil"], ["ievil*", "i*vil"],
              ["?^evil", "evil*"]):
        seq = [{"cmd": p}, {"parent": p}, {"user": p}]
        for cond in ("A", "not A", "all(A)", "not all(A)", "of(A, 2)", "not of(A, 1)", "of(A, 0)"):
            out.append(({"A": seq, "condition": cond}, docs))
        out.append(({"A": {"cmd": p}, "B": {"parent": p}, "C": {"user": p}, "condition": "not (A or B or C)"}, docs))
        out.append(({"A": {"n": {"cmd": p}}, "B": {"m": {"cmd": p}}, "C": {"k": {"cmd": p}}, "condition": "not (A and B and C)"},
                    [{"n": {"cmd": "evil"}}, {"m": {"cmd": "good"}}, {"n": {"cmd": "evil"}, "m": {"cmd": "evil"}, "k": {"cmd": "x"}}, {}]))
    return out


def twin_rows():
    """rows of one or-group (matrix rows, or-operands) that are identical except for ONE attribute of
    one predicate -- its case flag, its cast, its match type, its pattern kind -- so that any
    structural notion of "the same row / the same search" that forgets the attribute merges them"""
    out = []
    docs = [{"cmd": "FOO", "user": "root"}, {"cmd": "foo", "user": "root"}, {"cmd": "xfoo", "user": "root"}, {"cmd": "BAR", "user": "adm"},
            {"cmd": 5, "user": "root"}, {"cmd": "5", "user": "root"}, {"cmd": "foo"}, {"user": "root"}, {}]
    twins = [(["*foo*", "*bar*"], ["i*foo*", "i*bar*"]), (["foo", "bar"], ["ifoo", "ibar"]), (["foo*", "bar*"], ["*foo", "*bar"]),
             (["?foo", "?bar"], ["i?foo", "i?bar"]), ("foo", "ifoo"), ("*foo*", "foo"), ("?^foo", "i?^foo"), (["5*", "6*"], ["i5*", "i6*"])]
    for a, b in twins:
        for first, second in ((a, b), (b, a)):
            rows = [{"cmd": first, "user": "root"}, {"cmd": second, "user": "root"}, {"cmd": "zzz", "user": "adm"}]
            for cond in ("A", "not A", "of(A, 2)", "all(A)"):
                out.append(({"A": rows, "condition": cond}, docs))
            out.append(({"X": {"cmd": first, "user": "root"}, "Y": {"cmd": second, "user": "root"}, "Z": {"cmd": "zzz", "user": "adm"},
                         "condition": "X or Y or Z"}, docs))
            out.append(({"A": [{"n": {"cmd": first, "user": "root"}}, {"n": {"cmd": second, "user": "root"}}], "condition": "A"},
                        [{"n": d} for d in docs[:6]] + [{"n": [docs[0], docs[3]]}, {}]))
    for k1, k2 in (("cmd", "str(cmd)"), ("str(cmd)", "cmd")):
        rows = [{k1: ["5*", "6*"], "user": "root"}, {k2: ["5*", "6*"], "user": "root"}, {"cmd": "zzz", "user": "adm"}]
        out.append(({"A": rows, "condition": "A"}, docs))
        out.append(({"A": rows, "condition": "not A"}, docs))
    return out


def rewrite_patterns():
    """regexes around the `.*` stripping of the rewrite pass: the pattern that IS `.*`, doubled,
    overlapping, escaped, inside groups, in lists and in regex sets built by shake"""
    out = []
    docs = [{"f": "foo"}, {"f": ""}, {"f": "xfoox"}, {"f": ".*"}, {"f": "a.b"}, {"f": 5}, {"f": ["x", "foo"]}, {},
            # `.` does not match a line break and `^` / `$` only the ends of the value: an anchor next to the
            # stripped `.*` must stay
            {"f": "x\nfoo"}, {"f": "foo\nx"}, {"f": "foo\n"}, {"f": "\nfoo"}, {"f": "x\nfoo\ny"}, {"f": "\n"}]
    pats = ["?^.*foo", "?foo.*$", "?^.*foo.*$", "i?^.*FOO", "?^.*foo$", "?^foo.*$", "?.*", "i?.*", "?.*.*", "?.*.*.*", "?.*foo", "?foo.*", "?.*foo.*", "?.*.*foo.*.*", "?..*", "?.*.", "?\\.*", "?.*\\.*", "?(.*)", "?.*|foo",
            "?foo|.*", "?.*?", "?.*?foo", "?.*+", "?.*{2}", "?.*(", "?[.*]", "?.", "?", "i?.*FOO.*", "?.*\\", "?^.*$", "?.*$", "?^.*"]
    for p in pats:
        out.append(({"A": {"f": p}, "condition": "A"}, docs))
        out.append(({"A": {"f": [p, "?bar"]}, "condition": "not A"}, docs))
    out.append(({"A": {"f": "?.*"}, "B": {"f": "?.*foo"}, "C": {"f": "?foo.*"}, "condition": "A or B or C"}, docs))
    out.append(({"A": {"f": ["?.*", "?.*.*", "i?.*"]}, "condition": "all(A) or of(A, 2)"}, docs))
    out.append(({"A": {"all(f)": ["?.*", "?.*foo.*"]}, "condition": "A"}, docs))
    return out


def already_optimised():
    out = []
    docs = [{"f": "foo"}, {"f": "xfoo", "g": "bar"}, {}]
    for flag in (True, False):
        out.append(({"A": {"f": "?.*foo"}, "B": {"g": ["bar", "baz"]}, "condition": "A or B"}, docs, {"optimised": flag}))
        out.append(({"A": [{"f": "a", "g": "b"}, {"f": "c", "g": "d"}], "condition": "not A"}, docs, {"optimised": flag}))
    return out


def loader_errors():
    """rule shapes the loader must reject (and a few it accepts) around keys and sequences"""
    out = []
    docs = [{"f": "a"}, {}]
    for a in ([1, 2], ["x"], [{"f": "a"}, 1], [[{"f": "a"}]], [], {}, {"f": {}}, {"f": []}, {"f": [[]]}, {"f": [["a"]]}, {"f": [{}]},
              {"all(int(f))": ["a"]}, {"all(f)": "a"}, {"of(f, 1)": "a"}, {"all(A)": ["a"]}, {"all(f g)": ["a", "b"]}, {"f g": "a"},
              {"int(f g)": 5}, {"not(f)": ["a", "b"]}, {"not(f)": {"g": "a"}}, {"int(f)": {"g": 5}}, {"str(f)": {"g": "a"}}, {"all(f)": {"g": "a"}},
              {"all(f)": [{"g": "a"}, {"g": "b"}]}, {"of(f, 1)": [{"g": "a"}, "b"]}, {"f": [{"g": "a"}, "b"]}, {"f": ["b", {"g": "a"}]},
              {"int(f)": [5, "foo"]}, {"int(f)": ["foo"]}, {"str(f)": [5, 6]}, {"str(f)": [">=5"]}, {"flt(f)": ["foo", 1.5]}, {"int(f)": [5.5]},
              {"flt(f)": [5]}, {"int(f)": "foo"}, {"flt(f)": "foo"}, {"int(f)": "5"}, {"int(f)": ">=5.5"}, {"flt(f)": ">=5"}, {"f": 1e400},
              {"f": -1e400}, {"int(f)": 18446744073709551615}, {"f": {"g": {"h": {"k": "a"}}}}, {"": "a"}, {" f ": "a"}, {"f.": "a"}, {"(f)": "a"},
              {"f and g": "a"}, {"f == 1": "a"}, {"not f": "a"}, {"1": "a"}, {"1.5": "a"}, {"true": "a"}):
        out.append(({"A": a, "condition": "A"}, docs))
    return out


FAMILIES = [("scalar_casts", scalar_casts), ("list_casts", list_casts), ("cond_casts", cond_casts),
            ("quantified_cast_bodies", quantified_cast_bodies), ("many_needles", many_needles), ("nested_matrix", nested_matrix), ("nested_and_merge", nested_and_merge), ("wide_matrix", wide_matrix),
            ("wide_matrix_quant", wide_matrix_quant), ("matrix_duplicate_fields", matrix_duplicate_fields),
            ("sort_comparators", sort_comparators), ("sort_ties", sort_ties), ("twin_rows", twin_rows), ("rewrite_patterns", rewrite_patterns), ("list_of_blocks", list_of_blocks), ("already_optimised", already_optimised), ("loader_errors", loader_errors)]


def all_cases(skip=()):
    out = []
    for name, fn in FAMILIES:
        if name in skip:
            continue
        for item in fn():
            det, docs = item[0], item[1]
            extra = item[2] if len(item) > 2 else None
            out.append((name, det, docs, extra))
    return out
