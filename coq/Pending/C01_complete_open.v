(* C01 (thirteenth statement file): the executable scope of the end-to-end theorem is COMPLETE
   for loadable rules outside the three listed classes: a rule as loaded that is in none of D13
   (a negation whose operand shakes to a negation), D16 (and-group with a nested block under a
   negation) and D17 (multi-cell matrix row under a negation) for a switch set is inside
   Model/Scope6.v c01_scope_quant_all_f for it.  Together with the soundness theorem
   (Properties/C01_final.v) this is the property itself outside the known findings: for every
   loadable rule outside the three classes, every switch set, every document, the optimised rule
   gives the verdict of the rule as loaded.  Only statements here; proofs live in
   Proofs/C01_complete.v. *)
From Coq Require Import Permutation.
From TauModel Require Import Base Num Oracles Syntax Value Yaml Pratt ParseMap Solver Rule Keys Optimiser Known.
From TauModel Require Scope Scope2 Scope4 Scope5 Scope6 Order.
From TauProofs Require C01 C01_complete_open.

Theorem scope_complete : forall o ic ord sw y r,
  (forall l, Permutation (ord l) l) ->
  C01.H_strip o ->
  load_rule o ic y = Ok r -> r_optimised r = false ->
  known_d13 sw (r_det r) = false ->
  known_d16 ord sw (r_det r) = false ->
  known_d17 o ord sw (r_det r) = false ->
  Scope6.c01_scope_quant_all_f o ord sw (r_det r) = true.
Proof. exact C01_complete_open.scope_complete. Qed.
Check scope_complete.
Print Assumptions scope_complete.
