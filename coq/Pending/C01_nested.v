(* C01 (fifth statement file): the merging pass shake_1 on trees WITH nested blocks.
   Only statements here; proofs live in Proofs/C01_nested.v.

   With nested blocks shake_1 is not exact: an and-group's nested blocks are merged per field
   into `nested(f, all(or[..]))` and moved behind the other members (false/missing can be
   exchanged: D16 under a negation), an or-group's into `nested(f, or[..])`; a block that is an
   all()-list changes its meaning over arrays when merged (D29).  Claim: outside D29, and when no
   and-group with a nested member sits in a negative position (the D16 shape), TRUTH is preserved:
   the shaken tree is true exactly when the original is -- for every document (objects, arrays of
   objects, scalars), every permutation order. *)
From Coq Require Import Permutation.
From TauModel Require Import Base Num Oracles Syntax Value Yaml Pratt ParseMap Solver Rule Keys Optimiser Known.
From TauModel Require Scope.
From TauProofs Require C01 C01_nested.

(* shake_1 alone *)
Theorem shake1_truth_nested : forall o ord e (d : doc),
  (forall l, Permutation (ord l) l) ->
  wf_body e = true -> C01.cmp_leaves e = true ->
  exists_sub (d16_here ord) false e = false ->
  exists_sub (d29_here ord) false e = false ->
  (solve_body o (shake1 ord (shake_fuel e) e) (pure_doc d) = Ok T <-> solve_body o e (pure_doc d) = Ok T).
Proof. exact C01_nested.shake1_truth_nested. Qed.
Check shake1_truth_nested.
Print Assumptions shake1_truth_nested.

(* whole rules, the eight switch sets without matrix: like Scope.c01_scope but nested blocks are
   allowed outside D16 / D29 *)
Definition shake_input_ok2 (ord : hord) (sw : switches) (dt : detection) : bool :=
  forallb (fun t => Scope.sh0 t && Scope.no_dneg t && Scope.shx t) (all_trees (staged sw dt)) &&
  negb (known_d16 ord sw dt) && negb (known_d29 ord sw dt).
Definition c01_scope2 (ord : hord) (sw : switches) (dt : detection) : bool :=
  negb (sw_matrix sw) &&
  (sw_coalesce sw || Scope.no_quant_ident (d_expr dt)) &&
  (negb (sw_shake sw) || shake_input_ok2 ord sw dt).

Theorem scope2_sound : forall o ic ord sw y r (d : doc),
  (forall l, Permutation (ord l) l) ->
  C01.H_strip o ->
  load_rule o ic y = Ok r -> r_optimised r = false ->
  c01_scope2 ord sw (r_det r) = true ->
  exists r', optimise o ord sw r = Ok r' /\ matches o r' d = matches o r d.
Proof. exact C01_nested.scope2_sound. Qed.
Check scope2_sound.
Print Assumptions scope2_sound.

(* non-vacuity: two identifiers nesting the same field, joined by `and`, are merged *)
Example nested_merge_example :
  let n := [110%N] in let f := [102%N] in let g := [103%N] in
  let e := EGroup BAnd [ENested n (ESearch (SExact [97%N]) f false); ENested n (ESearch (SExact [98%N]) g false);
                        ESearch (SExact [99%N]) f false] in
  wf_body e = true /\
  exists_sub (d16_here (fun k => k)) false e = false /\ exists_sub (d29_here (fun k => k)) false e = false /\
  shake1 (fun k => k) (shake_fuel e) e =
    EGroup BAnd [ESearch (SExact [99%N]) f false;
                 ENested n (EMatch MAll (EGroup BOr [ESearch (SExact [97%N]) f false; ESearch (SExact [98%N]) g false]))].
Proof. exact C01_nested.nested_merge_example. Qed.
Check nested_merge_example.
