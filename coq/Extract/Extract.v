(* Extraction of the executable model to OCaml.  Only the directives of ExtrOcamlBasic
   are used (bool, option, unit, list, prod, sumbool, sumor; andb/orb inlined): numbers
   (positive, N, Z) and Flocq floats stay Coq datatypes. *)
Require Import ExtrOcamlBasic.
From TauModel Require Import Base Num Oracles Value Syntax Generated Token Pratt Ident Yaml
     ParseMap Solver Rule Optimiser Known Spec Scope Scope2 Scope4 Scope5 Scope6 Scope3 Order.

Extraction "../runner/model.ml"
  tokenise parse into_identifier parse_identifier load_rule load_detection solve_rule3
  solve_cond solve_body pure_doc matches validate obj_find yaml_as_value example_doc
  sem_rule spec_known spec_known_all known_classes known_d10 known_d24 c01_scope c01_scope_all c01_scope_nested c01_scope_nested_all c01_scope_quant_all c01_scope_quant_all_noq c01_scope_wide sh0 no_dneg shx all_trees staged known_d16 known_d17 run_safe pre_matrix cmp_reads match_safe no_match body_neg entry_trees sw_without_matrix rust_ord optimise optimise_detection shake rewrite coalesce matrix shake_fuel
  show_Z show_N binding_power keywords
  Z.add Z.mul Z.opp Z.of_N Z.to_N N.of_nat N.to_nat Z.ltb Z.eqb N.add N.mul.
