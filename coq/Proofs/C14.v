(* C14  Rule serialisation round-trips: proofs. *)
From TauModel Require Import Base Num Oracles Syntax Token Pratt Value Yaml ParseMap Solver Rule Serial
     Optimiser.
From TauProofs Require Import C16.
From Coq Require Import Lia ZArith List Bool Permutation.
Import ListNotations.

(* ====================================================================== *)
(*                          strings and lookups                            *)
(* ====================================================================== *)

Lemma str_eqb_eq : forall a b, str_eqb a b = true -> a = b.
Proof.
  induction a as [|x a IH]; intros [|y b] H; cbn [str_eqb] in H; try discriminate.
  - reflexivity.
  - apply andb_true_iff in H. destruct H as [Hx Hs].
    apply N.eqb_eq in Hx. rewrite Hx, (IH b Hs). reflexivity.
Qed.

Lemma str_eqb_neq : forall a b, a <> b -> str_eqb a b = false.
Proof.
  intros a b Hne. destruct (str_eqb a b) eqn:E; [|reflexivity].
  exfalso. apply Hne. apply str_eqb_eq. exact E.
Qed.

Lemma lookup_notin : forall A i (l : list (str * A)),
  ~ In i (map fst l) -> lookup i l = None.
Proof.
  intros A i l. induction l as [|[k v] l IH]; intros Hn; [reflexivity|].
  cbn [lookup]. cbn [map fst In] in Hn.
  rewrite str_eqb_neq.
  - apply IH. intros Hin. apply Hn. right; exact Hin.
  - intros ->. apply Hn. left; reflexivity.
Qed.

(* permuting an association list with distinct keys does not change it as a map *)
Lemma lookup_perm : forall A (l l' : list (str * A)),
  Permutation l l' -> NoDup (map fst l) -> forall i, lookup i l' = lookup i l.
Proof.
  intros A l l' Hp. induction Hp as [| [k v] l l' Hp IH | [k1 v1] [k2 v2] l | l l' l'' Hp1 IH1 Hp2 IH2];
    intros Hnd i.
  - reflexivity.
  - cbn [lookup]. cbn [map fst] in Hnd. inversion Hnd as [|k0 l0 Hnotin Hnd']; subst.
    rewrite (IH Hnd' i). reflexivity.
  - cbn [lookup]. cbn [map fst] in Hnd.
    inversion Hnd as [|k0 l0 Hnotin Hnd']; subst.
    destruct (str_eqb i k1) eqn:E1; destruct (str_eqb i k2) eqn:E2; try reflexivity.
    apply str_eqb_eq in E1. apply str_eqb_eq in E2. subst.
    exfalso. apply Hnotin. left; reflexivity.
  - rewrite IH2.
    + apply IH1. exact Hnd.
    + apply (Permutation_NoDup (Permutation_map fst Hp1)). exact Hnd.
Qed.

(* ====================================================================== *)
(*                      mapM and permutations                              *)
(* ====================================================================== *)

Lemma mapM_perm : forall A B (f : A -> out B) (l l' : list A),
  Permutation l l' -> forall r, mapM f l = Ok r ->
  exists r', mapM f l' = Ok r' /\ Permutation r r'.
Proof.
  intros A B f l l' Hp.
  induction Hp as [| x l l' Hp IH | x y l | l l' l'' Hp1 IH1 Hp2 IH2]; intros r Hr.
  - exists r. split; [exact Hr|apply Permutation_refl].
  - cbn [mapM] in Hr |- *. destruct (f x) as [b|k|s]; try discriminate.
    destruct (mapM f l) as [bs|k|s]; try discriminate.
    inversion Hr; subst r.
    destruct (IH bs eq_refl) as [bs' [E P]]. rewrite E.
    exists (b :: bs'). split; [reflexivity|]. apply perm_skip. exact P.
  - cbn [mapM] in Hr |- *.
    destruct (f y) as [b|k|s]; try discriminate.
    destruct (f x) as [a|k|s]; try discriminate.
    destruct (mapM f l) as [bs|k|s]; try discriminate.
    inversion Hr; subst r.
    exists (a :: b :: bs). split; [reflexivity|]. apply perm_swap.
  - destruct (IH1 r Hr) as [r1 [E1 P1]].
    destruct (IH2 r1 E1) as [r2 [E2 P2]].
    exists r2. split; [exact E2|]. eapply Permutation_trans; eassumption.
Qed.

(* ====================================================================== *)
(*                 load_entries on plain-keyed entries                     *)
(* ====================================================================== *)

Section Load.
Variable o : oracles.
Variable ic : bool.

(* how one raw identifier entry is loaded *)
Definition load_one (kv : str * yaml) : out (str * expr) :=
  do e <- as_rule_err (parse_identifier o ic (snd kv)); Ok (fst kv, e).

Lemma load_one_fst : forall raw l, mapM load_one raw = Ok l -> map fst l = map fst raw.
Proof.
  induction raw as [|[k v] raw IH]; intros l H; cbn [mapM] in H.
  - inversion H; reflexivity.
  - unfold load_one at 1 in H. cbn [fst snd] in H.
    destruct (as_rule_err (parse_identifier o ic v)) as [e|k0|s]; cbn [bind] in H;
      try discriminate.
    destruct (mapM load_one raw) as [es|k0|s]; try discriminate.
    inversion H; subst l. cbn [map fst]. rewrite (IH es eq_refl). reflexivity.
Qed.

Lemma load_entries_raw : forall kv c raw cond0 ids0,
  raw_parts kv = Some (c, raw) ->
  load_entries o ic kv cond0 ids0 =
  match mapM load_one raw with
  | Ok l => Ok (match c with Some s => Some s | None => cond0 end, ids0 ++ l)
  | Err k => Err k
  | Panic s => Panic s
  end.
Proof.
  induction kv as [|[k v] kv IH]; intros c raw cond0 ids0 H.
  - cbn [raw_parts] in H. inversion H; subst. cbn [mapM load_entries].
    rewrite app_nil_r. reflexivity.
  - cbn [raw_parts] in H. destruct k; try discriminate.
    destruct (raw_parts kv) as [[c' ids']|] eqn:Hrest; [|discriminate].
    cbn [load_entries untag].
    destruct (str_eqb s cond_key) eqn:Hk.
    + destruct v; try discriminate. destruct c'; try discriminate.
      inversion H; subst. cbn [untag].
      rewrite (IH None raw (Some s0) ids0 eq_refl). reflexivity.
    + inversion H; subst. cbn [mapM]. unfold load_one at 1. cbn [fst snd].
      destruct (as_rule_err (parse_identifier o ic v)) as [e|k0|s1]; cbn [bind];
        try reflexivity.
      rewrite (IH c ids' cond0 (ids0 ++ [(s, e)]) eq_refl).
      destruct (mapM load_one ids') as [es|k0|s1]; try reflexivity.
      rewrite <- app_assoc. reflexivity.
Qed.

Lemma raw_parts_ser : forall raw,
  ~ In cond_key (map fst raw) ->
  raw_parts (map (fun kv : str * yaml => (YStr (fst kv), snd kv)) raw) = Some (None, raw).
Proof.
  induction raw as [|[k v] raw IH]; intros Hn; [reflexivity|].
  cbn [map fst snd raw_parts]. cbn [map fst In] in Hn.
  rewrite IH by (intros Hin; apply Hn; right; exact Hin).
  rewrite str_eqb_neq; [reflexivity|].
  intros ->. apply Hn. left; reflexivity.
Qed.

Lemma raw_parts_ser_detection : forall cond raw,
  ~ In cond_key (map fst raw) ->
  raw_parts ((YStr cond_key, YStr cond)
             :: map (fun kv : str * yaml => (YStr (fst kv), snd kv)) raw)
  = Some (Some cond, raw).
Proof.
  intros cond raw Hn. cbn [raw_parts]. rewrite (raw_parts_ser raw Hn).
  rewrite str_eqb_refl. reflexivity.
Qed.

(* the identifier check looks at the table only through lookups *)
Lemma idents_known_lookup : forall (ids ids' : list (str * expr)),
  (forall i, lookup i ids' = lookup i ids) ->
  forall ts p2 p1, idents_known ids' p2 p1 ts = idents_known ids p2 p1 ts.
Proof.
  intros ids ids' H. induction ts as [|t ts IH]; intros p2 p1; [reflexivity|].
  cbn [idents_known]. rewrite IH. f_equal.
  destruct (match p2 with Some t2 => is_tmod t2 | None => false end); [reflexivity|].
  destruct t; try reflexivity. unfold has_key. rewrite H. reflexivity.
Qed.

Definition names_distinct (raw : list (str * yaml)) : Prop :=
  NoDup (map fst raw) /\ ~ In cond_key (map fst raw).

Lemma detection_roundtrip_aux : forall dkv cond raw raw' dt,
  raw_parts dkv = Some (Some cond, raw) ->
  names_distinct raw ->
  Permutation raw raw' ->
  load_detection o ic (YMap dkv) = Ok dt ->
  exists dt', load_detection o ic (ser_detection cond raw') = Ok dt' /\
              d_expr dt' = d_expr dt /\
              (forall i, lookup i (d_ids dt') = lookup i (d_ids dt)).
Proof.
  intros dkv cond raw raw' dt Hraw [Hnd Hnc] Hperm Hload.
  unfold load_detection in Hload. cbn [untag] in Hload.
  rewrite (load_entries_raw dkv (Some cond) raw None [] Hraw) in Hload.
  destruct (mapM load_one raw) as [l|k|s] eqn:Hm; cbn [bind] in Hload; try discriminate.
  cbn [app] in Hload.
  destruct (mapM_perm _ _ load_one raw raw' Hperm l Hm) as [l' [Hm' Pl]].
  assert (Hndl : NoDup (map fst l)) by (rewrite (load_one_fst raw l Hm); exact Hnd).
  assert (Hlk : forall i, lookup i l' = lookup i l) by (apply lookup_perm; assumption).
  assert (Hnc' : ~ In cond_key (map fst raw')).
  { intros Hin. apply Hnc.
    apply (Permutation_in _ (Permutation_sym (Permutation_map fst Hperm))). exact Hin. }
  destruct (as_rule_err (tokenise o cond)) as [ts|k|s] eqn:Htok; cbn [bind] in Hload;
    try discriminate.
  destruct (negb (idents_known l None None ts)) eqn:Hik; [discriminate|].
  destruct (as_rule_err (parse ts)) as [e|k|s] eqn:Hparse; cbn [bind] in Hload;
    try discriminate.
  destruct (is_solvable e) eqn:Hsolv; [|discriminate].
  inversion Hload; subst dt. cbn [d_expr d_ids].
  exists {| d_expr := e; d_ids := l' |}. split; [|split].
  - unfold load_detection, ser_detection. cbn [untag].
    rewrite (load_entries_raw _ (Some cond) raw' None [] (raw_parts_ser_detection cond raw' Hnc')).
    rewrite Hm'. cbn [bind app]. rewrite Htok. cbn [bind].
    rewrite (idents_known_lookup l l' Hlk). rewrite Hik.
    rewrite Hparse. cbn [bind]. rewrite Hsolv. reflexivity.
  - reflexivity.
  - exact Hlk.
Qed.

End Load.

(* ====================================================================== *)
(*                    solve depends on ids as a map                        *)
(* ====================================================================== *)

Lemma size_in_list : forall x l, In x l ->
  (expr_size x <= fold_right (fun x n => (expr_size x + n)%nat) 0%nat l)%nat.
Proof.
  intros x l. induction l as [|y l IH]; intros H; [contradiction|].
  cbn [fold_right]. destruct H as [->|H]; [lia|]. specialize (IH H). lia.
Qed.

Definition cell_size (c : option expr) : nat :=
  match c with Some x => expr_size x | None => 1%nat end.

Lemma size_in_row : forall c row, In (Some c) row ->
  (expr_size c <= fold_right (fun c m => (cell_size c + m)%nat) 0%nat row)%nat.
Proof.
  intros c row. induction row as [|y row IH]; intros H; [contradiction|].
  cbn [fold_right]. destruct H as [->|H]; [cbn [cell_size]; lia|]. specialize (IH H). lia.
Qed.

Lemma size_in_rows : forall c row rows, In row rows -> In (Some c) row ->
  (expr_size c <=
   fold_right (fun row n => (fold_right (fun c m => (cell_size c + m)%nat) 0%nat row + n)%nat)
              0%nat rows)%nat.
Proof.
  intros c row rows. induction rows as [|r rows IH]; intros Hr Hc; [contradiction|].
  cbn [fold_right]. destruct Hr as [->|Hr].
  - pose proof (size_in_row c row Hc). lia.
  - specialize (IH Hr Hc). lia.
Qed.

Lemma size_in_group : forall s x l, In x l -> (expr_size x < expr_size (EGroup s l))%nat.
Proof.
  intros s x l H. pose proof (size_in_list x l H) as Hs.
  change (expr_size (EGroup s l))
    with (S (fold_right (fun x n => (expr_size x + n)%nat) 0%nat l)). lia.
Qed.

Lemma size_in_matrix : forall cols c row rows, In row rows -> In (Some c) row ->
  (expr_size c < expr_size (EMatrix cols rows))%nat.
Proof.
  intros cols c row rows Hr Hc. pose proof (size_in_rows c row rows Hr Hc) as Hs.
  change (expr_size (EMatrix cols rows))
    with (S (fold_right (fun row n =>
               (fold_right (fun c m => (cell_size c + m)%nat) 0%nat row + n)%nat) 0%nat rows)).
  lia.
Qed.

Lemma size_bexp : forall l s r, expr_size (EBexp l s r) = S (expr_size l + expr_size r).
Proof. reflexivity. Qed.
Lemma size_match : forall k e, expr_size (EMatch k e) = S (expr_size e).
Proof. reflexivity. Qed.
Lemma size_negate : forall e, expr_size (ENegate e) = S (expr_size e).
Proof. reflexivity. Qed.
Lemma size_nested : forall f e, expr_size (ENested f e) = S (expr_size e).
Proof. reflexivity. Qed.

Ltac size_tac Hn :=
  repeat first [ rewrite size_bexp in Hn | rewrite size_match in Hn
               | rewrite size_negate in Hn | rewrite size_nested in Hn ];
  lia.

(* ---- congruence in the cell functions ---- *)
Section Cells.
Variables slv slv' : expr -> docq -> out res3.

Definition cellsf (s : expr -> docq -> out res3) (row : list (option expr))
  : list (option cellfn) := map (option_map (fun cell d' => s cell d')) row.

Definition row_agree (row : list (option expr)) : Prop :=
  forall c, In (Some c) row -> forall d, slv c d = slv' c d.

Lemma row_cells_cells_ext : forall row, row_agree row ->
  forall d cols i cache,
  row_cells d cols i (cellsf slv row) cache = row_cells d cols i (cellsf slv' row) cache.
Proof.
  induction row as [|c row IH]; intros H d cols i cache; [reflexivity|].
  assert (Hrow : row_agree row) by (intros x Hx; apply H; right; exact Hx).
  unfold cellsf. cbn [map]. fold (cellsf slv row). fold (cellsf slv' row).
  destruct c as [c|]; cbn [option_map row_cells]; [|apply IH; exact Hrow].
  destruct (nth_error cache i) as [slot|]; [|reflexivity].
  apply bind_ext. intros [cache'|]; [|reflexivity].
  rewrite (H c (or_introl eq_refl)). apply bind_ext. intros []; try reflexivity.
  apply IH; exact Hrow.
Qed.

Definition rows_agree (rows : list (list (option expr))) : Prop :=
  forall row, In row rows -> row_agree row.

Lemma rows_agree_tl : forall row rows, rows_agree (row :: rows) -> rows_agree rows.
Proof. intros row rows H r Hr. apply H. right; exact Hr. Qed.

Lemma matrix_or_cells_ext : forall rows, rows_agree rows ->
  forall d cols cache acc,
  matrix_or d cols (map (cellsf slv) rows) cache acc
  = matrix_or d cols (map (cellsf slv') rows) cache acc.
Proof.
  induction rows as [|row rows IH]; intros H d cols cache acc; [reflexivity|].
  cbn [map matrix_or].
  rewrite (row_cells_cells_ext row (H row (or_introl eq_refl))).
  apply bind_ext. intros [hit cache']. pose proof (rows_agree_tl _ _ H) as Ht.
  destruct hit; auto.
Qed.

Lemma matrix_all_cells_ext : forall rows, rows_agree rows ->
  forall d cols cache,
  matrix_all d cols (map (cellsf slv) rows) cache
  = matrix_all d cols (map (cellsf slv') rows) cache.
Proof.
  induction rows as [|row rows IH]; intros H d cols cache; [reflexivity|].
  cbn [map matrix_all].
  rewrite (row_cells_cells_ext row (H row (or_introl eq_refl))).
  apply bind_ext. intros [hit cache']. pose proof (rows_agree_tl _ _ H) as Ht.
  destruct hit; auto.
Qed.

Lemma matrix_of_cells_ext : forall rows, rows_agree rows ->
  forall d cols cache c hits acc,
  matrix_of d cols (map (cellsf slv) rows) cache c hits acc
  = matrix_of d cols (map (cellsf slv') rows) cache c hits acc.
Proof.
  induction rows as [|row rows IH]; intros H d cols cache c hits acc; [reflexivity|].
  cbn [map matrix_of].
  rewrite (row_cells_cells_ext row (H row (or_introl eq_refl))).
  apply bind_ext. intros [hit cache']. pose proof (rows_agree_tl _ _ H) as Ht.
  destruct hit; auto. destruct (c <=? hits + 1)%Z; auto.
Qed.

Lemma pass_cells_cells_ext : forall row, row_agree row ->
  forall cols v i,
  pass_cells cols v i (cellsf slv row) = pass_cells cols v i (cellsf slv' row).
Proof.
  induction row as [|c row IH]; intros H cols v i; [reflexivity|].
  assert (Hrow : row_agree row) by (intros x Hx; apply H; right; exact Hx).
  unfold cellsf. cbn [map]. fold (cellsf slv row). fold (cellsf slv' row).
  destruct c as [c|]; cbn [option_map pass_cells]; [|apply IH; exact Hrow].
  destruct v; try (apply IH; exact Hrow).
  destruct (nth_error cols i) as [col|]; [|reflexivity].
  rewrite (H c (or_introl eq_refl)). apply bind_ext. intros []; try reflexivity.
  apply IH; exact Hrow.
Qed.

Lemma pass_row_any_cells_ext : forall row, row_agree row ->
  forall cols elems,
  pass_row_any cols (cellsf slv row) elems = pass_row_any cols (cellsf slv' row) elems.
Proof.
  intros row H cols. induction elems as [|v elems IH]; [reflexivity|].
  cbn [pass_row_any]. rewrite (pass_cells_cells_ext row H).
  apply bind_ext. intros []; auto.
Qed.

End Cells.

Lemma some_object_ext : forall (f g : cellfn), (forall d, f d = g d) ->
  forall objs acc, some_object f objs acc = some_object g objs acc.
Proof.
  intros f g H. induction objs as [|kv objs IH]; intros acc; [reflexivity|].
  cbn [some_object]. rewrite H. apply bind_ext. intros []; auto.
Qed.

Lemma any_true_ext : forall (f g : docq -> out res3), (forall d, f d = g d) ->
  forall objs,
  (fix any_true (objs : list (list (str * value))) : out res3 :=
     match objs with
     | [] => Ok F
     | kv :: rest =>
         do r <- f (obj_doc kv);
         match r with T => Ok T | _ => any_true rest end
     end) objs
  =
  (fix any_true (objs : list (list (str * value))) : out res3 :=
     match objs with
     | [] => Ok F
     | kv :: rest =>
         do r <- g (obj_doc kv);
         match r with T => Ok T | _ => any_true rest end
     end) objs.
Proof.
  intros f g H. induction objs as [|kv objs IH]; [reflexivity|].
  rewrite H. apply bind_ext. intros []; auto.
Qed.

Section IdsAsMap.
Variable o : oracles.
Variables ids ids' : list (str * expr).
Variable body : expr -> docq -> out res3.
Hypothesis Hlk : forall i, lookup i ids' = lookup i ids.

Lemma solve_ids_ext_n : forall n e, (expr_size e < n)%nat ->
  forall d, solve o ids' body e d = solve o ids body e d.
Proof.
  induction n as [|n IH]; intros e Hn d; [lia|].
  destruct e as [s l | l s r | b | f m | f | fl | i | z | k e | cols rows | e | f e | | s f c].
  - (* EGroup *)
    assert (Hm : forall x, In x l -> solve o ids' body x d = solve o ids body x d).
    { intros x Hx. apply IH. pose proof (size_in_group s x l Hx). lia. }
    destruct s; try reflexivity.
    + exact (and_fold_map_ext _ (fun x => solve o ids' body x d)
                              (fun x => solve o ids body x d) l Hm).
    + exact (or_fold_map_ext _ (fun x => solve o ids' body x d)
                             (fun x => solve o ids body x d) l M Hm).
  - (* EBexp *)
    assert (IHl : solve o ids' body l d = solve o ids body l d) by (apply IH; size_tac Hn).
    assert (IHr : solve o ids' body r d = solve o ids body r d) by (apply IH; size_tac Hn).
    destruct s; try reflexivity.
    + change (and2 (fun _ => solve o ids' body l d) (fun _ => solve o ids' body r d)
              = and2 (fun _ => solve o ids body l d) (fun _ => solve o ids body r d)).
      rewrite IHl, IHr. reflexivity.
    + change (or2 (fun _ => solve o ids' body l d) (fun _ => solve o ids' body r d)
              = or2 (fun _ => solve o ids body l d) (fun _ => solve o ids body r d)).
      rewrite IHl, IHr. reflexivity.
  - reflexivity.
  - reflexivity.
  - reflexivity.
  - reflexivity.
  - (* EIdent *) cbn [solve]. rewrite Hlk. reflexivity.
  - reflexivity.
  - (* EMatch *)
    assert (IHe : solve o ids' body e d = solve o ids body e d)
      by (apply IH; size_tac Hn).
    assert (Hmem : forall s l, e = EGroup s l ->
                   forall x, In x l -> solve o ids' body x d = solve o ids body x d).
    { intros s l -> x Hx. apply IH. pose proof (size_in_group s x l Hx). size_tac Hn. }
    assert (Hrows : forall cols rows, e = EMatrix cols rows ->
                    rows_agree (solve o ids' body) (solve o ids body) rows).
    { intros cols rows -> row Hrow c Hc d0. apply IH.
      pose proof (size_in_matrix cols c row rows Hrow Hc). size_tac Hn. }
    destruct k as [|c].
    + (* all *)
      destruct e as [s l | l s r | b | f m | f | fl | i | z | k e | cols rows | e | f e | | s f cst];
        try exact IHe.
      * exact (and_fold_map_ext _ (fun x => solve o ids' body x d)
                 (fun x => solve o ids body x d) l (Hmem _ _ eq_refl)).
      * cbn [solve]. rewrite Hlk. reflexivity.
      * cbn [solve].
        exact (matrix_all_cells_ext (solve o ids' body) (solve o ids body) rows
                 (Hrows _ _ eq_refl) d cols (empty_cache cols)).
      * destruct s; reflexivity.
    + (* of *)
      cbn [solve]. rewrite IHe.
      destruct e as [s l | l s r | b | f m | f | fl | i | z | k e | cols rows | e | f e | | s f cst];
        try reflexivity.
      * exact (of_fold_map_ext _ (fun x => solve o ids' body x d)
                 (fun x => solve o ids body x d) l c (Hmem _ _ eq_refl)).
      * rewrite Hlk. reflexivity.
      * destruct (c =? 0)%Z; [reflexivity|].
        exact (matrix_of_cells_ext (solve o ids' body) (solve o ids body) rows
                 (Hrows _ _ eq_refl) d cols (empty_cache cols) c 0%Z M).
  - (* EMatrix *)
    cbn [solve].
    apply (matrix_or_cells_ext (solve o ids' body) (solve o ids body) rows).
    intros row Hrow c Hc d0. apply IH.
    pose proof (size_in_matrix cols c row rows Hrow Hc). lia.
  - (* ENegate *)
    cbn [solve]. rewrite (IH e) by (size_tac Hn). reflexivity.
  - (* ENested *)
    assert (IHe : forall d0, solve o ids' body e d0 = solve o ids body e d0)
      by (intros d0; apply IH; size_tac Hn).
    cbn [solve]. apply bind_ext. intros [v|]; [|reflexivity].
    destruct v as [| | | | | |a|kv]; try reflexivity; [|apply IHe].
    pose proof (any_true_ext (fun d' => solve o ids' body e d') (fun d' => solve o ids body e d')
                             IHe (objects_of a)) as Hgen.
    cbv beta in Hgen.
    destruct e as [s l | l s r | b | f1 m | f1 | fl | i | z | k e | cols rows | e | f1 e | | s f1 cst];
      try exact Hgen.
    destruct k as [|c]; [|exact Hgen].
    destruct e as [s l | l s r | b | f1 m | f1 | fl | i | z | k e | cols rows | e | f1 e | | s f1 cst];
      try exact Hgen.
    + (* all(or-group) *)
      destruct s; try exact Hgen.
      refine (and_fold_map_ext _
                (fun m => some_object (fun d' => solve o ids' body m d') (objects_of a) M)
                (fun m => some_object (fun d' => solve o ids body m d') (objects_of a) M) l _).
      intros x Hx. apply some_object_ext. intros d0. apply IH.
      pose proof (size_in_group BOr x l Hx). size_tac Hn.
    + (* all(matrix) *)
      refine (and_fold_map_ext _
                (fun row => pass_row_any cols (cellsf (solve o ids' body) row) a)
                (fun row => pass_row_any cols (cellsf (solve o ids body) row) a) rows _).
      intros row Hrow. apply pass_row_any_cells_ext.
      intros c Hc d0. apply IH.
      pose proof (size_in_matrix cols c row rows Hrow Hc). size_tac Hn.
  - reflexivity.
  - reflexivity.
Qed.

Lemma solve_ids_ext : forall e d, solve o ids' body e d = solve o ids body e d.
Proof. intros e d. apply (solve_ids_ext_n (S (expr_size e))). lia. Qed.

End IdsAsMap.

(* ====================================================================== *)
(*                              the theorems                               *)
(* ====================================================================== *)

Lemma detection_roundtrip : forall o ic dkv cond raw raw' dt,
  raw_parts dkv = Some (Some cond, raw) ->
  names_distinct raw ->
  Permutation raw raw' ->
  load_detection o ic (YMap dkv) = Ok dt ->
  exists dt', load_detection o ic (ser_detection cond raw') = Ok dt' /\
              d_expr dt' = d_expr dt /\
              (forall i, lookup i (d_ids dt') = lookup i (d_ids dt)).
Proof. exact detection_roundtrip_aux. Qed.

Lemma ids_as_map : forall o ids ids' e d,
  (forall i, lookup i ids' = lookup i ids) ->
  solve_cond o ids' e d = solve_cond o ids e d.
Proof.
  intros o ids ids' e d H. unfold solve_cond. apply solve_ids_ext. exact H.
Qed.

Lemma rule_roundtrip : forall o ic kv dkv cond raw raw' r opt (d : doc),
  ylookup key_detection kv = Some (YMap dkv) ->
  raw_parts dkv = Some (Some cond, raw) ->
  names_distinct raw -> Permutation raw raw' ->
  load_rule o ic (YMap kv) = Ok r ->
  exists r', load_rule o ic (ser_rule opt cond raw' (r_tp r) (r_tn r)) = Ok r' /\
             r_optimised r' = opt /\ r_tp r' = r_tp r /\ r_tn r' = r_tn r /\
             matches o r' d = matches o r d.
Proof.
  intros o ic kv dkv cond raw raw' r opt d Hdet Hraw Hnames Hperm Hload.
  unfold load_rule in Hload. cbn [untag] in Hload. rewrite Hdet in Hload.
  destruct (match option_map untag (ylookup key_optimised kv) with
            | None => Ok false
            | Some (YBool b) => Ok b
            | Some _ => Err ERule
            end) as [ob|k|s]; cbn [bind] in Hload; try discriminate.
  destruct (load_detection o ic (YMap dkv)) as [dt|k|s] eqn:Hld; cbn [bind] in Hload;
    try discriminate.
  destruct (match option_map untag (ylookup key_tp kv) with
            | Some (YSeq l) => Ok l | Some YNull => Ok [] | _ => Err ERule end) as [tp|k|s];
    cbn [bind] in Hload; try discriminate.
  destruct (match option_map untag (ylookup key_tn kv) with
            | Some (YSeq l) => Ok l | Some YNull => Ok [] | _ => Err ERule end) as [tn|k|s];
    cbn [bind] in Hload; try discriminate.
  inversion Hload; subst r. cbn [r_tp r_tn].
  destruct (detection_roundtrip o ic dkv cond raw raw' dt Hraw Hnames Hperm Hld)
    as [dt' [Hld' [Hexpr Hids]]].
  exists {| r_optimised := opt; r_det := dt'; r_tp := tp; r_tn := tn |}.
  split; [|split; [|split; [|split]]]; try reflexivity.
  - unfold load_rule, ser_rule. cbn [untag].
    assert (E1 : ylookup key_optimised
                   [(YStr key_optimised, YBool opt);
                    (YStr key_detection, ser_detection cond raw');
                    (YStr key_tp, YSeq tp); (YStr key_tn, YSeq tn)] = Some (YBool opt))
      by reflexivity.
    assert (E2 : ylookup key_detection
                   [(YStr key_optimised, YBool opt);
                    (YStr key_detection, ser_detection cond raw');
                    (YStr key_tp, YSeq tp); (YStr key_tn, YSeq tn)]
                 = Some (ser_detection cond raw')) by reflexivity.
    assert (E3 : ylookup key_tp
                   [(YStr key_optimised, YBool opt);
                    (YStr key_detection, ser_detection cond raw');
                    (YStr key_tp, YSeq tp); (YStr key_tn, YSeq tn)] = Some (YSeq tp))
      by reflexivity.
    assert (E4 : ylookup key_tn
                   [(YStr key_optimised, YBool opt);
                    (YStr key_detection, ser_detection cond raw');
                    (YStr key_tp, YSeq tp); (YStr key_tn, YSeq tn)] = Some (YSeq tn))
      by reflexivity.
    rewrite E1, E2, E3, E4. cbn [option_map untag bind]. rewrite Hld'. reflexivity.
  - unfold matches, solve_rule3. cbn [r_det]. rewrite Hexpr.
    rewrite (ids_as_map o (d_ids dt) (d_ids dt') (d_expr dt) (pure_doc d) Hids).
    reflexivity.
Qed.

Lemma roundtrip_example :
  let dkv := [(YStr [66%N], YMap [(YStr [103%N], YStr [121%N])]);
              (YStr cond_key, YStr [65; 32; 97; 110; 100; 32; 66]%N);
              (YStr [65%N], YMap [(YStr [102%N], YStr [120%N])])] in
  raw_parts dkv = Some (Some [65; 32; 97; 110; 100; 32; 66]%N,
                        [([66%N], YMap [(YStr [103%N], YStr [121%N])]); ([65%N], YMap [(YStr [102%N], YStr [120%N])])]).
Proof. vm_compute. reflexivity. Qed.
