(* C07: the pattern dispatch chain regenerated from src/identifier.rs (Model/GeneratedIdent.v),
   read as Rust's if / else-if (Model/IdentTable.v), is Ident.into_identifier. *)
From Coq Require Import ZArith Bool List.
From TauModel Require Import Base Num Oracles Syntax Ident IdentTable GeneratedIdent.

Lemma quoted_test s :
  ((1 <? length s)%nat && existsb (fun q => first_is q s && last_is q s) [34; 39]%N) =
  ((1 <? length s)%nat && ((first_is ch_quote s && last_is ch_quote s) || (first_is ch_squote s && last_is ch_squote s))).
Proof. cbn [existsb]. rewrite orb_false_r. reflexivity. Qed.

Lemma chain_is_into_identifier_pattern : forall o ci s,
  eval_chain o ident_chain ci s =
    match strip_prefix [ch_qmark] s with
    | Some re => if re_valid o re ci then Ok (PRegex re) else Err EInvalidIdent
    | None =>
    match strip_prefix [ch_gt; ch_eq] s with
    | Some r => num_pattern o PGreaterThanOrEqual PFGreaterThanOrEqual r
    | None =>
    match strip_prefix [ch_gt] s with
    | Some r => num_pattern o PGreaterThan PFGreaterThan r
    | None =>
    match strip_prefix [ch_lt; ch_eq] s with
    | Some r => num_pattern o PLessThanOrEqual PFLessThanOrEqual r
    | None =>
    match strip_prefix [ch_lt] s with
    | Some r => num_pattern o PLessThan PFLessThan r
    | None =>
    match strip_prefix [ch_eq] s with
    | Some r => num_pattern o PEqual PFEqual r
    | None =>
      if str_eqb s [ch_star] then Ok PAny
      else if first_is ch_star s && last_is ch_star s then
        (do x <- slice_inner s; Ok (PContains (fold_case ci x)))
      else match strip_prefix [ch_star] s with
      | Some r => Ok (PEndsWith (fold_case ci r))
      | None =>
      match strip_suffix [ch_star] s with
      | Some r => Ok (PStartsWith (fold_case ci r))
      | None =>
        if (1 <? length s)%nat
           && ((first_is ch_quote s && last_is ch_quote s)
               || (first_is ch_squote s && last_is ch_squote s))
        then (do x <- slice_inner s; Ok (PExact (fold_case ci x)))
        else Ok (PExact (fold_case ci s))
      end end
    end end end end end end.
Proof.
  intros o ci s. unfold ident_chain.
  cbn [eval_chain run_test run_body mk_int mk_flt mk_str].
  change [63%N] with [ch_qmark]. change [62%N; 61%N] with [ch_gt; ch_eq]. change [62%N] with [ch_gt].
  change [60%N; 61%N] with [ch_lt; ch_eq]. change [60%N] with [ch_lt]. change [61%N] with [ch_eq].
  change [42%N] with [ch_star]. change 42%N with ch_star.
  destruct (strip_prefix [ch_qmark] s); [reflexivity|].
  destruct (strip_prefix [ch_gt; ch_eq] s); [reflexivity|].
  destruct (strip_prefix [ch_gt] s); [reflexivity|].
  destruct (strip_prefix [ch_lt; ch_eq] s); [reflexivity|].
  destruct (strip_prefix [ch_lt] s); [reflexivity|].
  destruct (strip_prefix [ch_eq] s); [reflexivity|].
  destruct (str_eqb s [ch_star]); [reflexivity|].
  destruct (first_is ch_star s && last_is ch_star s); [reflexivity|].
  destruct (strip_prefix [ch_star] s); [reflexivity|].
  destruct (strip_suffix [ch_star] s); [reflexivity|].
  rewrite quoted_test.
  destruct ((1 <? length s)%nat && ((first_is ch_quote s && last_is ch_quote s) || (first_is ch_squote s && last_is ch_squote s)));
    reflexivity.
Qed.

Lemma ident_table_is_into_identifier : forall o ic s,
  into_identifier_gen o ic ident_ci_prefix ident_chain s = into_identifier o ic s.
Proof.
  intros o ic s0. unfold into_identifier_gen, into_identifier, ident_ci_prefix.
  destruct ic.
  - rewrite chain_is_into_identifier_pattern. reflexivity.
  - change [105%N] with [ch_i].
    destruct s0 as [|x s']; cbn [strip_prefix].
    + rewrite chain_is_into_identifier_pattern. reflexivity.
    + destruct (N.eqb ch_i x) eqn:E.
      * apply N.eqb_eq in E. subst x. rewrite N.eqb_refl.
        rewrite chain_is_into_identifier_pattern. reflexivity.
      * rewrite N.eqb_sym in E. rewrite E.
        rewrite chain_is_into_identifier_pattern. reflexivity.
Qed.
