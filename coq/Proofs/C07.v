(* C07  String predicates are exact for all strings, single or batched: proofs. *)
From TauModel Require Import Base Num Oracles Syntax Value Yaml Ident ParseMap Solver PatSpec.
From Coq Require Import Lia ZArith NArith ZifyBool List Bool Btauto.
Import ListNotations.

(* ---- the helper definition of Properties/C07.v, restated identically ---- *)
Definition plain_key (f : str) : keyinfo := {| k_e := EField f; k_f := f; k_misc := None |}.

(* ================= strings ================= *)

Lemma ascii_lower_idem : forall x, ascii_lower (ascii_lower x) = ascii_lower x.
Proof.
  intros x. unfold ascii_lower, is_ascii_upper.
  destruct ((65 <=? x)%N && (x <=? 90)%N) eqn:E; [|rewrite E; reflexivity].
  destruct ((65 <=? x + 32)%N && (x + 32 <=? 90)%N) eqn:E2; [lia|reflexivity].
Qed.

Lemma lower_idem : forall s : str, str_ascii_lower (str_ascii_lower s) = str_ascii_lower s.
Proof.
  intros s. unfold str_ascii_lower. rewrite map_map. apply map_ext. apply ascii_lower_idem.
Qed.

(* a character below 'A' is not the image of any other character *)
Lemma al_eqb_l : forall c x, (c < 65)%N -> N.eqb c (ascii_lower x) = N.eqb c x.
Proof.
  intros c x Hc. unfold ascii_lower, is_ascii_upper.
  destruct ((65 <=? x)%N && (x <=? 90)%N) eqn:E; [|reflexivity].
  destruct (N.eqb_spec c (x + 32)%N), (N.eqb_spec c x); try reflexivity; lia.
Qed.

Lemma al_eqb_r : forall c x, (c < 65)%N -> N.eqb (ascii_lower x) c = N.eqb x c.
Proof.
  intros c x Hc. rewrite (N.eqb_sym (ascii_lower x) c), (N.eqb_sym x c). apply al_eqb_l, Hc.
Qed.

Lemma sp1 : forall c x (rest : str),
  strip_prefix [c] (x :: rest) = if N.eqb c x then Some rest else None.
Proof. reflexivity. Qed.

Lemma sp2 : forall c1 c2 x (rest : str),
  strip_prefix [c1; c2] (x :: rest) = if N.eqb c1 x then strip_prefix [c2] rest else None.
Proof. reflexivity. Qed.

Lemma last_is_ends : forall x s, last_is x s = ends_with x s.
Proof. intros x s. unfold last_is, ends_with, last_opt. destruct (rev s); reflexivity. Qed.

Lemma rev_cons_eq : forall (s : str) y r, rev s = y :: r -> s = rev r ++ [y].
Proof.
  intros s y r H. rewrite <- (rev_involutive s), H. reflexivity.
Qed.

Lemma strip_suffix_some : forall (c : N) (s : list N),
  ends_with c s = true -> strip_suffix [c] s = Some (removelast s).
Proof.
  intros c s. unfold ends_with, strip_suffix. cbn [rev app].
  destruct (rev s) as [|y r] eqn:Er; [discriminate|].
  intros H. rewrite sp1, H. f_equal.
  rewrite (rev_cons_eq s y r Er). symmetry. apply removelast_last.
Qed.

Lemma strip_suffix_none : forall (c : N) (s : list N),
  ends_with c s = false -> strip_suffix [c] s = None.
Proof.
  intros c s. unfold ends_with, strip_suffix. cbn [rev app].
  destruct (rev s) as [|y r] eqn:Er; [reflexivity|].
  intros H. rewrite sp1, H. reflexivity.
Qed.

Lemma slice_inner_ok : forall s : str, (2 <=? length s)%nat = true -> slice_inner s = Ok (middle s).
Proof.
  intros s H. unfold slice_inner.
  destruct (length s <? 2)%nat eqn:E; [|reflexivity].
  apply Nat.ltb_lt in E. apply Nat.leb_le in H. lia.
Qed.

Lemma star_two : forall (c : N) (s : list N),
  starts_with c s = true -> str_eqb s [c] = false -> (2 <=? length s)%nat = true.
Proof.
  intros c s H1 H3. destruct s as [|y [|z r]]; [discriminate| |reflexivity].
  cbn [starts_with] in H1. cbn [str_eqb] in H3.
  rewrite N.eqb_sym, H1 in H3. discriminate.
Qed.

(* ================= (1) the automaton searches ================= *)

Lemma aho_search_spec : forall o ctx ci h,
  search o (SAho ctx ci) h = existsb (fun m => mtype_holds ci m h) ctx.
Proof. reflexivity. Qed.

Lemma slow_aho_spec : forall ctx ci h,
  slow_aho ctx ci h = Z.of_nat (length (filter (fun m => mtype_holds ci m h) ctx)).
Proof. reflexivity. Qed.

(* ================= (2) into_identifier against classify ================= *)

(* the body of into_identifier once the case prefix is split off (copied) *)
Definition id_body (o : oracles) (ci : bool) (s : str) : out pattern :=
    match strip_prefix [ch_qmark] s with
    | Some re => if re_valid o re ci then Ok (PRegex re) else Err EInvalidIdent
    | None =>
    match strip_prefix [ch_gt; ch_eq] s with
    | Some r => num_pattern o PGreaterThanOrEqual PFGreaterThanOrEqual r
    | None =>
    match strip_prefix [ch_gt] s with
    | Some r => num_pattern o PGreaterThan PFGreaterThan r
    | None =>
    match strip_prefix [ch_lt; ch_eq] s with
    | Some r => num_pattern o PLessThanOrEqual PFLessThanOrEqual r
    | None =>
    match strip_prefix [ch_lt] s with
    | Some r => num_pattern o PLessThan PFLessThan r
    | None =>
    match strip_prefix [ch_eq] s with
    | Some r => num_pattern o PEqual PFEqual r
    | None =>
      if str_eqb s [ch_star] then Ok PAny
      else if first_is ch_star s && last_is ch_star s then
        (do x <- slice_inner s; Ok (PContains (fold_case ci x)))
      else match strip_prefix [ch_star] s with
      | Some r => Ok (PEndsWith (fold_case ci r))
      | None =>
      match strip_suffix [ch_star] s with
      | Some r => Ok (PStartsWith (fold_case ci r))
      | None =>
        if (1 <? length s)%nat
           && ((first_is ch_quote s && last_is ch_quote s)
               || (first_is ch_squote s && last_is ch_squote s))
        then (do x <- slice_inner s; Ok (PExact (fold_case ci x)))
        else Ok (PExact (fold_case ci s))
      end end
    end end end end end end.

Lemma into_identifier_eq : forall o ic s0,
  into_identifier o ic s0 =
  do p <- id_body o (fst (split_case ic s0)) (snd (split_case ic s0));
  Ok {| id_ci := fst (split_case ic s0); id_pat := p |}.
Proof.
  intros o ic s0. unfold into_identifier, split_case.
  destruct ic; [reflexivity|]. destruct s0 as [|x s']; [reflexivity|].
  destruct (N.eqb x ch_i); reflexivity.
Qed.

Definition spec_pat (ci : bool) (k : pkind) : pattern :=
  match k with
  | KRegex re => PRegex re
  | KNumeric => PAny
  | KAny => PAny
  | KContains t => PContains (fold_case ci t)
  | KEndsWith t => PEndsWith (fold_case ci t)
  | KStartsWith t => PStartsWith (fold_case ci t)
  | KExact t => PExact (fold_case ci t)
  end.

Lemma num_pattern_numeric : forall o mk_i mk_f r p,
  (forall z, is_string_pattern (mk_i z) = false) ->
  (forall x, is_string_pattern (mk_f x) = false) ->
  num_pattern o mk_i mk_f r = Ok p -> is_string_pattern p = false.
Proof.
  intros o mk_i mk_f r p Hi Hf. unfold num_pattern.
  destruct (str_contains_char ch_dot r).
  - destruct (f64_parse o r); intros H; inversion H; subst; apply Hf.
  - destruct (parse_i64 r); intros H; inversion H; subst; apply Hi.
Qed.

Lemma id_body_spec : forall o ci s,
  match classify s with
  | KRegex re => id_body o ci s = if re_valid o re ci then Ok (PRegex re) else Err EInvalidIdent
  | KNumeric => forall p, id_body o ci s = Ok p -> is_string_pattern p = false
  | k => id_body o ci s = Ok (spec_pat ci k)
  end.
Proof.
  intros o ci s. destruct s as [|x rest]; [reflexivity|].
  unfold classify.
  rewrite (N.eqb_sym x ch_qmark), (N.eqb_sym x ch_gt), (N.eqb_sym x ch_lt), (N.eqb_sym x ch_eq).
  unfold id_body. rewrite !sp2, !sp1.
  destruct (N.eqb ch_qmark x) eqn:E1; [reflexivity|].
  destruct (N.eqb ch_gt x) eqn:E2.
  { cbn [orb]. intros p.
    destruct (strip_prefix [ch_eq] rest); apply num_pattern_numeric; reflexivity. }
  destruct (N.eqb ch_lt x) eqn:E3.
  { cbn [orb]. intros p.
    destruct (strip_prefix [ch_eq] rest); apply num_pattern_numeric; reflexivity. }
  destruct (N.eqb ch_eq x) eqn:E4.
  { cbn [orb]. intros p. apply num_pattern_numeric; reflexivity. }
  cbn [orb].
  assert (Ex : starts_with ch_star (x :: rest) = N.eqb ch_star x) by reflexivity.
  remember (x :: rest) as s eqn:Hs.
  rewrite !last_is_ends. change first_is with starts_with.
  destruct (str_eqb s [ch_star]) eqn:Es; [reflexivity|].
  destruct (starts_with ch_star s) eqn:Ef; destruct (ends_with ch_star s) eqn:El; cbn [andb].
  - rewrite (slice_inner_ok s (star_two _ _ Ef Es)). reflexivity.
  - rewrite <- Ex. reflexivity.
  - rewrite <- Ex. rewrite (strip_suffix_some _ _ El). reflexivity.
  - rewrite <- Ex. rewrite (strip_suffix_none _ _ El).
    change (1 <? length s)%nat with (2 <=? length s)%nat.
    destruct (2 <=? length s)%nat eqn:El2; [|reflexivity].
    cbn [andb].
    destruct ((starts_with ch_quote s && ends_with ch_quote s)
              || (starts_with ch_squote s && ends_with ch_squote s)); [|reflexivity].
    rewrite (slice_inner_ok s El2). reflexivity.
Qed.

(* ---- documented / is_string_predicate in projection form ---- *)

Definition doc_k (o : oracles) (ci : bool) (k : pkind) (h : str) : bool :=
  match k with
  | KRegex re => re_match o re ci h
  | KNumeric => false
  | KAny => true
  | KContains t => is_infix (lower_if ci t) (lower_if ci h)
  | KEndsWith t => is_suffix (lower_if ci t) (lower_if ci h)
  | KStartsWith t => is_prefix (lower_if ci t) (lower_if ci h)
  | KExact t => str_eqb (lower_if ci t) (lower_if ci h)
  end.

Definition isp_k (o : oracles) (ci : bool) (k : pkind) : bool :=
  match k with
  | KRegex re => re_valid o re ci
  | KNumeric => false
  | _ => true
  end.

Lemma documented_eq : forall o ic s h,
  documented o ic s h = doc_k o (fst (split_case ic s)) (classify (snd (split_case ic s))) h.
Proof. intros o ic s h. unfold documented. destruct (split_case ic s); reflexivity. Qed.

Lemma isp_eq : forall o ic s,
  is_string_predicate o ic s = isp_k o (fst (split_case ic s)) (classify (snd (split_case ic s))).
Proof. intros o ic s. unfold is_string_predicate. destruct (split_case ic s); reflexivity. Qed.

Lemma into_id_string : forall o ic s,
  is_string_predicate o ic s = true ->
  into_identifier o ic s =
  Ok {| id_ci := fst (split_case ic s);
        id_pat := spec_pat (fst (split_case ic s)) (classify (snd (split_case ic s))) |}.
Proof.
  intros o ic s H. rewrite isp_eq in H. rewrite into_identifier_eq.
  pose proof (id_body_spec o (fst (split_case ic s)) (snd (split_case ic s))) as Hb.
  destruct (classify (snd (split_case ic s))); cbn [isp_k] in H; try discriminate;
    cbv beta iota in Hb; rewrite Hb; [rewrite H| | | | |]; reflexivity.
Qed.

(* ---- what one identifier means on a string ---- *)

Lemma mt_contains : forall ci t h,
  mtype_holds ci (MTContains (fold_case ci t)) h = is_infix (lower_if ci t) (lower_if ci h).
Proof.
  intros [|] t h; cbn [mtype_holds fold_hay fold_case lower_if]; rewrite ?lower_idem; reflexivity.
Qed.

Lemma mt_ends : forall ci t h,
  mtype_holds ci (MTEndsWith (fold_case ci t)) h = is_suffix (lower_if ci t) (lower_if ci h).
Proof.
  intros [|] t h; cbn [mtype_holds fold_hay fold_case lower_if]; rewrite ?lower_idem; reflexivity.
Qed.

Lemma mt_starts : forall ci t h,
  mtype_holds ci (MTStartsWith (fold_case ci t)) h = is_prefix (lower_if ci t) (lower_if ci h).
Proof.
  intros [|] t h; cbn [mtype_holds fold_hay fold_case lower_if]; rewrite ?lower_idem; reflexivity.
Qed.

Lemma mt_exact : forall ci t h,
  mtype_holds ci (MTExact (fold_case ci t)) h = str_eqb (lower_if ci t) (lower_if ci h).
Proof.
  intros [|] t h; cbn [mtype_holds fold_hay fold_case lower_if]; rewrite ?lower_idem; reflexivity.
Qed.

Lemma str_eqb_nil_lower : forall ci (h : str), str_eqb [] (lower_if ci h) = str_eqb [] h.
Proof. intros [|] [|y h]; reflexivity. Qed.

Lemma fold_case_nil : forall ci (t : str), is_nil (fold_case ci t) = is_nil t.
Proof. intros [|] [|y t]; reflexivity. Qed.

Lemma exact_meaning : forall ci t h,
  (if is_nil (fold_case ci t) then str_eqb [] h else mtype_holds ci (MTExact (fold_case ci t)) h)
  = str_eqb (lower_if ci t) (lower_if ci h).
Proof.
  intros ci t h. rewrite fold_case_nil. destruct t as [|y t]; cbn [is_nil].
  - destruct ci; cbn [lower_if str_ascii_lower map];
      [symmetry; apply (str_eqb_nil_lower true)|reflexivity].
  - apply mt_exact.
Qed.

Lemma search_of_mtype_holds : forall o m h, search o (search_of_mtype m) h = mtype_holds false m h.
Proof. intros o [n|n|n|n] h; reflexivity. Qed.

(* ================= (3) a single pattern ================= *)

Lemma single_pattern_exact : forall o ic f s h,
  is_string_predicate o ic s = true ->
  exists sr, scalar_string_expr o ic (plain_key f) s = Ok (ESearch sr f false) /\
             search o sr h = documented o ic s h.
Proof.
  intros o ic f s h Hs. pose proof (into_id_string o ic s Hs) as Hid.
  rewrite isp_eq in Hs. rewrite documented_eq.
  unfold scalar_string_expr. rewrite Hid.
  cbn [bind plain_key k_misc k_f k_e misc_pattern_check misc_is id_pat id_ci].
  set (ci := fst (split_case ic s)) in *.
  destruct (classify (snd (split_case ic s))) as [re| | |t|t|t|t];
    cbn [spec_pat numeric_expr doc_k isp_k] in *; try discriminate.
  - eexists; split; [reflexivity|]. reflexivity.
  - eexists; split; [reflexivity|]. reflexivity.
  - eexists; split; [reflexivity|]. rewrite <- mt_contains.
    destruct ci; cbn [search existsb]; [apply orb_false_r|reflexivity].
  - eexists; split; [reflexivity|]. rewrite <- mt_ends.
    destruct ci; cbn [search existsb]; [apply orb_false_r|reflexivity].
  - eexists; split; [reflexivity|]. rewrite <- mt_starts.
    destruct ci; cbn [search existsb]; [apply orb_false_r|reflexivity].
  - eexists; split; [reflexivity|]. rewrite <- exact_meaning.
    destruct (fold_case ci t) as [|y t']; cbn [is_nil andb]; [reflexivity|].
    destruct ci; cbn [search existsb]; [apply orb_false_r|reflexivity].
Qed.

Lemma non_string_pattern : forall o ic f s e,
  is_string_predicate o ic s = false ->
  scalar_string_expr o ic (plain_key f) s = Ok e ->
  match e with ESearch _ _ _ => False | _ => True end.
Proof.
  intros o ic f s e Hs. rewrite isp_eq in Hs.
  unfold scalar_string_expr. rewrite into_identifier_eq.
  pose proof (id_body_spec o (fst (split_case ic s)) (snd (split_case ic s))) as Hb.
  destruct (classify (snd (split_case ic s))); cbn [isp_k] in Hs; try discriminate.
  - rewrite Hb, Hs. cbn [bind]. discriminate.
  - destruct (id_body o (fst (split_case ic s)) (snd (split_case ic s))) as [p|k|n];
      cbn [bind]; try discriminate.
    specialize (Hb p eq_refl).
    cbn [plain_key k_misc k_f k_e misc_pattern_check misc_is id_pat id_ci].
    destruct p; try discriminate Hb; cbn [numeric_expr cmp_expr];
      intros H; inversion H; exact I.
Qed.

(* ================= (4)(5) batched lists ================= *)

(* ---- generic list facts ---- *)

Lemma existsb_map_ : forall {A B} (g : A -> B) (p : B -> bool) l,
  existsb p (map g l) = existsb (fun x => p (g x)) l.
Proof.
  intros A B g p l. induction l as [|x l IH]; [reflexivity|].
  cbn [map existsb]. rewrite IH. reflexivity.
Qed.

Lemma existsb_split : forall {A} (q P P1 P2 : A -> bool) l,
  (forall x, q x = true -> P x = P1 x) ->
  (forall x, q x = false -> P x = P2 x) ->
  existsb P l = existsb P1 (filter q l) || existsb P2 (filter (fun x => negb (q x)) l).
Proof.
  intros A q P P1 P2 l H1 H2. induction l as [|x l IH]; [reflexivity|].
  cbn [existsb filter]. destruct (q x) eqn:Eq; cbn [negb existsb]; rewrite IH.
  - rewrite (H1 x Eq). btauto.
  - rewrite (H2 x Eq). btauto.
Qed.

(* ---- the meaning of the accumulators ---- *)

Definition idm (mk : str -> mtype) (h : str) (i : identifier) : bool :=
  match needle_of mk i with Some (ci, m) => mtype_holds ci m h | None => false end.

Definition exm (h : str) (i : identifier) : bool :=
  if is_nil (pat_str i) then str_eqb [] h else idm MTExact h i.

Definition rxm (o : oracles) (h : str) (i : identifier) : bool :=
  re_match o (pat_str i) (id_ci i) h.

Definition acc_any (o : oracles) (a : seqacc) (h : str) : bool :=
  existsb (exm h) (a_exact a) || existsb (idm MTStartsWith h) (a_starts a)
  || existsb (idm MTEndsWith h) (a_ends a) || existsb (idm MTContains h) (a_contains a)
  || existsb (rxm o h) (a_regex a) || negb (is_nil (a_rest a)).

Definition rest_inv (f : str) (a : seqacc) : Prop :=
  Forall (fun e => exists c, e = ESearch SAny f c) (a_rest a).

Lemma rxm_new : forall o h ci re,
  rxm o h {| id_ci := ci; id_pat := PRegex re |} = re_match o re ci h.
Proof. reflexivity. Qed.

Lemma idm_contains : forall ci t h,
  idm MTContains h {| id_ci := ci; id_pat := PContains (fold_case ci t) |}
  = is_infix (lower_if ci t) (lower_if ci h).
Proof. intros. apply mt_contains. Qed.

Lemma idm_ends : forall ci t h,
  idm MTEndsWith h {| id_ci := ci; id_pat := PEndsWith (fold_case ci t) |}
  = is_suffix (lower_if ci t) (lower_if ci h).
Proof. intros. apply mt_ends. Qed.

Lemma idm_starts : forall ci t h,
  idm MTStartsWith h {| id_ci := ci; id_pat := PStartsWith (fold_case ci t) |}
  = is_prefix (lower_if ci t) (lower_if ci h).
Proof. intros. apply mt_starts. Qed.

Lemma exm_new : forall ci t h,
  exm h {| id_ci := ci; id_pat := PExact (fold_case ci t) |}
  = str_eqb (lower_if ci t) (lower_if ci h).
Proof. intros. apply exact_meaning. Qed.

Lemma seq_member_step : forall o ic f a a' s h,
  is_string_predicate o ic s = true ->
  seq_member o ic (plain_key f) (EField f) a (YStr s) None = Ok a' ->
  rest_inv f a ->
  rest_inv f a' /\ acc_any o a' h = acc_any o a h || documented o ic s h.
Proof.
  intros o ic f a a' s h Hs H Hr. pose proof (into_id_string o ic s Hs) as Hid.
  rewrite isp_eq in Hs. rewrite documented_eq.
  unfold seq_member in H. rewrite Hid in H.
  cbn [bind plain_key k_misc k_f k_e misc_pattern_check misc_is id_pat id_ci] in H.
  set (ci := fst (split_case ic s)) in *.
  destruct (classify (snd (split_case ic s))) as [re| | |t|t|t|t];
    cbn [spec_pat numeric_expr doc_k isp_k] in *; try discriminate;
    inversion H; subst a'; clear H; unfold rest_inv, acc_any;
    cbn [push_exact push_starts push_ends push_contains push_regex push_rest flag_string
         set_flags a_exact a_starts a_ends a_contains a_regex a_rest];
    rewrite ?existsb_app; cbn [existsb].
  - split; [exact Hr|]. rewrite rxm_new. btauto.
  - split.
    + apply Forall_app. split; [exact Hr|]. constructor; [eexists; reflexivity|constructor].
    + replace (negb (is_nil (a_rest a ++ [ESearch SAny f (a_cast a)]))) with true
        by (destruct (a_rest a); reflexivity).
      btauto.
  - split; [exact Hr|]. rewrite idm_contains. btauto.
  - split; [exact Hr|]. rewrite idm_ends. btauto.
  - split; [exact Hr|]. rewrite idm_starts. btauto.
  - split; [exact Hr|]. rewrite exm_new. btauto.
Qed.

Lemma acc_any_acc0 : forall o h, acc_any o acc0 h = false.
Proof. reflexivity. Qed.

Lemma rest_inv_acc0 : forall f, rest_inv f acc0.
Proof. intros f. constructor. Qed.

Lemma seq_members_inv : forall o ic f h ss a a',
  (forall s, In s ss -> is_string_predicate o ic s = true) ->
  seq_members o ic (plain_key f) (EField f) a (map YStr ss) (map (fun _ => None) ss) = Ok a' ->
  rest_inv f a ->
  rest_inv f a' /\
  acc_any o a' h = acc_any o a h || existsb (fun s => documented o ic s h) ss.
Proof.
  intros o ic f h ss. induction ss as [|s ss IH]; intros a a' Hall H Hr.
  - cbn [map seq_members] in H. inversion H; subst a'.
    split; [exact Hr|]. cbn [existsb]. rewrite orb_false_r. reflexivity.
  - cbn [map seq_members tl] in H.
    destruct (seq_member o ic (plain_key f) (EField f) a (YStr s) None) as [a1|k|n] eqn:Hm;
      cbn [bind] in H; try discriminate.
    destruct (seq_member_step o ic f a a1 s h (Hall s (or_introl eq_refl)) Hm Hr) as [Hr1 Ha1].
    destruct (IH a1 a' (fun s' Hin => Hall s' (or_intror Hin)) H Hr1) as [Hr' Ha'].
    split; [exact Hr'|]. rewrite Ha', Ha1. cbn [existsb]. btauto.
Qed.

(* ---- the group built by finish_seq, with projections instead of destructuring lets ---- *)

Definition g1_of (f : str) (cast : bool) (context : list mtype) : list expr :=
  match context with
  | [] => []
  | [m] => [ESearch (search_of_mtype m) f cast]
  | _ => [ESearch (SAho context false) f cast]
  end.
Definition m1_of (context : list mtype) : bool :=
  match context with [] => false | [m] => false | _ => true end.
Definition g2_of (f : str) (cast : bool) (icontext : list mtype) : list expr :=
  match icontext with
  | [] => []
  | _ => [ESearch (SAho icontext true) f cast]
  end.
Definition m2_of (icontext : list mtype) : bool :=
  match icontext with [] => false | _ => true end.
Definition g3_of (f : str) (cast : bool) (ci : bool) (rs : list str) : list expr :=
  match rs with
  | [] => []
  | [r] => [ESearch (SRegex r ci) f cast]
  | _ => [ESearch (SRegexSet rs ci) f cast]
  end.
Definition m3_of (rs : list str) : bool :=
  match rs with [] => false | [r] => false | _ => true end.

Definition needles_of (a : seqacc) : list mtype * list mtype :=
  add_needles MTExact (filter (fun i => negb (is_nil (pat_str i))) (a_exact a))
    (add_needles MTEndsWith (a_ends a)
       (add_needles MTContains (a_contains a)
          (add_needles MTStartsWith (a_starts a) ([], [])))).

Definition group_of (f : str) (a : seqacc) : list expr :=
  map (fun _ => ESearch (SExact []) f (a_cast a)) (filter (fun i => is_nil (pat_str i)) (a_exact a))
  ++ g1_of f (a_cast a) (fst (needles_of a))
  ++ g2_of f (a_cast a) (snd (needles_of a))
  ++ g3_of f (a_cast a) false (map pat_str (filter (fun i => negb (id_ci i)) (a_regex a)))
  ++ g3_of f (a_cast a) true (map pat_str (filter (fun i => id_ci i) (a_regex a)))
  ++ a_rest a.

Definition multiple_of (a : seqacc) : bool :=
  m1_of (fst (needles_of a)) || m2_of (snd (needles_of a))
  || m3_of (map pat_str (filter (fun i => negb (id_ci i)) (a_regex a)))
  || m3_of (map pat_str (filter (fun i => id_ci i) (a_regex a))).

Lemma finish_seq_eq : forall f a,
  finish_seq (plain_key f) a =
  match group_of f a with
  | [] => Err EInvalidIdent
  | [x] => if negb (multiple_of a) && true then Ok x else Ok (EGroup BOr (group_of f a))
  | _ => Ok (EGroup BOr (group_of f a))
  end.
Proof.
  intros f a. unfold finish_seq, group_of, multiple_of, needles_of.
  cbn [plain_key k_e k_f k_misc].
  destruct (add_needles MTExact (filter (fun i => negb (is_nil (pat_str i))) (a_exact a))
    (add_needles MTEndsWith (a_ends a)
       (add_needles MTContains (a_contains a)
          (add_needles MTStartsWith (a_starts a) ([], []))))) as [c ic].
  cbn [fst snd].
  destruct c as [|m [|m' c]]; destruct ic as [|mi ic];
    destruct (map pat_str (filter (fun i => negb (id_ci i)) (a_regex a))) as [|r [|r' rs]];
    destruct (map pat_str (filter (fun i => id_ci i) (a_regex a))) as [|r2 [|r2' rs2]];
    reflexivity.
Qed.

Lemma finish_seq_shape : forall f a e,
  finish_seq (plain_key f) a = Ok e ->
  group_of f a <> [] /\ (e = EGroup BOr (group_of f a) \/ group_of f a = [e]).
Proof.
  intros f a e. rewrite finish_seq_eq.
  destruct (group_of f a) as [|x [|y l]]; [discriminate| |].
  - destruct (negb (multiple_of a) && true); intros H; inversion H; subst;
      (split; [discriminate|]); [right|left]; reflexivity.
  - intros H; inversion H; subst. split; [discriminate|left; reflexivity].
Qed.

(* ---- solving a group of searches on one field ---- *)

Definition issf (f : str) (e : expr) : Prop := exists sr c, e = ESearch sr f c.

Definition sval (o : oracles) (h : str) (e : expr) : bool :=
  match e with ESearch sr _ _ => search o sr h | _ => false end.

Lemma solve_search_str : forall o ids body sr f c d h,
  d f = Ok (Some (VStr h)) ->
  solve o ids body (ESearch sr f c) d = Ok (if search o sr h then T else F).
Proof.
  intros o ids body sr f c d h Hd. cbn [solve]. unfold field_search. rewrite Hd.
  cbn [bind search_value res_of_search]. destruct (search o sr h); reflexivity.
Qed.

Lemma solve_search_missing : forall o ids body sr f c d,
  d f = Ok None -> solve o ids body (ESearch sr f c) d = Ok M.
Proof.
  intros o ids body sr f c d Hd. cbn [solve]. unfold field_search. rewrite Hd. reflexivity.
Qed.

Lemma or_fold_searches : forall o ids body f d h g acc,
  d f = Ok (Some (VStr h)) -> Forall (issf f) g ->
  or_fold acc (map (fun x (_ : unit) => solve o ids body x d) g) =
  Ok (if existsb (sval o h) g then T else if is_nil g then acc else F).
Proof.
  intros o ids body f d h g. induction g as [|x g IH]; intros acc Hd Hg; [reflexivity|].
  inversion Hg as [|x' g' Hx Hg']; subst. destruct Hx as [sr [c ->]].
  cbn [map or_fold]. rewrite (solve_search_str o ids body sr f c d h Hd).
  cbn [bind existsb sval is_nil]. destruct (search o sr h); cbn [orb]; [reflexivity|].
  rewrite (IH F Hd Hg'). destruct (existsb (sval o h) g); [reflexivity|].
  destruct (is_nil g); reflexivity.
Qed.

Lemma or_fold_missing : forall o ids body f d g,
  d f = Ok None -> Forall (issf f) g ->
  or_fold M (map (fun x (_ : unit) => solve o ids body x d) g) = Ok M.
Proof.
  intros o ids body f d g Hd. induction g as [|x g IH]; intros Hg; [reflexivity|].
  inversion Hg as [|x' g' Hx Hg']; subst. destruct Hx as [sr [c ->]].
  cbn [map or_fold]. rewrite (solve_search_missing o ids body sr f c d Hd).
  cbn [bind]. apply IH, Hg'.
Qed.

(* ---- every member of the group is a search on f ---- *)

Lemma group_all_search : forall f a, rest_inv f a -> Forall (issf f) (group_of f a).
Proof.
  intros f a Hr. unfold group_of. repeat (apply Forall_app; split).
  - apply Forall_forall. intros e He. apply in_map_iff in He. destruct He as [i [<- _]].
    eexists; eexists; reflexivity.
  - destruct (fst (needles_of a)) as [|m [|m' l]]; cbn [g1_of];
      repeat constructor; eexists; eexists; reflexivity.
  - destruct (snd (needles_of a)) as [|m l]; cbn [g2_of];
      repeat constructor; eexists; eexists; reflexivity.
  - destruct (map pat_str (filter (fun i => negb (id_ci i)) (a_regex a))) as [|m [|m' l]];
      cbn [g3_of]; repeat constructor; eexists; eexists; reflexivity.
  - destruct (map pat_str (filter (fun i => id_ci i) (a_regex a))) as [|m [|m' l]];
      cbn [g3_of]; repeat constructor; eexists; eexists; reflexivity.
  - unfold rest_inv in Hr. eapply Forall_impl; [|exact Hr].
    intros e [c ->]. eexists; eexists; reflexivity.
Qed.

(* ---- the meaning of the group ---- *)

Definition ctx_any (h : str) (p : list mtype * list mtype) : bool :=
  existsb (fun m => mtype_holds false m h) (fst p) || existsb (fun m => mtype_holds true m h) (snd p).

Lemma add_needles_any : forall mk h ids acc,
  ctx_any h (add_needles mk ids acc) = ctx_any h acc || existsb (idm mk h) ids.
Proof.
  intros mk h ids. unfold add_needles.
  induction ids as [|i ids IH]; intros acc; cbn [fold_left existsb].
  - rewrite orb_false_r. reflexivity.
  - rewrite IH. rewrite orb_assoc. f_equal.
    unfold idm. destruct (needle_of mk i) as [[[|] m]|]; unfold ctx_any; cbn [fst snd];
      rewrite ?existsb_app; cbn [existsb]; btauto.
Qed.

Lemma g1_meaning : forall o f c h ctx,
  existsb (sval o h) (g1_of f c ctx) = existsb (fun m => mtype_holds false m h) ctx.
Proof.
  intros o f c h ctx. destruct ctx as [|m [|m' l]]; [reflexivity| |].
  - cbn [g1_of existsb sval]. rewrite search_of_mtype_holds. reflexivity.
  - cbn [g1_of]. cbn [existsb sval search]. apply orb_false_r.
Qed.

Lemma g2_meaning : forall o f c h ctx,
  existsb (sval o h) (g2_of f c ctx) = existsb (fun m => mtype_holds true m h) ctx.
Proof.
  intros o f c h ctx. destruct ctx as [|m l]; [reflexivity|].
  cbn [g2_of]. cbn [existsb sval search]. apply orb_false_r.
Qed.

Lemma g3_meaning : forall o f c ci h rs,
  existsb (sval o h) (g3_of f c ci rs) = existsb (fun p => re_match o p ci h) rs.
Proof.
  intros o f c ci h rs. destruct rs as [|m [|m' l]]; [reflexivity|reflexivity|].
  cbn [g3_of]. cbn [existsb sval search]. apply orb_false_r.
Qed.

Lemma rest_meaning : forall o f h a,
  rest_inv f a -> existsb (sval o h) (a_rest a) = negb (is_nil (a_rest a)).
Proof.
  intros o f h a Hr. unfold rest_inv in Hr. destruct (a_rest a) as [|e l]; [reflexivity|].
  inversion Hr as [|e' l' [c ->] Hl]; subst. reflexivity.
Qed.

Lemma needles_any : forall h a,
  ctx_any h (needles_of a) =
  existsb (idm MTStartsWith h) (a_starts a) || existsb (idm MTContains h) (a_contains a)
  || existsb (idm MTEndsWith h) (a_ends a)
  || existsb (idm MTExact h) (filter (fun i => negb (is_nil (pat_str i))) (a_exact a)).
Proof. intros h a. unfold needles_of. rewrite !add_needles_any. reflexivity. Qed.

Lemma group_meaning : forall o f h a,
  rest_inv f a -> existsb (sval o h) (group_of f a) = acc_any o a h.
Proof.
  intros o f h a Hr. unfold group_of, acc_any. rewrite !existsb_app.
  rewrite g1_meaning, g2_meaning, !g3_meaning, (rest_meaning o f h a Hr).
  rewrite existsb_map_. cbn [sval search].
  rewrite !existsb_map_.
  rewrite (orb_assoc (existsb (fun m => mtype_holds false m h) (fst (needles_of a)))).
  change (existsb (fun m => mtype_holds false m h) (fst (needles_of a))
          || existsb (fun m' => mtype_holds true m' h) (snd (needles_of a)))
    with (ctx_any h (needles_of a)).
  rewrite needles_any.
  rewrite (existsb_split (fun i => is_nil (pat_str i)) (exm h)
             (fun _ => str_eqb [] h) (idm MTExact h) (a_exact a)).
  2:{ intros x Hx. unfold exm. rewrite Hx. reflexivity. }
  2:{ intros x Hx. unfold exm. rewrite Hx. reflexivity. }
  rewrite (existsb_split (fun i => id_ci i) (rxm o h)
             (fun i => re_match o (pat_str i) true h)
             (fun i => re_match o (pat_str i) false h) (a_regex a)).
  2:{ intros x Hx. unfold rxm. rewrite Hx. reflexivity. }
  2:{ intros x Hx. unfold rxm. rewrite Hx. reflexivity. }
  cbv beta. btauto.
Qed.

(* ================= the two list theorems ================= *)

Lemma batched_list_exact : forall o ic f ss a e ids body d h,
  (forall s, In s ss -> is_string_predicate o ic s = true) ->
  seq_members o ic (plain_key f) (EField f) acc0 (map YStr ss) (map (fun _ => None) ss) = Ok a ->
  finish_seq (plain_key f) a = Ok e ->
  d f = Ok (Some (VStr h)) ->
  solve o ids body e d = Ok (if existsb (fun s => documented o ic s h) ss then T else F).
Proof.
  intros o ic f ss a e ids body d h Hall Hm Hf Hd.
  destruct (seq_members_inv o ic f h ss acc0 a Hall Hm (rest_inv_acc0 f)) as [Hr Ha].
  rewrite acc_any_acc0 in Ha. cbn [orb] in Ha. rewrite <- Ha, <- (group_meaning o f h a Hr).
  pose proof (group_all_search f a Hr) as Hg.
  destruct (finish_seq_shape f a e Hf) as [Hne [->|He]].
  - cbn [solve]. rewrite (or_fold_searches o ids body f d h (group_of f a) M Hd Hg).
    destruct (group_of f a); [congruence|reflexivity].
  - rewrite He in *. inversion Hg as [|x g [sr [c ->]] Hg']; subst.
    rewrite (solve_search_str o ids body sr f c d h Hd). cbn [existsb sval].
    rewrite orb_false_r. reflexivity.
Qed.

Lemma batched_list_missing : forall o ic f ss a e ids body d,
  (forall s, In s ss -> is_string_predicate o ic s = true) ->
  seq_members o ic (plain_key f) (EField f) acc0 (map YStr ss) (map (fun _ => None) ss) = Ok a ->
  finish_seq (plain_key f) a = Ok e ->
  d f = Ok None ->
  solve o ids body e d = Ok M.
Proof.
  intros o ic f ss a e ids body d Hall Hm Hf Hd.
  destruct (seq_members_inv o ic f [] ss acc0 a Hall Hm (rest_inv_acc0 f)) as [Hr _].
  pose proof (group_all_search f a Hr) as Hg.
  destruct (finish_seq_shape f a e Hf) as [Hne [->|He]].
  - cbn [solve]. apply (or_fold_missing o ids body f d (group_of f a) Hd Hg).
  - rewrite He in *. inversion Hg as [|x g [sr [c ->]] Hg']; subst.
    apply (solve_search_missing o ids body sr f c d Hd).
Qed.

(* ================= (6) case-insensitivity ================= *)

Lemma i_prefix_is_case_insensitive : forall o t h,
  documented o false (ch_i :: t) h = documented o true t h.
Proof. reflexivity. Qed.

Definition kmap (k : pkind) : pkind :=
  match k with
  | KRegex re => KRegex (str_ascii_lower re)
  | KNumeric => KNumeric
  | KAny => KAny
  | KContains t => KContains (str_ascii_lower t)
  | KEndsWith t => KEndsWith (str_ascii_lower t)
  | KStartsWith t => KStartsWith (str_ascii_lower t)
  | KExact t => KExact (str_ascii_lower t)
  end.

Lemma removelast_map : forall {A B} (g : A -> B) l, removelast (map g l) = map g (removelast l).
Proof.
  intros A B g l. induction l as [|a l IH]; [reflexivity|].
  destruct l as [|b l]; [reflexivity|].
  change (g a :: removelast (map g (b :: l)) = g a :: map g (removelast (b :: l))).
  rewrite IH. reflexivity.
Qed.

Lemma sw_lower : forall (c : N) (s : list N),
  (c < 65)%N -> starts_with c (str_ascii_lower s) = starts_with c s.
Proof.
  intros c s Hc. destruct s as [|y s]; [reflexivity|].
  cbn [str_ascii_lower map starts_with]. apply al_eqb_l, Hc.
Qed.

Lemma ew_lower : forall (c : N) (s : list N),
  (c < 65)%N -> ends_with c (str_ascii_lower s) = ends_with c s.
Proof.
  intros c s Hc. unfold ends_with, str_ascii_lower. rewrite <- map_rev.
  change chr with N in *. unfold str in *.
  destruct (rev s) as [|y r]; [reflexivity|]. cbn [map]. apply al_eqb_l, Hc.
Qed.

Lemma middle_lower : forall s : list N, middle (str_ascii_lower s) = str_ascii_lower (middle s).
Proof.
  intros s. unfold middle, str_ascii_lower. destruct s as [|y s]; [reflexivity|].
  cbn [map tl]. apply removelast_map.
Qed.

Lemma removelast_lower : forall s : list N,
  removelast (str_ascii_lower s) = str_ascii_lower (removelast s).
Proof. intros s. apply removelast_map. Qed.

Lemma length_lower : forall s : list N, length (str_ascii_lower s) = length s.
Proof. intros s. apply map_length. Qed.

Lemma eqb1_lower : forall (c : N) (s : list N),
  (c < 65)%N -> str_eqb (str_ascii_lower s) [c] = str_eqb s [c].
Proof.
  intros c s Hc. destruct s as [|y [|z r]]; [reflexivity| |];
    cbn [str_ascii_lower map str_eqb]; rewrite (al_eqb_r c y Hc); reflexivity.
Qed.

Lemma classify_lower : forall t, classify (str_ascii_lower t) = kmap (classify t).
Proof.
  intros t. destruct t as [|x rest]; [reflexivity|].
  unfold classify.
  change (str_ascii_lower (x :: rest)) with (ascii_lower x :: str_ascii_lower rest).
  cbv iota.
  change (ascii_lower x :: str_ascii_lower rest) with (str_ascii_lower (x :: rest)).
  rewrite !al_eqb_r by reflexivity.
  rewrite eqb1_lower by reflexivity.
  rewrite !sw_lower, !ew_lower by reflexivity.
  rewrite middle_lower, removelast_lower, length_lower.
  destruct (N.eqb x ch_qmark); [reflexivity|].
  destruct (N.eqb x ch_gt || N.eqb x ch_lt || N.eqb x ch_eq); [reflexivity|].
  destruct (str_eqb (x :: rest) [ch_star]); [reflexivity|].
  destruct (starts_with ch_star (x :: rest) && ends_with ch_star (x :: rest)); [reflexivity|].
  destruct (starts_with ch_star (x :: rest)); [reflexivity|].
  destruct (ends_with ch_star (x :: rest)); [reflexivity|].
  destruct ((2 <=? length (x :: rest))%nat
            && ((starts_with ch_quote (x :: rest) && ends_with ch_quote (x :: rest))
                || (starts_with ch_squote (x :: rest) && ends_with ch_squote (x :: rest))));
    reflexivity.
Qed.

Lemma ci_is_ascii_folding : forall o t h,
  match classify t with KRegex _ | KNumeric => False | _ => True end ->
  documented o true t h = documented o true (str_ascii_lower t) (str_ascii_lower h).
Proof.
  intros o t h Hk. rewrite !documented_eq. cbn [split_case fst snd].
  rewrite classify_lower.
  destruct (classify t); cbn [kmap doc_k lower_if]; try contradiction;
    rewrite ?lower_idem; reflexivity.
Qed.

Lemma documented_example :
  forall o, documented o false [105; 42; 70; 111; 42]%N [120; 102; 79; 121]%N = true /\
            documented o false [39; 42; 39]%N [42]%N = true /\
            documented o false [42; 42]%N []%N = true /\
            documented o false [102; 111; 42]%N [102]%N = false.
Proof. intros o. repeat split; vm_compute; reflexivity. Qed.
