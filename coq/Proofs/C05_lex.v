(* C05 (second file): from TEXT to tree: the tokeniser inverts a canonical printer of token
   lists: proofs. *)
From TauModel Require Import Base Num Oracles Syntax Generated Token Pratt Grammar.
From TauProofs Require C05 C09.
From Coq Require Import Lia ZArith ZifyBool List Bool Arith.
Import ListNotations.

(* ---- the helper definitions of Properties/C05_lex.v, with identical bodies ---- *)

Definition render_tok (t : token) : str :=
  match t with
  | TIdent w => w
  | TInt z => show_Z z
  | TFloat _ => []                                   (* not printable without the f64 oracle *)
  | TOp BAnd => kw_and
  | TOp BOr => kw_or
  | TOp BEqual => [ch_eq; ch_eq]
  | TOp BGreaterThan => [ch_gt]
  | TOp BGreaterThanOrEqual => [ch_gt; ch_eq]
  | TOp BLessThan => [ch_lt]
  | TOp BLessThanOrEqual => [ch_lt; ch_eq]
  | TMiscNot => kw_not
  | TMod MFlt => [102; 108; 116]%N
  | TMod MInt => [105; 110; 116]%N
  | TMod MNot => kw_not
  | TMod MStr => [115; 116; 114]%N
  | TMatch MSAll => [97; 108; 108]%N
  | TMatch MSOf => [111; 102]%N
  | TDel DComma => [ch_comma]
  | TDel DLeftParen => [ch_lp]
  | TDel DRightParen => [ch_rp]
  end.

Definition glue (t : token) : str :=
  match t with TMod _ | TMatch _ => [] | _ => [ch_space] end.
Definition render (ts : list token) : str := flat_map (fun t => render_tok t ++ glue t) ts.

Definition tok_ok (t : token) : bool :=
  match t with
  | TIdent w => is_word w && negb (str_eqb w kw_and) && negb (str_eqb w kw_or) && negb (str_eqb w kw_not)
  | TInt z => (0 <=? z)%Z && (z <=? 9223372036854775807)%Z
  | TFloat _ => false
  | _ => true
  end.

Fixpoint well_glued (ts : list token) : bool :=
  match ts with
  | [] => true
  | TMod _ :: ((TDel DLeftParen :: _) as rest) | TMatch _ :: ((TDel DLeftParen :: _) as rest) => well_glued rest
  | TMod _ :: _ | TMatch _ :: _ => false
  | _ :: rest => well_glued rest
  end.

Definition render_sp (ts : list (token * nat)) : str :=
  flat_map (fun tn => render_tok (fst tn) ++ glue (fst tn) ++
                      match fst tn with TMod _ | TMatch _ => [] | _ => repeat ch_space (snd tn) end) ts.

(* ====================================================================== *)
(*                         one token at a time                            *)
(* ====================================================================== *)

(* a successful step of the tokeniser, at the level of `tokenise` *)
Lemma tokenise_step : forall o x s t r,
  lex_step o x (x :: s) = Ok (Some t, r) ->
  tokenise o (x :: s) = bind (tokenise o r) (fun ts => Ok (t :: ts)).
Proof.
  intros o x s t r H. unfold tokenise. cbn [length]. rewrite C05.lex_S.
  change chr with N in *. rewrite H. cbn [bind].
  pose proof (C05.lex_step_shrink o x s _ _ H) as Hl.
  rewrite (C05.lex_fuel o (S (length s)) (S (length r)) r) by (change chr with N in *; lia).
  reflexivity.
Qed.

Lemma tokenise_spaces : forall o n s, tokenise o (repeat ch_space n ++ s) = tokenise o s.
Proof.
  intros o n s. induction n as [|n IH]; cbn [repeat app]; [reflexivity|].
  rewrite C05.leading_space. exact IH.
Qed.

(* ---- integers ---- *)

Lemma uint_digits_all : forall d, forallb is_ascii_digit (uint_digits d) = true.
Proof.
  induction d as [ | d IH | d IH | d IH | d IH | d IH | d IH | d IH | d IH | d IH | d IH ];
    cbn [uint_digits forallb]; try rewrite IH; reflexivity.
Qed.

Lemma digit_number_char : forall o x, is_ascii_digit x = true -> is_number_char o x = true.
Proof.
  intros o x H.
  unfold is_number_char, is_numeric, is_ascii, is_ascii_digit, ch_dot in *.
  destruct (x <? 128)%N eqn:Ha; lia.
Qed.

Lemma digit_number_start : forall x, is_ascii_digit x = true -> is_number_start x = true.
Proof. intros x H. unfold is_number_start. rewrite H. apply orb_true_r. Qed.

Lemma digits_number_chars : forall o s, forallb is_ascii_digit s = true ->
  forallb (is_number_char o) s = true.
Proof.
  intros o s H. apply forallb_forall. intros y Hy. apply digit_number_char.
  rewrite forallb_forall in H. apply H. exact Hy.
Qed.

Lemma digits_no_dot : forall s, forallb is_ascii_digit s = true ->
  str_contains_char ch_dot s = false.
Proof.
  unfold str_contains_char.
  induction s as [|x s IH]; intros H; [reflexivity|].
  cbn [forallb] in H. apply andb_true_iff in H. destruct H as [Hx Hs].
  cbn [existsb]. rewrite (IH Hs).
  unfold is_ascii_digit, ch_dot in *. lia.
Qed.

Lemma tok_step_int : forall o z rest,
  (0 <=? z)%Z && (z <=? 9223372036854775807)%Z = true ->
  tokenise o (show_Z z ++ [ch_space] ++ rest) = bind (tokenise o rest) (fun ts => Ok (TInt z :: ts)).
Proof.
  intros o z rest Hz.
  assert (Hr : in_i64 z = true) by (unfold in_i64, i64_min, i64_max; lia).
  pose proof (C09.parse_i64_show z Hr) as Hp.
  assert (Hd : forallb is_ascii_digit (show_Z z) = true).
  { unfold show_Z. destruct (z <? 0)%Z eqn:Hneg; [lia|]. apply uint_digits_all. }
  destruct (show_Z z) as [|x s] eqn:Hs; [discriminate Hp|].
  change chr with N in *. cbn [app].
  assert (Hstep : lex_step o x (x :: s ++ ch_space :: rest) = Ok (Some (TInt z), ch_space :: rest)).
  { unfold lex_step. change chr with N in *.
    assert (Hx : is_ascii_digit x = true).
    { cbn [forallb] in Hd. apply andb_true_iff in Hd. exact (proj1 Hd). }
    rewrite (digit_number_start x Hx).
    change (x :: s ++ ch_space :: rest) with ((x :: s) ++ ch_space :: rest).
    rewrite (C05.cw_stop _ _ _ _ (C05.space_not_number_char o)).
    rewrite (C05.cw_all (is_number_char o) (x :: s) (digits_number_chars o _ Hd)).
    cbn [fst snd app]. rewrite (digits_no_dot _ Hd), Hp. reflexivity. }
  refine (eq_trans (tokenise_step _ _ _ _ _ Hstep) _). rewrite C05.leading_space. reflexivity.
Qed.

(* ---- identifiers ---- *)

Lemma str_eqb_refl : forall a, str_eqb a a = true.
Proof.
  induction a as [|x a IH]; [reflexivity|]. cbn [str_eqb]. rewrite N.eqb_refl, IH. reflexivity.
Qed.

Lemma str_eqb_false_neq : forall a b, str_eqb a b = false -> a <> b.
Proof. intros a b H E. subst b. rewrite str_eqb_refl in H. discriminate H. Qed.

Lemma tok_step_ident : forall o w rest,
  is_word w && negb (str_eqb w kw_and) && negb (str_eqb w kw_or) && negb (str_eqb w kw_not) = true ->
  tokenise o (w ++ [ch_space] ++ rest) = bind (tokenise o rest) (fun ts => Ok (TIdent w :: ts)).
Proof.
  intros o w rest H.
  apply andb_true_iff in H. destruct H as [H Hn].
  apply andb_true_iff in H. destruct H as [H Ho].
  apply andb_true_iff in H. destruct H as [Hw Ha].
  apply negb_true_iff in Hn, Ho, Ha.
  apply C05.keyword_prefix_words_in_context;
    [exact Hw | apply str_eqb_false_neq; exact Ha | apply str_eqb_false_neq; exact Ho
    | apply str_eqb_false_neq; exact Hn].
Qed.

(* ---- every printable token ---- *)

Ltac step o r := etransitivity; [eapply (tokenise_step o _ _ _ r); reflexivity|].

Lemma tok_step : forall o t rest,
  tok_ok t = true -> (glue t = [] -> exists r, rest = ch_lp :: r) ->
  tokenise o (render_tok t ++ glue t ++ rest) = bind (tokenise o rest) (fun ts => Ok (t :: ts)).
Proof.
  intros o t rest Hok Hg.
  destruct t as [d | f | w | z | b | m | | m ].
  - (* delimiters *)
    destruct d; cbn [render_tok glue app];
      step o (ch_space :: rest);
      rewrite C05.leading_space; reflexivity.
  - discriminate Hok.
  - apply tok_step_ident. exact Hok.
  - apply tok_step_int. exact Hok.
  - (* operators *)
    destruct b; cbn [render_tok glue app]; unfold kw_and, kw_or; cbn [app];
      step o (ch_space :: rest);
      rewrite C05.leading_space; reflexivity.
  - (* modifiers: glued to the parenthesis *)
    destruct (Hg eq_refl) as [r Hr]. subst rest.
    destruct m; cbn [render_tok glue app]; unfold kw_not; cbn [app];
      step o (ch_lp :: r); reflexivity.
  - cbn [render_tok glue app]; unfold kw_not; cbn [app].
    step o (ch_space :: rest).
    rewrite C05.leading_space. reflexivity.
  - destruct (Hg eq_refl) as [r Hr]. subst rest.
    destruct m; cbn [render_tok glue app];
      step o (ch_lp :: r); reflexivity.
Qed.

(* ====================================================================== *)
(*                             token lists                                *)
(* ====================================================================== *)

Lemma well_glued_cons : forall t ts, well_glued (t :: ts) = true ->
  well_glued ts = true /\ (glue t = [] -> exists ts', ts = LP :: ts').
Proof.
  intros t ts H.
  destruct t as [d | f | w | z | b | m | | m ]; cbn [well_glued glue] in *;
    try (split; [exact H | intros E; discriminate E]).
  - destruct ts as [|[[ | | ] | | | | | | | ] ts']; try discriminate H.
    split; [exact H | intros _; exists ts'; reflexivity].
  - destruct ts as [|[[ | | ] | | | | | | | ] ts']; try discriminate H.
    split; [exact H | intros _; exists ts'; reflexivity].
Qed.

Lemma tokenise_render_spaces : forall o (tns : list (token * nat)),
  forallb tok_ok (map fst tns) = true -> well_glued (map fst tns) = true ->
  tokenise o (render_sp tns) = Ok (map fst tns).
Proof.
  intros o tns. induction tns as [|[t n] tns IH]; intros Hok Hwg; [reflexivity|].
  cbn [map fst forallb] in Hok, Hwg. apply andb_true_iff in Hok. destruct Hok as [Ht Hok].
  apply well_glued_cons in Hwg. destruct Hwg as [Hwg Hlp].
  specialize (IH Hok Hwg).
  unfold render_sp in *. cbn [flat_map map fst snd].
  rewrite <- !app_assoc.
  rewrite tok_step.
  - assert (E : tokenise o
        (match t with TMod _ | TMatch _ => [] | _ => repeat ch_space n end ++
         flat_map (fun tn => render_tok (fst tn) ++ glue (fst tn) ++
           match fst tn with TMod _ | TMatch _ => [] | _ => repeat ch_space (snd tn) end) tns)
        = Ok (map fst tns)).
    { destruct t; try (rewrite tokenise_spaces); exact IH. }
    rewrite E. reflexivity.
  - exact Ht.
  - intros Hg. destruct (Hlp Hg) as [ts' Hts].
    destruct tns as [|[t' n'] tns']; [discriminate Hts|].
    cbn [map fst] in Hts. injection Hts as Ht' _. subst t'.
    destruct t; try discriminate Hg;
      cbn [flat_map fst snd render_tok glue app]; eexists; reflexivity.
Qed.

Lemma render_render_sp : forall ts, render ts = render_sp (map (fun t => (t, 0)) ts).
Proof.
  induction ts as [|t ts IH]; [reflexivity|].
  unfold render, render_sp in *. cbn [flat_map map fst snd]. rewrite <- IH. f_equal.
  destruct t; cbn [repeat]; rewrite ?app_nil_r; reflexivity.
Qed.

Lemma tokenise_render : forall o ts,
  forallb tok_ok ts = true -> well_glued ts = true ->
  tokenise o (render ts) = Ok ts.
Proof.
  intros o ts Hok Hwg.
  assert (E : map fst (map (fun t : token => (t, 0)) ts) = ts).
  { rewrite map_map. cbn [fst]. apply map_id. }
  rewrite render_render_sp.
  pose proof (tokenise_render_spaces o (map (fun t => (t, 0)) ts)) as H.
  rewrite E in H. exact (H Hok Hwg).
Qed.

(* ---- the grammar produces well-glued token lists ---- *)

Definition wg_k (ts : list token) (e : expr) : Prop :=
  forall k, well_glued k = true -> well_glued (ts ++ k) = true.

Lemma wg_k_app_tok : forall ts1 e1 t ts2 e2 e, glue t <> [] ->
  wg_k ts1 e1 -> wg_k ts2 e2 -> wg_k (ts1 ++ t :: ts2) e.
Proof.
  intros ts1 e1 t ts2 e2 e Ht H1 H2 k Hk.
  rewrite <- app_assoc. apply H1. cbn [app].
  specialize (H2 k Hk).
  destruct t; cbn [glue] in Ht; try (exfalso; apply Ht; reflexivity); exact H2.
Qed.

Lemma g_well_glued :
  (forall ts e, g_atom ts e -> wg_k ts e) /\ (forall ts e, g_un ts e -> wg_k ts e) /\
  (forall ts e, g_cmp ts e -> wg_k ts e) /\ (forall ts e, g_or ts e -> wg_k ts e) /\
  (forall ts e, g_and ts e -> wg_k ts e).
Proof.
  apply C05.g_mutind; intros.
  - intros k Hk. exact Hk.
  - intros k Hk. exact Hk.
  - intros k Hk. exact Hk.
  - intros k Hk. exact Hk.
  - intros k Hk. exact Hk.
  - intros k Hk. exact Hk.
  - intros k Hk. cbn [app well_glued]. rewrite <- app_assoc. apply H0. exact Hk.
  - assumption.
  - intros k Hk. cbn [app well_glued]. apply H0. exact Hk.
  - assumption.
  - apply (wg_k_app_tok ts1 e1 (TOp o) ts2 e2); [discriminate|assumption|assumption].
  - assumption.
  - apply (wg_k_app_tok ts1 e1 (TOp BOr) ts2 e2); [discriminate|assumption|assumption].
  - assumption.
  - apply (wg_k_app_tok ts1 e1 (TOp BAnd) ts2 e2); [discriminate|assumption|assumption].
Qed.

Lemma grammar_well_glued : forall ts e, g_and ts e -> well_glued ts = true.
Proof.
  intros ts e H.
  destruct g_well_glued as [_ [_ [_ [_ Hand]]]].
  pose proof (Hand ts e H [] eq_refl) as Hw. rewrite app_nil_r in Hw. exact Hw.
Qed.

Lemma text_to_tree : forall o ts e,
  g_and ts e -> forallb tok_ok ts = true ->
  bind (tokenise o (render ts)) parse = Ok e.
Proof.
  intros o ts e Hg Hok.
  rewrite (tokenise_render o ts Hok (grammar_well_glued ts e Hg)). cbn [bind].
  apply C05.pratt_complete. exact Hg.
Qed.

Lemma render_example :
  let a := [65%N] in let b := [66%N] in let x := [120%N] in
  let ts := [TMiscNot; TIdent a; TOp BAnd; TDel DLeftParen; TIdent b; TOp BOr; TMod MInt; TDel DLeftParen; TIdent x;
             TDel DRightParen; TOp BGreaterThanOrEqual; TInt 3; TDel DRightParen] in
  forallb tok_ok ts = true /\ well_glued ts = true /\
  render ts = [110; 111; 116; 32; 65; 32; 97; 110; 100; 32; 40; 32; 66; 32; 111; 114; 32; 105; 110; 116; 40; 32; 120; 32; 41; 32;
               62; 61; 32; 51; 32; 41; 32]%N.
Proof. vm_compute. repeat split. Qed.
