(* C05: a keyword is a keyword only before a blank (tokeniser.rs keyword table: "and ", "or ",
   "not "): followed by a tab or a line break the word is an identifier, so `A and<TAB>B` lexes to
   three identifiers and the condition is a load error, never another tree. *)
From Coq Require Import List Bool ZArith Lia.
From TauModel Require Import Base Num Oracles Syntax Generated Token Pratt.
From TauProofs Require C04.
Import ListNotations.

Definition w_and : str := [97; 110; 100]%N.
Definition w_or : str := [111; 114]%N.
Definition w_not : str := [110; 111; 116]%N.

(* the separators that are white space for the tokeniser but not the blank of the keyword table *)
Definition other_space (c : chr) : Prop := (9 <= c <= 13)%N.

Lemma lex_S o : forall n x s,
  lex o (S n) (x :: s) =
  (do r <- lex_step o x (x :: s);
   let '(t, rest) := r in
   do ts <- lex o n rest;
   Ok (match t with Some t => t :: ts | None => ts end)).
Proof. reflexivity. Qed.

Lemma other_space_cases c : other_space c -> c = 9%N \/ c = 10%N \/ c = 11%N \/ c = 12%N \/ c = 13%N.
Proof. unfold other_space. lia. Qed.

Lemma lex_other_space o n c s : other_space c -> length s < n ->
  lex o (S n) (c :: s) = tokenise o s.
Proof.
  intros Hc Hn. rewrite lex_S.
  assert (Hs : lex_step o c (c :: s) = Ok (None, s)).
  { destruct (other_space_cases c Hc) as [E|[E|[E|[E|E]]]]; subst c; reflexivity. }
  change chr with N in *. rewrite Hs. cbn [bind]. unfold tokenise.
  rewrite (C04.lex_fuel o n (S (length s)) s Hn (Nat.lt_succ_diag_r _)).
  destruct (lex o (S (length s)) s); reflexivity.
Qed.

Lemma kw_step o (w : str) c rest :
  (w = w_and \/ w = w_or \/ w = w_not) -> other_space c ->
  match w with x :: _ => lex_step o x (w ++ c :: rest) = Ok (Some (TIdent w), c :: rest) | [] => False end.
Proof.
  intros Hw Hc.
  destruct (other_space_cases c Hc) as [E|[E|[E|[E|E]]]]; subst c;
  destruct Hw as [E|[E|E]]; subst w; reflexivity.
Qed.

Theorem keyword_needs_blank : forall o w c rest,
  (w = w_and \/ w = w_or \/ w = w_not) -> other_space c ->
  tokenise o (w ++ c :: rest) = bind (tokenise o rest) (fun ts => Ok (TIdent w :: ts)).
Proof.
  intros o w c rest Hw Hc. pose proof (kw_step o w c rest Hw Hc) as Hs.
  destruct w as [|x w]; [contradiction|].
  unfold tokenise at 1. change ((x :: w) ++ c :: rest) with (x :: (w ++ c :: rest)) in *.
  cbn [length]. rewrite lex_S. change chr with N in *. rewrite Hs. cbn [bind].
  assert (Hl : exists n, length (w ++ c :: rest) = S n /\ length rest < S n).
  { rewrite app_length. cbn [length]. exists (length w + length rest). lia. }
  destruct Hl as [n [Hn Hlt]]. change chr with N in *. rewrite Hn.
  pose proof (lex_other_space o (S n) c rest Hc Hlt) as E. change chr with N in E. rewrite E.
  destruct (tokenise o rest); reflexivity.
Qed.

(* `A and<TAB>B`: three identifiers, and the parser rejects them *)
Example a_and_tab_b o :
  tokenise o [65; 32; 97; 110; 100; 9; 66]%N = Ok [TIdent [65%N]; TIdent w_and; TIdent [66%N]].
Proof. reflexivity. Qed.
Example a_and_tab_b_rejected :
  parse [TIdent [65%N]; TIdent w_and; TIdent [66%N]] = Err EInvalidExpr.
Proof. vm_compute. reflexivity. Qed.
(* non-vacuity of the contrast: with a blank the same text is the conjunction's token list *)
Example a_and_b o :
  tokenise o [65; 32; 97; 110; 100; 32; 66]%N = Ok [TIdent [65%N]; TOp BAnd; TIdent [66%N]].
Proof. reflexivity. Qed.
