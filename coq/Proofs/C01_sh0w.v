(* C01 with the hypothesis sh0w in place of sh0 (after crate fix D14).

   Properties/C01_d15.scope_quant_all_sound_noq asks `sh0 t` (a quantifier never holds a
   one-member group and no and/or chain) of every staged tree.  Since the repair D14 shake_0
   keeps the group a quantifier holds; C01_d14.shake0_exact_no_sh0_alt proves shake_0 exact under
   sh0w (no quantifier operand is an and/or CHAIN).  Here every step of the chain that leads to
   scope_quant_all_sound_noq and mentions sh0 is redone with sh0w:

   (1) one identifier-free tree through the shake pass (C01_nested.shake_body_run): the invariant
       C01.inv is replaced by C01_d14.inv2, shake_0 exactness by C01_d14.shake0_post2; the run of
       shake_1 (shake1_truth_run / shake1_exact_run) needs wf_body and cmp_leaves of the shaken
       tree only, both follow from inv2;
   (2) a body that is not a group keeps its head through shake (C01_d15.shake_head), from inv2;
   (3) the entry-wise relation of an identifier body and its shaken form (C01_d15.shake_entries_BR);
   (4) shake_0 on a condition (identifiers are leaves; C01_shake1.shake0_postc / shake_cond_exact):
       redone with invc2 = invc with qop_ok for quant_operand_ok (module CondW);
   (5) the whole rule without matrix (C01_d15.optimise_no_matrix_nested_q);
   (6) the matrix part of C01_d15.scope_quant_all_sound_noq never mentions sh0: the composition is
       the same, on top of (5). *)
From Coq Require Import List ZArith Bool Permutation Lia.
From TauModel Require Import Base Num Oracles Syntax Generated Token Pratt Ident Value Yaml ParseMap Solver Rule Keys Optimiser Known.
From TauModel Require Scope Scope2 Scope4 Order.
Import ListNotations.
From TauProofs Require C01 C03 C03_opt C03_matrix C01_shake1 C01_loaded C01_nested C01_scope2
     C01_matrix C01_matrix_nested C01_matrix_quant C01_d14 C12_order.
From TauProofs Require Import C01_d15.   (* brings S1 := C01_shake1, N := C01_nested *)
Module D14 := C01_d14.

(* ====================================================================================== *)
(* 0. the model's sh0w / qop_ok are the ones of Proofs/C01_d14.v                          *)
(* ====================================================================================== *)
Lemma qop_ok_eq : forall e, Scope4.qop_ok e = D14.qop_ok e.
Proof. reflexivity. Qed.
Lemma sh0w_eq : forall e, Scope4.sh0w e = D14.sh0w e.
Proof. reflexivity. Qed.

Lemma input_ok_split3w : forall t,
  Scope4.sh0w t && Scope.no_dneg t && Scope.shx t = true ->
  D14.sh0w t = true /\ C01.no_dneg t = true /\ C01.shx t = true.
Proof.
  intros t H. apply andb_prop in H. destruct H as [H H3]. apply andb_prop in H. destruct H as [H1 H2].
  repeat split; assumption.
Qed.

(* ====================================================================================== *)
(* 1. the invariant inv2 gives wf_body and cmp_leaves; one tree through the shake pass    *)
(* ====================================================================================== *)
Module Inv2.
Import C01 C01_shake1.
Lemma inv2_wf : forall e, D14.inv2 e = true -> wf_body e = true.
Proof.
  induction e as [e IH] using size_ind. intros Hi.
  destruct e as [s l|l s r|b|f m|f|z|i|z|k e|cols rows|e|f e| |s f c]; try discriminate Hi;
    cbn [D14.inv2 wf_body] in *.
  - apply andb_true_iff in Hi. destruct Hi as [Hs Hl].
    replace (is_and_or_op s) with true by (destruct s; try discriminate; reflexivity).
    destruct l as [|a l']; [discriminate|]. cbn [andb].
    apply forallb_intro. intros x Hx. apply IH; [apply (size_member s _ x Hx)|apply (forallb_In _ _ _ Hl Hx)].
  - destruct s; cbn [is_and_or is_and_or_op] in *; try reflexivity;
      (apply andb_true_iff in Hi; destruct Hi as [H1 H2];
       rewrite (IH l), (IH r); try assumption; try reflexivity; cbn [expr_size]; lia).
  - apply andb_true_iff in Hi. destruct Hi as [_ Hi]. apply IH; [cbn [expr_size]; lia|exact Hi].
  - apply andb_true_iff in Hi. destruct Hi as [_ Hi]. apply IH; [cbn [expr_size]; lia|exact Hi].
  - apply andb_true_iff in Hi. destruct Hi as [_ Hi]. apply IH; [cbn [expr_size]; lia|exact Hi].
  - reflexivity.
Qed.

Lemma inv2_cl : forall e, D14.inv2 e = true -> cmp_leaves e = true.
Proof.
  induction e as [e IH] using size_ind. intros Hi.
  destruct e as [s l|l s r|b|f m|f|z|i|z|k e|cols rows|e|f e| |s f c]; try discriminate Hi;
    cbn [D14.inv2 cmp_leaves] in *.
  - apply andb_true_iff in Hi. destruct Hi as [Hs Hl].
    destruct l as [|a l']; [discriminate|].
    apply forallb_intro. intros x Hx. apply IH; [apply (size_member s _ x Hx)|apply (forallb_In _ _ _ Hl Hx)].
  - destruct (is_and_or s); [|exact Hi].
    apply andb_true_iff in Hi. destruct Hi as [H1 H2].
    rewrite (IH l), (IH r); try assumption; try reflexivity; cbn [expr_size]; lia.
  - apply andb_true_iff in Hi. destruct Hi as [_ Hi]. apply IH; [cbn [expr_size]; lia|exact Hi].
  - apply andb_true_iff in Hi. destruct Hi as [_ Hi]. apply IH; [cbn [expr_size]; lia|exact Hi].
  - apply andb_true_iff in Hi. destruct Hi as [_ Hi]. apply IH; [cbn [expr_size]; lia|exact Hi].
  - reflexivity.
Qed.

End Inv2.

(* C01_nested.shake_body_run with sh0w *)
Lemma shake_body_run_w : forall o ord neg b (d : doc),
  (forall l, Permutation (ord l) l) ->
  wf_body b = true -> D14.sh0w b = true -> C01.no_dneg b = true -> C01.shx b = true ->
  N.shake1_safe ord neg (shake_fuel (ok_or (shake0 (shake_fuel b) b) b)) (ok_or (shake0 (shake_fuel b) b) b) = true ->
  exists b2, shake ord b = Ok b2 /\ wf_body b2 = true /\
    (solve_body o b2 (pure_doc d) = Ok T <-> solve_body o b (pure_doc d) = Ok T) /\
    (neg = true -> solve_body o b2 (pure_doc d) = solve_body o b (pure_doc d)).
Proof.
  intros o ord neg b d Hperm Hw H1 H2 H3 Hs.
  assert (Hi : D14.inv2 b = true) by (apply (D14.inv2_of b false); auto using C01.no_dneg_here).
  pose proof (Inv2.inv2_cl b Hi) as Hc.
  destruct (C03_opt.shake0_good C03_opt.nokey (shake_fuel b) b (C03_opt.gb_of_wf_body b Hw Hc)) as [b0 [H0 G0]].
  rewrite H0 in Hs. cbn [ok_or] in Hs.
  destruct (D14.shake0_post2 o _ b b0 Hi H0) as [Hi0 [_ [_ [_ [E0 _]]]]].
  pose proof (Inv2.inv2_wf b0 Hi0) as Hw0. pose proof (Inv2.inv2_cl b0 Hi0) as Hc0.
  specialize (E0 (pure_doc d)).
  exists (shake1 ord (shake_fuel b0) b0). split; [unfold shake; rewrite H0; reflexivity|].
  split; [apply C03_opt.gb_wf_body; apply (C03_opt.shake1_good ord C03_opt.nokey); exact G0|]. split.
  - rewrite <- E0. destruct neg.
    + rewrite (N.shake1_exact_run o ord _ b0 d Hperm Hw0 Hc0 Hs). tauto.
    + apply (N.shake1_truth_run o ord _ b0 d Hperm Hw0 Hc0 Hs).
  - intros ->. rewrite <- E0. apply (N.shake1_exact_run o ord _ b0 d Hperm Hw0 Hc0 Hs).
Qed.

(* ====================================================================================== *)
(* 2. a body that is not a group keeps its head through shake (from inv2)                  *)
(* ====================================================================================== *)
Lemma shake0_head2 : forall fuel e e', D14.inv2 e = true -> top_ok e = true ->
  (forall s l, e <> EGroup s l) -> shake0 fuel e = Ok e' -> same_head e e'.
Proof.
  intros [|fu] e e' Hi Ht Hng H.
  { injection H as <-. left. reflexivity. }
  destruct e as [s l|l s r|b|f m|f|x|i|z|k e|cols rows|e|f e| |s f c]; try discriminate Hi.
  - exfalso. exact (Hng s l eq_refl).
  - cbn [top_ok] in Ht. apply negb_true_iff in Ht.
    rewrite (C01.shake0_bexp_cmp fu l s r Ht) in H.
    apply C01.bind_ok_inv in H. destruct H as [l' [_ H]].
    apply C01.bind_ok_inv in H. destruct H as [r' [_ H]]. injection H as <-.
    right. split; reflexivity.
  - right. split; [reflexivity|].
    destruct (C01.shake0_match_inv _ _ _ _ H) as [(s0 & l0 & l' & _ & _ & ->)|(_ & x & _ & ->)]; reflexivity.
  - cbn [D14.inv2] in Hi. apply andb_true_iff in Hi. destruct Hi as [Hh Hi].
    apply negb_true_iff in Hh. cbn [shake0] in H.
    apply C01.bind_ok_inv in H. destruct H as [x [Hx H]].
    destruct (D14.shake0_post2 C01.o0 fu e x Hi Hx) as [_ [P2 _]].
    assert (Hhx : C01.head_neg x = false).
    { destruct (C01.head_neg x) eqn:E; [|reflexivity]. rewrite (P2 eq_refl) in Hh. discriminate Hh. }
    right. split; [reflexivity|].
    destruct x; try (injection H as <-; reflexivity). discriminate Hhx.
  - cbn [shake0] in H. apply C01.bind_ok_inv in H. destruct H as [x [_ H]]. injection H as <-.
    right. split; reflexivity.
  - injection H as <-. left. reflexivity.
Qed.

Lemma inv2_nongroup_head : forall e, D14.inv2 e = true -> (forall s l, e <> EGroup s l) ->
  (exists s f c, e = ESearch s f c) \/ C01.other_q e = true.
Proof.
  intros e Hi Hng. destruct e; try discriminate Hi; try (right; reflexivity).
  - exfalso. exact (Hng _ _ eq_refl).
  - left. eauto.
Qed.

Lemma shake_head2 : forall ord e e', D14.inv2 e = true -> top_ok e = true ->
  (forall s l, e <> EGroup s l) -> shake ord e = Ok e' -> same_head e e'.
Proof.
  intros ord e e' Hi Ht Hng H. unfold shake in H.
  apply C01.bind_ok_inv in H. destruct H as [e0 [H0 H]]. injection H as <-.
  destruct (shake0_head2 _ _ _ Hi Ht Hng H0) as [->|[Q1 Q2]].
  - destruct (inv2_nongroup_head e Hi Hng) as [(s & f & c & ->)|Hq].
    + left. apply S1.shake1_search.
    + right. split; [exact Hq|apply S1.shake1_other_q; exact Hq].
  - right. split; [exact Q1|apply S1.shake1_other_q; exact Q2].
Qed.

(* ====================================================================================== *)
(* 3. one identifier body through the shake pass, entry by entry (C01_d15.shake_entries_BR) *)
(* ====================================================================================== *)
Lemma shake_entries_BR_w : forall o ord neg b (d : doc),
  (forall l, Permutation (ord l) l) ->
  wf_body b = true -> D14.sh0w b = true -> C01.no_dneg b = true -> C01.shx b = true ->
  top_ok b = true ->
  forallb (fun x => let m := ok_or (shake0 (shake_fuel x) x) x in
                    N.shake1_safe ord neg (shake_fuel m) m) (N.entry_trees b) = true ->
  exists b2, entries (shake ord) b = Ok b2 /\ wf_body b2 = true /\ BR o (pure_doc d) neg b b2.
Proof.
  intros o ord neg b d Hperm Hw H1 H2 H3 Ht Hs.
  pose proof (C03.npd_pure d) as Hd.
  destruct (C01.entries_rel (shake ord)
              (fun x => wf_body x = true /\ D14.sh0w x = true /\ C01.no_dneg x = true /\ C01.shx x = true /\
                        N.shake1_safe ord neg (shake_fuel (ok_or (shake0 (shake_fuel x) x) x))
                                      (ok_or (shake0 (shake_fuel x) x) x) = true)
              (fun x y => shake ord x = Ok y /\ wf_body y = true /\ vrel o (pure_doc d) neg x y) b)
    as [b2 [Hb2 Hrel]].
  - intros x [Wx [X1 [X2 [X3 X4]]]].
    destruct (shake_body_run_w o ord neg x d Hperm Wx X1 X2 X3 X4) as [y [Hy [Wy [Ty Ey]]]].
    exists y. split; [exact Hy|]. split; [exact Hy|]. split; [exact Wy|].
    destruct (C03.solve_body_ok o x (pure_doc d) Wx Hd) as [v Ev].
    destruct (C03.solve_body_ok o y (pure_doc d) Wy Hd) as [v' Ev'].
    exists v, v'. split; [exact Ev|]. split; [exact Ev'|].
    rewrite Ev, Ev' in Ty, Ey. destruct neg; cbn [N.rel].
    + specialize (Ey eq_refl). injection Ey as Ey. exact Ey.
    + split; intros X; [assert (Y : Ok v = Ok T) by (apply Ty; rewrite X; reflexivity)
                       |assert (Y : Ok v' = Ok T) by (apply Ty; rewrite X; reflexivity)];
        injection Y as Y; exact Y.
  - destruct b as [s l| | | | | | | | | | | | |]; cbn [N.entry_trees forallb] in Hs;
      try (rewrite andb_true_r in Hs; auto).
    intros x Hx. pose proof (C01.forallb_In _ _ _ Hs Hx) as Sx. cbn beta zeta in Sx.
    cbn [D14.sh0w] in H1.
    split; [exact (C01.wf_body_member _ _ _ Hw Hx)|]. split; [exact (C01.forallb_In _ _ _ H1 Hx)|].
    split; [exact (C01.no_dneg_member _ _ _ H2 Hx)|]. split; [exact (C01.shx_member _ _ _ H3 Hx)|exact Sx].
  - exists b2. split; [exact Hb2|].
    assert (Hi : D14.inv2 b = true) by (apply (D14.inv2_of b false); auto using C01.no_dneg_here).
    destruct (C01.is_group_dec b) as [[s [l ->]]|Hng].
    + destruct Hrel as [l' [-> HF]]. pose proof (C01.wf_body_group _ _ Hw) as Hsg. split.
      * cbn [wf_body]. change (is_and_or_op s) with (is_and_or s). rewrite Hsg. cbn [andb].
        eapply C01.Forall2_forallb; [exact HF|]. intros x y _ [_ [Wy _]]. exact Wy.
      * cbn [BR]. exists l'. split; [reflexivity|].
        eapply C01.Forall2_In_impl; [exact HF|]. intros x y _ _ [_ [_ R]]. exact R.
    + assert (Hq : shake ord b = Ok b2 /\ wf_body b2 = true /\ vrel o (pure_doc d) neg b b2).
      { destruct b; try exact Hrel. exfalso. exact (Hng _ _ eq_refl). }
      destruct Hq as [Hsk [W2 R2]]. split; [exact W2|].
      assert (HB : vrel o (pure_doc d) neg b b2 /\ same_head b b2).
      { split; [exact R2|exact (shake_head2 ord b b2 Hi Ht Hng Hsk)]. }
      destruct b; try exact HB. exfalso. exact (Hng _ _ eq_refl).
Qed.

(* ====================================================================================== *)
(* 4. shake_0 on a condition (identifiers are leaves): C01_shake1 Part E with qop_ok       *)
(* ====================================================================================== *)
Module CondW.
Import C01 C01_shake1.

Fixpoint invc2 (e : expr) : bool :=
  match e with
  | EGroup s l => is_and_or s && match l with [] => false | _ => forallb invc2 l end
  | EBexp l s r => if is_and_or s then invc2 l && invc2 r else leaf l && leaf r
  | EMatch _ e' => D14.qop_ok e' && invc2 e'
  | ENegate e' => negb (head_neg e') && invc2 e'
  | ESearch _ _ _ | EIdent _ => true
  | _ => false
  end.

Lemma invc2_of : forall ids e n,
  wf_cond ids e = true -> no_nested e = true -> D14.sh0w e = true ->
  exists_sub dneg_here n e = false -> shx e = true ->
  invc2 e = true.
Proof.
  intros ids. induction e as [e IH] using size_ind. intros n Hwf Hnn Hsh Hdn Hx.
  destruct e as [s l|l s r|b|f m|f|x|i|z|k e|cols rows|e|f e| |s f c];
    try discriminate Hwf; try discriminate Hnn.
  - cbn [wf_cond no_nested D14.sh0w exists_sub shx invc2 dneg_here orb] in *.
    apply andb_true_iff in Hwf. destruct Hwf as [Hs Hwf].
    replace (is_and_or s) with true by (destruct s; try discriminate; reflexivity).
    cbn [andb]. destruct l as [|a l']; [discriminate|].
    apply forallb_intro. intros x Hin. apply (IH x) with (n := n).
    + apply (size_member s _ x Hin).
    + apply (forallb_In _ _ _ Hwf Hin).
    + apply (forallb_In _ _ _ Hnn Hin).
    + apply (forallb_In _ _ _ Hsh Hin).
    + apply (existsb_false_In _ _ _ Hdn Hin).
    + apply (forallb_In _ _ _ Hx Hin).
  - cbn [wf_cond no_nested D14.sh0w exists_sub shx invc2 dneg_here orb] in *.
    replace (is_and_or_op s) with (is_and_or s) in Hwf by (destruct s; reflexivity).
    destruct (is_and_or s); [|exact Hx].
    apply andb_true_iff in Hwf. destruct Hwf as [H1 H2].
    apply andb_true_iff in Hnn. destruct Hnn as [N1 N2].
    apply andb_true_iff in Hsh. destruct Hsh as [H3 H4].
    apply orb_false_iff in Hdn. destruct Hdn as [H5 H6].
    apply andb_true_iff in Hx. destruct Hx as [H7 H8].
    rewrite (IH l) with (n := n), (IH r) with (n := n); try assumption; try (cbn [expr_size]; lia).
  - reflexivity.
  - cbn [wf_cond no_nested D14.sh0w shx invc2] in *.
    apply andb_true_iff in Hsh. destruct Hsh as [H3 H4]. rewrite H3. cbn [andb].
    destruct k as [|c]; cbn [exists_sub dneg_here orb] in Hdn.
    + apply (IH e) with (n := n); try assumption. cbn [expr_size]. lia.
    + apply (IH e) with (n := (n || (c =? 0)%Z)); try assumption. cbn [expr_size]. lia.
  - cbn [wf_cond no_nested D14.sh0w exists_sub shx invc2 dneg_here] in *.
    apply orb_false_iff in Hdn. destruct Hdn as [H5 H6]. rewrite H5. cbn [negb andb].
    apply (IH e) with (n := true); try assumption. cbn [expr_size]. lia.
  - reflexivity.
Qed.

Lemma invc2_nn : forall e, invc2 e = true -> no_nested e = true.
Proof.
  induction e as [e IH] using size_ind. intros Hi.
  destruct e as [s l|l s r|b|f m|f|z|i|z|k e|cols rows|e|f e| |s f c]; try discriminate Hi;
    try reflexivity; cbn [invc2 no_nested] in *.
  - apply andb_true_iff in Hi. destruct Hi as [Hs Hl].
    destruct l as [|a l']; [discriminate|].
    apply forallb_intro. intros x Hx. apply IH; [apply (size_member s _ x Hx)|apply (forallb_In _ _ _ Hl Hx)].
  - destruct (is_and_or s).
    + apply andb_true_iff in Hi. destruct Hi as [H1 H2].
      rewrite (IH l), (IH r); try assumption; try reflexivity; cbn [expr_size]; lia.
    + apply andb_true_iff in Hi. destruct Hi as [H1 H2]. unfold leaf in *.
      apply negb_true_iff in H1. apply negb_true_iff in H2.
      destruct l; try discriminate H1; destruct r; try discriminate H2; reflexivity.
  - apply andb_true_iff in Hi. destruct Hi as [_ Hi]. apply IH; [cbn [expr_size]; lia|exact Hi].
  - apply andb_true_iff in Hi. destruct Hi as [_ Hi]. apply IH; [cbn [expr_size]; lia|exact Hi].
Qed.

Lemma invc2_cl : forall e, invc2 e = true -> cmp_leaves e = true.
Proof.
  induction e as [e IH] using size_ind. intros Hi.
  destruct e as [s l|l s r|b|f m|f|z|i|z|k e|cols rows|e|f e| |s f c]; try discriminate Hi;
    try reflexivity; cbn [invc2 cmp_leaves] in *.
  - apply andb_true_iff in Hi. destruct Hi as [Hs Hl].
    destruct l as [|a l']; [discriminate|].
    apply forallb_intro. intros x Hx. apply IH; [apply (size_member s _ x Hx)|apply (forallb_In _ _ _ Hl Hx)].
  - destruct (is_and_or s); [|exact Hi].
    apply andb_true_iff in Hi. destruct Hi as [H1 H2].
    rewrite (IH l), (IH r); try assumption; try reflexivity; cbn [expr_size]; lia.
  - apply andb_true_iff in Hi. destruct Hi as [_ Hi]. apply IH; [cbn [expr_size]; lia|exact Hi].
  - apply andb_true_iff in Hi. destruct Hi as [_ Hi]. apply IH; [cbn [expr_size]; lia|exact Hi].
Qed.

Lemma invc2_group : forall s a, invc2 (EGroup s a) = true ->
  is_and_or s = true /\ forallb invc2 a = true /\ exists a1 a', a = a1 :: a'.
Proof.
  intros s a H. cbn [invc2] in H. apply andb_true_iff in H. destruct H as [Hs H].
  destruct a as [|a1 a']; [discriminate|]. eauto.
Qed.

Lemma invc2_group_intro : forall s a, is_and_or s = true -> forallb invc2 a = true -> a <> [] ->
  invc2 (EGroup s a) = true.
Proof.
  intros s a Hs Ha Hne. cbn [invc2]. rewrite Hs. destruct a; [congruence|exact Ha].
Qed.

Section CondShake2.
Variable o : oracles.
Variable ids : list (str * expr).
Local Notation slv := (solve_cond o ids).

Lemma flatc_spec2 : forall s l' r' L, is_and_or s = true -> invc2 l' = true -> invc2 r' = true ->
  flat s l' r' = Some L ->
  invc2 (EGroup s L) = true /\ long L /\
  forall d, slv (EGroup s L) d = slv (EBexp l' s r') d.
Proof.
  intros s l' r' L Hs Hl Hr Hf. unfold flat in Hf.
  destruct (grp s l') as [a|] eqn:G1; destruct (grp s r') as [b|] eqn:G2.
  - injection Hf as <-. apply grp_some in G1. apply grp_some in G2. subst l' r'.
    destruct (invc2_group s a Hl) as [_ [Ha [a1 [a' ->]]]].
    destruct (invc2_group s b Hr) as [_ [Hb [b1 [b' ->]]]].
    split; [|split].
    + apply invc2_group_intro; [exact Hs| |discriminate]. rewrite forallb_app, Ha, Hb. reflexivity.
    + destruct a' as [|a2 a']; cbn [app]; unfold long; eauto.
    + intros d. destruct s; try discriminate.
      * rewrite cs_bexp_and, and2_fold.
        rewrite (and_inline0 _ (map (fun x (_ : unit) => slv x d) (a1 :: a')) _ (cs_group_and o ids _ d)).
        cbn [app].
        rewrite (and_inline _ _ (map (fun x (_ : unit) => slv x d) (b1 :: b')) [] (cs_group_and o ids _ d)).
        rewrite app_nil_r, <- map_app. apply cs_group_and.
      * rewrite cs_bexp_or, or2_fold.
        rewrite (or_inline0 _ (map (fun x (_ : unit) => slv x d) (a1 :: a')) _ (cs_group_or o ids _ d)).
        cbn [app].
        rewrite (or_inlineM _ _ (map (fun x (_ : unit) => slv x d) (b1 :: b')) [] (cs_group_or o ids _ d)).
        rewrite app_nil_r, <- map_app. apply cs_group_or.
  - injection Hf as <-. apply grp_some in G1. subst l'.
    destruct (invc2_group s a Hl) as [_ [Ha [a1 [a' ->]]]].
    split; [|split].
    + apply invc2_group_intro; [exact Hs| |discriminate].
      rewrite forallb_app, Ha. cbn [forallb]. rewrite Hr. reflexivity.
    + destruct a' as [|a2 a']; cbn [app]; unfold long; eauto.
    + intros d. destruct s; try discriminate.
      * rewrite cs_bexp_and, and2_fold.
        rewrite (and_inline0 _ (map (fun x (_ : unit) => slv x d) (a1 :: a')) _ (cs_group_and o ids _ d)).
        rewrite cs_group_and, map_app. reflexivity.
      * rewrite cs_bexp_or, or2_fold.
        rewrite (or_inline0 _ (map (fun x (_ : unit) => slv x d) (a1 :: a')) _ (cs_group_or o ids _ d)).
        rewrite cs_group_or, map_app. reflexivity.
  - injection Hf as <-. apply grp_some in G2. subst r'.
    destruct (invc2_group s b Hr) as [_ [Hb [b1 [b' ->]]]].
    split; [|split].
    + apply invc2_group_intro; [exact Hs| |discriminate]. cbn [forallb]. rewrite Hl. exact Hb.
    + unfold long; eauto.
    + intros d. destruct s; try discriminate.
      * rewrite cs_bexp_and, and2_fold.
        rewrite (and_inline1 _ _ (map (fun x (_ : unit) => slv x d) (b1 :: b')) [] (cs_group_and o ids _ d)).
        rewrite app_nil_r. apply cs_group_and.
      * rewrite cs_bexp_or, or2_fold.
        rewrite (or_inline1 _ _ (map (fun x (_ : unit) => slv x d) (b1 :: b')) [] (cs_group_or o ids _ d)).
        rewrite app_nil_r. apply cs_group_or.
  - destruct (bx s l') as [[x y]|] eqn:B1.
    + injection Hf as <-. apply bx_some in B1. subst l'.
      cbn [invc2] in Hl. rewrite Hs in Hl. apply andb_true_iff in Hl. destruct Hl as [Hx Hy].
      split; [|split].
      * apply invc2_group_intro; [exact Hs| |discriminate]. cbn [forallb]. rewrite Hx, Hy, Hr. reflexivity.
      * unfold long; eauto.
      * intros d. destruct s; try discriminate.
        -- rewrite cs_bexp_and, and2_fold.
           rewrite (and_inline0 _ [fun _ => slv x d; fun _ => slv y d] _
                      (eq_trans (cs_bexp_and o ids x y d) (and2_fold _ _))).
           apply cs_group_and.
        -- rewrite cs_bexp_or, or2_fold.
           rewrite (or_inline0 _ [fun _ => slv x d; fun _ => slv y d] _
                      (eq_trans (cs_bexp_or o ids x y d) (or2_fold _ _))).
           apply cs_group_or.
    + destruct (bx s r') as [[y z]|] eqn:B2; [|discriminate].
      injection Hf as <-. apply bx_some in B2. subst r'.
      cbn [invc2] in Hr. rewrite Hs in Hr. apply andb_true_iff in Hr. destruct Hr as [Hy Hz].
      split; [|split].
      * apply invc2_group_intro; [exact Hs| |discriminate]. cbn [forallb]. rewrite Hl, Hy, Hz. reflexivity.
      * unfold long; eauto.
      * intros d. destruct s; try discriminate.
        -- rewrite cs_bexp_and, and2_fold.
           rewrite (and_inline1 _ _ [fun _ => slv y d; fun _ => slv z d] []
                      (eq_trans (cs_bexp_and o ids y z d) (and2_fold _ _))).
           apply cs_group_and.
        -- rewrite cs_bexp_or, or2_fold.
           rewrite (or_inline1 _ _ [fun _ => slv y d; fun _ => slv z d] []
                      (eq_trans (cs_bexp_or o ids y z d) (or2_fold _ _))).
           apply cs_group_or.
Qed.

(* what one run of shake_0 guarantees *)
Definition postc2 (e e' : expr) : Prop :=
  invc2 e' = true /\
  (head_neg e' = true -> head_neg e = true) /\
  (D14.qng e = true -> D14.qng e' = true) /\
  (forall d, slv e' d = slv e d) /\
  (forall k d, D14.qng e = true ->
               slv (EMatch k e') d = slv (EMatch k e) d).

Ltac split_postc2 :=
  unfold postc2; (split; [|split; [|split; [|split]]]).

Lemma postc2_refl : forall e, invc2 e = true -> postc2 e e.
Proof. intros e Hi. split_postc2; auto. Qed.

Lemma shake0_postc2 : forall fuel e e', invc2 e = true -> shake0 fuel e = Ok e' -> postc2 e e'.
Proof.
  induction fuel as [|fu IH]; intros e e' Hi H.
  { injection H as <-. apply postc2_refl. exact Hi. }
  destruct e as [s l|l s r|b|f m|f|x|i|z|k e|cols rows|e|f e| |s f c]; try discriminate.
  - (* ---------------- EGroup ---------------- *)
    destruct (invc2_group s l Hi) as [Hs [Hl [y1 [l0 El]]]].
    cbn [shake0] in H. rewrite Hs in H. cbn [negb] in H.
    apply bind_ok_inv in H. destruct H as [l' [Hl' H]].
    pose proof (mapM_Forall2 _ _ _ Hl') as HF.
    assert (HP : Forall2 postc2 l l').
    { eapply Forall2_In_impl; [exact HF|]. intros x y Hx _ Hxy. cbn beta in Hxy.
      apply IH; [|exact Hxy]. apply (forallb_In _ _ _ Hl Hx). }
    assert (Hil' : forallb invc2 l' = true).
    { eapply Forall2_forallb; [exact HP|]. intros x y _ Hp. apply Hp. }
    assert (Hsm : semc_members o ids l l').
    { eapply Forall2_In_impl; [exact HP|]. intros x y _ _ Hp. apply Hp. }
    subst l. destruct l0 as [|y2 l0].
    + (* one member: unwrapped *)
      inversion HP as [|a b la lb Hp1 Hrest]; subst. inversion Hrest; subst.
      injection H as <-. clear HP Hrest HF.
      destruct Hp1 as [P1 [P2 [P4 [P6 P8]]]].
      split_postc2.
      * exact P1.
      * exact P2.
      * intros Hq. discriminate Hq.
      * intros d. rewrite P6. symmetry. apply cs_group_single. exact Hs.
      * intros k d Hq. discriminate Hq.
    + (* two or more members *)
      inversion HP as [|a b la lb Hp1 Hrest]; subst.
      inversion Hrest as [|a2 b2 la2 lb2 Hp2 Hrest2]; subst.
      injection H as <-.
      assert (Hi' : invc2 (EGroup s (b :: b2 :: lb2)) = true)
        by (apply invc2_group_intro; [exact Hs|exact Hil'|discriminate]).
      split_postc2.
      * exact Hi'.
      * intros Hc. discriminate Hc.
      * intros Hc. discriminate Hc.
      * intros d. apply semc_group_cong; assumption.
      * intros k d Hc. discriminate Hc.
  - (* ---------------- EBexp ---------------- *)
    assert (Hi0 := Hi). cbn [invc2] in Hi. destruct (is_and_or s) eqn:Hs.
    + apply andb_true_iff in Hi. destruct Hi as [Hil Hir].
      rewrite shake0_bexp_andor in H by exact Hs.
      apply bind_ok_inv in H. destruct H as [l' [Hl' H]].
      apply bind_ok_inv in H. destruct H as [r' [Hr' H]].
      pose proof (IH l l' Hil Hl') as Pl. pose proof (IH r r' Hir Hr') as Pr.
      assert (Hil' : invc2 l' = true) by apply Pl.
      assert (Hir' : invc2 r' = true) by apply Pr.
      assert (Hsl : forall d, slv l' d = slv l d) by apply Pl.
      assert (Hsr : forall d, slv r' d = slv r d) by apply Pr.
      pose proof (semc_bexp_cong o ids l l' s r r' Hs Hsl Hsr) as Hcong.
      pose proof (D14.qng_andor_false l s r Hs) as Hq.
      destruct (flat s l' r') as [L|] eqn:Hflat.
      * destruct (flatc_spec2 s l' r' L Hs Hil' Hir' Hflat) as [HiL [Hlong HsL]].
        destruct (long_heads s L Hlong) as [Hn1 [Hn2 [Hn3 Hn4]]].
        destruct (IH _ _ HiL H) as [P1 [P2 [P4 [P6 P8]]]].
        assert (Hsem : forall d, slv e' d = slv (EBexp l s r) d).
        { intros d. rewrite P6, HsL. apply Hcong. }
        split_postc2.
        -- exact P1.
        -- intros Hc. rewrite (P2 Hc) in Hn1. discriminate.
        -- intros Hc. rewrite Hc in Hq. discriminate.
        -- exact Hsem.
        -- intros k d Hc. rewrite Hc in Hq. discriminate.
      * injection H as <-.
        assert (Hi' : invc2 (EBexp l' s r') = true) by (cbn [invc2]; rewrite Hs, Hil', Hir'; reflexivity).
        split_postc2.
        -- exact Hi'.
        -- intros Hc. discriminate Hc.
        -- intros Hc. rewrite Hc in Hq. discriminate.
        -- exact Hcong.
        -- intros k d Hc. rewrite Hc in Hq. discriminate.
    + apply andb_true_iff in Hi. destruct Hi as [Hll Hlr].
      rewrite shake0_bexp_cmp in H by exact Hs.
      rewrite (shake0_leaf fu l Hll), (shake0_leaf fu r Hlr) in H. cbn [bind] in H.
      injection H as <-. apply postc2_refl. exact Hi0.
  - (* ---------------- EIdent ---------------- *)
    injection H as <-. apply postc2_refl. exact Hi.
  - (* ---------------- EMatch ---------------- *)
    assert (Hi0 := Hi). cbn [invc2] in Hi. apply andb_true_iff in Hi. destruct Hi as [Hq Hie].
    assert (Hpk : exists x, e' = EMatch k x /\ invc2 (EMatch k x) = true /\
                            forall d, slv (EMatch k x) d = slv (EMatch k e) d).
    { destruct (shake0_match_inv _ _ _ _ H) as [[s [l [l' [-> [Hl' ->]]]]]|[Hng [x [Hx ->]]]].
      - (* fix D14: a group stays a group, whatever its length; its members are shaken *)
        destruct (invc2_group s l Hie) as [Hs [Hl [y1 [l0 El]]]].
        pose proof (mapM_Forall2 _ _ _ Hl') as HF.
        assert (HP : Forall2 postc2 l l').
        { eapply Forall2_In_impl; [exact HF|]. intros x y Hx _ Hxy. cbn beta in Hxy.
          apply IH; [|exact Hxy]. apply (forallb_In _ _ _ Hl Hx). }
        assert (Hil' : forallb invc2 l' = true).
        { eapply Forall2_forallb; [exact HP|]. intros x y _ Hp. apply Hp. }
        assert (Hsm : semc_members o ids l l').
        { eapply Forall2_In_impl; [exact HP|]. intros x y _ _ Hp. apply Hp. }
        pose proof (Forall2_length _ _ _ HP) as Hlen.
        exists (EGroup s l'). split; [reflexivity|]. split.
        + cbn [invc2 D14.qop_ok]. rewrite Hs. cbn [andb].
          destruct l' as [|b1 l'0]; [subst l; discriminate Hlen|exact Hil'].
        + intros d. apply semc_match_group_cong. exact Hsm.
      - assert (Hqn : D14.qng e = true).
        { destruct e as [s0 l0|? [] ?| | | | | | | | | | | |]; try discriminate Hq; try reflexivity.
          exfalso. eapply Hng. reflexivity. }
        destruct (IH e x Hie Hx) as [P1 [P2 [P4 [P6 P8]]]].
        exists x. split; [reflexivity|]. split.
        + cbn [invc2]. rewrite (D14.qng_qop _ (P4 Hqn)), P1. reflexivity.
        + intros d. apply P8. exact Hqn. }
    destruct Hpk as [x [-> [Hi' Hsem]]].
    split_postc2.
    + exact Hi'.
    + intros Hc. discriminate Hc.
    + intros _. reflexivity.
    + exact Hsem.
    + intros k2 d _. apply (h7c o ids); try reflexivity. exact Hsem.
  - (* ---------------- ENegate ---------------- *)
    assert (Hi0 := Hi). cbn [invc2] in Hi. apply andb_true_iff in Hi. destruct Hi as [Hhn Hie].
    apply negb_true_iff in Hhn.
    cbn [shake0] in H. apply bind_ok_inv in H. destruct H as [x [Hx H]].
    destruct (IH e x Hie Hx) as [P1 [P2 [P4 [P6 P8]]]].
    assert (Hhx : head_neg x = false).
    { destruct (head_neg x) eqn:Hb; [|reflexivity]. rewrite (P2 eq_refl) in Hhn. discriminate. }
    assert (E : e' = ENegate x).
    { destruct x; try (injection H as <-; reflexivity). discriminate Hhx. }
    subst e'. clear H.
    assert (Hi' : invc2 (ENegate x) = true) by (cbn [invc2]; rewrite Hhx, P1; reflexivity).
    assert (Hsem : forall d, slv (ENegate x) d = slv (ENegate e) d)
      by (intros d; rewrite !cs_negate, P6; reflexivity).
    split_postc2.
    + exact Hi'.
    + intros _. reflexivity.
    + intros _. reflexivity.
    + exact Hsem.
    + intros k d _. apply (h7c o ids); try reflexivity. exact Hsem.
  - (* ---------------- ESearch ---------------- *)
    injection H as <-. apply postc2_refl. exact Hi.
Qed.

(* shake_0 does not panic on such trees *)
Lemma shake0_totalc2 : forall fuel e, invc2 e = true -> exists e', shake0 fuel e = Ok e'.
Proof.
  induction fuel as [|fu IH]; intros e Hi; [eexists; reflexivity|].
  destruct e as [s l|l s r|b|f m|f|x|i|z|k e|cols rows|e|f e| |s f c]; try discriminate Hi;
    try (eexists; reflexivity).
  - destruct (invc2_group s l Hi) as [Hs [Hl _]].
    cbn [shake0]. rewrite Hs. cbn [negb].
    destruct (mapM_ok (fun x => shake0 fu x) l) as [l' Hl'].
    { intros x Hx. apply IH. apply (forallb_In _ _ _ Hl Hx). }
    rewrite Hl'. cbn [bind]. destruct l' as [|x [|x2 l'']]; eexists; reflexivity.
  - cbn [invc2] in Hi. destruct (is_and_or s) eqn:Hs.
    + apply andb_true_iff in Hi. destruct Hi as [Hil Hir].
      rewrite shake0_bexp_andor by exact Hs.
      destruct (IH l Hil) as [l' Hl']. destruct (IH r Hir) as [r' Hr'].
      rewrite Hl', Hr'. cbn [bind].
      destruct (flat s l' r') as [L|] eqn:Hflat; [|eexists; reflexivity].
      assert (Hil' : invc2 l' = true) by apply (shake0_postc2 fu l l' Hil Hl').
      assert (Hir' : invc2 r' = true) by apply (shake0_postc2 fu r r' Hir Hr').
      destruct (flatc_spec2 s l' r' L Hs Hil' Hir' Hflat) as [HiL _].
      apply IH. exact HiL.
    + apply andb_true_iff in Hi. destruct Hi as [Hll Hlr].
      rewrite shake0_bexp_cmp by exact Hs.
      rewrite (shake0_leaf fu l Hll), (shake0_leaf fu r Hlr). cbn [bind]. eexists; reflexivity.
  - cbn [invc2] in Hi. apply andb_true_iff in Hi. destruct Hi as [_ Hie].
    destruct (is_group_dec e) as [[s [l ->]]|Hng].
    + destruct (invc2_group s l Hie) as [Hs [Hl _]].
      rewrite shake0_match_group.
      destruct (mapM_ok (fun x => shake0 fu x) l) as [l' Hl'].
      { intros x Hx. apply IH. apply (forallb_In _ _ _ Hl Hx). }
      rewrite Hl'. cbn [bind]. eexists; reflexivity.
    + destruct (IH e Hie) as [x Hx]. rewrite (shake0_match_other fu k e Hng), Hx. cbn [bind].
      eexists; reflexivity.
  - cbn [invc2] in Hi. apply andb_true_iff in Hi. destruct Hi as [_ Hie].
    destruct (IH e Hie) as [x Hx]. cbn [shake0]. rewrite Hx. cbn [bind].
    assert (P1 : invc2 x = true) by apply (shake0_postc2 fu e x Hie Hx).
    destruct x; try (eexists; reflexivity).
    apply IH. cbn [invc2] in P1. apply andb_true_iff in P1. apply P1.
Qed.
End CondShake2.

Lemma shake_total2 : forall ord e, invc2 e = true -> exists e', shake ord e = Ok e'.
Proof.
  intros ord e Hi. unfold shake.
  destruct (shake0_totalc2 C01.o0 [] (shake_fuel e) e Hi) as [e0 H0].
  rewrite H0. cbn [bind]. eexists; reflexivity.
Qed.

(* the whole shake pass on a condition, the identifier table being fixed *)
Lemma shake_cond_exact2 : forall o ord ids e e' (d : docq),
  ord_keeps ord -> C03.npd d -> forallb (fun kv => wf_body (snd kv)) ids = true ->
  wf_cond ids e = true -> invc2 e = true ->
  shake ord e = Ok e' -> solve_cond o ids e' d = solve_cond o ids e d.
Proof.
  intros o ord ids e e' d Hord Hd Hids Hw Hi H. unfold shake in H.
  apply bind_ok_inv in H. destruct H as [e0 [H0 H]]. injection H as <-.
  destruct (shake0_postc2 o ids _ e e0 Hi H0) as [P1 [_ [_ [P6 _]]]].
  rewrite (shake1_exact_gen o ids Hids d Hd ord Hord _ e0
             (shake0_wfc ids _ e e0 Hw H0) (invc2_nn e0 P1) (invc2_cl e0 P1)).
  apply P6.
Qed.
End CondW.

(* ====================================================================================== *)
(* 5. whole rules without matrix (C01_d15.optimise_no_matrix_nested_q)                     *)
(* ====================================================================================== *)
Lemma optimise_no_matrix_nested_w : forall o ord sw r (d : doc),
  (forall l, Permutation (ord l) l) ->
  C01.H_strip o ->
  sw_matrix sw = false ->
  wf_det (r_det r) = true -> r_optimised r = false ->
  C01.no_nested (d_expr (r_det r)) = true -> C01.cmp_leaves (d_expr (r_det r)) = true ->
  Forall (fun kv : str * expr => top_ok (snd kv) = true) (d_ids (r_det r)) ->
  (sw_shake sw = true ->
     forallb (fun t => Scope4.sh0w t && Scope.no_dneg t && Scope.shx t) (all_trees (staged sw (r_det r))) = true /\
     N.run_safe ord sw (r_det r) = true) ->
  exists r', optimise o ord sw r = Ok r' /\ matches o r' d = matches o r d.
Proof.
  intros o ord sw r d Hperm Hst Hmx Hwf Hopt Hnn Hcl Htop Hin.
  pose proof (S1.perm_ord_keeps ord Hperm) as Hord.
  destruct (sw_shake sw) eqn:Hsh.
  2:{ destruct (C01.optimise_coalesce_rewrite_exact_alt o ord sw r (pure_doc d) Hst Hsh Hmx Hwf Hopt Hnn Hcl)
        as [r' [E1 E2]].
      exists r'. split; [exact E1|]. unfold matches. rewrite E2. reflexivity. }
  destruct (Hin eq_refl) as [Hin1 Hin2]. clear Hin.
  pose proof (C03.npd_pure d) as Hd.
  pose proof (C01.wf_det_ids _ Hwf) as Hids.
  destruct r as [opt [e ids] tp tn]. cbn [r_det r_optimised d_expr d_ids] in *. subst opt.
  unfold wf_det in Hwf. cbn [d_expr d_ids] in Hwf.
  apply andb_prop in Hwf. destruct Hwf as [Hwc Hwb].
  unfold N.run_safe, staged in Hin2. unfold staged in Hin1. cbn [d_expr d_ids] in Hin1, Hin2.
  unfold optimise, matches. cbn [r_optimised r_det r_tp r_tn]. unfold optimise_detection.
  rewrite Hsh, Hmx. cbn [d_expr d_ids].
  destruct (sw_coalesce sw) eqn:Hco.
  - (* coalesce on: one identifier-free tree *)
    destruct (C01.coalesce_sem o ids Hids e Hwc Hnn Hcl) as [e1 [He1 [Hw1 Hsem1]]].
    rewrite He1 in Hin1, Hin2. cbn [ok_or all_trees fst snd map forallb shaken0] in Hin1, Hin2.
    apply andb_prop in Hin1. destruct Hin1 as [Hin1 _].
    destruct (input_ok_split3w e1 Hin1) as [I2 [I3 I4]].
    apply andb_prop in Hin2. destruct Hin2 as [Hin2 _].
    destruct (shake_body_run_w o ord false e1 d Hperm Hw1 I2 I3 I4 Hin2) as [e2 [He2 [Hw2 [Htr _]]]].
    rewrite He1. cbn [bind d_expr d_ids]. rewrite He2. cbn [bind map_ids mapM d_expr d_ids].
    destruct (sw_rewrite sw); (eexists; split; [reflexivity|]); cbn [r_det]; unfold solve_rule3;
      cbn [d_expr d_ids map].
    + change (solve_cond o [] (rewrite o e2) (pure_doc d)) with (solve_body o (rewrite o e2) (pure_doc d)).
      rewrite (C01.rw_body o Hst). apply N.verdict_of_truth.
      * apply (C03.solve_body_ok o e2 (pure_doc d) Hw2 Hd).
      * rewrite <- Hsem1. apply (C03.solve_body_ok o e1 (pure_doc d) Hw1 Hd).
      * rewrite <- Hsem1. exact Htr.
    + change (solve_cond o [] e2 (pure_doc d)) with (solve_body o e2 (pure_doc d)).
      apply N.verdict_of_truth.
      * apply (C03.solve_body_ok o e2 (pure_doc d) Hw2 Hd).
      * rewrite <- Hsem1. apply (C03.solve_body_ok o e1 (pure_doc d) Hw1 Hd).
      * rewrite <- Hsem1. exact Htr.
  - (* coalesce off: the condition and every identifier body, entry by entry *)
    cbn [bind all_trees fst snd forallb shaken0] in *.
    apply andb_prop in Hin1. destruct Hin1 as [Hine Hinb].
    destruct (input_ok_split3w e Hine) as [I2 [I3 I4]].
    apply andb_prop in Hin2. destruct Hin2 as [_ Hsb].
    set (ng := body_neg (e, ids)) in *.
    assert (Hbody : forall kv, In kv ids ->
              exists b2, entries (shake ord) (snd kv) = Ok b2 /\ wf_body b2 = true /\
                         BR o (pure_doc d) ng (snd kv) b2).
    { intros kv Hkv. pose proof (C01.forallb_In _ _ _ Hwb Hkv) as Hw. cbn beta in Hw.
      assert (Hin' : In (snd kv) (map snd ids)) by (apply in_map; exact Hkv).
      pose proof (C01.forallb_In _ _ _ Hinb Hin') as Hb. cbn beta in Hb.
      destruct (input_ok_split3w _ Hb) as [B2 [B3 B4]].
      rewrite Forall_forall in Htop.
      apply (shake_entries_BR_w o ord ng (snd kv) d Hperm Hw B2 B3 B4 (Htop kv Hkv)).
      apply (C01.forallb_In _ _ _ Hsb Hkv). }
    destruct (S1.map_ids_ok (entries (shake ord)) ids) as [ids2 Hids2].
    { intros kv Hkv. destruct (Hbody kv Hkv) as [b2 [Hb2 _]]. exists b2. exact Hb2. }
    pose proof (S1.map_ids_F2 _ _ _ Hids2) as HF.
    assert (HF' : Forall2 (fun kv kv' => fst kv' = fst kv /\
                     (wf_body (snd kv') = true /\ BR o (pure_doc d) ng (snd kv) (snd kv'))) ids ids2).
    { eapply C01.Forall2_In_impl; [exact HF|]. intros kv kv' Hkv _ [Hk Hs].
      split; [exact Hk|]. destruct (Hbody kv Hkv) as [b2 [Hb2 [W2 R2]]].
      rewrite Hs in Hb2. injection Hb2 as <-. auto. }
    assert (Hwb2 : forallb (fun kv => wf_body (snd kv)) ids2 = true).
    { eapply C01.Forall2_forallb; [exact HF'|]. intros kv kv' _ [_ [Hw _]]. exact Hw. }
    assert (HrelB : S1.ids_rel (fun b b' => BR o (pure_doc d) ng b b') ids ids2).
    { apply S1.ids_rel_F2. eapply C01.Forall2_In_impl; [exact HF'|]. intros kv kv' _ _ [Hk [_ Hs]].
      split; [exact Hk|exact Hs]. }
    pose proof (S1.wf_cond_rel _ _ _ HrelB e Hwc) as Hwc2.
    assert (Hie : CondW.invc2 e = true) by (apply (CondW.invc2_of ids e false); auto using C01.no_dneg_here).
    destruct (CondW.shake_total2 ord e Hie) as [e2 He2].
    pose proof (CondW.shake_cond_exact2 o ord ids2 e e2 (pure_doc d) Hord Hd Hwb2 Hwc2 Hie He2) as Hsem.
    (* what the condition sees of each identifier *)
    assert (Hlook : forall i, has_key i ids = true ->
              exists b b', lookup i ids = Some b /\ lookup i ids2 = Some b' /\ wf_body b = true /\
                           BR o (pure_doc d) ng b b').
    { intros i Hi. unfold has_key in Hi. specialize (HrelB i).
      destruct (lookup i ids) as [b|] eqn:E1; [|discriminate Hi].
      destruct (lookup i ids2) as [b'|] eqn:E2; [|contradiction].
      exists b, b'. split; [reflexivity|]. split; [reflexivity|]. split; [|exact HrelB].
      destruct (C01.lookup_In i ids b E1) as [k0 Hk]. apply (C01.forallb_In _ _ _ Hwb Hk). }
    assert (Hfin : solve_cond o ids2 e2 (pure_doc d) = Ok T <-> solve_cond o ids e (pure_doc d) = Ok T).
    { rewrite Hsem. destruct ng eqn:Eng.
      - assert (Hx : IRx o ids ids2 (pure_doc d)).
        { intros i Hi. destruct (Hlook i Hi) as (b & b' & L & L' & Wb & R). split.
          - destruct (ident_rel o ids ids2 (pure_doc d) i b b' L L' Wb true R) as (v & v' & E & E' & Rv).
            cbn [N.rel] in Rv. rewrite E, E', Rv. reflexivity.
          - intros [|c].
            + destruct (all_ident_rel o ids ids2 Hwb (pure_doc d) Hd i b b' L L' Wb true R) as (v & v' & E & E' & Rv).
              cbn [N.rel] in Rv. rewrite E, E', Rv. reflexivity.
            + destruct (of_ident_rel o ids ids2 Hwb (pure_doc d) Hd i b b' L L' Wb true c (or_introl eq_refl) R)
                as (v & v' & E & E' & Rv).
              cbn [N.rel] in Rv. rewrite E, E', Rv. reflexivity. }
        rewrite (cond_change_exact o ids ids2 (pure_doc d) Hx e Hwc Hnn). tauto.
      - assert (Ht : IRt o ids ids2 (pure_doc d)).
        { intros i Hi. destruct (Hlook i Hi) as (b & b' & L & L' & Wb & R).
          assert (Hv : forall E0, crel o ids ids2 (pure_doc d) false E0 ->
                    N.rel false (N.Vc o ids2 (pure_doc d) E0) (N.Vc o ids (pure_doc d) E0)).
          { intros E0 (v & v' & E & E' & Rv). unfold N.Vc, S1.rv. rewrite E, E'. exact Rv. }
          split; [|split].
          - apply Hv. exact (ident_rel o ids ids2 (pure_doc d) i b b' L L' Wb false R).
          - apply Hv. exact (all_ident_rel o ids ids2 Hwb (pure_doc d) Hd i b b' L L' Wb false R).
          - intros c Hc. apply Hv.
            exact (of_ident_rel o ids ids2 Hwb (pure_doc d) Hd i b b' L L' Wb false c (or_intror Hc) R). }
        apply (cond_change_truth o ids ids2 (pure_doc d) Hd Hwb Hwb2 Ht e Hwc Hwc2 Hnn Eng). }
    assert (Htot : exists b, solve_cond o ids e (pure_doc d) = Ok b)
      by (apply (C03.solve_cond_ok o ids e (pure_doc d) Hwc Hwb Hd)).
    assert (Htot2 : exists a, solve_cond o ids2 e2 (pure_doc d) = Ok a).
    { rewrite Hsem. apply (C03.solve_cond_ok o ids2 e (pure_doc d) Hwc2 Hwb2 Hd). }
    cbn [d_expr d_ids]. rewrite He2. cbn [bind]. rewrite Hids2. cbn [bind d_expr d_ids].
    destruct (sw_rewrite sw); (eexists; split; [reflexivity|]); cbn [r_det]; unfold solve_rule3;
      cbn [d_expr d_ids].
    + rewrite (C01.rewrite_exact o ids2 e2 (pure_doc d) Hst). apply N.verdict_of_truth; assumption.
    + apply N.verdict_of_truth; assumption.
Qed.

(* ====================================================================================== *)
(* 6. the scopes of Model/Scope4.v and the whole-rule statements                           *)
(* ====================================================================================== *)
Lemma scope_nested_sound_w : forall o ic ord sw y r (d : doc),
  (forall l, Permutation (ord l) l) ->
  C01.H_strip o ->
  load_rule o ic y = Ok r -> r_optimised r = false ->
  Scope4.c01_scope_nested_w ord sw (r_det r) = true ->
  exists r', optimise o ord sw r = Ok r' /\ matches o r' d = matches o r d.
Proof.
  intros o ic ord sw y r d Hperm Hs Hl Hopt Hsc.
  unfold Scope4.c01_scope_nested_w in Hsc. apply andb_prop in Hsc. destruct Hsc as [Hsc Hrun].
  pose proof (C03.load_wf _ _ _ _ Hl) as Hwf.
  destruct (C03.load_rule_det _ _ _ _ Hl) as [dy Hd].
  destruct (C01_loaded.load_detection_parse _ _ _ _ Hd) as [ts Hp].
  destruct (C01_loaded.loaded_condition_shapes _ _ Hp) as [Hnn Hcl].
  unfold Scope4.c01_scope2_w in Hsc. apply andb_prop in Hsc. destruct Hsc as [H1 H3].
  apply (optimise_no_matrix_nested_w o ord sw r d Hperm Hs); try assumption.
  - destruct (sw_matrix sw); [discriminate H1|reflexivity].
  - exact (load_top _ _ _ _ Hl).
  - intros Hsh. rewrite Hsh in H3, Hrun. cbn [negb orb] in H3, Hrun. split; [|exact Hrun].
    unfold Scope4.shake_input_ok2w in H3. apply andb_prop in H3. destruct H3 as [H3 _]. exact H3.
Qed.

(* the old scope implies the new one *)
Lemma shake_input_ok2_weaker : forall ord sw dt,
  Scope2.shake_input_ok2 ord sw dt = true -> Scope4.shake_input_ok2w ord sw dt = true.
Proof.
  intros ord sw dt H. unfold Scope2.shake_input_ok2 in H. apply andb_prop in H. destruct H as [H1 H2].
  unfold Scope4.shake_input_ok2w. apply andb_true_intro. split; [|exact H2].
  rewrite forallb_forall in H1. apply forallb_forall. intros t Ht. specialize (H1 t Ht). cbn beta in H1.
  apply andb_prop in H1. destruct H1 as [H1 Hx]. apply andb_prop in H1. destruct H1 as [H0 Hd].
  apply andb_true_intro. split; [|exact Hx]. apply andb_true_intro. split; [|exact Hd].
  exact (D14.sh0_sh0w t H0).
Qed.

Lemma scope_quant_all_noq_weaker : forall o ord sw dt,
  Scope2.c01_scope_quant_all_noq o ord sw dt = true -> Scope4.c01_scope_quant_all_w o ord sw dt = true.
Proof.
  intros o ord sw dt H. unfold Scope2.c01_scope_quant_all_noq in H. apply andb_prop in H. destruct H as [H1 H2].
  unfold Scope4.c01_scope_quant_all_w. apply andb_true_intro. split; [|exact H2].
  unfold Scope2.c01_scope_nested_noq in H1. apply andb_prop in H1. destruct H1 as [H1 H3].
  unfold Scope4.c01_scope_nested_w. apply andb_true_intro. split; [|exact H3].
  unfold Scope2.c01_scope2_noq in H1. apply andb_prop in H1. destruct H1 as [H1 H4].
  unfold Scope4.c01_scope2_w. apply andb_true_intro. split; [exact H1|].
  destruct (negb (sw_shake (Scope.sw_without_matrix sw))); [reflexivity|].
  cbn [orb] in H4 |- *. exact (shake_input_ok2_weaker _ _ _ H4).
Qed.

(* ---- C01_d15.scope_quant_all_sound_noq with sh0w: the matrix part is unchanged ---- *)
Import Scope C03_opt C03_matrix C01_matrix C01_matrix_nested C01_matrix_quant.
Lemma scope_quant_all_sound_w : forall o ic ord sw y r (d : doc),
  (forall l, Permutation (ord l) l) ->
  C01.H_strip o ->
  load_rule o ic y = Ok r -> r_optimised r = false ->
  Scope4.c01_scope_quant_all_w o ord sw (r_det r) = true ->
  exists r', optimise o ord sw r = Ok r' /\ matches o r' d = matches o r d.
Proof.
  intros o ic ord sw y r d Hord Hs Hl Hopt Hsc.
  unfold Scope4.c01_scope_quant_all_w in Hsc. apply andb_prop in Hsc. destruct Hsc as [Hsc0 Hscm].
  destruct (sw_matrix sw) eqn:Em.
  2:{ apply (scope_nested_sound_w o ic ord sw y r d Hord Hs Hl Hopt).
      destruct sw as [c s w m]. cbn [sw_matrix] in Em. subst m. exact Hsc0. }
  cbn [negb orb] in Hscm. pose proof Hscm as Hmi.
  (* the passes before matrix: the verdict is preserved *)
  set (sw0 := Scope.sw_without_matrix sw) in *.
  destruct (scope_nested_sound_w o ic ord sw0 y r d Hord Hs Hl Hopt Hsc0) as (r1 & Hr1 & Hsem).
  (* the stage before matrix *)
  destruct (no_matrix_stage_good o ord sw _ (load_good _ _ _ _ Hl)) as (s3 & Hst & [Gc Gi]).
  assert (Er1 : r_det r1 = s3).
  { unfold optimise in Hr1. rewrite Hopt in Hr1. unfold sw0 in Hr1.
    rewrite optimise_detection_stage, stage_sw, Hst in Hr1. cbn [bind Scope.sw_without_matrix sw_matrix] in Hr1.
    inversion Hr1; subst r1. reflexivity. }
  pose proof (no_matrix_stage_pre _ _ _ _ _ Hst) as Hpre.
  unfold Scope2.matrix_input_ok3 in Hmi. cbv zeta in Hmi.
  apply andb_prop in Hmi. destruct Hmi as [Hmi Xnm]. apply andb_prop in Hmi. destruct Hmi as [Hmi Xqi].
  apply andb_prop in Hmi. destruct Hmi as [Hmi Xqc]. apply andb_prop in Hmi. destruct Hmi as [Hmi Xcr].
  apply andb_prop in Hmi. destruct Hmi as [K17 _].
  apply negb_true_iff in K17.
  (* optimise returns *)
  destruct (optimise_total_stage_all o ord sw _ (perm_len ord Hord) (load_good _ _ _ _ Hl)) as [dt' Hdt'].
  exists {| r_optimised := true; r_det := dt'; r_tp := r_tp r; r_tn := r_tn r |}.
  split; [unfold optimise; rewrite Hopt, Hdt'; reflexivity|].
  rewrite optimise_detection_stage, Hst, Em in Hdt'. cbn [bind] in Hdt'.
  apply C03.bind_ok_inv in Hdt'. destruct Hdt' as (e4 & He4 & Hdt').
  apply C03.bind_ok_inv in Hdt'. destruct Hdt' as (ids4 & Hids4 & Hdt'). inversion Hdt'; subst dt'; clear Hdt'.
  unfold known_d17 in K17. rewrite Em, Hpre in K17. cbn [andb] in K17.
  rewrite Hpre in Xcr, Xnm, Xqc, Xqi. cbn [fst snd] in Xnm, Xqc, Xqi.
  assert (Hnm : d_ids s3 = [] \/ no_match (d_expr s3) = true).
  { apply Bool.orb_prop in Xnm. destruct Xnm as [Hco|Hno]; [left|right; exact Hno].
    exact (stage_coalesce_ids o ord sw _ s3 Hco Hst). }
  destruct (matrix_stage_verdict_q o ord d (d_expr s3) (d_ids s3) e4 ids4 Hord Gc Gi Xcr Hnm Xqc Xqi K17 He4 Hids4)
    as (v & v' & Ev & Ev' & R).
  rewrite <- Hsem.
  apply (teq_matches o r1 _ d v v'); [|exact Ev' | exact R].
  rewrite Er1. exact Ev.
Qed.

(* at the crate's own map order *)
Lemma crate_order_scope_quant_all_w_sound : forall o ic sw y r (d : doc),
  C01.H_strip o ->
  load_rule o ic y = Ok r -> r_optimised r = false ->
  Scope4.c01_scope_quant_all_w o Order.rust_ord sw (r_det r) = true ->
  exists r', optimise o Order.rust_ord sw r = Ok r' /\ matches o r' d = matches o r d.
Proof.
  intros o ic sw y r d Hs Hl Hopt Hsc.
  exact (scope_quant_all_sound_w o ic Order.rust_ord sw y r d C12_order.rust_ord_perm Hs Hl Hopt Hsc).
Qed.

(* ---- the new part of the scope is inhabited ----
   detection: { A: [ {h: d} ], condition: of(A, 1) }
   With coalesce the condition becomes of(<one-member group>, 1): the former D14 shape.  With
   coalesce and shake the rule is outside Scope2.c01_scope_quant_all_noq (sh0 fails) and inside
   Scope4.c01_scope_quant_all_w; everywhere else the two scopes agree on it (both exclude
   coalesce off + matrix on: the condition handed to matrix holds a quantifier). *)
Definition c_of1 : str := [111; 102; 40; 65; 44; 32; 49; 41]%N.          (* of(A, 1) *)
Definition y_one : yaml :=
  YMap [(YStr key_detection,
         YMap [(YStr [65%N], YSeq [mp 104 100]);
               (YStr cond_key, YStr c_of1)]);
        (YStr key_tp, YSeq []); (YStr key_tn, YSeq [])].
Definition d_one : doc := obj_find [([104%N], VStr [100%N])].

Lemma one_member_group_example :
  exists r, load_rule C01.o0 false y_one = Ok r /\ r_optimised r = false /\
    d_expr (r_det r) = EMatch (MOf 1) (EIdent [65%N]) /\
    fst (staged (sw_of true true false false) (r_det r)) =
      EMatch (MOf 1) (EGroup BOr [ESearch (SExact [100%N]) [104%N] false]) /\
    forallb (fun sw => Bool.eqb (Scope2.c01_scope_quant_all_noq C01.o0 idord sw (r_det r))
                                (negb (sw_coalesce sw && sw_shake sw) &&
                                 (sw_coalesce sw || negb (sw_matrix sw)))) all16 = true /\
    forallb (fun sw => Bool.eqb (Scope4.c01_scope_quant_all_w C01.o0 idord sw (r_det r))
                                (sw_coalesce sw || negb (sw_matrix sw))) all16 = true /\
    matches C01.o0 r d_one = Ok true /\
    forallb (fun sw => match optimise C01.o0 idord sw r with
                       | Ok r' => match matches C01.o0 r' d_one with Ok true => true | _ => false end
                       | _ => false
                       end) all16 = true.
Proof.
  eexists. split; [vm_compute; reflexivity|]. split; [reflexivity|]. split; [reflexivity|].
  split; [vm_compute; reflexivity|]. split; [vm_compute; reflexivity|].
  split; [vm_compute; reflexivity|]. split; vm_compute; reflexivity.
Qed.

Print Assumptions scope_quant_all_sound_w.
Print Assumptions scope_quant_all_noq_weaker.
Print Assumptions crate_order_scope_quant_all_w_sound.
