(* C01 (second file): every expression the loader produces satisfies the shape hypotheses of
   the `_alt` theorems of Proofs/C01.v; hence the end-to-end statements about LOADED rules.

   All four statements of Properties/C01_loaded.v are proved as stated:
     loaded_condition_shapes, loaded_body_shapes, loaded_rule_coalesce_rewrite,
     loaded_body_shake0.

   Method: the single invariant C01.inv (the one shake0_post works with) holds of everything
   parse_identifier returns (induction over the YAML value, following the structure of
   C03.parse_identifier_wf), and implies wf_body, sh0, shx, no_dneg and cmp_leaves.  For
   conditions, C02_cond.parse_qshape already says what the Pratt parser builds. *)
From TauModel Require Import Base Num Oracles Syntax Generated Token Pratt Ident Value Yaml
     ParseMap Solver Rule Keys Optimiser Known Spec.
From TauProofs Require C01 C03 C02_cond.
From Coq Require Import Lia ZArith ZifyBool List Bool.
Import ListNotations.

(* ====================================================================================== *)
(* 1. conditions: what the Pratt parser builds                                            *)
(* ====================================================================================== *)

Lemma types_ok_leaves eq l r : types_ok eq l r = true ->
  is_solvable l = false /\ is_solvable r = false.
Proof.
  intros H.
  destruct l as [s1 l1|a1 s1 b1|b1|f1 m1|f1|x1|i1|z1|k1 e1|c1 r1|e1|f1 e1| |s1 f1 c1];
    try discriminate H;
    try (destruct m1; try discriminate H);
    destruct r as [s2 l2|a2 s2 b2|b2|f2 m2|f2|x2|i2|z2|k2 e2|c2 r2|e2|f2 e2| |s2 f2 c2];
    try discriminate H; split; reflexivity.
Qed.

Lemma unsolvable_no_nested e : is_solvable e = false -> C01.no_nested e = true.
Proof. destruct e; intros H; try discriminate H; reflexivity. Qed.

Lemma cond_shape_shapes : forall e, cond_shape e = true ->
  C01.no_nested e = true /\ C01.cmp_leaves e = true.
Proof.
  induction e as [ s g | l IHl op r IHr | bb | f m | f | x | i | z | k e IHe | cols rows
                 | e IHe | f e IHe | | s f cst ]; intros Hs; try discriminate Hs.
  - cbn [cond_shape] in Hs. cbn [C01.no_nested C01.cmp_leaves].
    assert (Hcmp : forall eq, types_ok eq l r = true -> is_and_or op = false ->
              C01.no_nested l && C01.no_nested r = true /\
              (if is_and_or op then C01.cmp_leaves l && C01.cmp_leaves r
               else negb (is_solvable l) && negb (is_solvable r)) = true).
    { intros eq Ht Hop. destruct (types_ok_leaves _ _ _ Ht) as [Hl Hr].
      rewrite Hop, Hl, Hr, (unsolvable_no_nested _ Hl), (unsolvable_no_nested _ Hr).
      split; reflexivity. }
    destruct op; try (apply (Hcmp _ Hs); reflexivity).
    + apply andb_prop in Hs. destruct Hs as [H1 H2].
      destruct (IHl H1) as [A1 A2]. destruct (IHr H2) as [B1 B2].
      cbn [is_and_or]. rewrite A1, A2, B1, B2. split; reflexivity.
    + apply andb_prop in Hs. destruct Hs as [H1 H2].
      destruct (IHl H1) as [A1 A2]. destruct (IHr H2) as [B1 B2].
      cbn [is_and_or]. rewrite A1, A2, B1, B2. split; reflexivity.
  - split; reflexivity.
  - cbn [cond_shape] in Hs. destruct e; try discriminate Hs. split; reflexivity.
  - cbn [cond_shape] in Hs. cbn [C01.no_nested C01.cmp_leaves]. exact (IHe Hs).
Qed.

Lemma loaded_condition_shapes : forall ts e,
  parse ts = Ok e -> C01.no_nested e = true /\ C01.cmp_leaves e = true.
Proof.
  intros ts e H. pose proof (C02_cond.parse_qshape _ _ H) as Hq.
  apply C02_cond.qshape_inv in Hq. destruct Hq as [_ [Hc|Ho]].
  - exact (cond_shape_shapes _ Hc).
  - destruct e; try discriminate Ho; split; reflexivity.
Qed.

(* ====================================================================================== *)
(* 2. C01.inv implies every shape hypothesis                                              *)
(* ====================================================================================== *)

Lemma leaf_no_dneg e n : C01.leaf e = true -> exists_sub C01.dneg_here n e = false.
Proof. destruct e; intros H; try discriminate H; reflexivity. Qed.

Lemma leaf_unsolvable e : C01.leaf e = true -> negb (is_solvable e) = true.
Proof. intros H; exact H. Qed.

Lemma and_or_op_eq s : is_and_or_op s = is_and_or s.
Proof. destruct s; reflexivity. Qed.

Lemma existsb_false_intro {A} (p : A -> bool) l :
  (forall x, In x l -> p x = false) -> existsb p l = false.
Proof.
  induction l as [|a l IH]; intros H; [reflexivity|].
  cbn [existsb]. rewrite (H a (or_introl eq_refl)). cbn [orb].
  apply IH. intros x Hx. apply H. right. exact Hx.
Qed.

Lemma inv_shapes : forall e, C01.inv e = true ->
  wf_body e = true /\ C01.sh0 e = true /\ C01.shx e = true /\ C01.cmp_leaves e = true /\
  forall n, exists_sub C01.dneg_here n e = false.
Proof.
  induction e as [e IH] using C01.size_ind. intros Hi.
  destruct e as [s l|l s r|b|f m|f|x|i|z|k e|cols rows|e|f e| |s f c]; try discriminate Hi.
  - (* EGroup *)
    cbn [C01.inv] in Hi. apply andb_prop in Hi. destruct Hi as [Hs Hl].
    destruct l as [|a l']; [discriminate Hl|].
    assert (HIn : forall x, In x (a :: l') ->
              wf_body x = true /\ C01.sh0 x = true /\ C01.shx x = true /\ C01.cmp_leaves x = true /\
              forall n, exists_sub C01.dneg_here n x = false).
    { intros x Hin. apply IH.
      - apply (C01.size_member s _ x Hin).
      - apply (C01.forallb_In _ _ _ Hl Hin). }
    cbn [wf_body C01.sh0 C01.shx C01.cmp_leaves]. rewrite and_or_op_eq, Hs. cbn [andb].
    split; [|split; [|split; [|split]]].
    + apply C01.forallb_intro. intros x Hin. apply (HIn x Hin).
    + apply C01.forallb_intro. intros x Hin. apply (HIn x Hin).
    + apply C01.forallb_intro. intros x Hin. apply (HIn x Hin).
    + apply C01.forallb_intro. intros x Hin. apply (HIn x Hin).
    + intros n. cbn [exists_sub C01.dneg_here orb].
      apply existsb_false_intro. intros x Hin. apply (HIn x Hin).
  - (* EBexp *)
    cbn [C01.inv] in Hi. cbn [wf_body C01.sh0 C01.shx C01.cmp_leaves]. rewrite and_or_op_eq.
    destruct (is_and_or s).
    + apply andb_prop in Hi. destruct Hi as [Hl Hr].
      destruct (IH l) as (A1 & A2 & A3 & A4 & A5); [cbn [expr_size]; lia | exact Hl |].
      destruct (IH r) as (B1 & B2 & B3 & B4 & B5); [cbn [expr_size]; lia | exact Hr |].
      rewrite A1, A2, A3, A4, B1, B2, B3, B4. repeat split; try reflexivity.
      intros n. cbn [exists_sub C01.dneg_here orb]. rewrite A5, B5. reflexivity.
    + pose proof Hi as Hi'. apply andb_prop in Hi. destruct Hi as [Hl Hr].
      assert (Hsl : C01.sh0 l = true) by (destruct l; try discriminate Hl; reflexivity).
      assert (Hsr : C01.sh0 r = true) by (destruct r; try discriminate Hr; reflexivity).
      rewrite Hsl, Hsr. unfold C01.leaf in Hi'. rewrite Hi'. repeat split; try reflexivity.
      intros n. cbn [exists_sub C01.dneg_here orb].
      rewrite (leaf_no_dneg _ _ Hl), (leaf_no_dneg _ _ Hr). reflexivity.
  - (* EMatch *)
    cbn [C01.inv] in Hi. apply andb_prop in Hi. destruct Hi as [Hq He].
    destruct (IH e) as (A1 & A2 & A3 & A4 & A5); [cbn [expr_size]; lia | exact He |].
    cbn [wf_body C01.sh0 C01.shx C01.cmp_leaves]. rewrite Hq, A1, A2, A3, A4.
    repeat split; try reflexivity.
    intros n. destruct k; cbn [exists_sub C01.dneg_here orb]; apply A5.
  - (* ENegate *)
    cbn [C01.inv] in Hi. apply andb_prop in Hi. destruct Hi as [Hq He].
    destruct (IH e) as (A1 & A2 & A3 & A4 & A5); [cbn [expr_size]; lia | exact He |].
    cbn [wf_body C01.sh0 C01.shx C01.cmp_leaves]. rewrite A1, A2, A3, A4.
    repeat split; try reflexivity.
    intros n. cbn [exists_sub C01.dneg_here]. apply negb_true_iff in Hq. rewrite Hq, A5. reflexivity.
  - (* ENested *)
    cbn [C01.inv] in Hi. apply andb_prop in Hi. destruct Hi as [Hq He].
    destruct (IH e) as (A1 & A2 & A3 & A4 & A5); [cbn [expr_size]; lia | exact He |].
    cbn [wf_body C01.sh0 C01.shx C01.cmp_leaves]. rewrite Hq, A1, A2, A3, A4.
    repeat split; try reflexivity.
    intros n. cbn [exists_sub C01.dneg_here orb]. apply A5.
  - (* ESearch *)
    repeat split; reflexivity.
Qed.

(* ====================================================================================== *)
(* 3. identifier bodies: parse_identifier establishes C01.inv                             *)
(* ====================================================================================== *)

(* the members of a value list: comparisons, nested blocks, searches *)
Definition atom (x : expr) : bool :=
  match x with
  | EBexp _ s _ => negb (is_and_or s)
  | ENested _ _ | ESearch _ _ _ => true
  | _ => false
  end.

Definition mem_ok (x : expr) : Prop := C01.inv x = true /\ atom x = true.
(* one entry before the `not(..)` wrapper *)
Definition pre_ok (e : expr) : Prop :=
  C01.inv e = true /\ C01.head_neg e = false /\ C01.nested_ok e = true.
(* one entry / one mapping *)
Definition map_ok (e : expr) : Prop := C01.inv e = true /\ C01.nested_ok e = true.

Lemma atom_facts x : atom x = true ->
  C01.quant_operand_ok x = true /\ C01.head_neg x = false /\ C01.head_allor x = false /\
  C01.nested_ok x = true.
Proof.
  intros H. destruct x as [s l|l s r|b|f m|f|x|i|z|k e|cols rows|e|f e| |s f c]; try discriminate H.
  - destruct s; try discriminate H; repeat split; reflexivity.
  - repeat split; reflexivity.
  - repeat split; reflexivity.
Qed.

Lemma mem_pre x : mem_ok x -> pre_ok x.
Proof.
  intros [Hi Ha]. destruct (atom_facts _ Ha) as (_ & H2 & _ & H4). split; [|split]; assumption.
Qed.

Lemma pre_map e : pre_ok e -> map_ok e.
Proof. intros (H1 & _ & H3). split; assumption. Qed.

Lemma search_mem s f c : mem_ok (ESearch s f c).
Proof. split; reflexivity. Qed.

Lemma cmp_mem e op r : C01.leaf e = true -> C01.leaf r = true -> is_and_or op = false ->
  mem_ok (cmp_expr e op r).
Proof.
  intros He Hr Hop. unfold cmp_expr. split.
  - cbn [C01.inv]. rewrite Hop, He, Hr. reflexivity.
  - cbn [atom]. rewrite Hop. reflexivity.
Qed.

Lemma nested_mem f e : map_ok e -> mem_ok (ENested f e).
Proof.
  intros [Hi Hn]. split; [|reflexivity]. cbn [C01.inv]. rewrite Hn, Hi. reflexivity.
Qed.

Lemma Forall_mem_inv l : Forall mem_ok l -> forallb C01.inv l = true.
Proof.
  intros H. apply C01.forallb_intro. rewrite Forall_forall in H. intros x Hx. apply (H x Hx).
Qed.

Lemma grp1_pre x : mem_ok x -> pre_ok (EGroup BOr [x]).
Proof.
  intros [Hi Ha]. destruct (atom_facts _ Ha) as (_ & H2 & H3 & _). split; [|split].
  - cbn [C01.inv is_and_or forallb andb]. rewrite Hi. reflexivity.
  - cbn [C01.head_neg]. exact H2.
  - cbn [C01.nested_ok C01.head_allor]. rewrite H3. reflexivity.
Qed.

Lemma grp2_pre s x y rest : is_and_or s = true -> forallb C01.inv (x :: y :: rest) = true ->
  pre_ok (EGroup s (x :: y :: rest)).
Proof.
  intros Hs H. split; [|split].
  - cbn [C01.inv]. rewrite Hs, H. reflexivity.
  - reflexivity.
  - reflexivity.
Qed.

Lemma match1_pre m x : mem_ok x -> pre_ok (EMatch m x).
Proof.
  intros [Hi Ha]. destruct (atom_facts _ Ha) as (H1 & _). split; [|split]; try reflexivity.
  cbn [C01.inv]. rewrite H1, Hi. reflexivity.
Qed.

Lemma match2_pre m x y rest : forallb C01.inv (x :: y :: rest) = true ->
  pre_ok (EMatch m (EGroup BOr (x :: y :: rest))).
Proof.
  intros H. split; [|split]; try reflexivity.
  cbn [C01.inv C01.quant_operand_ok is_and_or andb]. exact H.
Qed.

(* ---- scalars ---- *)
Lemma numeric_expr_ok e p x : C01.leaf e = true -> numeric_expr e p = Some x -> mem_ok x.
Proof.
  intros He. destruct p; cbn [numeric_expr]; intros H; inversion H; subst;
    apply cmp_mem; try exact He; reflexivity.
Qed.

Lemma scalar_string_expr_ok o ic ki s e :
  C01.leaf (k_e ki) = true -> scalar_string_expr o ic ki s = Ok e -> mem_ok e.
Proof.
  intros Hl. unfold scalar_string_expr. intros H.
  apply C03.bind_ok_inv in H. destruct H as (id & _ & H).
  apply C03.bind_ok_inv in H. destruct H as (u & _ & H). cbv zeta in H.
  destruct (numeric_expr (k_e ki) (id_pat id)) as [x|] eqn:En.
  - inversion H; subst. exact (numeric_expr_ok _ _ _ Hl En).
  - destruct (id_pat id); inversion H; subst; try apply search_mem; discriminate En.
Qed.

(* ---- sequences ---- *)
Definition sub_ok (sub : option (out expr)) : Prop :=
  forall r e, sub = Some r -> r = Ok e -> map_ok e.

Lemma sub_ok_none : sub_ok None.
Proof. intros r e H; discriminate. Qed.

Lemma seq_member_ok o ic ki ue a v sub a' :
  C01.leaf ue = true ->
  sub_ok sub -> Forall mem_ok (a_rest a) -> seq_member o ic ki ue a v sub = Ok a' ->
  Forall mem_ok (a_rest a').
Proof.
  intros Hl Hs Ha. unfold seq_member. cbv zeta.
  assert (Hc : forall r, C01.leaf r = true -> mem_ok (cmp_expr ue BEqual r)).
  { intros r Hr. apply cmp_mem; [exact Hl | exact Hr | reflexivity]. }
  destruct v as [| b | z | x | s | l | kv | tag w].
  - intros H; inversion H; subst. apply C03.Forall_snoc; [exact Ha | apply Hc; reflexivity].
  - destruct (misc_is MInt (k_misc ki)); [|destruct (misc_is MStr (k_misc ki))];
      intros H; inversion H; subst;
      first [exact Ha | apply C03.Forall_snoc; [exact Ha | apply Hc; reflexivity]].
  - destruct (number_of z);
      [ destruct (misc_is MStr (k_misc ki))
      | destruct (misc_is MInt (k_misc ki)); [|destruct (misc_is MStr (k_misc ki))] ];
      intros H; inversion H; subst;
      first [exact Ha | apply C03.Forall_snoc; [exact Ha | apply Hc; reflexivity]].
  - destruct (misc_is MInt (k_misc ki)); [|destruct (misc_is MStr (k_misc ki))];
      intros H; inversion H; subst;
      first [exact Ha | apply C03.Forall_snoc; [exact Ha | apply Hc; reflexivity]].
  - intros H.
    apply C03.bind_ok_inv in H. destruct H as (id & _ & H).
    apply C03.bind_ok_inv in H. destruct H as (u & _ & H).
    assert (Ha2 : Forall mem_ok (a_rest (if misc_is MStr (k_misc ki) then flag_cast a else a))).
    { destruct (misc_is MStr (k_misc ki)); exact Ha. }
    revert H Ha2. generalize (if misc_is MStr (k_misc ki) then flag_cast a else a). intros a2 H Ha2.
    destruct (id_pat id) eqn:Ep; cbn [numeric_expr] in H; inversion H; subst;
      first [ exact Ha2
            | apply C03.Forall_snoc;
              [exact Ha2 | first [apply search_mem | apply cmp_mem; [exact Hl | reflexivity | reflexivity]]] ].
  - intros H; discriminate H.
  - destruct (k_misc ki); [intros H; discriminate H|].
    destruct sub as [r|]; [|intros H; discriminate H].
    intros H. apply C03.bind_ok_inv in H. destruct H as (e & Hr & H). inversion H; subst.
    apply C03.Forall_snoc; [exact Ha|]. apply nested_mem. exact (Hs _ e eq_refl eq_refl).
  - intros H; discriminate H.
Qed.

Lemma seq_members_ok o ic ki ue : C01.leaf ue = true -> forall vs a subs a',
  Forall sub_ok subs -> Forall mem_ok (a_rest a) -> seq_members o ic ki ue a vs subs = Ok a' ->
  Forall mem_ok (a_rest a').
Proof.
  intros Hl. induction vs as [|v vs IH]; intros a subs a' HF Ha H; cbn [seq_members] in H.
  - inversion H; subst. exact Ha.
  - apply C03.bind_ok_inv in H. destruct H as (a1 & H1 & H).
    apply (IH a1 (tl subs) a'); [| |exact H].
    + destruct subs as [|s subs']; cbn [tl]; [constructor|]. inversion HF; assumption.
    + refine (seq_member_ok _ _ _ _ _ _ _ _ Hl _ Ha H1).
      destruct subs as [|s subs']; [apply sub_ok_none|]. inversion HF; assumption.
Qed.

Lemma finish_tail_ok (ke : expr) (multiple : bool) (group : list expr) e :
  Forall mem_ok group ->
  match group with
  | [] => Err EInvalidIdent
  | [x] =>
      let keep_of := match ke with
                     | EMatch (MOf c) _ => negb (c =? 1)%Z
                     | _ => false
                     end in
      if negb multiple && negb keep_of then Ok x
      else match ke with
           | EMatch m _ => Ok (EMatch m x)
           | _ => Ok (EGroup BOr group)
           end
  | _ =>
      match ke with
      | EMatch m _ => Ok (EMatch m (EGroup BOr group))
      | _ => Ok (EGroup BOr group)
      end
  end = Ok e -> pre_ok e.
Proof.
  intros HF. pose proof (Forall_mem_inv _ HF) as HI.
  destruct group as [|x [|y rest]].
  - intros H; discriminate H.
  - cbv zeta. inversion HF as [|x' l' Hx _]; subst.
    destruct (negb multiple && negb _).
    + intros H; inversion H; subst. exact (mem_pre _ Hx).
    + destruct ke; intros H; inversion H; subst;
        first [exact (grp1_pre _ Hx) | exact (match1_pre _ _ Hx)].
  - destruct ke; intros H; inversion H; subst;
      first [exact (grp2_pre BOr _ _ _ eq_refl HI) | exact (match2_pre _ _ _ _ HI)].
Qed.

Lemma Forall_search_map {A} (l : list A) s f c :
  Forall mem_ok (map (fun _ => ESearch s f c) l).
Proof. induction l; cbn [map]; constructor; [apply search_mem | assumption]. Qed.

Lemma finish_seq_ok ki a e : Forall mem_ok (a_rest a) -> finish_seq ki a = Ok e -> pre_ok e.
Proof.
  intros Ha. unfold finish_seq. cbv zeta.
  C03.destruct_let_pair.
  C03.destruct_let_pair.
  C03.destruct_let_pair.
  C03.destruct_let_pair.
  C03.destruct_let_pair.
  match goal with |- (if ?b then _ else _) = _ -> _ => destruct b end; [intros H; discriminate H|].
  match goal with |- (if ?b then _ else _) = _ -> _ => destruct b end; [intros H; discriminate H|].
  match goal with |- (if ?b then _ else _) = _ -> _ => destruct b end; [intros H; discriminate H|].
  apply finish_tail_ok.
  repeat (apply Forall_app; split); try exact Ha; try apply Forall_search_map;
    match goal with
    | H : match ?X with _ => _ end = (?g, _) |- Forall mem_ok ?g =>
        destruct X as [|? [|? ?]]; inversion H; subst;
        repeat first [apply search_mem | constructor]
    end.
Qed.

(* ---- keys ---- *)
Definition key_ok (ki : keyinfo) (v : yaml) : Prop :=
  match k_e ki with
  | EField _ | ECast _ _ => True
  | EMatch _ (EField _) => is_yseq v = true
  | _ => False
  end.

Lemma parse_key_ok o k v ki : parse_key o k v = Ok ki -> key_ok ki v.
Proof.
  unfold parse_key. destruct k as [| | | |s| | |]; try (intros H; discriminate H). intros H.
  apply C03.bind_ok_inv in H. destruct H as (ts & _ & H).
  apply C03.bind_ok_inv in H. destruct H as (ex & _ & H).
  destruct ex as [s1 l1|a1 s1 b1|b1|f1 m1|f1|x1|i1|z1|k1 e1|c1 r1|e1|f1 e1| |s1 f1 c1];
    try discriminate H.
  - inversion H; subst. unfold key_ok. cbn [k_e]. destruct m1; exact I.
  - inversion H; subst. exact I.
  - destruct (is_yseq v) eqn:Ev; [|discriminate H].
    destruct e1; try discriminate H. inversion H; subst. unfold key_ok. cbn [k_e]. exact Ev.
Qed.

Lemma key_ok_leaf ki v : key_ok ki v -> is_yseq v = false -> C01.leaf (k_e ki) = true.
Proof.
  unfold key_ok. intros H Hv. destruct (k_e ki) as [| | | | | | | |k e| | | | |];
    try contradiction; try reflexivity.
  destruct e; try contradiction. congruence.
Qed.

Lemma key_ok_ue ki v : key_ok ki v ->
  C01.leaf (match k_e ki with EMatch _ inner => inner | _ => k_e ki end) = true.
Proof.
  unfold key_ok. intros H. destruct (k_e ki) as [| | | | | | | |k e| | | | |];
    try contradiction; try reflexivity.
  destruct e; try contradiction. reflexivity.
Qed.

(* ---- entries and mappings ---- *)
Lemma parse_entry_ok o ic k v sub subs e :
  sub_ok sub -> Forall sub_ok subs -> parse_entry o ic k v sub subs = Ok e -> map_ok e.
Proof.
  intros Hs HF H. unfold parse_entry in H.
  apply C03.bind_ok_inv in H. destruct H as (ki & Hk & H). cbv zeta in H.
  apply parse_key_ok in Hk.
  apply C03.bind_ok_inv in H. destruct H as (ex & Hex & H).
  assert (Hw : pre_ok ex).
  { clear H.
    assert (Hc : is_yseq v = false -> forall r, C01.leaf r = true -> pre_ok (cmp_expr (k_e ki) BEqual r)).
    { intros Hv r Hr. apply mem_pre. apply cmp_mem; [exact (key_ok_leaf _ _ Hk Hv) | exact Hr | reflexivity]. }
    destruct v as [| b | z | x | s | l | kv | tag w].
    - inversion Hex; subst. apply Hc; reflexivity.
    - destruct (misc_is MInt (k_misc ki)); [|destruct (misc_is MStr (k_misc ki))];
        inversion Hex; subst;
        first [apply mem_pre; apply search_mem | apply Hc; reflexivity].
    - destruct (number_of z);
        [ destruct (misc_is MStr (k_misc ki))
        | destruct (misc_is MInt (k_misc ki)); [|destruct (misc_is MStr (k_misc ki))] ];
        inversion Hex; subst;
        first [apply mem_pre; apply search_mem | apply Hc; reflexivity].
    - destruct (misc_is MInt (k_misc ki)); [|destruct (misc_is MStr (k_misc ki))];
        inversion Hex; subst;
        first [apply mem_pre; apply search_mem | apply Hc; reflexivity].
    - apply mem_pre.
      exact (scalar_string_expr_ok _ _ _ _ _ (key_ok_leaf _ _ Hk eq_refl) Hex).
    - apply C03.bind_ok_inv in Hex. destruct Hex as (a & Hm & Hf).
      apply (finish_seq_ok ki a); [|exact Hf].
      refine (seq_members_ok _ _ _ _ (key_ok_ue _ _ Hk) _ _ _ _ HF _ Hm).
      destruct (misc_is MStr (k_misc ki)); apply Forall_nil.
    - destruct (k_misc ki); [discriminate Hex|].
      destruct sub as [r|]; [|discriminate Hex].
      apply C03.bind_ok_inv in Hex. destruct Hex as (x & Hr & Hx). inversion Hx; subst.
      apply mem_pre. apply nested_mem. exact (Hs _ x eq_refl eq_refl).
    - discriminate Hex. }
  destruct (misc_is MNot (k_misc ki)); inversion H; subst.
  - destruct Hw as (H1 & H2 & _). split; [|reflexivity].
    cbn [C01.inv]. rewrite H2, H1. reflexivity.
  - exact (pre_map _ Hw).
Qed.

Lemma finish_mapping_ok es e : Forall map_ok es -> finish_mapping es = Ok e -> map_ok e.
Proof.
  intros HF. unfold finish_mapping.
  assert (HI : forallb C01.inv es = true).
  { apply C01.forallb_intro. rewrite Forall_forall in HF. intros x Hx. apply (HF x Hx). }
  destruct es as [|x [|y rest]]; intros H; inversion H; subst.
  - inversion HF; assumption.
  - apply pre_map. exact (grp2_pre BAnd _ _ _ eq_refl HI).
Qed.

Fixpoint parse_mapping_ok (o : oracles) (ic : bool) (y : yaml) {struct y} :
  forall e, parse_mapping o ic y = Ok e -> map_ok e.
Proof.
  destruct y as [| | | | |l|kv|tag w]; try (intros e H; discriminate H).
  cbn [parse_mapping]. intros e H.
  apply C03.bind_ok_inv in H. destruct H as (es & Hes & Hfin).
  apply (finish_mapping_ok es); [|exact Hfin]. clear Hfin e.
  revert es Hes.
  induction kv as [|[k v] kv' IH]; intros es Hes.
  - inversion Hes; subst. constructor.
  - assert (H1 : sub_ok (match v with YMap _ => Some (parse_mapping o ic v) | _ => None end)).
    { clear Hes IH. intros r x Hr Hx. pose proof (parse_mapping_ok o ic v) as Hv.
      destruct v as [| | | | |l|kv0|tag w]; try discriminate Hr.
      injection Hr as <-. exact (Hv _ Hx). }
    assert (H2 : Forall sub_ok
                   (match v with
                    | YSeq l => map (fun m => match m with
                                              | YMap _ => Some (parse_mapping o ic m)
                                              | _ => None
                                              end) l
                    | _ => []
                    end)).
    { clear Hes IH H1. destruct v as [| | | | |l|kv0|tag w]; try constructor.
      induction l as [|m l IHl]; cbn [map]; constructor; [|exact IHl].
      intros r x Hr Hx. pose proof (parse_mapping_ok o ic m) as Hm.
      destruct m as [| | | | |l0|kv0|tag w]; try discriminate Hr.
      injection Hr as <-. exact (Hm _ Hx). }
    apply C03.bind_ok_inv in Hes. destruct Hes as (e & He & Hes).
    apply C03.bind_ok_inv in Hes. destruct Hes as (es' & Hes' & Hes).
    inversion Hes; subst. constructor; [|exact (IH _ Hes')].
    exact (parse_entry_ok _ _ _ _ _ _ _ H1 H2 He).
Qed.

Lemma parse_identifier_inv : forall o ic y e,
  parse_identifier o ic y = Ok e -> C01.inv e = true.
Proof.
  intros o ic y e H. unfold parse_identifier in H.
  destruct y as [| | | | |l|kv|tag w]; try discriminate H.
  - destruct l as [|first others]; [discriminate H|].
    destruct (is_ymap first); [|discriminate H].
    apply C03.bind_ok_inv in H. destruct H as (e0 & H0 & H).
    apply C03.bind_ok_inv in H. destruct H as (es & Hes & H). inversion H; subst.
    apply parse_mapping_ok in H0.
    apply (C03.mapM_Forall _ map_ok) in Hes.
    + cbn [C01.inv is_and_or andb forallb]. rewrite (proj1 H0). cbn [andb].
      apply C01.forallb_intro. rewrite Forall_forall in Hes. intros x Hx. apply (Hes x Hx).
    + intros a b Hab. destruct (is_ymap a); [|discriminate Hab].
      exact (parse_mapping_ok _ _ _ _ Hab).
  - exact (proj1 (parse_mapping_ok _ _ _ _ H)).
Qed.

Lemma loaded_body_shapes : forall o ic y b,
  parse_identifier o ic y = Ok b ->
  wf_body b = true /\ C01.sh0 b = true /\ C01.shx b = true /\ C01.no_dneg b = true /\ C01.cmp_leaves b = true.
Proof.
  intros o ic y b H. apply parse_identifier_inv in H.
  destruct (inv_shapes _ H) as (A1 & A2 & A3 & A4 & A5).
  repeat split; try assumption.
  unfold C01.no_dneg. apply negb_true_iff. exact (A5 false).
Qed.

(* ====================================================================================== *)
(* 4. whole rules                                                                          *)
(* ====================================================================================== *)

Lemma load_detection_parse o ic y dt : load_detection o ic y = Ok dt ->
  exists ts, parse ts = Ok (d_expr dt).
Proof.
  unfold load_detection. intros H. destruct (untag y); try discriminate H.
  apply C03.bind_ok_inv in H. destruct H as ([cond ids] & Hent & H).
  destruct cond as [raw|]; [|discriminate H].
  apply C03.bind_ok_inv in H. destruct H as (ts & _ & H).
  destruct (idents_known ids None None ts) eqn:Eik; [|discriminate H]. cbn [negb] in H.
  apply C03.bind_ok_inv in H. destruct H as (e & He & H). apply C03.as_rule_err_ok in He.
  destruct (is_solvable e) eqn:Es; [|discriminate H]. inversion H; subst.
  exists ts. exact He.
Qed.

Lemma loaded_rule_coalesce_rewrite : forall o ic ord y r sw (d : doc),
  C01.H_strip o ->
  load_rule o ic y = Ok r -> r_optimised r = false ->
  sw_shake sw = false -> sw_matrix sw = false ->
  exists r', optimise o ord sw r = Ok r' /\ matches o r' d = matches o r d.
Proof.
  intros o ic ord y r sw d Hs Hl Hopt Hsh Hmx.
  pose proof (C03.load_wf _ _ _ _ Hl) as Hwf.
  destruct (C03.load_rule_det _ _ _ _ Hl) as [dy Hd].
  destruct (load_detection_parse _ _ _ _ Hd) as [ts Hp].
  destruct (loaded_condition_shapes _ _ Hp) as [Hnn Hcl].
  destruct (C01.optimise_coalesce_rewrite_exact_alt o ord sw r (pure_doc d) Hs Hsh Hmx Hwf Hopt Hnn Hcl)
    as [r' [Hr' Hsem]].
  exists r'. split; [exact Hr'|].
  exact (C01.exact_implies_verdict o (r_det r) (r_det r') d Hsem r r' eq_refl eq_refl).
Qed.

Lemma loaded_body_shake0 : forall o ic y b fuel b' (d : docq),
  parse_identifier o ic y = Ok b ->
  shake0 fuel b = Ok b' ->
  solve_body o b' d = solve_body o b d.
Proof.
  intros o ic y b fuel b' d H Hsk. apply parse_identifier_inv in H.
  apply (C01.shake0_post o fuel b b' H Hsk).
Qed.
