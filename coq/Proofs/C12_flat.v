(* C12: hash order cannot change a verdict where the merging pass is exact (corollaries of
   C01_shake1 / C01_flat). *)
From Coq Require Import Permutation.
From TauModel Require Import Base Num Oracles Syntax Value Yaml Pratt ParseMap Solver Rule Keys Optimiser Known.
From TauModel Require Scope.
From TauProofs Require C01 C01_shake1 C01_flat.

Lemma shake1_order_irrelevant_flat : forall o ord1 ord2 fuel e (d : doc),
  (forall l, Permutation (ord1 l) l) -> (forall l, Permutation (ord2 l) l) ->
  wf_body e = true -> C01.no_nested e = true -> C01.cmp_leaves e = true ->
  solve_body o (shake1 ord1 fuel e) (pure_doc d) = solve_body o (shake1 ord2 fuel e) (pure_doc d).
Proof.
  intros o ord1 ord2 fuel e d H1 H2 Hw Hn Hc.
  rewrite (C01_shake1.shake1_exact_flat_alt o ord1 fuel e d H1 Hw Hn Hc).
  rewrite (C01_shake1.shake1_exact_flat_alt o ord2 fuel e d H2 Hw Hn Hc).
  reflexivity.
Qed.

Lemma optimise_order_irrelevant_in_scope : forall o ic ord1 ord2 sw y r (d : doc),
  (forall l, Permutation (ord1 l) l) -> (forall l, Permutation (ord2 l) l) ->
  C01.H_strip o ->
  load_rule o ic y = Ok r -> r_optimised r = false ->
  Scope.c01_scope sw (r_det r) = true ->
  exists r1 r2, optimise o ord1 sw r = Ok r1 /\ optimise o ord2 sw r = Ok r2 /\
                matches o r1 d = matches o r2 d.
Proof.
  intros o ic ord1 ord2 sw y r d H1 H2 Hs Hl Hopt Hsc.
  destruct (C01_flat.scope_sound o ic ord1 sw y r d H1 Hs Hl Hopt Hsc) as [r1 [E1 M1]].
  destruct (C01_flat.scope_sound o ic ord2 sw y r d H2 Hs Hl Hopt Hsc) as [r2 [E2 M2]].
  exists r1, r2. repeat split; try assumption. rewrite M1, M2. reflexivity.
Qed.
