(* C07: the automaton acceptance tables regenerated from src/solver.rs (Model/GeneratedAho.v),
   applied to the occurrences of a needle, are Solver.mtype_holds. *)
From Coq Require Import Arith Bool List Lia.
From TauModel Require Import Base Num Oracles Syntax Value Solver AhoTable GeneratedAho.

(* [s, e) is an occurrence of n in h *)
Definition occ (n h : str) (s e : nat) : Prop :=
  exists pre post, h = pre ++ n ++ post /\ s = length pre /\ e = length pre + length n.

Lemma str_eqb_iff : forall a b, str_eqb a b = true <-> a = b.
Proof.
  induction a as [|x a IH]; destruct b as [|y b]; cbn [str_eqb]; split; intros H; try reflexivity; try discriminate.
  - apply andb_prop in H. destruct H as [H1 H2]. apply N.eqb_eq in H1. apply IH in H2. subst. reflexivity.
  - inversion H; subst. rewrite N.eqb_refl. cbn [andb]. apply IH. reflexivity.
Qed.

Lemma is_prefix_iff : forall p s, is_prefix p s = true <-> exists post, s = p ++ post.
Proof.
  induction p as [|x p IH]; intros s; cbn [is_prefix].
  - split; [intros _; exists s; reflexivity | reflexivity].
  - destruct s as [|y s].
    + split; [discriminate | intros [post H]; discriminate H].
    + split.
      * intros H. apply andb_prop in H. destruct H as [H1 H2]. apply N.eqb_eq in H1. subst y.
        apply IH in H2. destruct H2 as [post ->]. exists post. reflexivity.
      * intros [post H]. cbn [app] in H. inversion H; subst. rewrite N.eqb_refl. cbn [andb].
        apply IH. exists post. reflexivity.
Qed.

Lemma is_suffix_iff : forall p s, is_suffix p s = true <-> exists pre, s = pre ++ p.
Proof.
  intros p s. unfold is_suffix. rewrite is_prefix_iff. split.
  - intros [post H]. exists (rev post). apply (f_equal (@rev _)) in H.
    rewrite rev_involutive, rev_app_distr, rev_involutive in H. exact H.
  - intros [pre ->]. exists (rev pre). rewrite rev_app_distr. reflexivity.
Qed.

Lemma is_infix_iff : forall p s, is_infix p s = true <-> exists pre post, s = pre ++ p ++ post.
Proof.
  intros p s. induction s as [|y s IH]; cbn [is_infix].
  - rewrite orb_false_r. rewrite is_prefix_iff. split.
    + intros [post H]. exists [], post. exact H.
    + intros [pre [post H]]. destruct pre; [exists post; exact H | discriminate H].
  - split.
    + intros H. apply orb_prop in H. destruct H as [H|H].
      * apply is_prefix_iff in H. destruct H as [post H]. exists [], post. exact H.
      * apply IH in H. destruct H as [pre [post ->]]. exists (y :: pre), post. reflexivity.
    + intros [pre [post H]]. destruct pre as [|z pre].
      * apply orb_true_intro. left. apply is_prefix_iff. exists post. exact H.
      * apply orb_true_intro. right. apply IH. cbn [app] in H. inversion H; subst. exists pre, post. reflexivity.
Qed.

Definition table_sound (t : list (mtk * acond)) : Prop :=
  forall m h,
    (exists c, cond_of t (kind_of m) = Some c /\
               exists s e, occ (mtype_value m) h s e /\ accepts c s e (length h) = true)
    <-> mtype_holds false m h = true.

Lemma len_app3 (a b c : str) : length (a ++ b ++ c) = length a + length b + length c.
Proof. rewrite !app_length. lia. Qed.

Lemma the_table_sound :
  table_sound [(KMContains, CAlways); (KMEndsWith, CEnd); (KMExact, CStartEnd); (KMStartsWith, CStart)].
Proof.
  intros m h. unfold mtype_holds, fold_hay. destruct m as [n|n|n|n]; cbn [kind_of cond_of mtk_eqb mtype_value].
  - (* contains *)
    rewrite is_infix_iff. split.
    + intros [c [Hc [s [e [[pre [post [Hh _]]] _]]]]]. exists pre, post. exact Hh.
    + intros [pre [post Hh]]. exists CAlways. split; [reflexivity|].
      exists (length pre), (length pre + length n). split; [exists pre, post; auto | reflexivity].
  - (* ends with *)
    rewrite is_suffix_iff. split.
    + intros [c [Hc [s [e [[pre [post [Hh [Hs He]]]] Ha]]]]]. inversion Hc; subst c. cbn [accepts] in Ha.
      apply Nat.eqb_eq in Ha. subst h. rewrite len_app3 in Ha.
      assert (length post = 0) by lia. destruct post; [|discriminate]. exists pre. rewrite app_nil_r. reflexivity.
    + intros [pre Hh]. exists CEnd. split; [reflexivity|].
      exists (length pre), (length pre + length n). split.
      * exists pre, []. rewrite app_nil_r. auto.
      * cbn [accepts]. apply Nat.eqb_eq. subst h. rewrite app_length. reflexivity.
  - (* exact *)
    rewrite str_eqb_iff. split.
    + intros [c [Hc [s [e [[pre [post [Hh [Hs He]]]] Ha]]]]]. inversion Hc; subst c. cbn [accepts] in Ha.
      apply andb_prop in Ha. destruct Ha as [A1 A2]. apply Nat.eqb_eq in A1. apply Nat.eqb_eq in A2.
      subst h. rewrite len_app3 in A2.
      assert (length pre = 0) by lia. assert (length post = 0) by lia.
      destruct pre; [|discriminate]. destruct post; [|discriminate]. cbn [app]. rewrite app_nil_r. reflexivity.
    + intros Hh. exists CStartEnd. split; [reflexivity|].
      exists 0, (length n). split.
      * exists [], []. cbn [app length]. rewrite app_nil_r. auto.
      * cbn [accepts]. subst h. rewrite !Nat.eqb_refl. reflexivity.
  - (* starts with *)
    rewrite is_prefix_iff. split.
    + intros [c [Hc [s [e [[pre [post [Hh [Hs He]]]] Ha]]]]]. inversion Hc; subst c. cbn [accepts] in Ha.
      apply Nat.eqb_eq in Ha. assert (length pre = 0) by lia. destruct pre; [|discriminate].
      exists post. exact Hh.
    + intros [post Hh]. exists CStart. split; [reflexivity|].
      exists 0, (length n). split; [exists [], post; auto | reflexivity].
Qed.

Lemma aho_tables_are_mtype_holds : Forall (fun t : aho_table => table_sound (snd t)) aho_tables.
Proof.
  unfold aho_tables.
  apply Forall_cons; [exact the_table_sound|].
  apply Forall_cons; [exact the_table_sound|].
  apply Forall_cons; [exact the_table_sound|].
  apply Forall_nil.
Qed.

(* the three loops: search returns on the first accepted occurrence, the two branches of slow_aho
   record the pattern *)
Lemma aho_actions : map fst aho_tables = [AReturnTrue; ASetBit; AInsert].
Proof. reflexivity. Qed.
