(* the order the crate's ordered maps use is a permutation of the keys *)
From Coq Require Import Permutation.
From TauModel Require Import Base Num Syntax Optimiser Order.

Lemma insert_by_perm {A} (lt : A -> A -> bool) x l : Permutation (insert_by lt x l) (x :: l).
Proof.
  induction l as [|y l IH]; cbn [insert_by]; [reflexivity|].
  destruct (lt x y); [reflexivity|].
  rewrite IH. apply perm_swap.
Qed.

Lemma fold_insert_perm {A} (lt : A -> A -> bool) l : forall acc,
  Permutation (fold_left (fun acc x => insert_by lt x acc) l acc) (acc ++ l).
Proof.
  induction l as [|x l IH]; intros acc; cbn [fold_left].
  - rewrite app_nil_r. reflexivity.
  - eapply Permutation_trans; [apply IH|].
    apply Permutation_trans with (l' := (x :: acc) ++ l).
    + apply Permutation_app_tail. apply insert_by_perm.
    + cbn [app]. apply Permutation_middle.
Qed.

Lemma sort_by_perm {A} (lt : A -> A -> bool) l : Permutation (sort_by lt l) l.
Proof. unfold sort_by. apply (fold_insert_perm lt l []). Qed.

Lemma rust_ord_perm : forall l, Permutation (rust_ord l) l.
Proof.
  intros l. unfold rust_ord. destruct l as [|k l]; [reflexivity|].
  destruct (forallb is_key3 (k :: l)); apply sort_by_perm.
Qed.

(* hence the end-to-end theorem of C01 holds for the order the crate uses *)
From TauModel Require Import Oracles Value Yaml Pratt ParseMap Solver Rule Keys Known.
From TauModel Require Scope.
From TauProofs Require C01 C01_flat.
Lemma crate_order_scope_sound : forall o ic sw y r (d : doc),
  C01.H_strip o ->
  load_rule o ic y = Ok r -> r_optimised r = false ->
  Scope.c01_scope sw (r_det r) = true ->
  exists r', optimise o rust_ord sw r = Ok r' /\ matches o r' d = matches o r d.
Proof.
  intros o ic sw y r d Hs Hl Hopt Hsc.
  exact (C01_flat.scope_sound o ic rust_ord sw y r d rust_ord_perm Hs Hl Hopt Hsc).
Qed.

(* ... and for all sixteen switch sets *)
From TauProofs Require C01_matrix.
Lemma crate_order_scope_all_sound : forall o ic sw y r (d : doc),
  C01.H_strip o ->
  load_rule o ic y = Ok r -> r_optimised r = false ->
  Scope.c01_scope_all o rust_ord sw (r_det r) = true ->
  exists r', optimise o rust_ord sw r = Ok r' /\ matches o r' d = matches o r d.
Proof.
  intros o ic sw y r d Hs Hl Hopt Hsc.
  exact (C01_matrix.scope_all_sound o ic rust_ord sw y r d rust_ord_perm Hs Hl Hopt Hsc).
Qed.
