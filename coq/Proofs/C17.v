(* C17  Order of operands never decides whether and/or is true: proofs. *)
From TauModel Require Import Base Num Oracles Syntax Value Yaml Solver ParseMap Rule.
From Coq Require Import Lia ZArith ZifyBool List Bool Permutation.
From TauProofs Require Import C06.
Import ListNotations.

(* ---- the helper definitions of Properties/C17.v, restated identically ----
   [lz] is C06.lz (same body as the one of Properties/C17.v, hence convertible). *)

Definition evaluates (o : oracles) ids body (g : list expr) (d : docq) : Prop :=
  forall x, In x g -> exists r, solve o ids body x d = Ok r.

Inductive pos_ctx : Type :=
| PHole
| PGroup (s : boolsym) (before : list expr) (c : pos_ctx) (after : list expr)
| PBexpL (c : pos_ctx) (s : boolsym) (r : expr)
| PBexpR (l : expr) (s : boolsym) (c : pos_ctx).

Fixpoint plug (c : pos_ctx) (x : expr) : expr :=
  match c with
  | PHole => x
  | PGroup s before c' after => EGroup s (before ++ plug c' x :: after)
  | PBexpL c' s r => EBexp (plug c' x) s r
  | PBexpR l s c' => EBexp l s (plug c' x)
  end.

Definition and_or (s : boolsym) : bool := match s with BAnd | BOr => true | _ => false end.

Fixpoint ctx_ok (c : pos_ctx) : bool :=
  match c with
  | PHole => true
  | PGroup s _ c' _ => and_or s && ctx_ok c'
  | PBexpL c' s _ | PBexpR _ s c' => and_or s && ctx_ok c'
  end.

Fixpoint ctx_siblings (c : pos_ctx) : list expr :=
  match c with
  | PHole => []
  | PGroup _ before c' after => before ++ after ++ ctx_siblings c'
  | PBexpL c' _ r => r :: ctx_siblings c'
  | PBexpR l _ c' => l :: ctx_siblings c'
  end.

(* ================= helper lemmas ================= *)

(* ---- permutation invariance of the list observers ---- *)

Lemma existsb_perm : forall {A} (p : A -> bool) l l',
  Permutation l l' -> existsb p l = existsb p l'.
Proof.
  intros A p l l' Hp.
  induction Hp as [|x l l' Hp IH|x y l|l l' l'' Hp1 IH1 Hp2 IH2]; cbn [existsb].
  - reflexivity.
  - rewrite IH. reflexivity.
  - destruct (p x), (p y); reflexivity.
  - congruence.
Qed.

Lemma forallb_perm : forall {A} (p : A -> bool) l l',
  Permutation l l' -> forallb p l = forallb p l'.
Proof.
  intros A p l l' Hp.
  induction Hp as [|x l l' Hp IH|x y l|l l' l'' Hp1 IH1 Hp2 IH2]; cbn [forallb].
  - reflexivity.
  - rewrite IH. reflexivity.
  - destruct (p x), (p y); reflexivity.
  - congruence.
Qed.

Lemma count_T_perm : forall rs rs', Permutation rs rs' -> count_T rs = count_T rs'.
Proof.
  intros rs rs' Hp.
  induction Hp as [|x l l' Hp IH|x y l|l l' l'' Hp1 IH1 Hp2 IH2].
  - reflexivity.
  - rewrite !count_T_cons, IH. reflexivity.
  - rewrite !count_T_cons. lia.
  - congruence.
Qed.

(* ---- the counting fold when the threshold is already reached (covers c < 0) ---- *)

Lemma ofn_fold_reached : forall rs c count acc,
  (c <= count)%Z ->
  ofn_fold c count acc (lz rs) =
  Ok (if existsb is_T rs then T else if existsb is_F rs then F else acc).
Proof.
  induction rs as [|r rs IH]; intros c count acc Hle; [reflexivity|].
  rewrite lz_cons. cbn [ofn_fold bind].
  destruct r; cbn [existsb is_T is_F orb].
  - destruct (Z.leb_spec c (count + 1)) as [_|Hgt]; [reflexivity|lia].
  - rewrite IH by lia. destruct (existsb is_T rs), (existsb is_F rs); reflexivity.
  - rewrite IH by lia. reflexivity.
Qed.

(* ---- folds over members that evaluate ---- *)

Definition val (x : out res3) : res3 := match x with Ok r => r | _ => M end.

Section Generic.
Context {A : Type} (f : A -> out res3).

Definition evals (l : list A) : Prop := forall x, In x l -> exists r, f x = Ok r.

Lemma evals_val : forall l x, evals l -> In x l -> f x = Ok (val (f x)).
Proof.
  intros l x He Hin. destruct (He x Hin) as [r Hr]. rewrite Hr. reflexivity.
Qed.

Lemma and_fold_In_ext : forall l, evals l ->
  and_fold (map (fun x (_ : unit) => f x) l) = and_fold (lz (map (fun x => val (f x)) l)).
Proof.
  intros l He. unfold lz. rewrite map_map.
  induction l as [|a l IH]; [reflexivity|].
  cbn [map and_fold].
  destruct (He a (or_introl eq_refl)) as [r Hr]. rewrite Hr. cbn [val bind].
  destruct r; try reflexivity.
  apply IH. intros y Hy. apply He. right. exact Hy.
Qed.

Lemma or_fold_In_ext : forall l acc, evals l ->
  or_fold acc (map (fun x (_ : unit) => f x) l) = or_fold acc (lz (map (fun x => val (f x)) l)).
Proof.
  intros l acc He. unfold lz. rewrite map_map. revert acc.
  induction l as [|a l IH]; intros acc; [reflexivity|].
  cbn [map or_fold].
  destruct (He a (or_introl eq_refl)) as [r Hr]. rewrite Hr. cbn [val bind].
  destruct r; try reflexivity; apply IH; intros y Hy; apply He; right; exact Hy.
Qed.

Lemma and_fold_evals : forall l, evals l ->
  exists r, and_fold (map (fun x (_ : unit) => f x) l) = Ok r.
Proof.
  intros l He. rewrite (and_fold_In_ext l He), and_group_spec. eexists. reflexivity.
Qed.

Lemma or_fold_evals : forall l, evals l ->
  exists r, or_fold M (map (fun x (_ : unit) => f x) l) = Ok r.
Proof.
  intros l He. rewrite (or_fold_In_ext l M He), or_group_spec. eexists. reflexivity.
Qed.

(* and: true iff every member is true (no side condition needed) *)
Lemma and_fold_T_iff : forall l,
  and_fold (map (fun x (_ : unit) => f x) l) = Ok T <-> (forall x, In x l -> f x = Ok T).
Proof.
  induction l as [|a l IH].
  - split; [intros _ x Hx; destruct Hx|reflexivity].
  - cbn [map and_fold].
    destruct (f a) as [r|k|s] eqn:Ea; cbn [bind].
    + destruct r.
      * rewrite IH. split.
        -- intros H x [Hx|Hx]; [subst x; exact Ea|apply H; exact Hx].
        -- intros H x Hx. apply H. right. exact Hx.
      * split; intros H; [discriminate H|].
        specialize (H a (or_introl eq_refl)). congruence.
      * split; intros H; [discriminate H|].
        specialize (H a (or_introl eq_refl)). congruence.
    + split; intros H; [discriminate H|].
      specialize (H a (or_introl eq_refl)). congruence.
    + split; intros H; [discriminate H|].
      specialize (H a (or_introl eq_refl)). congruence.
Qed.

(* or: true iff some member is true, provided the members evaluate *)
Lemma or_fold_T_iff : forall l, evals l ->
  (or_fold M (map (fun x (_ : unit) => f x) l) = Ok T <-> exists x, In x l /\ f x = Ok T).
Proof.
  intros l He. rewrite (or_fold_In_ext l M He), or_group_spec.
  destruct (existsb is_T (map (fun x => val (f x)) l)) eqn:Ex.
  - split; [intros _|reflexivity].
    apply existsb_exists in Ex. destruct Ex as [r [Hin Hr]].
    apply in_map_iff in Hin. destruct Hin as [x [Hx Hin]].
    exists x. split; [exact Hin|].
    rewrite (evals_val l x He Hin), Hx. destruct r; try discriminate Hr. reflexivity.
  - split.
    + intros H. destruct (existsb is_F _); discriminate H.
    + intros [x [Hin Hx]].
      assert (Ht : existsb is_T (map (fun x => val (f x)) l) = true).
      { apply existsb_exists. exists T. split; [|reflexivity].
        apply in_map_iff. exists x. split; [rewrite Hx; reflexivity|exact Hin]. }
      congruence.
Qed.
End Generic.

(* ================= the theorems of Properties/C17.v ================= *)

Lemma or_perm : forall rs rs', Permutation rs rs' -> or_fold M (lz rs) = or_fold M (lz rs').
Proof.
  intros rs rs' Hp. rewrite !or_group_spec.
  rewrite (existsb_perm is_T rs rs' Hp), (existsb_perm is_F rs rs' Hp). reflexivity.
Qed.

Lemma and_perm_truth : forall rs rs', Permutation rs rs' ->
  (and_fold (lz rs) = Ok T <-> and_fold (lz rs') = Ok T).
Proof.
  intros rs rs' Hp. rewrite !and_group_true_iff, !Forall_forall.
  split; intros H x Hx; apply H.
  - apply (Permutation_in x (Permutation_sym Hp)). exact Hx.
  - apply (Permutation_in x Hp). exact Hx.
Qed.

Lemma of_perm : forall c rs rs', Permutation rs rs' -> of_fold c (lz rs) = of_fold c (lz rs').
Proof.
  intros c rs rs' Hp.
  destruct (Z.eq_dec c 0) as [Hz|Hnz].
  - subst c. rewrite !of_zero_spec.
    rewrite (existsb_perm is_T rs rs' Hp), (existsb_perm is_F rs rs' Hp). reflexivity.
  - destruct (Z_le_gt_dec 1 c) as [Hpos|Hneg].
    + rewrite !of_pos_spec by exact Hpos.
      rewrite (count_T_perm rs rs' Hp), (forallb_perm (fun r => res3_eqb r M) rs rs' Hp).
      reflexivity.
    + unfold of_fold. destruct (Z.eqb_spec c 0) as [Heq|_]; [lia|].
      rewrite !ofn_fold_reached by lia.
      rewrite (existsb_perm is_T rs rs' Hp), (existsb_perm is_F rs rs' Hp). reflexivity.
Qed.

Lemma binary_comm : forall a b,
  or2 (fun _ => Ok a) (fun _ => Ok b) = or2 (fun _ => Ok b) (fun _ => Ok a) /\
  (and2 (fun _ => Ok a) (fun _ => Ok b) = Ok T <-> and2 (fun _ => Ok b) (fun _ => Ok a) = Ok T).
Proof.
  intros a b.
  destruct a, b; (split; [reflexivity|]); cbv [and2 bind];
    split; intros H; first [reflexivity|discriminate H].
Qed.

Lemma group_or_perm : forall o ids body g g' d,
  Permutation g g' -> evaluates o ids body g d ->
  solve o ids body (EGroup BOr g) d = solve o ids body (EGroup BOr g') d.
Proof.
  intros o ids body g g' d Hp Hev.
  destruct (group_solve o ids body g d) as (_ & Ho & _).
  destruct (group_solve o ids body g' d) as (_ & Ho' & _).
  rewrite Ho, Ho'. clear Ho Ho'.
  assert (Hev' : evaluates o ids body g' d).
  { intros x Hx. apply Hev. apply (Permutation_in x (Permutation_sym Hp)). exact Hx. }
  pose proof (or_fold_In_ext (fun x => solve o ids body x d) g M Hev) as E.
  pose proof (or_fold_In_ext (fun x => solve o ids body x d) g' M Hev') as E'.
  cbv beta in E, E'. rewrite E, E'.
  apply or_perm. apply Permutation_map. exact Hp.
Qed.

Lemma group_and_perm_truth : forall o ids body g g' d,
  Permutation g g' -> evaluates o ids body g d ->
  (solve o ids body (EGroup BAnd g) d = Ok T <-> solve o ids body (EGroup BAnd g') d = Ok T).
Proof.
  intros o ids body g g' d Hp _.
  destruct (group_solve o ids body g d) as (Ha & _ & _).
  destruct (group_solve o ids body g' d) as (Ha' & _ & _).
  rewrite Ha, Ha'. clear Ha Ha'.
  pose proof (and_fold_T_iff (fun x => solve o ids body x d) g) as E.
  pose proof (and_fold_T_iff (fun x => solve o ids body x d) g') as E'.
  cbv beta in E, E'. rewrite E, E'.
  split; intros H x Hx; apply H.
  - apply (Permutation_in x (Permutation_sym Hp)). exact Hx.
  - apply (Permutation_in x Hp). exact Hx.
Qed.

(* ---- positive contexts ---- *)

Lemma bexp_solve : forall o ids body l r d,
  solve o ids body (EBexp l BAnd r) d =
    and2 (fun _ => solve o ids body l d) (fun _ => solve o ids body r d) /\
  solve o ids body (EBexp l BOr r) d =
    or2 (fun _ => solve o ids body l d) (fun _ => solve o ids body r d).
Proof. intros. split; reflexivity. Qed.

Lemma binary_mono : forall a a' b, (a = T <-> a' = T) ->
  (exists v v', and2 (fun _ => Ok a) (fun _ => Ok b) = Ok v /\
                and2 (fun _ => Ok a') (fun _ => Ok b) = Ok v' /\ (v = T <-> v' = T)) /\
  (exists v v', and2 (fun _ => Ok b) (fun _ => Ok a) = Ok v /\
                and2 (fun _ => Ok b) (fun _ => Ok a') = Ok v' /\ (v = T <-> v' = T)) /\
  (exists v v', or2 (fun _ => Ok a) (fun _ => Ok b) = Ok v /\
                or2 (fun _ => Ok a') (fun _ => Ok b) = Ok v' /\ (v = T <-> v' = T)) /\
  (exists v v', or2 (fun _ => Ok b) (fun _ => Ok a) = Ok v /\
                or2 (fun _ => Ok b) (fun _ => Ok a') = Ok v' /\ (v = T <-> v' = T)).
Proof.
  intros a a' b [H1 H2].
  assert (Hiff : forall v v' : res3, (v = T -> v' = T) -> (v' = T -> v = T) -> (v = T <-> v' = T))
    by (intros v v' P Q; split; assumption).
  destruct a, a', b;
    try (specialize (H1 eq_refl); discriminate H1);
    try (specialize (H2 eq_refl); discriminate H2);
    cbv [and2 or2 bind];
    repeat split; eexists; eexists; (split; [reflexivity|split; [reflexivity|]]);
    apply Hiff; intros H; first [reflexivity|discriminate H].
Qed.

Section Steps.
Variables (o : oracles) (ids : list (str * expr)) (body : expr -> docq -> out res3) (d : docq).

Let f (e : expr) : out res3 := solve o ids body e d.

(* both operands evaluate, and the first is true exactly when the second is *)
Definition good (p p' : expr) : Prop :=
  exists a a', f p = Ok a /\ f p' = Ok a' /\ (a = T <-> a' = T).

Lemma good_hole : forall x x',
  (f x = Ok T <-> f x' = Ok T) ->
  (exists r, f x = Ok r) -> (exists r, f x' = Ok r) -> good x x'.
Proof.
  intros x x' Hxx' [a Ha] [a' Ha']. exists a, a'.
  split; [exact Ha|split; [exact Ha'|]].
  rewrite Ha, Ha' in Hxx'. destruct Hxx' as [P Q].
  split; intros E; subst.
  - specialize (P eq_refl). congruence.
  - specialize (Q eq_refl). congruence.
Qed.

Lemma good_truth : forall p p', good p p' -> (f p = Ok T <-> f p' = Ok T).
Proof.
  intros p p' (a & a' & Ea & Ea' & [P Q]). rewrite Ea, Ea'.
  split; intros E; f_equal; [apply P|apply Q]; congruence.
Qed.

Lemma step_group : forall s before after p p',
  and_or s = true ->
  (forall y, In y before -> exists r, f y = Ok r) ->
  (forall y, In y after -> exists r, f y = Ok r) ->
  good p p' ->
  good (EGroup s (before ++ p :: after)) (EGroup s (before ++ p' :: after)).
Proof.
  intros s before after p p' Hs Hb Ha (a & a' & Ea & Ea' & Hiff).
  assert (Hev : forall q v, f q = Ok v -> evals f (before ++ q :: after)).
  { intros q v Eq y Hy. apply in_app_or in Hy. destruct Hy as [Hy|[Hy|Hy]].
    - apply Hb. exact Hy.
    - subst y. exists v. exact Eq.
    - apply Ha. exact Hy. }
  pose proof (Hev _ _ Ea) as He. pose proof (Hev _ _ Ea') as He'.
  unfold good.
  destruct s; try discriminate Hs.
  - (* and-group *)
    destruct (group_solve o ids body (before ++ p :: after) d) as (G & _ & _).
    destruct (group_solve o ids body (before ++ p' :: after) d) as (G' & _ & _).
    destruct (and_fold_evals f _ He) as [v Ev].
    destruct (and_fold_evals f _ He') as [v' Ev'].
    exists v, v'. unfold f at 1 2. rewrite G, G'.
    split; [exact Ev|split; [exact Ev'|]].
    pose proof (and_fold_T_iff f (before ++ p :: after)) as I.
    pose proof (and_fold_T_iff f (before ++ p' :: after)) as I'.
    rewrite Ev in I. rewrite Ev' in I'.
    assert (Hgo : forall q q' w w', f q = Ok w -> f q' = Ok w' -> (w = T -> w' = T) ->
              (forall y, In y (before ++ q :: after) -> f y = Ok T) ->
              (forall y, In y (before ++ q' :: after) -> f y = Ok T)).
    { intros q q' w w' Eq Eq' Hw Hall y Hy.
      apply in_app_or in Hy. destruct Hy as [Hy|[Hy|Hy]].
      - apply Hall. apply in_or_app. left. exact Hy.
      - subst y. rewrite Eq'. f_equal. apply Hw.
        assert (Hq : f q = Ok T) by (apply Hall; apply in_or_app; right; left; reflexivity).
        congruence.
      - apply Hall. apply in_or_app. right. right. exact Hy. }
    destruct Hiff as [P Q].
    split; intros E; subst.
    + assert (E' : Ok v' = Ok T) by (apply I'; apply (Hgo _ _ _ _ Ea Ea' P); apply I; reflexivity).
      congruence.
    + assert (E' : Ok v = Ok T) by (apply I; apply (Hgo _ _ _ _ Ea' Ea Q); apply I'; reflexivity).
      congruence.
  - (* or-group *)
    destruct (group_solve o ids body (before ++ p :: after) d) as (_ & G & _).
    destruct (group_solve o ids body (before ++ p' :: after) d) as (_ & G' & _).
    destruct (or_fold_evals f _ He) as [v Ev].
    destruct (or_fold_evals f _ He') as [v' Ev'].
    exists v, v'. unfold f at 1 2. rewrite G, G'.
    split; [exact Ev|split; [exact Ev'|]].
    pose proof (or_fold_T_iff f (before ++ p :: after) He) as I.
    pose proof (or_fold_T_iff f (before ++ p' :: after) He') as I'.
    rewrite Ev in I. rewrite Ev' in I'.
    assert (Hgo : forall q q' w w', f q = Ok w -> f q' = Ok w' -> (w = T -> w' = T) ->
              (exists y, In y (before ++ q :: after) /\ f y = Ok T) ->
              (exists y, In y (before ++ q' :: after) /\ f y = Ok T)).
    { intros q q' w w' Eq Eq' Hw [y [Hy Ey]].
      apply in_app_or in Hy. destruct Hy as [Hy|[Hy|Hy]].
      - exists y. split; [apply in_or_app; left; exact Hy|exact Ey].
      - subst y. exists q'. split; [apply in_or_app; right; left; reflexivity|].
        rewrite Eq'. f_equal. apply Hw. congruence.
      - exists y. split; [apply in_or_app; right; right; exact Hy|exact Ey]. }
    destruct Hiff as [P Q].
    split; intros E; subst.
    + assert (E' : Ok v' = Ok T) by (apply I'; apply (Hgo _ _ _ _ Ea Ea' P); apply I; reflexivity).
      congruence.
    + assert (E' : Ok v = Ok T) by (apply I; apply (Hgo _ _ _ _ Ea' Ea Q); apply I'; reflexivity).
      congruence.
Qed.

Lemma step_bexpL : forall s r p p',
  and_or s = true -> (exists b, f r = Ok b) -> good p p' ->
  good (EBexp p s r) (EBexp p' s r).
Proof.
  intros s r p p' Hs [b Eb] (a & a' & Ea & Ea' & Hiff).
  destruct (binary_mono a a' b Hiff) as (Band & _ & Bor & _).
  destruct (bexp_solve o ids body p r d) as [SA SO].
  destruct (bexp_solve o ids body p' r d) as [SA' SO'].
  unfold f in Ea, Ea', Eb.
  destruct s; try discriminate Hs; unfold good, f.
  - rewrite SA, SA', Ea, Ea', Eb. exact Band.
  - rewrite SO, SO', Ea, Ea', Eb. exact Bor.
Qed.

Lemma step_bexpR : forall s l p p',
  and_or s = true -> (exists b, f l = Ok b) -> good p p' ->
  good (EBexp l s p) (EBexp l s p').
Proof.
  intros s l p p' Hs [b Eb] (a & a' & Ea & Ea' & Hiff).
  destruct (binary_mono a a' b Hiff) as (_ & Band & _ & Bor).
  destruct (bexp_solve o ids body l p d) as [SA SO].
  destruct (bexp_solve o ids body l p' d) as [SA' SO'].
  unfold f in Ea, Ea', Eb.
  destruct s; try discriminate Hs; unfold good, f.
  - rewrite SA, SA', Ea, Ea', Eb. exact Band.
  - rewrite SO, SO', Ea, Ea', Eb. exact Bor.
Qed.

(* The context theorem for ANY presentation of positive contexts: a type with the four
   constructors, its induction principle, and plug / ok / siblings functions satisfying the
   defining equations.  (Instantiable with an inductive type declared elsewhere, all
   equations by [eq_refl].) *)
Section AnyCtx.
Variable P : Type.
Variable hole : P.
Variable grp : boolsym -> list expr -> P -> list expr -> P.
Variable bl : P -> boolsym -> expr -> P.
Variable br : expr -> boolsym -> P -> P.
Hypothesis P_ind : forall Q : P -> Prop,
  Q hole ->
  (forall s before c, Q c -> forall after, Q (grp s before c after)) ->
  (forall c, Q c -> forall s r, Q (bl c s r)) ->
  (forall l s c, Q c -> Q (br l s c)) ->
  forall c, Q c.
Variable plg : P -> expr -> expr.
Variable ok : P -> bool.
Variable sib : P -> list expr.
Hypothesis plg_hole : forall x, plg hole x = x.
Hypothesis plg_grp : forall s b c a x, plg (grp s b c a) x = EGroup s (b ++ plg c x :: a).
Hypothesis plg_bl : forall c s r x, plg (bl c s r) x = EBexp (plg c x) s r.
Hypothesis plg_br : forall l s c x, plg (br l s c) x = EBexp l s (plg c x).
Hypothesis ok_hole : ok hole = true.
Hypothesis ok_grp : forall s b c a, ok (grp s b c a) = and_or s && ok c.
Hypothesis ok_bl : forall c s r, ok (bl c s r) = and_or s && ok c.
Hypothesis ok_br : forall l s c, ok (br l s c) = and_or s && ok c.
Hypothesis sib_hole : sib hole = [].
Hypothesis sib_grp : forall s b c a, sib (grp s b c a) = b ++ a ++ sib c.
Hypothesis sib_bl : forall c s r, sib (bl c s r) = r :: sib c.
Hypothesis sib_br : forall l s c, sib (br l s c) = l :: sib c.

Lemma any_ctx_good : forall x x', good x x' -> forall c,
  ok c = true ->
  (forall y, In y (sib c) -> exists r, f y = Ok r) ->
  good (plg c x) (plg c x').
Proof.
  intros x x' Hg c. induction c as [|s before c IH after|c IH s r|l s c IH] using P_ind;
    intros Hok Hsib.
  - rewrite !plg_hole. exact Hg.
  - rewrite ok_grp in Hok. apply andb_true_iff in Hok. destruct Hok as [Hs Hok].
    rewrite sib_grp in Hsib. rewrite !plg_grp.
    apply step_group.
    + exact Hs.
    + intros y Hy. apply Hsib. apply in_or_app. left. exact Hy.
    + intros y Hy. apply Hsib. apply in_or_app. right. apply in_or_app. left. exact Hy.
    + apply IH; [exact Hok|].
      intros y Hy. apply Hsib. apply in_or_app. right. apply in_or_app. right. exact Hy.
  - rewrite ok_bl in Hok. apply andb_true_iff in Hok. destruct Hok as [Hs Hok].
    rewrite sib_bl in Hsib. rewrite !plg_bl.
    apply step_bexpL.
    + exact Hs.
    + apply Hsib. left. reflexivity.
    + apply IH; [exact Hok|]. intros y Hy. apply Hsib. right. exact Hy.
  - rewrite ok_br in Hok. apply andb_true_iff in Hok. destruct Hok as [Hs Hok].
    rewrite sib_br in Hsib. rewrite !plg_br.
    apply step_bexpR.
    + exact Hs.
    + apply Hsib. left. reflexivity.
    + apply IH; [exact Hok|]. intros y Hy. apply Hsib. right. exact Hy.
Qed.
End AnyCtx.
End Steps.

(* generic form, usable with a context type declared in another file *)
Lemma positive_context_truth_gen :
  forall (P : Type) (hole : P) (grp : boolsym -> list expr -> P -> list expr -> P)
    (bl : P -> boolsym -> expr -> P) (br : expr -> boolsym -> P -> P)
    (P_ind : forall Q : P -> Prop,
       Q hole ->
       (forall s before c, Q c -> forall after, Q (grp s before c after)) ->
       (forall c, Q c -> forall s r, Q (bl c s r)) ->
       (forall l s c, Q c -> Q (br l s c)) ->
       forall c, Q c)
    (plg : P -> expr -> expr) (ok : P -> bool) (sib : P -> list expr),
    (forall x, plg hole x = x) ->
    (forall s b c a x, plg (grp s b c a) x = EGroup s (b ++ plg c x :: a)) ->
    (forall c s r x, plg (bl c s r) x = EBexp (plg c x) s r) ->
    (forall l s c x, plg (br l s c) x = EBexp l s (plg c x)) ->
    ok hole = true ->
    (forall s b c a, ok (grp s b c a) = and_or s && ok c) ->
    (forall c s r, ok (bl c s r) = and_or s && ok c) ->
    (forall l s c, ok (br l s c) = and_or s && ok c) ->
    sib hole = [] ->
    (forall s b c a, sib (grp s b c a) = b ++ a ++ sib c) ->
    (forall c s r, sib (bl c s r) = r :: sib c) ->
    (forall l s c, sib (br l s c) = l :: sib c) ->
  forall o ids body c x x' d,
  ok c = true ->
  (solve o ids body x d = Ok T <-> solve o ids body x' d = Ok T) ->
  (exists r, solve o ids body x d = Ok r) -> (exists r, solve o ids body x' d = Ok r) ->
  (forall y, In y (sib c) -> exists r, solve o ids body y d = Ok r) ->
  (solve o ids body (plg c x) d = Ok T <-> solve o ids body (plg c x') d = Ok T).
Proof.
  intros P hole grp bl br P_ind plg ok sib E1 E2 E3 E4 E5 E6 E7 E8 E9 E10 E11 E12
         o ids body c x x' d Hok Hxx' Hx Hx' Hsib.
  apply good_truth.
  apply (any_ctx_good o ids body d P hole grp bl br P_ind plg ok sib
           E1 E2 E3 E4 E6 E7 E8 E10 E11 E12 x x').
  - apply good_hole; assumption.
  - exact Hok.
  - exact Hsib.
Qed.

(* the statement of Properties/C17.v, over the context type declared in THIS file *)
Lemma positive_context_truth_alt : forall o ids body c x x' d,
  ctx_ok c = true ->
  (solve o ids body x d = Ok T <-> solve o ids body x' d = Ok T) ->
  (exists r, solve o ids body x d = Ok r) -> (exists r, solve o ids body x' d = Ok r) ->
  (forall y, In y (ctx_siblings c) -> exists r, solve o ids body y d = Ok r) ->
  (solve o ids body (plug c x) d = Ok T <-> solve o ids body (plug c x') d = Ok T).
Proof.
  exact (positive_context_truth_gen pos_ctx PHole PGroup PBexpL PBexpR pos_ctx_ind
           plug ctx_ok ctx_siblings
           (fun _ => eq_refl) (fun _ _ _ _ _ => eq_refl) (fun _ _ _ _ => eq_refl)
           (fun _ _ _ _ => eq_refl)
           eq_refl (fun _ _ _ _ => eq_refl) (fun _ _ _ => eq_refl) (fun _ _ _ => eq_refl)
           eq_refl (fun _ _ _ _ => eq_refl) (fun _ _ _ => eq_refl) (fun _ _ _ => eq_refl)).
Qed.

Definition positive_context_truth := positive_context_truth_alt.

Lemma perm_example :
  or_fold M (lz [M; F; T]) = or_fold M (lz [T; M; F]) /\
  and_fold (lz [T; M]) = Ok M /\ and_fold (lz [M; T]) = Ok M /\
  and_fold (lz [F; M]) = Ok F /\ and_fold (lz [M; F]) = Ok M.
Proof. repeat split. Qed.
