(* C08  List quantifiers count the members the author wrote: proofs. *)
From TauModel Require Import Base Num Oracles Syntax Value Yaml Ident ParseMap Solver Rule PatSpec Optimiser Known.
From TauProofs Require Import C07.
From Coq Require Import Lia ZArith NArith ZifyBool List Bool Btauto.
Import ListNotations.

(* ---- the helper definitions of Properties/C08.v, restated identically ---- *)
Definition lz (rs : list res3) : list lazy3 := map (fun r (_ : unit) => Ok r) rs.

Definition quant_table (m : matchk) (rs : list res3) : out res3 :=
  match m with
  | MAll => and_fold (lz rs)
  | MOf c => of_fold c (lz rs)
  end.

Definition quant_key (m : matchk) (f : str) : keyinfo :=
  {| k_e := EMatch m (EField f); k_f := f; k_misc := None |}.

Definition member_results (o : oracles) (ic : bool) (ss : list str) (h : str) : list res3 :=
  map (fun s => if documented o ic s h then T else F) ss.

Definition threshold_ok (m : matchk) : Prop :=
  match m with MAll => True | MOf c => (0 <= c)%Z end.

Definition o_sub : oracles :=
  {| re_valid := fun _ _ => true; re_match := fun p _ h => is_infix p h; f64_parse := fun _ => None;
     f64_show := fun _ => []; uni_alnum := fun _ => false; uni_num := fun _ => false |}.

(* ================= (1) counting and the closed forms of the folds ================= *)

Definition b3 (b : bool) : res3 := if b then T else F.

(* 1 when the truth value v is the one (b) being counted *)
Definition bit (b v : bool) : nat := if Bool.eqb v b then 1 else 0.

Fixpoint sumf {A} (w : A -> nat) (l : list A) : nat :=
  match l with [] => 0 | x :: l' => w x + sumf w l' end.

Lemma sumf_app : forall {A} (w : A -> nat) l1 l2, sumf w (l1 ++ l2) = sumf w l1 + sumf w l2.
Proof.
  intros A w l1 l2. induction l1 as [|x l1 IH]; [reflexivity|].
  cbn [app sumf]. rewrite IH. lia.
Qed.

Lemma sumf_map : forall {A B} (g : A -> B) (w : B -> nat) l,
  sumf w (map g l) = sumf (fun x => w (g x)) l.
Proof.
  intros A B g w l. induction l as [|x l IH]; [reflexivity|].
  cbn [map sumf]. rewrite IH. reflexivity.
Qed.

Lemma sumf_split : forall {A} (q : A -> bool) (P P1 P2 : A -> nat) l,
  (forall x, q x = true -> P x = P1 x) ->
  (forall x, q x = false -> P x = P2 x) ->
  sumf P l = sumf P1 (filter q l) + sumf P2 (filter (fun x => negb (q x)) l).
Proof.
  intros A q P P1 P2 l H1 H2. induction l as [|x l IH]; [reflexivity|].
  cbn [sumf filter]. destruct (q x) eqn:Eq; cbn [negb sumf]; rewrite IH.
  - rewrite (H1 x Eq). lia.
  - rewrite (H2 x Eq). lia.
Qed.

Lemma bit_total : forall v, bit true v + bit false v = 1.
Proof. intros [|]; reflexivity. Qed.

Lemma sumf_total : forall {A} (p : A -> bool) l,
  sumf (fun x => bit true (p x)) l + sumf (fun x => bit false (p x)) l = length l.
Proof.
  intros A p l. induction l as [|x l IH]; [reflexivity|].
  cbn [sumf length]. pose proof (bit_total (p x)). lia.
Qed.

Lemma filter_len : forall {A} (p : A -> bool) l,
  length (filter p l) = sumf (fun x => bit true (p x)) l.
Proof.
  intros A p l. induction l as [|x l IH]; [reflexivity|].
  cbn [filter sumf]. destruct (p x); cbn [length bit Bool.eqb]; rewrite IH; reflexivity.
Qed.

Lemma existsb_pos : forall {A} (p : A -> bool) l,
  existsb p l = (0 <? sumf (fun x => bit true (p x)) l)%nat.
Proof.
  intros A p l. induction l as [|x l IH]; [reflexivity|].
  cbn [existsb sumf]. rewrite IH. destruct (p x); cbn [bit Bool.eqb orb]; [|reflexivity].
  symmetry. apply Nat.ltb_lt. lia.
Qed.

(* the table of a quantifier over nT true and nF false members *)
Definition qt (m : matchk) (nT nF : nat) : res3 :=
  match m with
  | MAll => if (nF =? 0)%nat then T else F
  | MOf c =>
      if (c =? 0)%Z then (if (0 <? nT)%nat then F else if (0 <? nF)%nat then T else M)
      else if (c <=? Z.of_nat nT)%Z then T else if (0 <? nT + nF)%nat then F else M
  end.

Definition lazy_bools (l : list lazy3) (bs : list bool) : Prop :=
  Forall2 (fun r b => r tt = Ok (b3 b)) l bs.

Definition nT (bs : list bool) : nat := sumf (bit true) bs.
Definition nF (bs : list bool) : nat := sumf (bit false) bs.

Lemma nT_cons_t : forall bs, nT (true :: bs) = S (nT bs). Proof. reflexivity. Qed.
Lemma nT_cons_f : forall bs, nT (false :: bs) = nT bs. Proof. reflexivity. Qed.
Lemma nF_cons_t : forall bs, nF (true :: bs) = nF bs. Proof. reflexivity. Qed.
Lemma nF_cons_f : forall bs, nF (false :: bs) = S (nF bs). Proof. reflexivity. Qed.

Lemma and_bools : forall l bs, lazy_bools l bs ->
  and_fold l = Ok (if (nF bs =? 0)%nat then T else F).
Proof.
  intros l bs H. induction H as [|r b l bs Hr _ IH]; [reflexivity|].
  cbn [and_fold]. rewrite Hr. cbn [bind]. destruct b; cbn [b3].
  - rewrite nF_cons_t. exact IH.
  - rewrite nF_cons_f. reflexivity.
Qed.

Lemma of0_bools : forall l bs, lazy_bools l bs -> forall acc,
  of0_fold acc l =
  Ok (if (0 <? nT bs)%nat then F else if (0 <? nF bs)%nat then T else acc).
Proof.
  intros l bs H. induction H as [|r b l bs Hr _ IH]; intros acc; [reflexivity|].
  cbn [of0_fold]. rewrite Hr. cbn [bind]. destruct b; cbn [b3].
  - rewrite nT_cons_t. reflexivity.
  - rewrite nT_cons_f, nF_cons_f, IH.
    destruct (0 <? nT bs)%nat; [reflexivity|].
    destruct (0 <? nF bs)%nat; reflexivity.
Qed.

Lemma ofn_bools : forall l bs, lazy_bools l bs -> forall c count acc,
  (count < c)%Z ->
  ofn_fold c count acc l =
  Ok (if (c <=? count + Z.of_nat (nT bs))%Z then T
      else if (0 <? nT bs + nF bs)%nat then F else acc).
Proof.
  intros l bs H. induction H as [|r b l bs Hr _ IH]; intros c count acc Hc.
  - cbn [ofn_fold nT nF sumf]. destruct (Z.leb_spec c (count + Z.of_nat 0)); [lia|reflexivity].
  - cbn [ofn_fold]. rewrite Hr. cbn [bind]. destruct b; cbn [b3].
    + rewrite nT_cons_t, nF_cons_t.
      destruct (Z.leb_spec c (count + 1)) as [H1|H1].
      * destruct (Z.leb_spec c (count + Z.of_nat (S (nT bs)))); [reflexivity|lia].
      * rewrite IH by lia.
        destruct (Z.leb_spec c (count + 1 + Z.of_nat (nT bs))),
                 (Z.leb_spec c (count + Z.of_nat (S (nT bs)))); try lia; try reflexivity.
        destruct (0 <? nT bs + nF bs)%nat; reflexivity.
    + rewrite nT_cons_f, nF_cons_f, IH by lia.
      destruct (Z.leb_spec c (count + Z.of_nat (nT bs))); [reflexivity|].
      replace (0 <? nT bs + S (nF bs))%nat with true by (symmetry; apply Nat.ltb_lt; lia).
      destruct (0 <? nT bs + nF bs)%nat; reflexivity.
Qed.

Lemma quant_closed : forall m l bs, threshold_ok m -> lazy_bools l bs ->
  match m with MAll => and_fold l | MOf c => of_fold c l end = Ok (qt m (nT bs) (nF bs)).
Proof.
  intros [|c] l bs Hm H; cbn [qt].
  - apply and_bools, H.
  - cbn [threshold_ok] in Hm. unfold of_fold. destruct (Z.eqb_spec c 0) as [E|E].
    + apply of0_bools, H.
    + rewrite (ofn_bools l bs H c 0 M) by lia. reflexivity.
Qed.

Lemma members_lazy : forall o ic ss h,
  lazy_bools (lz (member_results o ic ss h)) (map (fun s => documented o ic s h) ss).
Proof.
  intros o ic ss h. induction ss as [|s ss IH]; [constructor|].
  constructor; [reflexivity|exact IH].
Qed.

(* count of the members as written with truth value b *)
Definition dcnt (o : oracles) (ic : bool) (h : str) (b : bool) (ss : list str) : nat :=
  sumf (fun s => bit b (documented o ic s h)) ss.

Lemma quant_table_closed : forall o ic m ss h, threshold_ok m ->
  quant_table m (member_results o ic ss h) = Ok (qt m (dcnt o ic h true ss) (dcnt o ic h false ss)).
Proof.
  intros o ic m ss h Hm. unfold quant_table.
  pose proof (quant_closed m _ _ Hm (members_lazy o ic ss h)) as H.
  unfold nT, nF in H. rewrite !sumf_map in H. destruct m; exact H.
Qed.

Lemma dcnt_total : forall o ic h ss, dcnt o ic h true ss + dcnt o ic h false ss = length ss.
Proof. intros. apply sumf_total. Qed.

(* ================= (2) the key matters only through its field and modifier ================= *)

Lemma seq_member_key : forall o ic m f ue a v sub,
  seq_member o ic (quant_key m f) ue a v sub = seq_member o ic (plain_key f) ue a v sub.
Proof. reflexivity. Qed.

Lemma seq_members_key : forall o ic m f ue vs a subs,
  seq_members o ic (quant_key m f) ue a vs subs = seq_members o ic (plain_key f) ue a vs subs.
Proof.
  intros o ic m f ue vs. induction vs as [|v vs IH]; intros a subs; [reflexivity|].
  cbn [seq_members]. rewrite seq_member_key.
  destruct (seq_member o ic (plain_key f) ue a v
              (match subs with s :: _ => s | [] => None end)); cbn [bind]; [apply IH| |]; reflexivity.
Qed.

(* ================= (3) the member-by-member counting invariant ================= *)

Definition idc (b : bool) (mk : str -> mtype) (h : str) (i : identifier) : nat :=
  match needle_of mk i with Some (ci, m) => bit b (mtype_holds ci m h) | None => 0 end.

Definition exc (b : bool) (h : str) (i : identifier) : nat :=
  if is_nil (pat_str i) then bit b (str_eqb [] h) else idc b MTExact h i.

Definition rxc (o : oracles) (b : bool) (h : str) (i : identifier) : nat :=
  bit b (re_match o (pat_str i) (id_ci i) h).

Definition acc_cnt (o : oracles) (b : bool) (a : seqacc) (h : str) : nat :=
  sumf (exc b h) (a_exact a) + sumf (idc b MTStartsWith h) (a_starts a)
  + sumf (idc b MTEndsWith h) (a_ends a) + sumf (idc b MTContains h) (a_contains a)
  + sumf (rxc o b h) (a_regex a) + (if b then length (a_rest a) else 0).

Lemma rxc_new : forall o b h ci re,
  rxc o b h {| id_ci := ci; id_pat := PRegex re |} = bit b (re_match o re ci h).
Proof. reflexivity. Qed.

Lemma idc_contains : forall b ci t h,
  idc b MTContains h {| id_ci := ci; id_pat := PContains (fold_case ci t) |}
  = bit b (is_infix (lower_if ci t) (lower_if ci h)).
Proof. intros. unfold idc. cbn [needle_of id_pat id_ci]. rewrite mt_contains. reflexivity. Qed.

Lemma idc_ends : forall b ci t h,
  idc b MTEndsWith h {| id_ci := ci; id_pat := PEndsWith (fold_case ci t) |}
  = bit b (is_suffix (lower_if ci t) (lower_if ci h)).
Proof. intros. unfold idc. cbn [needle_of id_pat id_ci]. rewrite mt_ends. reflexivity. Qed.

Lemma idc_starts : forall b ci t h,
  idc b MTStartsWith h {| id_ci := ci; id_pat := PStartsWith (fold_case ci t) |}
  = bit b (is_prefix (lower_if ci t) (lower_if ci h)).
Proof. intros. unfold idc. cbn [needle_of id_pat id_ci]. rewrite mt_starts. reflexivity. Qed.

Lemma exc_new : forall b ci t h,
  exc b h {| id_ci := ci; id_pat := PExact (fold_case ci t) |}
  = bit b (str_eqb (lower_if ci t) (lower_if ci h)).
Proof.
  intros. rewrite <- exact_meaning. unfold exc, idc.
  cbn [pat_str needle_of id_pat id_ci].
  destruct (is_nil (fold_case ci t)); reflexivity.
Qed.

Lemma seq_member_cnt : forall o ic f a a' s h b,
  is_string_predicate o ic s = true ->
  seq_member o ic (plain_key f) (EField f) a (YStr s) None = Ok a' ->
  acc_cnt o b a' h = acc_cnt o b a h + bit b (documented o ic s h).
Proof.
  intros o ic f a a' s h b Hs H. pose proof (into_id_string o ic s Hs) as Hid.
  rewrite isp_eq in Hs. rewrite documented_eq.
  unfold seq_member in H. rewrite Hid in H.
  cbn [bind plain_key k_misc k_f k_e misc_pattern_check misc_is id_pat id_ci] in H.
  set (ci := fst (split_case ic s)) in *.
  destruct (classify (snd (split_case ic s))) as [re| | |t|t|t|t];
    cbn [spec_pat numeric_expr doc_k isp_k] in *; try discriminate;
    inversion H; subst a'; clear H; unfold acc_cnt;
    cbn [push_exact push_starts push_ends push_contains push_regex push_rest flag_string
         set_flags a_exact a_starts a_ends a_contains a_regex a_rest];
    rewrite ?sumf_app, ?app_length; cbn [sumf length].
  - rewrite rxc_new. lia.
  - destruct b; cbn [bit Bool.eqb]; lia.
  - rewrite idc_contains. lia.
  - rewrite idc_ends. lia.
  - rewrite idc_starts. lia.
  - rewrite exc_new. lia.
Qed.

Lemma seq_members_cnt : forall o ic f h b ss a a',
  (forall s, In s ss -> is_string_predicate o ic s = true) ->
  seq_members o ic (plain_key f) (EField f) a (map YStr ss) (map (fun _ => None) ss) = Ok a' ->
  acc_cnt o b a' h = acc_cnt o b a h + dcnt o ic h b ss.
Proof.
  intros o ic f h b ss. induction ss as [|s ss IH]; intros a a' Hall H.
  - cbn [map seq_members] in H. inversion H; subst a'. unfold dcnt. cbn [sumf]. lia.
  - cbn [map seq_members tl] in H.
    destruct (seq_member o ic (plain_key f) (EField f) a (YStr s) None) as [a1|k|n] eqn:Hm;
      cbn [bind] in H; try discriminate.
    rewrite (IH a1 a' (fun s' Hin => Hall s' (or_intror Hin)) H).
    rewrite (seq_member_cnt o ic f a a1 s h b (Hall s (or_introl eq_refl)) Hm).
    unfold dcnt. cbn [sumf]. lia.
Qed.

Lemma acc_cnt_acc0 : forall o b h, acc_cnt o b acc0 h = 0.
Proof. intros o [|] h; reflexivity. Qed.

(* ================= (4) the batches of the group ================= *)

(* how many members with truth value b a group element stands for *)
Definition bt (o : oracles) (b : bool) (h : str) (x : expr) : nat :=
  match x with
  | ESearch (SAho ctx ci) _ _ => sumf (fun m => bit b (mtype_holds ci m h)) ctx
  | ESearch (SRegexSet ps ci) _ _ => sumf (fun p => bit b (re_match o p ci h)) ps
  | ESearch sr _ _ => bit b (search o sr h)
  | _ => 0
  end.

Definition gcnt (o : oracles) (b : bool) (h : str) (g : list expr) : nat := sumf (bt o b h) g.

Definition ctx_cnt (b : bool) (h : str) (p : list mtype * list mtype) : nat :=
  sumf (fun m => bit b (mtype_holds false m h)) (fst p)
  + sumf (fun m => bit b (mtype_holds true m h)) (snd p).

Lemma add_needles_cnt : forall b mk h ids acc,
  ctx_cnt b h (add_needles mk ids acc) = ctx_cnt b h acc + sumf (idc b mk h) ids.
Proof.
  intros b mk h ids. unfold add_needles.
  induction ids as [|i ids IH]; intros acc; cbn [fold_left sumf].
  - lia.
  - rewrite IH. rewrite Nat.add_assoc. f_equal.
    unfold idc. destruct (needle_of mk i) as [[[|] m]|]; unfold ctx_cnt; cbn [fst snd];
      rewrite ?sumf_app; cbn [sumf]; lia.
Qed.

Lemma needles_cnt : forall b h a,
  ctx_cnt b h (needles_of a) =
  sumf (idc b MTStartsWith h) (a_starts a) + sumf (idc b MTContains h) (a_contains a)
  + sumf (idc b MTEndsWith h) (a_ends a)
  + sumf (idc b MTExact h) (filter (fun i => negb (is_nil (pat_str i))) (a_exact a)).
Proof. intros b h a. unfold needles_of. rewrite !add_needles_cnt. reflexivity. Qed.

Lemma bt_mtype : forall o b h f c m,
  bt o b h (ESearch (search_of_mtype m) f c) = bit b (mtype_holds false m h).
Proof. intros o b h f c [n|n|n|n]; reflexivity. Qed.

Lemma g0_cnt : forall o b h f c (l : list identifier),
  gcnt o b h (map (fun _ => ESearch (SExact []) f c) l) = sumf (fun _ => bit b (str_eqb [] h)) l.
Proof. intros. unfold gcnt. rewrite sumf_map. reflexivity. Qed.

Lemma g1_cnt : forall o b h f c ctx,
  gcnt o b h (g1_of f c ctx) = sumf (fun m => bit b (mtype_holds false m h)) ctx.
Proof.
  intros o b h f c ctx. unfold gcnt. destruct ctx as [|m [|m' l]]; [reflexivity| |].
  - cbn [g1_of sumf]. rewrite bt_mtype. reflexivity.
  - cbn [g1_of]. cbn [sumf bt]. lia.
Qed.

Lemma g2_cnt : forall o b h f c ctx,
  gcnt o b h (g2_of f c ctx) = sumf (fun m => bit b (mtype_holds true m h)) ctx.
Proof.
  intros o b h f c ctx. unfold gcnt. destruct ctx as [|m l]; [reflexivity|].
  cbn [g2_of]. cbn [sumf bt]. lia.
Qed.

Lemma g3_cnt : forall o b h f c ci rs,
  gcnt o b h (g3_of f c ci rs) = sumf (fun p => bit b (re_match o p ci h)) rs.
Proof.
  intros o b h f c ci rs. unfold gcnt. destruct rs as [|m [|m' l]]; [reflexivity|reflexivity|].
  cbn [g3_of]. cbn [sumf bt]. lia.
Qed.

Lemma rest_cnt : forall o b h f a,
  rest_inv f a -> gcnt o b h (a_rest a) = if b then length (a_rest a) else 0.
Proof.
  intros o b h f a Hr. unfold rest_inv in Hr. unfold gcnt.
  induction Hr as [|e l [c ->] _ IH]; [destruct b; reflexivity|].
  cbn [sumf length bt search]. rewrite IH. destruct b; reflexivity.
Qed.

Lemma gcnt_app : forall o b h l1 l2, gcnt o b h (l1 ++ l2) = gcnt o b h l1 + gcnt o b h l2.
Proof. intros. apply sumf_app. Qed.

Lemma group_cnt : forall o b f h a,
  rest_inv f a -> gcnt o b h (group_of f a) = acc_cnt o b a h.
Proof.
  intros o b f h a Hr. unfold group_of, acc_cnt.
  rewrite !gcnt_app.
  rewrite g0_cnt, g1_cnt, g2_cnt, !g3_cnt, (rest_cnt o b h f a Hr).
  rewrite !sumf_map.
  pose proof (needles_cnt b h a) as Hn. unfold ctx_cnt in Hn.
  rewrite (sumf_split (fun i => is_nil (pat_str i)) (exc b h)
             (fun _ => bit b (str_eqb [] h)) (idc b MTExact h) (a_exact a)).
  2:{ intros x Hx. unfold exc. rewrite Hx. reflexivity. }
  2:{ intros x Hx. unfold exc. rewrite Hx. reflexivity. }
  rewrite (sumf_split (fun i => id_ci i) (rxc o b h)
             (fun i => bit b (re_match o (pat_str i) true h))
             (fun i => bit b (re_match o (pat_str i) false h)) (a_regex a)).
  2:{ intros x Hx. unfold rxc. rewrite Hx. reflexivity. }
  2:{ intros x Hx. unfold rxc. rewrite Hx. reflexivity. }
  cbv beta. lia.
Qed.

(* ---- properties of the group elements ---- *)

(* an element that stands for exactly one member *)
Definition simple (x : expr) : bool :=
  match x with
  | ESearch (SAho _ _) _ _ | ESearch (SRegexSet _ _) _ _ => false
  | ESearch _ _ _ => true
  | _ => false
  end.

(* no empty automaton / regex set *)
Definition okb (x : expr) : bool :=
  match x with
  | ESearch (SAho ctx _) _ _ => negb (is_nil ctx)
  | ESearch (SRegexSet ps _) _ _ => negb (is_nil ps)
  | _ => true
  end.

Lemma simple_mtype : forall m f c, simple (ESearch (search_of_mtype m) f c) = true.
Proof. intros [n|n|n|n] f c; reflexivity. Qed.

Lemma okb_mtype : forall m f c, okb (ESearch (search_of_mtype m) f c) = true.
Proof. intros [n|n|n|n] f c; reflexivity. Qed.

Lemma group_simple : forall f a,
  rest_inv f a -> multiple_of a = false -> Forall (fun x => simple x = true) (group_of f a).
Proof.
  intros f a Hr Hm. unfold multiple_of in Hm.
  apply orb_false_elim in Hm. destruct Hm as [Hm H4].
  apply orb_false_elim in Hm. destruct Hm as [Hm H3].
  apply orb_false_elim in Hm. destruct Hm as [H1 H2].
  unfold group_of. repeat (apply Forall_app; split).
  - apply Forall_forall. intros e He. apply in_map_iff in He. destruct He as [i [<- _]].
    reflexivity.
  - destruct (fst (needles_of a)) as [|m [|m' l]]; cbn [g1_of m1_of] in *;
      try discriminate; repeat constructor. apply simple_mtype.
  - destruct (snd (needles_of a)) as [|m l]; cbn [g2_of m2_of] in *;
      try discriminate; repeat constructor.
  - destruct (map pat_str (filter (fun i => negb (id_ci i)) (a_regex a))) as [|m [|m' l]];
      cbn [g3_of m3_of] in *; try discriminate; repeat constructor.
  - destruct (map pat_str (filter (fun i => id_ci i) (a_regex a))) as [|m [|m' l]];
      cbn [g3_of m3_of] in *; try discriminate; repeat constructor.
  - unfold rest_inv in Hr. eapply Forall_impl; [|exact Hr].
    intros e [c ->]. reflexivity.
Qed.

Lemma group_okb : forall f a,
  rest_inv f a -> Forall (fun x => okb x = true) (group_of f a).
Proof.
  intros f a Hr. unfold group_of. repeat (apply Forall_app; split).
  - apply Forall_forall. intros e He. apply in_map_iff in He. destruct He as [i [<- _]].
    reflexivity.
  - destruct (fst (needles_of a)) as [|m [|m' l]]; cbn [g1_of];
      repeat constructor. apply okb_mtype.
  - destruct (snd (needles_of a)) as [|m l]; cbn [g2_of]; repeat constructor.
  - destruct (map pat_str (filter (fun i => negb (id_ci i)) (a_regex a))) as [|m [|m' l]];
      cbn [g3_of]; repeat constructor.
  - destruct (map pat_str (filter (fun i => id_ci i) (a_regex a))) as [|m [|m' l]];
      cbn [g3_of]; repeat constructor.
  - unfold rest_inv in Hr. eapply Forall_impl; [|exact Hr].
    intros e [c ->]. reflexivity.
Qed.

Lemma simple_bt : forall o b h x, simple x = true -> bt o b h x = bit b (sval o h x).
Proof.
  intros o b h x Hx. destruct x; try discriminate. destruct s; try discriminate; reflexivity.
Qed.

Lemma unit_bt : forall o b h f x,
  issf f x -> is_listlike x = false -> okb x = true -> bt o b h x = bit b (sval o h x).
Proof.
  intros o b h f x [sr [c ->]] Hl Ho. destruct sr; try reflexivity.
  - destruct ctx as [|m [|m' l]]; [discriminate Ho| |discriminate Hl].
    cbn [bt sumf sval search existsb]. rewrite orb_false_r. lia.
  - destruct pats as [|m [|m' l]]; [discriminate Ho| |discriminate Hl].
    cbn [bt sumf sval search existsb]. rewrite orb_false_r. lia.
Qed.

Lemma units_cnt : forall o b h f g,
  Forall (issf f) g -> existsb is_listlike g = false -> Forall (fun x => okb x = true) g ->
  gcnt o b h g = sumf (bit b) (map (sval o h) g).
Proof.
  intros o b h f g Hg. induction Hg as [|x g Hx _ IH]; intros Hl Ho; [reflexivity|].
  cbn [existsb] in Hl. apply orb_false_elim in Hl. destruct Hl as [Hl1 Hl2].
  inversion Ho as [|? ? Ho1 Ho2]; subst.
  unfold gcnt in *. cbn [map sumf]. rewrite (IH Hl2 Ho2), (unit_bt o b h f x Hx Hl1 Ho1). reflexivity.
Qed.

(* ================= (5) the shapes finish_seq returns for a quantified key ================= *)

Definition keep_of (m : matchk) : bool :=
  match m with MOf c => negb (c =? 1)%Z | MAll => false end.

Lemma finish_seq_q_eq : forall m f a,
  finish_seq (quant_key m f) a =
  if (1 <? b2n (a_boolean a) + b2n (a_mapping a) + b2n (a_number a) + b2n (a_string a))%nat
  then Err EInvalidIdent
  else match group_of f a with
       | [] => Err EInvalidIdent
       | [x] => if negb (multiple_of a) && negb (keep_of m) then Ok x else Ok (EMatch m x)
       | _ => Ok (EMatch m (EGroup BOr (group_of f a)))
       end.
Proof.
  intros m f a. unfold finish_seq, group_of, multiple_of, needles_of.
  cbn [quant_key k_e k_f k_misc].
  destruct (add_needles MTExact (filter (fun i => negb (is_nil (pat_str i))) (a_exact a))
    (add_needles MTEndsWith (a_ends a)
       (add_needles MTContains (a_contains a)
          (add_needles MTStartsWith (a_starts a) ([], []))))) as [c ic].
  cbn [fst snd].
  destruct m;
  destruct c as [|m1 [|m' c]]; destruct ic as [|mi ic];
    destruct (map pat_str (filter (fun i => negb (id_ci i)) (a_regex a))) as [|r [|r' rs]];
    destruct (map pat_str (filter (fun i => id_ci i) (a_regex a))) as [|r2 [|r2' rs2]];
    reflexivity.
Qed.

Lemma finish_seq_q_shape : forall m f a e,
  finish_seq (quant_key m f) a = Ok e ->
  (exists x, group_of f a = [x] /\ multiple_of a = false /\ keep_of m = false /\ e = x) \/
  (exists x, group_of f a = [x] /\ e = EMatch m x) \/
  ((2 <= length (group_of f a))%nat /\ e = EMatch m (EGroup BOr (group_of f a))).
Proof.
  intros m f a e. rewrite finish_seq_q_eq.
  destruct (1 <? b2n (a_boolean a) + b2n (a_mapping a) + b2n (a_number a) + b2n (a_string a))%nat;
    [discriminate|].
  destruct (group_of f a) as [|x [|y l]]; [discriminate| |].
  - destruct (multiple_of a); cbn [negb andb].
    + intros H; inversion H; subst. right. left. exists x. split; reflexivity.
    + destruct (keep_of m) eqn:Ek; cbn [negb]; intros H; inversion H; subst.
      * right. left. exists x. split; reflexivity.
      * left. exists e. repeat split; reflexivity.
  - intros H; inversion H; subst. right. right. split; [cbn [length]; lia|reflexivity].
Qed.

Lemma finish_seq_q_acc0 : forall m f, finish_seq (quant_key m f) acc0 = Err EInvalidIdent.
Proof. intros [|c] f; reflexivity. Qed.

(* ================= (6) solving the shapes on a string ================= *)

Lemma slow_aho_cnt : forall ctx ci h,
  slow_aho ctx ci h = Z.of_nat (sumf (fun m => bit true (mtype_holds ci m h)) ctx).
Proof. intros. unfold slow_aho, count_true. rewrite filter_len. reflexivity. Qed.

Lemma regexset_cnt : forall o ps ci h,
  regexset_hits o ps ci h = Z.of_nat (sumf (fun p => bit true (re_match o p ci h)) ps).
Proof. intros. unfold regexset_hits, count_true. rewrite filter_len. reflexivity. Qed.

Ltac crunch :=
  repeat match goal with
  | |- context [Z.eqb ?a ?b] => destruct (Z.eqb_spec a b)
  | |- context [Z.leb ?a ?b] => destruct (Z.leb_spec a b)
  | |- context [Z.ltb ?a ?b] => destruct (Z.ltb_spec a b)
  | |- context [Nat.eqb ?a ?b] => destruct (Nat.eqb_spec a b)
  | |- context [Nat.ltb ?a ?b] => destruct (Nat.ltb_spec a b)
  end; try reflexivity; try lia.

Ltac dsearch :=
  match goal with |- context [search ?oo ?s ?hh] => destruct (search oo s hh) end.

(* a quantifier directly over one search *)
Lemma solve_match_single : forall o ids body m sr f c d h,
  threshold_ok m -> d f = Ok (Some (VStr h)) ->
  (1 <= bt o true h (ESearch sr f c) + bt o false h (ESearch sr f c))%nat ->
  solve o ids body (EMatch m (ESearch sr f c)) d =
  Ok (qt m (bt o true h (ESearch sr f c)) (bt o false h (ESearch sr f c))).
Proof.
  intros o ids body m sr f c d h Hm Hd Hpos.
  destruct sr.
  2-6,8:
    cbn [bt] in *; destruct m as [|n]; cbn [solve qt threshold_ok] in *;
    [ unfold field_search; rewrite Hd; cbn [bind search_value res_of_search];
      dsearch; reflexivity
    | destruct (Z.eqb_spec n 0); unfold field_search; rewrite Hd;
      cbn [bind search_value res_of_search];
      dsearch;
      cbn [bit Bool.eqb]; crunch ].
  - (* automaton *)
    cbn [bt] in *.
    pose proof (sumf_total (fun m0 => mtype_holds ci m0 h) ctx) as Ht. cbv beta in Ht.
    destruct m as [|n]; cbn [solve qt threshold_ok] in *.
    + unfold field_search. rewrite Hd. cbn [bind search_value res_of_search].
      rewrite slow_aho_cnt. unfold len_Z. rewrite <- Ht. crunch.
    + destruct (Z.eqb_spec n 0); unfold field_search; rewrite Hd;
        cbn [bind search_value res_of_search search].
      * rewrite existsb_pos. crunch.
      * rewrite slow_aho_cnt. crunch.
  - (* regex set *)
    cbn [bt] in *.
    pose proof (sumf_total (fun p => re_match o p ci h) pats) as Ht. cbv beta in Ht.
    destruct m as [|n]; cbn [solve qt threshold_ok] in *.
    + unfold field_search. rewrite Hd. cbn [bind search_value res_of_search].
      rewrite regexset_cnt. unfold len_Z. rewrite <- Ht. crunch.
    + destruct (Z.eqb_spec n 0); unfold field_search; rewrite Hd;
        cbn [bind search_value res_of_search search].
      * rewrite existsb_pos. crunch.
      * rewrite regexset_cnt. crunch.
Qed.

Lemma solve_match_single_missing : forall o ids body m sr f c d,
  d f = Ok None -> solve o ids body (EMatch m (ESearch sr f c)) d = Ok M.
Proof.
  intros o ids body m sr f c d Hd.
  destruct m as [|n], sr; cbn [solve]; try destruct (n =? 0)%Z;
    unfold field_search; rewrite Hd; reflexivity.
Qed.

Lemma group_lazy : forall o ids body f d h g,
  d f = Ok (Some (VStr h)) -> Forall (issf f) g ->
  lazy_bools (map (fun x (_ : unit) => solve o ids body x d) g) (map (sval o h) g).
Proof.
  intros o ids body f d h g Hd Hg. induction Hg as [|x g [sr [c ->]] _ IH]; [constructor|].
  cbn [map]. constructor; [|exact IH].
  cbn [sval]. unfold b3. apply (solve_search_str o ids body sr f c d h Hd).
Qed.

Lemma solve_match_group : forall o ids body m g d,
  solve o ids body (EMatch m (EGroup BOr g)) d =
  match m with
  | MAll => and_fold (map (fun x (_ : unit) => solve o ids body x d) g)
  | MOf c => of_fold c (map (fun x (_ : unit) => solve o ids body x d) g)
  end.
Proof. intros o ids body [|c] g d; reflexivity. Qed.

Lemma exists_sub_head : forall p neg e, exists_sub p neg e = false -> p neg e = false.
Proof.
  intros p neg e H. destruct e; cbn [exists_sub] in H; apply orb_false_elim in H; apply H.
Qed.

(* ---- all members missing ---- *)

Definition all_M (l : list lazy3) : Prop := Forall (fun r => r tt = Ok M) l.

Lemma and_fold_M : forall l, l <> [] -> all_M l -> and_fold l = Ok M.
Proof.
  intros l Hne H. destruct l as [|r l]; [congruence|].
  inversion H as [|? ? Hr _]; subst.
  cbn [and_fold]. rewrite Hr. reflexivity.
Qed.

Lemma of0_fold_M : forall l, all_M l -> of0_fold M l = Ok M.
Proof.
  intros l H. induction H as [|r l Hr _ IH]; [reflexivity|].
  cbn [of0_fold]. rewrite Hr. cbn [bind]. exact IH.
Qed.

Lemma ofn_fold_M : forall l c count, all_M l -> ofn_fold c count M l = Ok M.
Proof.
  intros l c count H. induction H as [|r l Hr _ IH]; [reflexivity|].
  cbn [ofn_fold]. rewrite Hr. cbn [bind]. exact IH.
Qed.

Lemma group_missing_lazy : forall o ids body f d g,
  d f = Ok None -> Forall (issf f) g ->
  all_M (map (fun x (_ : unit) => solve o ids body x d) g).
Proof.
  intros o ids body f d g Hd Hg. induction Hg as [|x g [sr [c ->]] _ IH]; [constructor|].
  cbn [map]. constructor; [|exact IH]. apply (solve_search_missing o ids body sr f c d Hd).
Qed.

(* ================= the named lemmas ================= *)

Lemma quantified_list_exact : forall o ic m f ss a e ids body d h,
  threshold_ok m ->
  (forall s, In s ss -> is_string_predicate o ic s = true) ->
  seq_members o ic (quant_key m f) (EField f) acc0 (map YStr ss) (map (fun _ => None) ss) = Ok a ->
  finish_seq (quant_key m f) a = Ok e ->
  exists_sub d10_here false e = false ->
  d f = Ok (Some (VStr h)) ->
  solve o ids body e d = quant_table m (member_results o ic ss h).
Proof.
  intros o ic m f ss a e ids body d h Hm Hall Hseq Hfin Hd10 Hd.
  rewrite seq_members_key in Hseq.
  destruct (seq_members_inv o ic f h ss acc0 a Hall Hseq (rest_inv_acc0 f)) as [Hr _].
  assert (Hc : forall b, dcnt o ic h b ss = gcnt o b h (group_of f a)).
  { intros b. rewrite (group_cnt o b f h a Hr), (seq_members_cnt o ic f h b ss acc0 a Hall Hseq),
      acc_cnt_acc0. reflexivity. }
  assert (Hne : (1 <= length ss)%nat).
  { destruct ss; [|cbn [length]; lia]. cbn [map seq_members] in Hseq. inversion Hseq; subst a.
    rewrite finish_seq_q_acc0 in Hfin. discriminate. }
  pose proof (dcnt_total o ic h ss) as Htot.
  rewrite (quant_table_closed o ic m ss h Hm).
  pose proof (group_all_search f a Hr) as Hg.
  rewrite (Hc true), (Hc false) in *. clear Hc.
  destruct (finish_seq_q_shape m f a e Hfin) as [[x [Hx [Hmul [Hk ->]]]]|[[x [Hx ->]]|[Hlen ->]]].
  - (* one member, handed back as it is *)
    pose proof (group_simple f a Hr Hmul) as Hs. rewrite Hx in *.
    inversion Hs as [|? ? Hsx _]; subst. inversion Hg as [|? ? [sr [c E]] _]; subst.
    unfold gcnt. cbn [sumf]. rewrite !(simple_bt o _ h _ Hsx), !Nat.add_0_r.
    rewrite (solve_search_str o ids body sr f c d h Hd). cbn [sval]. f_equal.
    destruct m as [|n]; cbn [keep_of qt] in *.
    + destruct (search o sr h); reflexivity.
    + apply negb_false_iff in Hk. apply Z.eqb_eq in Hk. subst n.
      destruct (search o sr h); reflexivity.
  - (* one batch under the quantifier *)
    rewrite Hx in *. inversion Hg as [|? ? [sr [c E]] _]; subst.
    unfold gcnt in *. cbn [sumf] in *. rewrite !Nat.add_0_r in *.
    apply solve_match_single; [exact Hm|exact Hd|lia].
  - (* a group of single members *)
    apply exists_sub_head in Hd10. cbn [d10_here] in Hd10.
    replace (1 <? length (group_of f a))%nat with true in Hd10
      by (symmetry; apply Nat.ltb_lt; lia).
    cbn [andb] in Hd10.
    rewrite solve_match_group.
    rewrite (quant_closed m _ _ Hm (group_lazy o ids body f d h (group_of f a) Hd Hg)).
    unfold nT, nF.
    rewrite <- !(units_cnt o _ h f (group_of f a) Hg Hd10 (group_okb f a Hr)). reflexivity.
Qed.

Lemma quantified_list_missing : forall o ic m f ss a e ids body d,
  (forall s, In s ss -> is_string_predicate o ic s = true) ->
  seq_members o ic (quant_key m f) (EField f) acc0 (map YStr ss) (map (fun _ => None) ss) = Ok a ->
  finish_seq (quant_key m f) a = Ok e ->
  d f = Ok None ->
  solve o ids body e d = Ok M.
Proof.
  intros o ic m f ss a e ids body d Hall Hseq Hfin Hd.
  rewrite seq_members_key in Hseq.
  destruct (seq_members_inv o ic f [] ss acc0 a Hall Hseq (rest_inv_acc0 f)) as [Hr _].
  pose proof (group_all_search f a Hr) as Hg.
  destruct (finish_seq_q_shape m f a e Hfin) as [[x [Hx [Hmul [Hk ->]]]]|[[x [Hx ->]]|[Hlen ->]]].
  - rewrite Hx in *. inversion Hg as [|? ? [sr [c E]] _]; subst.
    apply (solve_search_missing o ids body sr f c d Hd).
  - rewrite Hx in *. inversion Hg as [|? ? [sr [c E]] _]; subst.
    apply solve_match_single_missing, Hd.
  - rewrite solve_match_group.
    pose proof (group_missing_lazy o ids body f d (group_of f a) Hd Hg) as HM.
    destruct m as [|n].
    + apply and_fold_M; [|exact HM]. destruct (group_of f a); [cbn [length] in Hlen; lia|discriminate].
    + unfold of_fold. destruct (n =? 0)%Z; [apply of0_fold_M|apply ofn_fold_M]; exact HM.
Qed.

Lemma plain_list_is_of_one : forall o ic f ss a e ids body d h,
  (forall s, In s ss -> is_string_predicate o ic s = true) ->
  seq_members o ic {| k_e := EField f; k_f := f; k_misc := None |} (EField f) acc0
              (map YStr ss) (map (fun _ => None) ss) = Ok a ->
  finish_seq {| k_e := EField f; k_f := f; k_misc := None |} a = Ok e ->
  d f = Ok (Some (VStr h)) ->
  solve o ids body e d = quant_table (MOf 1) (member_results o ic ss h).
Proof.
  intros o ic f ss a e ids body d h Hall Hseq Hfin Hd.
  change {| k_e := EField f; k_f := f; k_misc := None |} with (plain_key f) in *.
  rewrite (batched_list_exact o ic f ss a e ids body d h Hall Hseq Hfin Hd).
  assert (Hm : threshold_ok (MOf 1)) by (cbn [threshold_ok]; lia).
  rewrite (quant_table_closed o ic (MOf 1) ss h Hm).
  assert (Hne : (1 <= length ss)%nat).
  { destruct ss; [|cbn [length]; lia]. cbn [map seq_members] in Hseq. inversion Hseq; subst a.
    discriminate Hfin. }
  pose proof (dcnt_total o ic h ss) as Htot.
  rewrite existsb_pos. fold (dcnt o ic h true ss). cbn [qt]. f_equal. crunch.
Qed.

Lemma quantified_identifier_exact : forall o ids i op g m d,
  lookup i ids = Some (EGroup op g) ->
  solve_cond o ids (EMatch m (EIdent i)) d =
  match m with
  | MAll => and_fold (map (fun x (_ : unit) => solve_body o x d) g)
  | MOf c => of_fold c (map (fun x (_ : unit) => solve_body o x d) g)
  end.
Proof.
  intros o ids i op g m d H. unfold solve_cond. destruct m; cbn [solve]; rewrite H; reflexivity.
Qed.

Example refuted_D10 :
  let ss := [[97; 42]; [42; 98]; [63; 99]]%N in
  let h := [97; 120; 120; 99]%N in
  exists a e,
    seq_members o_sub false (quant_key MAll [102%N]) (EField [102%N]) acc0 (map YStr ss) (map (fun _ => None) ss) = Ok a /\
    finish_seq (quant_key MAll [102%N]) a = Ok e /\
    exists_sub d10_here false e = true /\
    solve_body o_sub e (pure_doc (fun _ => Some (VStr h))) = Ok T /\
    quant_table MAll (member_results o_sub false ss h) = Ok F.
Proof.
  cbv zeta. eexists. eexists.
  split; [vm_compute; reflexivity|].
  split; [vm_compute; reflexivity|].
  repeat split; vm_compute; reflexivity.
Qed.

Example refuted_D11 :
  let ss := [[97; 42]; [42; 98]; [63; 122; 122]]%N in
  let h := [97; 98]%N in
  exists a e,
    seq_members o_sub false (quant_key (MOf 2) [102%N]) (EField [102%N]) acc0 (map YStr ss) (map (fun _ => None) ss) = Ok a /\
    finish_seq (quant_key (MOf 2) [102%N]) a = Ok e /\
    exists_sub d10_here false e = true /\
    solve_body o_sub e (pure_doc (fun _ => Some (VStr h))) = Ok F /\
    quant_table (MOf 2) (member_results o_sub false ss h) = Ok T.
Proof.
  cbv zeta. eexists. eexists.
  split; [vm_compute; reflexivity|].
  split; [vm_compute; reflexivity|].
  repeat split; vm_compute; reflexivity.
Qed.

Example one_batch_example :
  let ss := [[42; 97; 42]; [42; 98; 42]; [99; 42]]%N in
  exists a e,
    seq_members o_sub false (quant_key (MOf 2) [102%N]) (EField [102%N]) acc0 (map YStr ss) (map (fun _ => None) ss) = Ok a /\
    finish_seq (quant_key (MOf 2) [102%N]) a = Ok e /\ exists_sub d10_here false e = false.
Proof.
  cbv zeta. eexists. eexists.
  split; [vm_compute; reflexivity|].
  split; [vm_compute; reflexivity|].
  vm_compute; reflexivity.
Qed.
