(* C01 (sixth file): the matrix pass on trees WITH nested blocks: proofs.

   Both statements of Properties/C01_matrix_nested.v are proved as stated:
     matrix_truth_nested      (the pass alone, truth preservation, nested blocks allowed)
     scope_nested_all_sound   (whole loaded rules, all sixteen switch sets)
   and, for free, matrix_exact_nested: without multi-cell rows at all (C01_matrix.no_multi_cell)
   the pass preserves all three values on trees with nested blocks.

   Method.  The proof of C01_matrix.v used `no_nested` in two places only: the nested arm of
   matrix_sem (the induction was run at ONE document, while a nested block evaluates its body at
   other documents: the object under the field, or every object of an array) and the quantifier
   arm (shake_1 on the operand, via C01_shake1).  The table lemmas (C01_matrix section 5:
   cell_rekey, cell_missing, place_all_spec) already cover cells of kind ENested: a cell
   `ENested k inner` reads its column through the cache like any other cell.  Here
     - the induction is run for all documents at once (matrix_sem_n);
     - a nested block whose body is not a quantifier is evaluated on the generic path before and
       after the pass (solve_nested_generic, matrix_not_match), so the relation on the bodies
       lifts (nested_rel; over an array the answer is T or F, so truth preservation per element
       already gives exactness: any_true_rel);
     - the quantifier arm is excluded by Scope.no_match;
     - the D18 hypothesis is discharged by C03_matrix.d18_here_never.
   Whole rules: the stage before matrix preserves the verdict by C01_scope2.scope_nested_sound
   (applied to the switch set without matrix), the matrix stage by matrix_stage_verdict_n on the
   trees of pre_matrix; the two verdict equalities compose (no exactness of the first stage is
   needed: D17 is asked of the trees handed to matrix, whatever the earlier passes did).
   Not used by the proof: the conjuncts `Scope.no_quant_ident (d_expr dt)` and
   `negb (known_d16 ord sw dt)` of the scope (the first is implied for the matrix stage by
   no_match of the trees; the second only concerns quantifier operands, of which there are none).
   Section 5: two loaded rules inside the scope that the pass really rewrites (nested blocks as
   cells; a table built inside a nested body). *)
From Coq Require Import Permutation Lia ZArith ZifyBool List Bool.
From TauModel Require Import Base Num Oracles Syntax Generated Token Pratt Ident Value Yaml ParseMap Solver Rule Keys Optimiser Known.
From TauModel Require Import Scope.
From TauModel Require Scope2.
From TauProofs Require C01 C03 C01_flat C01_shake1 C01_loaded C01_nested C01_scope2.
From TauProofs Require Import C03_opt C03_matrix C01_matrix.
Import ListNotations.

(* ---- the helper definitions of Properties/C01_matrix_nested.v, restated identically ---- *)
Definition matrix_input_ok2 (o : oracles) (ord : hord) (sw : switches) (dt : detection) : bool :=
  negb (known_d17 o ord sw dt) && negb (known_d21 o ord sw dt) && negb (known_d16 ord sw dt) &&
  forallb Scope.cmp_reads (all_trees (pre_matrix o ord sw dt)) &&
  forallb Scope.no_match (all_trees (pre_matrix o ord sw dt)).
Definition c01_scope_nested_all (o : oracles) (ord : hord) (sw : switches) (dt : detection) : bool :=
  Scope2.c01_scope_nested ord (Scope.sw_without_matrix sw) dt &&
  (negb (sw_matrix sw) || (Scope.no_quant_ident (d_expr dt) && matrix_input_ok2 o ord sw dt)).

(* ====================================================================================== *)
(* 1. nested blocks whose body is not a quantifier                                        *)
(* ====================================================================================== *)

Definition is_match (e : expr) : bool := match e with EMatch _ _ => true | _ => false end.

Lemma solve_nested_generic o ids body f e d : is_match e = false ->
  solve o ids body (ENested f e) d =
  (do x <- d f;
   match x with
   | None => Ok M
   | Some (VObj kv) => solve o ids body e (obj_doc kv)
   | Some (VArr a) => C01.any_true (solve o ids body e) (objects_of a)
   | Some _ => Ok F
   end).
Proof. intros H. rewrite C01.solve_nested_eq. destruct e; try discriminate H; reflexivity. Qed.

Lemma Rn_teq neg a b : Rn neg a b -> teq a b.
Proof. destruct neg; cbn [Rn]; [intros ->; unfold teq; tauto | auto]. Qed.

(* over an array the generic path answers T or F: truth preservation per element is enough for
   exactness *)
Lemma any_true_rel neg (s1 s2 : docq -> out res3) : forall objs,
  (forall kv, In kv objs -> exists v v', s1 (obj_doc kv) = Ok v /\ s2 (obj_doc kv) = Ok v' /\ Rn neg v' v) ->
  exists w, C01.any_true s1 objs = Ok w /\ C01.any_true s2 objs = Ok w.
Proof.
  induction objs as [|kv rest IH]; intros H.
  - exists F. split; reflexivity.
  - destruct (H kv (or_introl eq_refl)) as (v & v' & E1 & E2 & R).
    destruct IH as (w & W1 & W2). { intros kv' Hkv'. apply H. right. exact Hkv'. }
    cbn [C01.any_true]. rewrite E1, E2. cbn [bind].
    assert (Hv : v' = T <-> v = T) by exact (Rn_teq _ _ _ R).
    destruct v.
    + rewrite (proj2 Hv eq_refl). exists T. split; reflexivity.
    + destruct v'; [discriminate (proj1 Hv eq_refl) | |]; exists w; split; assumption.
    + destruct v'; [discriminate (proj1 Hv eq_refl) | |]; exists w; split; assumption.
Qed.

Lemma nested_rel o ids1 ids2 body1 body2 neg f e x (d : doc) :
  is_match e = false -> is_match x = false ->
  (forall d' : doc, exists v v', solve o ids1 body1 e (pure_doc d') = Ok v /\
                                 solve o ids2 body2 x (pure_doc d') = Ok v' /\ Rn neg v' v) ->
  exists v v', solve o ids1 body1 (ENested f e) (pure_doc d) = Ok v /\
               solve o ids2 body2 (ENested f x) (pure_doc d) = Ok v' /\ Rn neg v' v.
Proof.
  intros He Hx H. rewrite !solve_nested_generic by assumption.
  change (pure_doc d f) with (@Ok (option value) (d f)). cbn [bind].
  destruct (d f) as [v|]; [|exists M, M; split; [reflexivity | split; [reflexivity | apply Rn_refl]]].
  destruct v as [ | b | x0 | z | z | s | a | kv ];
    try (exists F, F; split; [reflexivity | split; [reflexivity | apply Rn_refl]]).
  - destruct (any_true_rel neg (solve o ids1 body1 e) (solve o ids2 body2 x) (objects_of a)) as (w & W1 & W2).
    { intros kv _. exact (H (obj_find kv)). }
    exists w, w. split; [exact W1 | split; [exact W2 | apply Rn_refl]].
  - exact (H (obj_find kv)).
Qed.

(* matrix does not make a quantifier out of something else *)
Lemma matrix_not_match ord : forall e F e', no_match e = true -> matrix ord F e = Ok e' -> is_match e' = false.
Proof.
  induction e as [e IH] using C01.size_ind. intros F e' Hn H.
  dex e; cbn [no_match] in Hn; try discriminate Hn; try (inversion H; subst; reflexivity).
  - (* group *)
    destruct s; try (inversion H; subst; reflexivity).
    + cbn [matrix] in H. apply C03.bind_ok_inv in H. destruct H as (l' & _ & H). inversion H; subst. reflexivity.
    + rewrite matrix_or_eq in H. apply C03.bind_ok_inv in H. destruct H as (scratch & Hm & H).
      assert (Hsc : forall y, In y scratch -> is_match y = false).
      { intros y Hy. apply C01.mapM_Forall2 in Hm.
        destruct (Forall2_In_r _ _ _ y Hm Hy) as (x & Hx & Hxy).
        exact (IH x ltac:(sz) F y (C01.forallb_In _ _ _ Hn Hx) Hxy). }
      destruct (matrix_table scratch); [|inversion H; subst; reflexivity].
      cbv zeta in H. apply C03.bind_ok_inv in H. destruct H as ([rows others] & Hp & H).
      pose proof (place_all_others _ _ _ _ Hp) as Hsub.
      destruct rows as [|r0 rows0]; cbn [app] in H.
      * destruct others as [|a [|b rest]]; inversion H; subst; try reflexivity.
        apply Hsc. apply Hsub. left. reflexivity.
      * destruct others as [|a rest]; inversion H; subst; reflexivity.
  - cbn [matrix] in H. apply C03.bind_ok_inv in H. destruct H as (l' & _ & H).
    apply C03.bind_ok_inv in H. destruct H as (r' & _ & H). inversion H; subst. reflexivity.
  - cbn [matrix] in H. apply C03.bind_ok_inv in H. destruct H as (x & _ & H). inversion H; subst. reflexivity.
  - cbn [matrix] in H. apply C03.bind_ok_inv in H. destruct H as (x & _ & H). inversion H; subst. reflexivity.
Qed.

Lemma no_match_not_match e : no_match e = true -> is_match e = false.
Proof. destruct e; intros H; try reflexivity. discriminate H. Qed.

Lemma d18_sub_never ord neg e : exists_sub (d18_here ord) neg e = false.
Proof. apply exists_sub_never. intros n x. apply d18_here_never. Qed.

(* ====================================================================================== *)
(* 2. the pass, semantically, at every document                                           *)
(* ====================================================================================== *)

Section MainN.
Variable o : oracles.
Variable ord : hord.
Hypothesis Hord : forall l, Permutation (ord l) l.
Variables ids1 ids2 : list (str * expr).
Variable K : str -> bool.

Let S1 (d : doc) (e : expr) : out res3 := Sd o ids1 (solve_body o) d e.
Let S2 (d : doc) (e : expr) : out res3 := Sd o ids2 (solve_body o) d e.
Let V1 (d : doc) (e : expr) : res3 := val o ids1 (solve_body o) d e.
Let V2 (d : doc) (e : expr) : res3 := val o ids2 (solve_body o) d e.

Hypothesis Hok1 : forall (d : doc) e, gm K e = true -> C03.okr (S1 d e).
Hypothesis Hok2 : forall (d : doc) e, gm K e = true -> C03.okr (S2 d e).
(* identifiers: related as the bodies are *)
Variable bn : bool.
Hypothesis Hid : forall (d : doc) i, K i = true -> Rn bn (V2 d (EIdent i)) (V1 d (EIdent i)).

Lemma matrix_sem_n : forall e neg F e' (d : doc),
  gk K e = true -> cmp_reads e = true ->
  exists_sub (d17_here ord) neg e = false ->
  (bn = true \/ (neg = false /\ no_neg e = true)) ->
  no_match e = true ->
  matrix ord F e = Ok e' ->
  Rn neg (V2 d e') (V1 d e).
Proof.
  induction e as [e IH] using C01.size_ind. intros neg F e' d Hg Hcr H17 Hpn Hpm H.
  dex e; cbn [gk] in Hg; try discriminate Hg.
  - (* group *)
    apply andb_prop in Hg. destruct Hg as [Hs Hl].
    cbn [cmp_reads exists_sub no_match] in Hcr, H17, Hpm.
    apply orb_false_iff in H17. destruct H17 as [Hh17 Hs17].
    pose proof (d18_here_never ord neg (EGroup s g)) as Hh18.
    assert (Hmem : forall x y, In x g -> matrix ord F x = Ok y ->
              gm K y = true /\ cr2 y = true /\ Rn neg (V2 d y) (V1 d x)).
    { intros x y Hx Hy.
      pose proof (C01.forallb_In _ _ _ Hl Hx) as Gx.
      split; [exact (matrix_gm' ord K x neg Gx (d18_sub_never ord neg x) F y Hy)|].
      split; [exact (matrix_cr2 ord K x F y Gx (C01.forallb_In _ _ _ Hcr Hx) Hy)|].
      apply (IH x (C01.size_member s g x Hx) neg F y d Gx (C01.forallb_In _ _ _ Hcr Hx)
                (C01.existsb_false_In _ _ _ Hs17 Hx)); [| |exact Hy].
      - destruct Hpn as [Hb|[Hn Hq]]; [left; exact Hb|right]. split; [exact Hn|].
        cbn [no_neg] in Hq. exact (C01.forallb_In _ _ _ Hq Hx).
      - exact (C01.forallb_In _ _ _ Hpm Hx). }
    assert (Hgl : forallb (gm K) g = true).
    { apply C01.forallb_intro. intros x Hx. exact (proj1 (gk_gm K x (C01.forallb_In _ _ _ Hl Hx))). }
    assert (Hsc : forall scratch, mapM (fun x => matrix ord F x) g = Ok scratch ->
              forallb (gm K) scratch = true /\ (forall y, In y scratch -> cr2 y = true) /\
              Forall2 (Rn neg) (map (V2 d) scratch) (map (V1 d) g)).
    { intros scratch Hm. apply C01.mapM_Forall2 in Hm. split; [|split].
      - apply C01.forallb_intro. intros y Hy. destruct (Forall2_In_r _ _ _ y Hm Hy) as (x & Hx & Hxy).
        exact (proj1 (Hmem x y Hx Hxy)).
      - intros y Hy. destruct (Forall2_In_r _ _ _ y Hm Hy) as (x & Hx & Hxy).
        exact (proj1 (proj2 (Hmem x y Hx Hxy))).
      - apply Forall2_map2. apply (F2_rel _ _ _ _ Hm). intros x y Hx Hxy.
        exact (proj2 (proj2 (Hmem x y Hx Hxy))). }
    destruct s; try discriminate Hs.
    + (* and *)
      cbn [matrix] in H. apply C03.bind_ok_inv in H. destruct H as (l' & Hm & H). inversion H; subst e'.
      destruct (Hsc l' Hm) as (G' & _ & HR).
      unfold V1, V2. rewrite (val_and o ids1 _ d K (Hok1 d) g Hgl), (val_and o ids2 _ d K (Hok2 d) l' G').
      apply Rn_conj3. exact HR.
    + (* or *)
      rewrite matrix_or_eq in H. apply C03.bind_ok_inv in H. destruct H as (scratch & Hm & H).
      destruct (Hsc scratch Hm) as (G' & C' & HR).
      assert (HV1 : V1 d (EGroup BOr g) = sumr (map (V1 d) g)) by (apply (val_or o ids1 _ d K (Hok1 d) g Hgl)).
      assert (HRs : Rn neg (sumr (map (V2 d) scratch)) (V1 d (EGroup BOr g))).
      { rewrite HV1. apply Rn_sumr. exact HR. }
      destruct (matrix_table scratch) eqn:Et.
      2:{ inversion H; subst e'. unfold V2 at 1. rewrite (val_or o ids2 _ d K (Hok2 d) scratch G'). exact HRs. }
      pose proof (matrix_table_fires _ Et) as Ef.
      cbv zeta in H. set (cols := matrix_cols ord (count_fields scratch)) in *.
      apply C03.bind_ok_inv in H. destruct H as ([rows others] & Hp & H).
      pose proof (scratch_d18 ord neg F g scratch Hh18 Hm Ef) as Hd18.
      assert (Hmc : neg = true -> existsb multi_cell scratch = false).
      { intros ->. exact (scratch_d17 ord F g scratch Hh17 Hm Ef). }
      assert (HF : Forall (mem_ok cols K neg) scratch).
      { apply Forall_forall. intros y Hy. unfold mem_ok.
        split; [exact (C01.forallb_In _ _ _ G' Hy)|]. split; [exact (C' y Hy)|].
        split; [exact (C01.existsb_false_In _ _ _ Hd18 Hy)|]. split.
        - intros Hn. exact (C01.existsb_false_In _ _ _ (Hmc Hn) Hy).
        - intros f Hf. apply matrix_cols_In; [exact Hord|]. exact (count_fields_In f scratch y Hy Hf). }
      destruct (place_all_spec o ids2 (solve_body o) d cols K (Hok2 d) neg scratch rows others HF Hp)
        as (Hsub & wss & HW & HRp).
      apply (Rn_trans neg _ (sumr (map (V2 d) scratch))); [|exact HRs].
      refine (Rn_trans neg _ _ _ _ HRp). apply Rn_eq.
      assert (Hoth : Forall2 (fun x v => S2 d x = Ok v) others (map (V2 d) others)).
      { clear - Hsub G' Hok2. induction others as [|a others IHo]; cbn [map]; constructor.
        - apply (val_ok o ids2 (solve_body o) d K (Hok2 d)). apply (C01.forallb_In _ _ _ G'). apply Hsub. left. reflexivity.
        - apply IHo. intros x Hx. apply Hsub. right. exact Hx. }
      destruct rows as [|r0 rows0].
      * cbn [app] in H. cbn [map] in HW. inversion HW; subst wss.
        cbn [map sumr fold_right]. rewrite join_M_l.
        assert (E : e' = match others with [x] => x | _ => EGroup BOr others end)
          by (destruct others as [|a [|b rest]]; inversion H; reflexivity).
        assert (HS : Sd o ids2 (solve_body o) d e' = Ok (sumr (map (V2 d) others))).
        { rewrite E. exact (Sd_collapse o ids2 (solve_body o) d others (map (V2 d) others) Hoth). }
        unfold V2 at 1, val. rewrite HS. reflexivity.
      * cbn [app] in H.
        assert (E : e' = match EMatrix cols (r0 :: rows0) :: others with [x] => x | l => EGroup BOr l end)
          by (destruct others as [|a rest]; inversion H; reflexivity).
        assert (HS : Sd o ids2 (solve_body o) d e' = Ok (sumr (sumr (map conj3o wss) :: map (V2 d) others))).
        { rewrite E. clear E H Hsub Hp.
          pose proof (Sd_matrix o ids2 (solve_body o) d cols (r0 :: rows0) wss HW) as HMx.
          destruct others as [|a rest].
          - apply (Sd_collapse o ids2 (solve_body o) d [EMatrix cols (r0 :: rows0)] [sumr (map conj3o wss)]).
            constructor; [exact HMx | constructor].
          - apply (Sd_collapse o ids2 (solve_body o) d (EMatrix cols (r0 :: rows0) :: a :: rest)
                     (sumr (map conj3o wss) :: map (V2 d) (a :: rest))).
            constructor; [exact HMx | exact Hoth]. }
        unfold V2 at 1, val. rewrite HS. reflexivity.
  - (* bexp *)
    cbn [matrix] in H. cbn [cmp_reads exists_sub no_match] in Hcr, H17, Hpm.
    apply orb_false_iff in H17. destruct H17 as [_ Hs17].
    destruct (is_and_or op) eqn:Eop.
    + apply andb_prop in Hg. destruct Hg as [G1 G2].
      apply andb_prop in Hcr. destruct Hcr as [C1 C2].
      apply andb_prop in Hpm. destruct Hpm as [M1 M2].
      apply orb_false_iff in Hs17. destruct Hs17 as [A1 A2].
      apply C03.bind_ok_inv in H. destruct H as (l' & Hl' & H).
      apply C03.bind_ok_inv in H. destruct H as (r' & Hr' & H). inversion H; subst e'.
      assert (P1 : (bn = true \/ neg = false /\ no_neg l1 = true) /\ (bn = true \/ neg = false /\ no_neg r1 = true)).
      { destruct Hpn as [Hb|[Hn Hq]]; [split; left; exact Hb|].
        cbn [no_neg] in Hq. apply andb_prop in Hq. destruct Hq. split; right; split; assumption. }
      pose proof (IH l1 (size_bl l1 op r1) neg F l' d G1 C1 A1 (proj1 P1) M1 Hl') as R1.
      pose proof (IH r1 (size_br l1 op r1) neg F r' d G2 C2 A2 (proj2 P1) M2 Hr') as R2.
      pose proof (matrix_gm' ord K l1 neg G1 (d18_sub_never ord neg l1) F l' Hl') as GL.
      pose proof (matrix_gm' ord K r1 neg G2 (d18_sub_never ord neg r1) F r' Hr') as GR.
      pose proof (proj1 (gk_gm K l1 G1)) as GL0. pose proof (proj1 (gk_gm K r1 G2)) as GR0.
      assert (HF2 : Forall2 (Rn neg) (map (V2 d) [l'; r']) (map (V1 d) [l1; r1])) by (repeat constructor; assumption).
      destruct op; try discriminate Eop.
      * replace (V2 d (EBexp l' BAnd r')) with (V2 d (EGroup BAnd [l'; r'])).
        2:{ unfold V2, val, Sd. cbn [solve]. rewrite C01.and2_fold. reflexivity. }
        replace (V1 d (EBexp l1 BAnd r1)) with (V1 d (EGroup BAnd [l1; r1])).
        2:{ unfold V1, val, Sd. cbn [solve]. rewrite C01.and2_fold. reflexivity. }
        unfold V1, V2. rewrite (val_and o ids1 _ d K (Hok1 d)), (val_and o ids2 _ d K (Hok2 d)).
        -- apply Rn_conj3. exact HF2.
        -- cbn [forallb]. rewrite GL, GR. reflexivity.
        -- cbn [forallb]. rewrite GL0, GR0. reflexivity.
      * replace (V2 d (EBexp l' BOr r')) with (V2 d (EGroup BOr [l'; r'])).
        2:{ unfold V2, val, Sd. cbn [solve]. rewrite C01.or2_fold. reflexivity. }
        replace (V1 d (EBexp l1 BOr r1)) with (V1 d (EGroup BOr [l1; r1])).
        2:{ unfold V1, val, Sd. cbn [solve]. rewrite C01.or2_fold. reflexivity. }
        unfold V1, V2. rewrite (val_or o ids1 _ d K (Hok1 d)), (val_or o ids2 _ d K (Hok2 d)).
        -- apply Rn_sumr. exact HF2.
        -- cbn [forallb]. rewrite GL, GR. reflexivity.
        -- cbn [forallb]. rewrite GL0, GR0. reflexivity.
    + apply andb_prop in Hg. destruct Hg as [G1 G2].
      rewrite (matrix_leaf ord F l1 G1), (matrix_leaf ord F r1 G2) in H. cbn [bind] in H.
      inversion H; subst e'. apply Rn_eq. unfold V1, V2, val, Sd. rewrite !solve_cmp by exact Eop. reflexivity.
  - (* ident *)
    inversion H; subst e'. apply (Rn_weaken bn); [exact (Hid d i Hg)|].
    destruct Hpn as [Hb|[Hn _]]; [left; exact Hb | right; exact Hn].
  - (* match *)
    discriminate Hpm.
  - (* negate *)
    cbn [matrix] in H. apply C03.bind_ok_inv in H. destruct H as (x & Hx & H). inversion H; subst e'.
    cbn [cmp_reads exists_sub no_match] in Hcr, H17, Hpm.
    apply orb_false_iff in H17. destruct H17 as [_ Hs17].
    assert (Hb : bn = true) by (destruct Hpn as [Hb|[_ Hq]]; [exact Hb | discriminate Hq]).
    pose proof (IH e (size_ng e) true F x d Hg Hcr Hs17 (or_introl Hb) Hpm Hx) as R. cbn [Rn] in R.
    pose proof (matrix_gm' ord K e true Hg (d18_sub_never ord true e) F x Hx) as GX.
    apply Rn_eq. unfold V1, V2, val, Sd. cbn [solve].
    fold (Sd o ids2 (solve_body o) d x). fold (Sd o ids1 (solve_body o) d e).
    rewrite (val_ok o ids2 _ d K (Hok2 d) x GX), (val_ok o ids1 _ d K (Hok1 d) e (proj1 (gk_gm K e Hg))).
    cbn [bind]. fold (V2 d x). fold (V1 d e). rewrite R. reflexivity.
  - (* nested *)
    cbn [matrix] in H. apply C03.bind_ok_inv in H. destruct H as (x & Hx & H). inversion H; subst e'.
    cbn [cmp_reads exists_sub no_match] in Hcr, H17, Hpm.
    apply orb_false_iff in H17. destruct H17 as [_ Hs17].
    assert (Hpn' : bn = true \/ neg = false /\ no_neg e = true).
    { destruct Hpn as [Hb|[Hn Hq]]; [left; exact Hb | right; split; [exact Hn | exact Hq]]. }
    pose proof (matrix_gm' ord K e neg Hg (d18_sub_never ord neg e) F x Hx) as GX.
    pose proof (proj1 (gk_gm K e Hg)) as GE.
    destruct (nested_rel o ids1 ids2 (solve_body o) (solve_body o) neg f e x d
                (no_match_not_match e Hpm) (matrix_not_match ord e F x Hpm Hx)) as (v & v' & E1 & E2 & R).
    { intros d'. exists (V1 d' e), (V2 d' x).
      split; [exact (val_ok o ids1 (solve_body o) d' K (Hok1 d') e GE)|].
      split; [exact (val_ok o ids2 (solve_body o) d' K (Hok2 d') x GX)|].
      exact (IH e (size_ns f e) neg F x d' Hg Hcr Hs17 Hpn' Hpm Hx). }
    unfold V1, V2, val, Sd. rewrite E1, E2. exact R.
  - (* search *)
    inversion H; subst e'. apply Rn_eq. reflexivity.
Qed.

End MainN.

(* ====================================================================================== *)
(* 3. identifier-free trees: statement 1                                                  *)
(* ====================================================================================== *)

Section FlatN.
Variable o : oracles.
Variable ord : hord.
Hypothesis Hord : forall l, Permutation (ord l) l.

Lemma ok_nil_n (d : doc) e : gm nokey e = true -> C03.okr (Sd o [] (solve_body o) d e).
Proof. intros H. exact (solve_body_m o e (pure_doc d) H (C03.npd_pure d)). Qed.

Lemma matrix_nested_rel neg F e e' (d : doc) :
  gb e = true -> cmp_reads e = true -> no_match e = true ->
  exists_sub (d17_here ord) neg e = false ->
  matrix ord F e = Ok e' ->
  exists v v', solve_body o e (pure_doc d) = Ok v /\ solve_body o e' (pure_doc d) = Ok v' /\ Rn neg v' v.
Proof.
  intros Hg Hc Hnm H17 H.
  assert (Hid : forall (d0 : doc) i, nokey i = true ->
            Rn true (val o [] (solve_body o) d0 (EIdent i)) (val o [] (solve_body o) d0 (EIdent i)))
    by (intros d0 i Hi; discriminate Hi).
  pose proof (matrix_sem_n o ord Hord [] [] nokey ok_nil_n ok_nil_n true Hid
                e neg F e' d Hg Hc H17 (or_introl eq_refl) Hnm H) as R.
  pose proof (matrix_gm' ord nokey e neg Hg (d18_sub_never ord neg e) F e' H) as Gm'.
  exists (val o [] (solve_body o) d e), (val o [] (solve_body o) d e').
  split; [|split; [|exact R]].
  - exact (val_ok o [] (solve_body o) d nokey (ok_nil_n d) e (proj1 (gk_gm nokey e Hg))).
  - exact (val_ok o [] (solve_body o) d nokey (ok_nil_n d) e' Gm').
Qed.

End FlatN.

(* ---- statement 1 ---- *)
Lemma matrix_truth_nested : forall o ord fuel e e' (d : doc),
  (forall l, Permutation (ord l) l) ->
  wf_body e = true -> C01.cmp_leaves e = true ->
  Scope.cmp_reads e = true -> Scope.no_match e = true ->
  exists_sub (d17_here ord) false e = false ->
  matrix ord fuel e = Ok e' ->
  (solve_body o e' (pure_doc d) = Ok T <-> solve_body o e (pure_doc d) = Ok T).
Proof.
  intros o ord fuel e e' d Hord Hw Hcl Hcr Hnm H17 H.
  destruct (matrix_nested_rel o ord Hord false fuel e e' d (gb_of_wf_body e Hw Hcl) Hcr Hnm H17 H)
    as (v & v' & E1 & E2 & R).
  cbn [Rn] in R. unfold teq in R. rewrite E1, E2. split; intros E; inversion E; subst; f_equal; tauto.
Qed.

(* for free: without multi-cell rows at all the pass is exact (all three values) *)
Lemma matrix_exact_nested : forall o ord fuel e e' (d : doc),
  (forall l, Permutation (ord l) l) ->
  wf_body e = true -> C01.cmp_leaves e = true ->
  Scope.cmp_reads e = true -> Scope.no_match e = true ->
  no_multi_cell ord e = true ->
  matrix ord fuel e = Ok e' ->
  solve_body o e' (pure_doc d) = solve_body o e (pure_doc d).
Proof.
  intros o ord fuel e e' d Hord Hw Hcl Hcr Hnm Hmc H.
  unfold no_multi_cell in Hmc. apply negb_true_iff in Hmc.
  rewrite (exists_sub_neg_irrel _ (d17_here ord)) in Hmc by (intros n x; reflexivity).
  destruct (matrix_nested_rel o ord Hord true fuel e e' d (gb_of_wf_body e Hw Hcl) Hcr Hnm Hmc H)
    as (v & v' & E1 & E2 & R).
  cbn [Rn] in R. rewrite E1, E2, R. reflexivity.
Qed.

(* ====================================================================================== *)
(* 4. whole rules: statement 2                                                            *)
(* ====================================================================================== *)

(* the matrix stage on the trees handed to it (nested blocks allowed, no quantifier) *)
Lemma matrix_stage_verdict_n o ord (d : doc) e3 ids3 e4 ids4 :
  (forall l, Permutation (ord l) l) ->
  gk (keys_of ids3) e3 = true -> gids ids3 ->
  forallb cmp_reads (all_trees (e3, ids3)) = true ->
  forallb no_match (all_trees (e3, ids3)) = true ->
  any_tree (d17_here ord) (e3, ids3) = false ->
  matrix ord (shake_fuel e3) e3 = Ok e4 ->
  map_ids (entries (fun x => matrix ord (shake_fuel x) x)) ids3 = Ok ids4 ->
  exists v v', solve_cond o ids3 e3 (pure_doc d) = Ok v /\ solve_cond o ids4 e4 (pure_doc d) = Ok v' /\
               teq v' v.
Proof.
  intros Hord Gc Gi Hcr Hnm H17 He4 Hids4.
  cbn [all_trees fst snd forallb] in Hcr, Hnm.
  apply andb_prop in Hcr. destruct Hcr as [Cc Ci]. apply andb_prop in Hnm. destruct Hnm as [Mc Mi].
  unfold any_tree in H17. cbn [fst snd] in H17.
  apply orb_false_iff in H17. destruct H17 as [A1 A2].
  set (bn := body_neg (e3, ids3)) in *.
  set (K := keys_of ids3).
  (* the bodies *)
  pose proof (C01_shake1.map_ids_F2 _ _ _ Hids4) as HF.
  assert (Hbody : forall kv kv' : str * expr, In kv ids3 ->
            entries (fun x => matrix ord (shake_fuel x) x) (snd kv) = Ok (snd kv') ->
            gm nokey (snd kv') = true /\
            forall d0 : doc, exists v v', solve_body o (snd kv) (pure_doc d0) = Ok v /\
                         solve_body o (snd kv') (pure_doc d0) = Ok v' /\ Rn bn v' v).
  { intros kv kv' Hkv Hm.
    assert (Hin : In (snd kv) (map snd ids3)) by (apply in_map; exact Hkv).
    pose proof (C01.forallb_In _ _ _ Ci Hin) as C. pose proof (C01.forallb_In _ _ _ Mi Hin) as Mm.
    pose proof (C01.existsb_false_In _ _ _ A2 Hkv) as A.
    cbn beta in A. unfold gids in Gi. rewrite Forall_forall in Gi. pose proof (Gi kv Hkv) as G.
    (* fix D15/D20: entry by entry *)
    split; [exact (entries_matrix_gm ord _ _ bn (perm_len ord Hord) G (d18_sub_never ord bn _) Hm)|].
    intros d0.
    apply (C01_nested.entries_vals_rel o (pure_doc d0) bn (fun x => matrix ord (shake_fuel x) x)
             (fun x => gb x = true /\ cmp_reads x = true /\ no_match x = true /\
                       exists_sub (d17_here ord) bn x = false)
             (fun _ => True) (snd kv) (snd kv')); [| | | |exact Hm].
    - intros; exact I.
    - destruct (snd kv) as [s0 l0| | | | | | | | | | | | |]; try exact I.
      unfold gb in G. cbn [gk] in G. apply andb_prop in G. exact (proj1 G).
    - intros x Hx. destruct (snd kv) as [s0 l0| | | | | | | | | | | | |]; cbn [C01_nested.entry_trees] in Hx;
        try (destruct Hx as [<-|[]]; auto).
      unfold gb in G. cbn [gk] in G. apply andb_prop in G. destruct G as [_ G].
      cbn [cmp_reads no_match] in C, Mm.
      split; [exact (C01.forallb_In _ _ _ G Hx)|]. split; [exact (C01.forallb_In _ _ _ C Hx)|].
      split; [exact (C01.forallb_In _ _ _ Mm Hx)|exact (C01.exists_sub_member _ _ _ _ _ A Hx)].
    - intros x x' (Gx & Cx & Mx & Ax) Hx. split; [exact I|].
      exact (matrix_nested_rel o ord Hord bn _ _ _ d0 Gx Cx Mx Ax Hx). }
  assert (Gi4 : Forall (fun kv : str * expr => gm nokey (snd kv) = true) ids4).
  { apply Forall_forall. intros kv' Hkv'. destruct (Forall2_In_r _ _ _ kv' HF Hkv') as (kv & Hkv & _ & Hm).
    exact (proj1 (Hbody kv kv' Hkv Hm)). }
  assert (Hfst : map fst ids4 = map fst ids3) by (exact (proj1 (map_ids_inv _ _ _ Hids4))).
  assert (Hok1 : forall (d0 : doc) e, gm K e = true -> C03.okr (Sd o ids3 (solve_body o) d0 e)).
  { intros d0 e Hg. exact (solve_cond_m o ids3 e (pure_doc d0) Hg (gm_of_gids _ Gi) (C03.npd_pure d0)). }
  assert (Hok2 : forall (d0 : doc) e, gm K e = true -> C03.okr (Sd o ids4 (solve_body o) d0 e)).
  { intros d0 e Hg. apply (solve_cond_m o ids4 e (pure_doc d0)); [|exact Gi4 | apply C03.npd_pure].
    rewrite (gm_ext _ K); [exact Hg|]. intros i. unfold K, keys_of. apply has_key_fst. exact Hfst. }
  assert (Hrel : C01_shake1.ids_rel (fun b b' => entries (fun x => matrix ord (shake_fuel x) x) b = Ok b') ids3 ids4).
  { apply C01_shake1.ids_rel_F2. exact HF. }
  assert (Hlk : forall i b, lookup i ids3 = Some b -> exists kv, In kv ids3 /\ snd kv = b).
  { intros i b Hl. destruct (C03.lookup_in _ _ _ Hl) as [k Hk]. exists (k, b). split; [exact Hk | reflexivity]. }
  assert (Hid : forall (d0 : doc) i, K i = true ->
            Rn bn (val o ids4 (solve_body o) d0 (EIdent i)) (val o ids3 (solve_body o) d0 (EIdent i))).
  { intros d0 i Hi. unfold K, keys_of, has_key in Hi. specialize (Hrel i).
    destruct (lookup i ids3) as [b|] eqn:E3; [|discriminate Hi].
    destruct (lookup i ids4) as [b'|] eqn:E4; [|contradiction].
    destruct (Hlk i b E3) as (kv & Hkv & <-).
    destruct (Hbody kv (fst kv, b') Hkv Hrel) as (_ & Hb). destruct (Hb d0) as (v & v' & Ev & Ev' & R).
    cbn [snd] in Ev'. unfold val, Sd. cbn [solve]. rewrite E3, E4, Ev, Ev'. exact R. }
  assert (Gm4 : gm K e4 = true) by exact (matrix_gm' ord K e3 false Gc (d18_sub_never ord false e3) _ _ He4).
  assert (Hpn : bn = true \/ (false = false /\ no_neg e3 = true)).
  { destruct bn eqn:Ebn; [left; reflexivity|right]. split; [reflexivity|].
    unfold bn, body_neg, has_negative in Ebn. cbn [fst] in Ebn. exact (has_negative_no_neg e3 false Ebn). }
  exists (val o ids3 (solve_body o) d e3), (val o ids4 (solve_body o) d e4).
  split; [exact (val_ok o ids3 (solve_body o) d K (Hok1 d) e3 (proj1 (gk_gm K e3 Gc)))|].
  split; [exact (val_ok o ids4 (solve_body o) d K (Hok2 d) e4 Gm4)|].
  exact (matrix_sem_n o ord Hord ids3 ids4 K Hok1 Hok2 bn Hid e3 false _ e4 d Gc Cc A1 Hpn Mc He4).
Qed.

(* ---- statement 2 ---- *)
Lemma scope_nested_all_sound : forall o ic ord sw y r (d : doc),
  (forall l, Permutation (ord l) l) ->
  C01.H_strip o ->
  load_rule o ic y = Ok r -> r_optimised r = false ->
  c01_scope_nested_all o ord sw (r_det r) = true ->
  exists r', optimise o ord sw r = Ok r' /\ matches o r' d = matches o r d.
Proof.
  intros o ic ord sw y r d Hord Hs Hl Hopt Hsc.
  unfold c01_scope_nested_all in Hsc. apply andb_prop in Hsc. destruct Hsc as [Hsc0 Hscm].
  destruct (sw_matrix sw) eqn:Em.
  2:{ apply (C01_scope2.scope_nested_sound o ic ord sw y r d Hord Hs Hl Hopt).
      destruct sw as [c s w m]. cbn [sw_matrix] in Em. subst m. exact Hsc0. }
  cbn [negb orb] in Hscm. apply andb_prop in Hscm. destruct Hscm as [_ Hmi].
  (* the passes before matrix: the verdict is preserved *)
  set (sw0 := Scope.sw_without_matrix sw) in *.
  destruct (C01_scope2.scope_nested_sound o ic ord sw0 y r d Hord Hs Hl Hopt Hsc0) as (r1 & Hr1 & Hsem).
  (* the stage before matrix *)
  destruct (no_matrix_stage_good o ord sw _ (load_good _ _ _ _ Hl)) as (s3 & Hst & [Gc Gi]).
  assert (Er1 : r_det r1 = s3).
  { unfold optimise in Hr1. rewrite Hopt in Hr1. unfold sw0 in Hr1.
    rewrite optimise_detection_stage, stage_sw, Hst in Hr1. cbn [bind Scope.sw_without_matrix sw_matrix] in Hr1.
    inversion Hr1; subst r1. reflexivity. }
  pose proof (no_matrix_stage_pre _ _ _ _ _ Hst) as Hpre.
  unfold matrix_input_ok2 in Hmi.
  apply andb_prop in Hmi. destruct Hmi as [Hmi Xnm]. apply andb_prop in Hmi. destruct Hmi as [Hmi Xcr].
  apply andb_prop in Hmi. destruct Hmi as [Hmi _]. apply andb_prop in Hmi. destruct Hmi as [K17 K21].
  apply negb_true_iff in K17. apply negb_true_iff in K21.
  (* optimise returns *)
  destruct (optimise_total_stage o ord sw _ (perm_len ord Hord) (load_good _ _ _ _ Hl) K21) as [dt' Hdt'].
  exists {| r_optimised := true; r_det := dt'; r_tp := r_tp r; r_tn := r_tn r |}.
  split; [unfold optimise; rewrite Hopt, Hdt'; reflexivity|].
  rewrite optimise_detection_stage, Hst, Em in Hdt'. cbn [bind] in Hdt'.
  apply C03.bind_ok_inv in Hdt'. destruct Hdt' as (e4 & He4 & Hdt').
  apply C03.bind_ok_inv in Hdt'. destruct Hdt' as (ids4 & Hids4 & Hdt'). inversion Hdt'; subst dt'; clear Hdt'.
  unfold known_d17 in K17. rewrite Em, Hpre in K17. cbn [andb] in K17.
  rewrite Hpre in Xcr, Xnm.
  destruct (matrix_stage_verdict_n o ord d (d_expr s3) (d_ids s3) e4 ids4 Hord Gc Gi Xcr Xnm K17 He4 Hids4)
    as (v & v' & Ev & Ev' & R).
  rewrite <- Hsem.
  apply (teq_matches o r1 _ d v v'); [|exact Ev' | exact R].
  rewrite Er1. exact Ev.
Qed.

(* ====================================================================================== *)
(* 5. the scope is inhabited: rules with nested blocks that the matrix pass rewrites      *)
(* ====================================================================================== *)
Definition idord : hord := fun k => k.
Definition sw_of (c s w m : bool) : switches :=
  {| sw_coalesce := c; sw_shake := s; sw_rewrite := w; sw_matrix := m |}.

(* detection: { A: [ {f: {p: a}}, {f: {q: b}} ], condition: A }
   coalesce + matrix (no shake): the two nested blocks on f become the two one-cell rows of a
   table whose cells are nested blocks *)
Definition y_cells : yaml :=
  YMap [(YStr key_detection,
         YMap [(YStr [65%N], YSeq [YMap [(YStr [102%N], YMap [(YStr [112%N], YStr [97%N])])];
                                   YMap [(YStr [102%N], YMap [(YStr [113%N], YStr [98%N])])]]);
               (YStr cond_key, YStr [65]%N)]);
        (YStr key_tp, YSeq []); (YStr key_tn, YSeq [])].
Definition d_cells : doc :=
  obj_find [([102%N], VArr [VObj [([112%N], VStr [98%N])]; VObj [([113%N], VStr [98%N])]])].

Lemma nested_cells_example :
  exists r, load_rule C01.o0 false y_cells = Ok r /\ r_optimised r = false /\
    forallb (fun sw => c01_scope_nested_all C01.o0 idord sw (r_det r))
            [sw_of true false false true; sw_of false false false true;
             sw_of true true true true; sw_of false true true true] = true /\
    matches C01.o0 r d_cells = Ok true /\
    exists r', optimise C01.o0 idord (sw_of true false false true) r = Ok r' /\
      d_expr (r_det r') =
        EMatrix [[102%N]] [[Some (ENested [0%N] (ESearch (SExact [97%N]) [112%N] false))];
                           [Some (ENested [0%N] (ESearch (SExact [98%N]) [113%N] false))]] /\
      matches C01.o0 r' d_cells = Ok true.
Proof.
  eexists. split; [vm_compute; reflexivity|]. split; [reflexivity|].
  split; [vm_compute; reflexivity|]. split; [vm_compute; reflexivity|].
  eexists. split; [vm_compute; reflexivity|]. split; vm_compute; reflexivity.
Qed.

(* detection: { A: [ {f: {p: a, q: b}}, {f: {p: c, q: d}} ], condition: A }
   all four passes: shake_1 merges the two blocks, matrix recurses into the merged body and
   builds a two-column table (multi-cell rows, positive position) inside the nested block *)
Definition y_table : yaml :=
  YMap [(YStr key_detection,
         YMap [(YStr [65%N], YSeq [YMap [(YStr [102%N], YMap [(YStr [112%N], YStr [97%N]); (YStr [113%N], YStr [98%N])])];
                                   YMap [(YStr [102%N], YMap [(YStr [112%N], YStr [99%N]); (YStr [113%N], YStr [100%N])])]]);
               (YStr cond_key, YStr [65]%N)]);
        (YStr key_tp, YSeq []); (YStr key_tn, YSeq [])].
Definition d_table : doc :=
  obj_find [([102%N], VArr [VObj [([112%N], VStr [97%N]); ([113%N], VStr [100%N])];
                            VObj [([112%N], VStr [99%N]); ([113%N], VStr [100%N])]])].

Lemma nested_table_example :
  exists r, load_rule C01.o0 false y_table = Ok r /\ r_optimised r = false /\
    c01_scope_nested_all C01.o0 idord (sw_of true true true true) (r_det r) = true /\
    matches C01.o0 r d_table = Ok true /\
    exists r', optimise C01.o0 idord (sw_of true true true true) r = Ok r' /\
      d_expr (r_det r') =
        ENested [102%N]
          (EMatrix [[112%N]; [113%N]]
             [[Some (ESearch (SExact [97%N]) [0%N] false); Some (ESearch (SExact [98%N]) [1%N] false)];
              [Some (ESearch (SExact [99%N]) [0%N] false); Some (ESearch (SExact [100%N]) [1%N] false)]]) /\
      matches C01.o0 r' d_table = Ok true.
Proof.
  eexists. split; [vm_compute; reflexivity|]. split; [reflexivity|].
  split; [vm_compute; reflexivity|]. split; [vm_compute; reflexivity|].
  eexists. split; [vm_compute; reflexivity|]. split; vm_compute; reflexivity.
Qed.

Print Assumptions matrix_truth_nested.
Print Assumptions matrix_exact_nested.
Print Assumptions scope_nested_all_sound.
