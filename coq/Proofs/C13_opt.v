(* C13 for optimised rules: inside the executable scope of the C01 theorems, validate() of the
   optimised rule is validate() of the rule as loaded. *)
From Coq Require Import Permutation.
From TauModel Require Import Base Num Oracles Syntax Value Yaml Pratt ParseMap Solver Rule Keys Optimiser Known Order.
From TauModel Require Scope.
From TauProofs Require C01 C01_matrix C12_order.

Lemma validate_list_ext o r1 r2 want :
  (forall d, matches o r1 d = matches o r2 d) ->
  forall l i, validate_list o r1 want i l = validate_list o r2 want i l.
Proof.
  intros H l. induction l as [|y l IH]; intros i; cbn [validate_list]; [reflexivity|].
  destruct (example_doc y) as [d|].
  - rewrite (H d). destruct (matches o r2 d) as [b| |]; cbn [bind]; try reflexivity.
    rewrite IH. reflexivity.
  - rewrite IH. reflexivity.
Qed.

Lemma validate_ext o r1 r2 :
  (forall d, matches o r1 d = matches o r2 d) ->
  r_tp r1 = r_tp r2 -> r_tn r1 = r_tn r2 ->
  validate o r1 = validate o r2.
Proof.
  intros H Hp Hn. unfold validate. rewrite Hp, Hn.
  rewrite (validate_list_ext o r1 r2 true H). 
  destruct (validate_list o r2 true 0%Z (r_tp r2)); cbn [bind]; try reflexivity.
  rewrite (validate_list_ext o r1 r2 false H). reflexivity.
Qed.

Lemma optimise_keeps_examples o ord sw r r' :
  optimise o ord sw r = Ok r' -> r_tp r' = r_tp r /\ r_tn r' = r_tn r.
Proof.
  unfold optimise. destruct (r_optimised r).
  - intros H. inversion H; subst. split; reflexivity.
  - destruct (optimise_detection o ord sw (r_det r)); cbn [bind]; intros H; inversion H; subst.
    split; reflexivity.
Qed.

Lemma validate_optimised_in_scope : forall o ic ord sw y r,
  (forall l, Permutation (ord l) l) ->
  C01.H_strip o ->
  load_rule o ic y = Ok r -> r_optimised r = false ->
  Scope.c01_scope_all o ord sw (r_det r) = true ->
  exists r', optimise o ord sw r = Ok r' /\ validate o r' = validate o r.
Proof.
  intros o ic ord sw y r Hord Hs Hl Hopt Hsc.
  destruct (C01_matrix.scope_all_sound o ic ord sw y r (fun _ => None) Hord Hs Hl Hopt Hsc) as [r' [Hr' _]].
  exists r'. split; [exact Hr'|].
  destruct (optimise_keeps_examples o ord sw r r' Hr') as [Hp Hn].
  apply validate_ext; [|exact Hp|exact Hn].
  intros d.
  destruct (C01_matrix.scope_all_sound o ic ord sw y r d Hord Hs Hl Hopt Hsc) as [r2 [Hr2 Hm]].
  rewrite Hr' in Hr2. inversion Hr2; subst. exact Hm.
Qed.
