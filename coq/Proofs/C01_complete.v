(* C01 (thirteenth file): is the executable scope COMPLETE outside D13 / D16 / D17 ?

   Properties/C01_complete.v asks: for a rule as loaded, known_d13 = known_d16 = known_d17 = false
   implies Scope6.c01_scope_quant_all_f = true.  The statement `scope_complete` itself is NOT
   proved here (Properties/C01_complete.vo does not build); it was not refuted either: bounded
   exhaustive search with vm_compute over ~4400 loadable rules with nested blocks up to depth
   three (duplicate keys, lists of mappings under all()/of(n)/not, one-member lists; six
   conditions over one identifier, sixteen switch sets, two map orders) and ~1500 pairs of such
   identifiers under five and/or/not conditions found no rule outside the scope with the three
   classifiers false (about 8 % of the rule / switch / order triples were outside the scope, all
   flagged).  What is proved, for EVERY rule the loader accepts and every switch set:

   (1) the static conjuncts of the scope
       loaded_sh0w        : Scope4.sh0w of every staged tree            (always)
       loaded_shx         : Scope.shx of every staged tree              (always)
       loaded_cmp_reads   : Scope.cmp_reads of every tree handed to matrix, nested blocks
                            included (always; C01_matrix.matrix_input_extra_loaded needed the flat scope)
       no_dneg_of_not_d13 : Scope.no_dneg of every staged tree OUTSIDE D13.  no_dneg is static
                            (an operand with a Negate at its head through one-member groups),
                            D13 dynamic (the operand shakes to a Negate); on loader-built trees
                            an innermost violation of no_dneg IS a D13 site: below it the
                            invariant inv2 / invc2 of the soundness proofs holds, so the operand
                            shakes to a Negate for every fuel above its size (head_neg_shakes).
   (2) scope_complete_alt2 : outside D13 / D16 / D17 the rule is in the scope as soon as the two
       conjuncts that FOLLOW THE RUN of shake_1 hold: dyn_run (= Scope2.run_safe when shake is on)
       and dyn_match (= the two match_safe conjuncts of Scope5.matrix_input_ok4 when matrix is
       on); scope_dyn is the converse.  So the scope is EXACTLY
       "not D16, not D17, no_dneg (implied by not D13), dyn_run, dyn_match".
   (3) scope_complete_flat : the statement as asked for every rule whose staged trees hold no
       nested block (executable hypothesis forallb Scope.no_nested (all_trees (staged sw dt))):
       without nested blocks shake1_safe / match_safe are true at every fuel (safe_nn,
       match_safe_nn).

   Open: dyn_run / dyn_match from "not D16" for rules WITH nested blocks.  known_d16 tests
   `is_nested (shake1 ord (shake_fuel m) m)` at the groups of the shaken_0 tree, shake1_safe
   tests `merges (shake1 ord fu m)` with the fuel fu the run has left at that point, and on the
   regrouped lists / merged bodies the run builds.  Relating the two needs (a) that the head of
   `shake1 ord fu m` does not depend on the fuel once it exceeds a bound below shake_fuel m, and
   (b) that shake1_safe is kept by shake_1 itself (the members of a regrouped list are outputs
   of shake_1).  No fuel-adequacy lemma for shake_1 exists in the development (all soundness
   proofs hold at every fuel); neither (a) nor (b) was attempted here. *)
From Coq Require Import Permutation Lia ZArith ZifyBool List Bool.
From TauModel Require Import Base Num Oracles Syntax Generated Token Pratt Ident Value Yaml ParseMap Solver Rule Keys Optimiser Known.
From TauModel Require Scope Scope2 Scope4 Scope5 Scope6 Order.
From TauProofs Require C01 C03 C03_opt C03_matrix C01_shake1 C01_loaded C01_d14 C01_d15 C01_sh0w C01_matrix C02_cond.
Import ListNotations.
Module D14 := C01_d14.
Module CW := C01_sh0w.CondW.

(* ====================================================================================== *)
(* 1. the shape of every tree the loader can stage: pinv = inv2 / invc2 WITHOUT no_dneg   *)
(* ====================================================================================== *)
Fixpoint pinv (e : expr) : bool :=
  match e with
  | EGroup s l => is_and_or s && match l with [] => false | _ => forallb pinv l end
  | EBexp l s r => if is_and_or s then pinv l && pinv r else C01.leaf l && C01.leaf r
  | EMatch _ e' => D14.qop_ok e' && pinv e'
  | ENegate e' => pinv e'
  | ENested _ e' => C01.nested_ok e' && pinv e'
  | ESearch _ _ _ | EIdent _ => true
  | _ => false
  end.

Fixpoint noid (e : expr) : bool :=
  match e with
  | EGroup _ l => forallb noid l
  | EBexp l _ r => noid l && noid r
  | EIdent _ => false
  | EMatch _ e' | ENegate e' | ENested _ e' => noid e'
  | _ => true
  end.

Ltac dex e :=
  destruct e as [ ?s ?g | ?l1 ?op ?r1 | ?b | ?f ?m | ?f | ?x | ?i | ?z | ?k ?e | ?cols ?rows | ?e | ?f ?e | | ?s ?f ?cst ].

Lemma pinv_group s l : pinv (EGroup s l) = true ->
  is_and_or s = true /\ l <> [] /\ forall x, In x l -> pinv x = true.
Proof.
  cbn [pinv]. intros H. apply andb_prop in H. destruct H as [Hs Hl].
  destruct l as [|a l]; [discriminate Hl|]. repeat split; [exact Hs | discriminate |].
  intros x Hx. exact (C01.forallb_In _ _ _ Hl Hx).
Qed.

Lemma existsb_false_all {A} (p : A -> bool) l : (forall x, In x l -> p x = false) -> existsb p l = false.
Proof.
  induction l as [|a l IH]; intros H; [reflexivity|]. cbn [existsb].
  rewrite (H a (or_introl eq_refl)). cbn [orb]. apply IH. intros x Hx. apply H. right. exact Hx.
Qed.

Lemma existsb_ext_In {A} (p q : A -> bool) l : (forall x, In x l -> p x = q x) -> existsb p l = existsb q l.
Proof.
  induction l as [|a l IH]; intros H; [reflexivity|]. cbn [existsb].
  rewrite (H a (or_introl eq_refl)), IH; [reflexivity|]. intros x Hx. apply H. right. exact Hx.
Qed.

(* a class whose test ignores the polarity: the polarity exists_sub starts with is irrelevant,
   and sub-expressions inherit the absence of the class *)
Section Sub.
Variable p : bool -> expr -> bool.
Hypothesis Hp : forall a b x, p a x = p b x.

Lemma pol : forall e n m, exists_sub p n e = exists_sub p m e.
Proof.
  induction e as [e IH] using C01.size_ind. intros n m.
  dex e; cbn [exists_sub]; rewrite (Hp n m); try reflexivity.
  - f_equal. apply existsb_ext_In. intros x Hx. apply IH. exact (C01.size_member _ _ _ Hx).
  - rewrite (IH l1 ltac:(cbn [expr_size]; lia) n m), (IH r1 ltac:(cbn [expr_size]; lia) n m). reflexivity.
  - destruct k as [|c]; f_equal; apply IH; cbn [expr_size]; lia.
  - f_equal. apply existsb_ext_In. intros row Hrow. apply existsb_ext_In. intros c Hc.
    destruct c as [x|]; [|reflexivity]. apply IH.
    cbn [expr_size]. clear -Hrow Hc.
    assert (A1 : forall (row : list (option expr)), In (Some x) row ->
      (expr_size x <= fold_right (fun c m => (match c with Some x => expr_size x | None => 1 end + m)%nat) 0%nat row)%nat).
    { induction row0 as [|c row0 IHr]; intros H; [destruct H|]. cbn [fold_right].
      destruct H as [->|H]; [lia|]. specialize (IHr H). lia. }
    assert (A2 : forall (rows : list (list (option expr))), In row rows ->
      (expr_size x <= fold_right (fun row n => (fold_right (fun c m => (match c with Some x => expr_size x | None => 1 end + m)%nat) 0%nat row + n)%nat) 0%nat rows)%nat).
    { induction rows0 as [|r0 rows0 IHr]; intros H; [destruct H|]. cbn [fold_right].
      destruct H as [->|H]; [pose proof (A1 _ Hc); lia|]. specialize (IHr H). lia. }
    pose proof (A2 _ Hrow). lia.
  - f_equal. apply IH. cbn [expr_size]. lia.
Qed.

Definition nop (e : expr) : Prop := exists_sub p false e = false.

Lemma nop_group s l x : nop (EGroup s l) -> In x l -> nop x.
Proof.
  unfold nop. cbn [exists_sub]. intros H Hx. apply orb_false_iff in H. destruct H as [_ H].
  exact (C01.existsb_false_In _ _ _ H Hx).
Qed.
Lemma nop_bexp l s r : nop (EBexp l s r) -> nop l /\ nop r.
Proof.
  unfold nop. cbn [exists_sub]. intros H. apply orb_false_iff in H. destruct H as [_ H].
  apply orb_false_iff in H. exact H.
Qed.
Lemma nop_match k e : nop (EMatch k e) -> nop e.
Proof.
  unfold nop. intros H. destruct k as [|c]; cbn [exists_sub] in H; apply orb_false_iff in H; destruct H as [_ H].
  - exact H.
  - rewrite (pol e _ false) in H. exact H.
Qed.
Lemma nop_negate e : nop (ENegate e) -> nop e.
Proof.
  unfold nop. cbn [exists_sub]. intros H. apply orb_false_iff in H. destruct H as [_ H].
  rewrite (pol e _ false) in H. exact H.
Qed.
Lemma nop_nested f e : nop (ENested f e) -> nop e.
Proof.
  unfold nop. cbn [exists_sub]. intros H. apply orb_false_iff in H. tauto.
Qed.
Lemma nop_here e : nop e -> p false e = false.
Proof. unfold nop. destruct e; cbn [exists_sub]; intros H; apply orb_false_iff in H; tauto. Qed.
End Sub.

Lemma d13_pol : forall a b x, d13_here a x = d13_here b x.
Proof. reflexivity. Qed.
Lemma dneg_pol : forall a b x, C01.dneg_here a x = C01.dneg_here b x.
Proof. reflexivity. Qed.

Definition nodneg (e : expr) : Prop := nop C01.dneg_here e.
Definition nod13 (e : expr) : Prop := nop d13_here e.

(* ====================================================================================== *)
(* 2. pinv + no double negation = the invariants of the soundness proofs                  *)
(* ====================================================================================== *)
Lemma pinv_inv2 : forall e, pinv e = true -> noid e = true -> nodneg e -> D14.inv2 e = true.
Proof.
  induction e as [e IH] using C01.size_ind. intros Hp Hn Hd.
  dex e; try discriminate Hp; try discriminate Hn.
  - destruct (pinv_group _ _ Hp) as (Hs & Hne & Hl). cbn [D14.inv2]. rewrite Hs. cbn [andb].
    destruct g as [|a g']; [congruence|]. apply C01.forallb_intro. intros x Hx.
    apply IH; [exact (C01.size_member _ _ _ Hx) | exact (Hl x Hx) | exact (C01.forallb_In _ _ _ Hn Hx)
              | exact (nop_group _ _ _ _ Hd Hx)].
  - cbn [pinv] in Hp. cbn [D14.inv2]. destruct (is_and_or op); [|exact Hp].
    apply andb_prop in Hp. destruct Hp as [P1 P2]. cbn [noid] in Hn. apply andb_prop in Hn. destruct Hn as [N1 N2].
    destruct (nop_bexp _ _ _ _ Hd) as [D1 D2].
    rewrite (IH l1), (IH r1); try assumption; try (cbn [expr_size]; lia); try reflexivity.
  - cbn [pinv] in Hp. apply andb_prop in Hp. destruct Hp as [P1 P2]. cbn [D14.inv2]. rewrite P1. cbn [andb].
    apply IH; [cbn [expr_size]; lia | exact P2 | exact Hn | exact (nop_match _ dneg_pol _ _ Hd)].
  - cbn [pinv] in Hp. cbn [D14.inv2]. pose proof (nop_here _ _ Hd) as Hh. cbn [C01.dneg_here] in Hh.
    rewrite Hh. cbn [negb andb].
    apply IH; [cbn [expr_size]; lia | exact Hp | exact Hn | exact (nop_negate _ dneg_pol _ Hd)].
  - cbn [pinv] in Hp. apply andb_prop in Hp. destruct Hp as [P1 P2]. cbn [D14.inv2]. rewrite P1. cbn [andb].
    apply IH; [cbn [expr_size]; lia | exact P2 | exact Hn | exact (nop_nested _ _ _ Hd)].
  - reflexivity.
Qed.

Lemma pinv_invc2 : forall e, pinv e = true -> C01.no_nested e = true -> nodneg e -> CW.invc2 e = true.
Proof.
  induction e as [e IH] using C01.size_ind. intros Hp Hn Hd.
  dex e; try discriminate Hp; try discriminate Hn.
  - destruct (pinv_group _ _ Hp) as (Hs & Hne & Hl). cbn [CW.invc2]. rewrite Hs. cbn [andb].
    destruct g as [|a g']; [congruence|]. apply C01.forallb_intro. intros x Hx.
    apply IH; [exact (C01.size_member _ _ _ Hx) | exact (Hl x Hx) | exact (C01.forallb_In _ _ _ Hn Hx)
              | exact (nop_group _ _ _ _ Hd Hx)].
  - cbn [pinv] in Hp. cbn [CW.invc2]. destruct (is_and_or op); [|exact Hp].
    apply andb_prop in Hp. destruct Hp as [P1 P2]. cbn [C01.no_nested] in Hn. apply andb_prop in Hn. destruct Hn as [N1 N2].
    destruct (nop_bexp _ _ _ _ Hd) as [D1 D2].
    rewrite (IH l1), (IH r1); try assumption; try (cbn [expr_size]; lia); try reflexivity.
  - reflexivity.
  - cbn [pinv] in Hp. apply andb_prop in Hp. destruct Hp as [P1 P2]. cbn [CW.invc2]. rewrite P1. cbn [andb].
    apply IH; [cbn [expr_size]; lia | exact P2 | exact Hn | exact (nop_match _ dneg_pol _ _ Hd)].
  - cbn [pinv] in Hp. cbn [CW.invc2]. pose proof (nop_here _ _ Hd) as Hh. cbn [C01.dneg_here] in Hh.
    rewrite Hh. cbn [negb andb].
    apply IH; [cbn [expr_size]; lia | exact Hp | exact Hn | exact (nop_negate _ dneg_pol _ Hd)].
  - reflexivity.
Qed.

(* ====================================================================================== *)
(* 3. an operand with a negation at its head shakes to a negation                         *)
(* ====================================================================================== *)
Section HeadNeg.
Variable I : expr -> bool.
Hypothesis I_neg : forall z, I (ENegate z) = true -> C01.head_neg z = false /\ I z = true.
Hypothesis I_grp : forall s l, I (EGroup s l) = true -> is_and_or s = true /\ forall x, In x l -> I x = true.
Hypothesis I_sh : forall fu z, I z = true ->
  exists x, shake0 fu z = Ok x /\ (C01.head_neg x = true -> C01.head_neg z = true).

Lemma head_neg_shakes : forall fuel e, I e = true -> C01.head_neg e = true -> (expr_size e < fuel)%nat ->
  exists w, shake0 fuel e = Ok (ENegate w).
Proof.
  induction fuel as [|fu IH]; intros e Hi Hh Hsz; [lia|].
  dex e; try discriminate Hh.
  - (* one-member group *)
    destruct g as [|y [|y' g']]; try discriminate Hh. cbn [C01.head_neg] in Hh.
    destruct (I_grp _ _ Hi) as [Hs Hl]. cbn [shake0]. rewrite Hs. cbn [negb mapM].
    destruct (IH y (Hl y (or_introl eq_refl)) Hh) as [w Hw].
    { cbn [expr_size fold_right] in Hsz. lia. }
    rewrite Hw. cbn [bind]. exists w. reflexivity.
  - destruct (I_neg _ Hi) as [Hz Iz]. cbn [shake0].
    destruct (I_sh fu e Iz) as (x & -> & Hx). cbn [bind].
    destruct x; try (eexists; reflexivity).
    exfalso. rewrite (Hx eq_refl) in Hz. discriminate Hz.
Qed.
End HeadNeg.

Lemma inv2_gb e : D14.inv2 e = true -> C03_opt.gb e = true.
Proof.
  intros H. apply C03_opt.gb_of_wf_body; [exact (C01_sh0w.Inv2.inv2_wf e H) | exact (C01_sh0w.Inv2.inv2_cl e H)].
Qed.

Lemma head_neg_shakes_inv2 : forall fuel e, D14.inv2 e = true -> C01.head_neg e = true ->
  (expr_size e < fuel)%nat -> exists w, shake0 fuel e = Ok (ENegate w).
Proof.
  apply (head_neg_shakes D14.inv2).
  - intros z H. cbn [D14.inv2] in H. apply andb_prop in H. destruct H as [H1 H2].
    apply negb_true_iff in H1. split; assumption.
  - intros s l H. destruct (D14.inv2_group _ _ H) as (Hs & Hl & _). split; [exact Hs|].
    intros x Hx. exact (C01.forallb_In _ _ _ Hl Hx).
  - intros fu z Hz. destruct (C03_opt.shake0_good C03_opt.nokey fu z (inv2_gb z Hz)) as (x & Hx & _).
    exists x. split; [exact Hx|]. destruct (D14.shake0_post2 C01.o0 fu z x Hz Hx) as (_ & P & _). exact P.
Qed.

Lemma head_neg_shakes_invc2 : forall fuel e, CW.invc2 e = true -> C01.head_neg e = true ->
  (expr_size e < fuel)%nat -> exists w, shake0 fuel e = Ok (ENegate w).
Proof.
  apply (head_neg_shakes CW.invc2).
  - intros z H. cbn [CW.invc2] in H. apply andb_prop in H. destruct H as [H1 H2].
    apply negb_true_iff in H1. split; assumption.
  - intros s l H. destruct (CW.invc2_group _ _ H) as (Hs & Hl & _). split; [exact Hs|].
    intros x Hx. exact (C01.forallb_In _ _ _ Hl Hx).
  - intros fu z Hz. destruct (CW.shake0_totalc2 C01.o0 [] fu z Hz) as (x & Hx).
    exists x. split; [exact Hx|]. destruct (CW.shake0_postc2 C01.o0 [] fu z x Hz Hx) as (_ & P & _). exact P.
Qed.

(* ====================================================================================== *)
(* 4. outside D13 there is no double negation (static no_dneg from the dynamic class)     *)
(* ====================================================================================== *)
Lemma no_dneg_of_not_d13_gen : forall e, pinv e = true ->
  (noid e = true \/ C01.no_nested e = true) -> nod13 e -> nodneg e.
Proof.
  induction e as [e IH] using C01.size_ind. intros Hp Hk H13.
  assert (Hsub : forall x, (expr_size x < expr_size e)%nat -> pinv x = true ->
                           (noid x = true \/ C01.no_nested x = true) -> nod13 x ->
                           forall n, exists_sub C01.dneg_here n x = false).
  { intros x Hsz Px Kx Dx n. rewrite (pol _ dneg_pol x n false). exact (IH x Hsz Px Kx Dx). }
  unfold nodneg, nop.
  dex e; try discriminate Hp; cbn [exists_sub C01.dneg_here orb].
  - destruct (pinv_group _ _ Hp) as (_ & _ & Hl). apply existsb_false_all. intros x Hx.
    apply Hsub; [exact (C01.size_member _ _ _ Hx) | exact (Hl x Hx) | | exact (nop_group _ _ _ _ H13 Hx)].
    destruct Hk as [Hk|Hk]; [left|right]; exact (C01.forallb_In _ _ _ Hk Hx).
  - destruct (nop_bexp _ _ _ _ H13) as [D1 D2]. cbn [pinv] in Hp.
    destruct (is_and_or op).
    + apply andb_prop in Hp. destruct Hp as [P1 P2].
      assert (K1 : noid l1 = true \/ C01.no_nested l1 = true).
      { destruct Hk as [Hk|Hk]; [left|right]; cbn [noid C01.no_nested] in Hk; apply andb_prop in Hk; tauto. }
      assert (K2 : noid r1 = true \/ C01.no_nested r1 = true).
      { destruct Hk as [Hk|Hk]; [left|right]; cbn [noid C01.no_nested] in Hk; apply andb_prop in Hk; tauto. }
      rewrite (Hsub l1), (Hsub r1); try assumption; try (cbn [expr_size]; lia); try reflexivity.
    + apply andb_prop in Hp. destruct Hp as [P1 P2].
      rewrite (C01_loaded.leaf_no_dneg _ _ P1), (C01_loaded.leaf_no_dneg _ _ P2). reflexivity.
  - reflexivity.
  - cbn [pinv] in Hp. apply andb_prop in Hp. destruct Hp as [_ P2].
    destruct k as [|c]; cbn [exists_sub]; apply Hsub; try (cbn [expr_size]; lia); try exact P2;
      try exact (nop_match _ d13_pol _ _ H13); (destruct Hk as [Hk|Hk]; [left|right]; exact Hk).
  - cbn [pinv] in Hp.
    assert (Ke : noid e = true \/ C01.no_nested e = true) by (destruct Hk as [Hk|Hk]; [left|right]; exact Hk).
    pose proof (nop_negate _ d13_pol _ H13) as De.
    assert (Dn : nodneg e) by (apply IH; [cbn [expr_size]; lia | exact Hp | exact Ke | exact De]).
    rewrite (Hsub e); try assumption; try (cbn [expr_size]; lia). rewrite orb_false_r.
    destruct (C01.head_neg e) eqn:Hh; [exfalso|reflexivity].
    pose proof (nop_here _ _ H13) as H0. cbn [d13_here] in H0.
    assert (Hw : exists w, shake0 (shake_fuel e) e = Ok (ENegate w)).
    { destruct Ke as [Ke|Ke].
      - apply head_neg_shakes_inv2; [exact (pinv_inv2 e Hp Ke Dn) | exact Hh | unfold shake_fuel; lia].
      - apply head_neg_shakes_invc2; [exact (pinv_invc2 e Hp Ke Dn) | exact Hh | unfold shake_fuel; lia]. }
    destruct Hw as [w Hw]. rewrite Hw in H0. discriminate H0.
  - cbn [pinv] in Hp. apply andb_prop in Hp. destruct Hp as [_ P2].
    apply Hsub; [cbn [expr_size]; lia | exact P2 | | exact (nop_nested _ _ _ H13)].
    destruct Hk as [Hk|Hk]; [left; exact Hk | discriminate Hk].
  - reflexivity.
Qed.

(* ====================================================================================== *)
(* 5. what the loader builds, and what coalesce makes of it, satisfies pinv               *)
(* ====================================================================================== *)
Lemma leaf_pinv_false e : C01.leaf e = true -> is_solvable e = false.
Proof. unfold C01.leaf. intros H. apply negb_true_iff in H. exact H. Qed.

Lemma types_ok_leaves eq l r : types_ok eq l r = true -> C01.leaf l = true /\ C01.leaf r = true.
Proof.
  intros H. destruct (C01_loaded.types_ok_leaves _ _ _ H) as [H1 H2]. unfold C01.leaf.
  rewrite H1, H2. split; reflexivity.
Qed.

Lemma cond_shape_pinv : forall e, Spec.cond_shape e = true -> pinv e = true /\ C01.no_nested e = true.
Proof.
  induction e as [e IH] using C01.size_ind. intros H.
  dex e; try discriminate H; cbn [Spec.cond_shape] in H.
  - cbn [pinv C01.no_nested].
    destruct op; cbn [is_and_or];
      try (destruct (types_ok_leaves _ _ _ H) as [L1 L2]; rewrite L1, L2; split; [reflexivity|];
           rewrite (C01_loaded.unsolvable_no_nested l1), (C01_loaded.unsolvable_no_nested r1);
           [reflexivity | exact (leaf_pinv_false _ L2) | exact (leaf_pinv_false _ L1)]);
      (apply andb_prop in H; destruct H as [H1 H2];
       destruct (IH l1 ltac:(cbn [expr_size]; lia) H1) as [A1 A2];
       destruct (IH r1 ltac:(cbn [expr_size]; lia) H2) as [B1 B2];
       rewrite A1, A2, B1, B2; split; reflexivity).
  - split; reflexivity.
  - destruct e; try discriminate H. split; reflexivity.
  - cbn [pinv C01.no_nested]. apply IH; [cbn [expr_size]; lia | exact H].
Qed.

Lemma inv_pinv : forall e, C01.inv e = true -> pinv e = true /\ noid e = true.
Proof.
  induction e as [e IH] using C01.size_ind. intros H.
  dex e; try discriminate H; cbn [C01.inv] in H; cbn [pinv noid].
  - apply andb_prop in H. destruct H as [Hs Hl]. rewrite Hs. cbn [andb].
    destruct g as [|a g']; [discriminate Hl|].
    split; apply C01.forallb_intro; intros x Hx;
      apply (IH x (C01.size_member _ _ _ Hx) (C01.forallb_In _ _ _ Hl Hx)).
  - destruct (is_and_or op).
    + apply andb_prop in H. destruct H as [H1 H2].
      destruct (IH l1 ltac:(cbn [expr_size]; lia) H1) as [A1 A2];
      destruct (IH r1 ltac:(cbn [expr_size]; lia) H2) as [B1 B2].
      rewrite A1, A2, B1, B2. split; reflexivity.
    + split; [exact H|]. apply andb_prop in H. destruct H as [H1 H2].
      assert (L : forall x, C01.leaf x = true -> noid x = true) by (intros x Hx; destruct x; try discriminate Hx; reflexivity).
      rewrite (L _ H1), (L _ H2). reflexivity.
  - apply andb_prop in H. destruct H as [H1 H2]. rewrite (D14.qok_qop _ H1). cbn [andb].
    apply IH; [cbn [expr_size]; lia | exact H2].
  - apply andb_prop in H. destruct H as [H1 H2]. apply IH; [cbn [expr_size]; lia | exact H2].
  - apply andb_prop in H. destruct H as [H1 H2]. rewrite H1. cbn [andb].
    apply IH; [cbn [expr_size]; lia | exact H2].
  - split; reflexivity.
Qed.

Lemma top_qop b : C01_d15.top_ok b = true -> D14.qop_ok b = true.
Proof. destruct b; intros H; try reflexivity. destruct o; try reflexivity; discriminate H. Qed.

Lemma coalesce_pinv ids :
  (forall i b, lookup i ids = Some b -> C01.inv b = true /\ C01_d15.top_ok b = true) ->
  forall e e', Spec.cond_shape e = true -> coalesce ids e = Ok e' -> pinv e' = true /\ noid e' = true.
Proof.
  intros Hids. induction e as [e IH] using C01.size_ind. intros e' H Hc.
  dex e; try discriminate H; cbn [Spec.cond_shape] in H; cbn [coalesce] in Hc.
  - destruct (is_and_or op) eqn:Eop.
    + assert (H12 : Spec.cond_shape l1 = true /\ Spec.cond_shape r1 = true).
      { destruct op; try discriminate Eop; apply andb_prop in H; exact H. }
      destruct H12 as [H1 H2].
      apply C03.bind_ok_inv in Hc. destruct Hc as (l' & Hl & Hc).
      apply C03.bind_ok_inv in Hc. destruct Hc as (r' & Hr & Hc). inversion Hc; subst e'.
      destruct (IH l1 ltac:(cbn [expr_size]; lia) l' H1 Hl) as [A1 A2].
      destruct (IH r1 ltac:(cbn [expr_size]; lia) r' H2 Hr) as [B1 B2].
      cbn [pinv noid]. rewrite Eop, A1, A2, B1, B2. split; reflexivity.
    + assert (HL : C01.leaf l1 = true /\ C01.leaf r1 = true).
      { destruct op; try discriminate Eop; exact (types_ok_leaves _ _ _ H). }
      destruct HL as [L1 L2].
      assert (Hleaf : forall x, C01.leaf x = true -> coalesce ids x = Ok x /\ noid x = true).
      { intros x Hx. destruct x; try discriminate Hx; split; reflexivity. }
      rewrite (proj1 (Hleaf _ L1)), (proj1 (Hleaf _ L2)) in Hc. cbn [bind] in Hc. inversion Hc; subst e'.
      cbn [pinv noid]. rewrite Eop, L1, L2, (proj2 (Hleaf _ L1)), (proj2 (Hleaf _ L2)). split; reflexivity.
  - destruct (lookup i ids) as [b|] eqn:El; [|discriminate Hc]. inversion Hc; subst e'.
    destruct (Hids _ _ El) as [Hi _]. exact (inv_pinv _ Hi).
  - destruct e; try discriminate H. cbn [coalesce] in Hc.
    destruct (lookup s ids) as [b|] eqn:El; [|discriminate Hc]. cbn [bind] in Hc. inversion Hc; subst e'.
    destruct (Hids _ _ El) as [Hi Ht]. destruct (inv_pinv _ Hi) as [A1 A2].
    cbn [pinv noid]. rewrite (top_qop _ Ht), A1, A2. split; reflexivity.
  - apply C03.bind_ok_inv in Hc. destruct Hc as (x & Hx & Hc). inversion Hc; subst e'.
    cbn [pinv noid]. apply (IH e ltac:(cbn [expr_size]; lia) x H Hx).
Qed.

(* pinv gives the static conjuncts sh0w and shx *)
Lemma pinv_sh0w_shx : forall e, pinv e = true -> Scope4.sh0w e = true /\ Scope.shx e = true.
Proof.
  induction e as [e IH] using C01.size_ind. intros H.
  dex e; try discriminate H; cbn [pinv] in H; cbn [Scope4.sh0w Scope.shx].
  - apply andb_prop in H. destruct H as [Hs Hl]. destruct g as [|a g']; [discriminate Hl|].
    split; apply C01.forallb_intro; intros x Hx;
      apply (IH x (C01.size_member _ _ _ Hx) (C01.forallb_In _ _ _ Hl Hx)).
  - destruct (is_and_or op).
    + apply andb_prop in H. destruct H as [H1 H2].
      destruct (IH l1 ltac:(cbn [expr_size]; lia) H1) as [A1 A2];
      destruct (IH r1 ltac:(cbn [expr_size]; lia) H2) as [B1 B2].
      rewrite A1, A2, B1, B2. split; reflexivity.
    + split; [|exact H]. apply andb_prop in H. destruct H as [H1 H2].
      assert (L : forall x, C01.leaf x = true -> Scope4.sh0w x = true) by (intros x Hx; destruct x; try discriminate Hx; reflexivity).
      rewrite (L _ H1), (L _ H2). reflexivity.
  - split; reflexivity.
  - apply andb_prop in H. destruct H as [H1 H2].
    destruct (IH e ltac:(cbn [expr_size]; lia) H2) as [A1 A2].
    change (Scope4.qop_ok e) with (D14.qop_ok e). rewrite H1, A1, A2. split; reflexivity.
  - apply IH; [cbn [expr_size]; lia | exact H].
  - apply andb_prop in H. destruct H as [H1 H2].
    destruct (IH e ltac:(cbn [expr_size]; lia) H2) as [A1 A2].
    change (Scope.nested_ok e) with (C01.nested_ok e). rewrite H1, A1, A2. split; reflexivity.
  - split; reflexivity.
Qed.

(* ---- every identifier body of a loaded rule satisfies what parse_identifier establishes ---- *)
Section LoadIds.
Variable P : expr -> Prop.
Hypothesis HP : forall o ic y e, parse_identifier o ic y = Ok e -> P e.

Lemma load_entries_P o ic : forall kv cond ids cond' ids',
  Forall (fun kv : str * expr => P (snd kv)) ids ->
  load_entries o ic kv cond ids = Ok (cond', ids') ->
  Forall (fun kv : str * expr => P (snd kv)) ids'.
Proof.
  induction kv as [|[k v] kv IH]; intros cond ids cond' ids' Hids H; cbn [load_entries] in H.
  - inversion H; subst. exact Hids.
  - destruct (untag k); try discriminate H.
    destruct (str_eqb s cond_key).
    + destruct (untag v); try discriminate H. exact (IH _ _ _ _ Hids H).
    + apply C03.bind_ok_inv in H. destruct H as (e & He & H).
      apply C03.as_rule_err_ok in He.
      refine (IH _ _ _ _ _ H).
      apply C03.Forall_snoc; [exact Hids|]. cbn [snd]. exact (HP _ _ _ _ He).
Qed.

Lemma load_ids_P o ic y r : load_rule o ic y = Ok r ->
  Forall (fun kv : str * expr => P (snd kv)) (d_ids (r_det r)).
Proof.
  intros H. destruct (C03.load_rule_det _ _ _ _ H) as [dy Hd]. revert Hd.
  unfold load_detection. intros Hd. destruct (untag dy); try discriminate Hd.
  apply C03.bind_ok_inv in Hd. destruct Hd as ([cond ids] & Hent & Hd).
  destruct cond as [raw|]; [|discriminate Hd].
  apply C03.bind_ok_inv in Hd. destruct Hd as (ts & _ & Hd).
  destruct (idents_known ids None None ts); [|discriminate Hd]. cbn [negb] in Hd.
  apply C03.bind_ok_inv in Hd. destruct Hd as (e & He & Hd).
  destruct (is_solvable e); [|discriminate Hd]. inversion Hd; subst. cbn [d_ids].
  exact (load_entries_P _ _ _ _ [] _ _ (Forall_nil _) Hent).
Qed.
End LoadIds.

Lemma load_cond_shape o ic y r : load_rule o ic y = Ok r -> Spec.cond_shape (d_expr (r_det r)) = true.
Proof.
  intros H. destruct (C03.load_rule_det _ _ _ _ H) as [dy Hd].
  exact (proj1 (C01_matrix.load_detection_shapes _ _ _ _ Hd)).
Qed.

Lemma load_ids_inv o ic y r : load_rule o ic y = Ok r ->
  forall i b, lookup i (d_ids (r_det r)) = Some b -> C01.inv b = true /\ C01_d15.top_ok b = true.
Proof.
  intros H i b Hl. destruct (C03.lookup_in _ _ _ Hl) as [k Hk].
  pose proof (load_ids_P (fun e => C01.inv e = true) C01_loaded.parse_identifier_inv _ _ _ _ H) as H1.
  pose proof (C01_d15.load_top _ _ _ _ H) as H2.
  rewrite Forall_forall in H1, H2. split; [exact (H1 _ Hk) | exact (H2 _ Hk)].
Qed.

(* the coalesce stage never fails on a loaded rule *)
Lemma load_coalesce o ic y r : load_rule o ic y = Ok r ->
  exists e', coalesce (d_ids (r_det r)) (d_expr (r_det r)) = Ok e' /\ C03_opt.gb e' = true.
Proof.
  intros H. destruct (C03_opt.load_good _ _ _ _ H) as [Gc Gi].
  apply (C03_opt.coalesce_good _ (C03_opt.keys_of (d_ids (r_det r)))); [|exact Gc].
  intros i Hi. unfold C03_opt.keys_of in Hi.
  destruct (lookup i (d_ids (r_det r))) as [b|] eqn:El.
  - exists b. split; [reflexivity|]. destruct (C03.lookup_in _ _ _ El) as [k Hk].
    rewrite Forall_forall in Gi. exact (Gi _ Hk).
  - exfalso. unfold has_key in Hi. rewrite El in Hi. discriminate Hi.
Qed.

(* every staged tree of a loaded rule: pinv, and identifier-free or nested-free *)
Lemma staged_pinv o ic y r sw : load_rule o ic y = Ok r ->
  forall t, In t (all_trees (staged sw (r_det r))) ->
    pinv t = true /\ (noid t = true \/ C01.no_nested t = true).
Proof.
  intros H t Ht. unfold staged, all_trees in Ht.
  pose proof (load_cond_shape _ _ _ _ H) as Hc.
  destruct (sw_coalesce sw).
  - cbn [fst snd map] in Ht. destruct Ht as [<-|[]].
    destruct (load_coalesce _ _ _ _ H) as (e' & He' & _). rewrite He'. cbn [ok_or].
    destruct (coalesce_pinv _ (load_ids_inv _ _ _ _ H) _ _ Hc He') as [A1 A2]. split; [exact A1 | left; exact A2].
  - cbn [fst snd] in Ht. destruct Ht as [<-|Ht].
    + destruct (cond_shape_pinv _ Hc) as [A1 A2]. split; [exact A1 | right; exact A2].
    + apply in_map_iff in Ht. destruct Ht as ([k b] & <- & Hkb). cbn [snd].
      pose proof (load_ids_P (fun e => C01.inv e = true) C01_loaded.parse_identifier_inv _ _ _ _ H) as H1.
      rewrite Forall_forall in H1. destruct (inv_pinv _ (H1 _ Hkb)) as [A1 A2]. split; [exact A1 | left; exact A2].
Qed.

(* ====================================================================================== *)
(* 6. the static conjuncts of the scope for every loaded rule                             *)
(* ====================================================================================== *)
Theorem loaded_sh0w : forall o ic y r sw, load_rule o ic y = Ok r ->
  forallb Scope4.sh0w (all_trees (staged sw (r_det r))) = true.
Proof.
  intros o ic y r sw H. apply C01.forallb_intro. intros t Ht.
  exact (proj1 (pinv_sh0w_shx t (proj1 (staged_pinv _ _ _ _ sw H t Ht)))).
Qed.

Theorem loaded_shx : forall o ic y r sw, load_rule o ic y = Ok r ->
  forallb Scope.shx (all_trees (staged sw (r_det r))) = true.
Proof.
  intros o ic y r sw H. apply C01.forallb_intro. intros t Ht.
  exact (proj2 (pinv_sh0w_shx t (proj1 (staged_pinv _ _ _ _ sw H t Ht)))).
Qed.

Lemma any_tree_false p st : any_tree p st = false ->
  exists_sub p false (fst st) = false /\
  forall b, In b (snd st) -> exists_sub p (body_neg st) (snd b) = false.
Proof.
  unfold any_tree. intros H. apply orb_false_iff in H. destruct H as [H1 H2]. split; [exact H1|].
  intros b Hb. exact (C01.existsb_false_In _ _ _ H2 Hb).
Qed.

(* no_dneg is static, D13 dynamic (the operand SHAKES to a negation); still, on what the loader
   builds, outside D13 no negation holds a negation at its head *)
Theorem no_dneg_of_not_d13 : forall o ic y r sw, load_rule o ic y = Ok r ->
  sw_shake sw = true -> known_d13 sw (r_det r) = false ->
  forallb Scope.no_dneg (all_trees (staged sw (r_det r))) = true.
Proof.
  intros o ic y r sw H Hs H13. unfold known_d13 in H13. rewrite Hs in H13. cbn [andb] in H13.
  destruct (any_tree_false _ _ H13) as [Hc Hb].
  apply C01.forallb_intro. intros t Ht.
  destruct (staged_pinv _ _ _ _ sw H t Ht) as [Pt Kt].
  change (Scope.no_dneg t) with (negb (exists_sub C01.dneg_here false t)). apply negb_true_iff.
  apply (no_dneg_of_not_d13_gen t Pt Kt).
  unfold all_trees in Ht. destruct Ht as [<-|Ht]; [exact Hc|].
  apply in_map_iff in Ht. destruct Ht as (b & <- & Hb'). unfold nod13, nop.
  rewrite (pol _ d13_pol _ false (body_neg (staged sw (r_det r)))). exact (Hb b Hb').
Qed.

(* ====================================================================================== *)
(* 7. rules without nested blocks: the dynamic conjuncts hold                             *)
(* ====================================================================================== *)
From TauProofs Require C01_nested C01_matrix_quant.
Module N := C01_nested.
Module S1 := C01_shake1.

Lemma flat_map_nil {A B} (f : A -> list B) l : (forall x, In x l -> f x = []) -> flat_map f l = [].
Proof.
  induction l as [|a l IH]; intros H; [reflexivity|]. cbn [flat_map].
  rewrite (H a (or_introl eq_refl)), IH; [reflexivity|]. intros x Hx. apply H. right. exact Hx.
Qed.

Lemma amap_iter_nil {V} ord : @amap_iter V ord [] = [].
Proof. unfold amap_iter. apply flat_map_nil. intros k _. reflexivity. Qed.

Lemma nested_of_nn L : (forall x, In x L -> C01.no_nested x = true) -> N.nested_of L = [].
Proof.
  intros H. rewrite N.nested_of_eq. rewrite (flat_map_nil N.cls_e L); [reflexivity|].
  intros x Hx. specialize (H x Hx). destruct x; try reflexivity. discriminate H.
Qed.

Lemma merged_part_nn ord sh q L : (forall x, In x L -> C01.no_nested x = true) -> N.merged_part ord sh q L = [].
Proof. intros H. unfold N.merged_part. rewrite (nested_of_nn L H), amap_iter_nil. reflexivity. Qed.

Lemma merges_nn x : C01.no_nested x = true -> N.merges x = false.
Proof. destruct x; intros H; try reflexivity. discriminate H. Qed.

Lemma shaken_nn ord fu l : forallb C01.no_nested l = true ->
  forall x, In x (map (shake1 ord fu) l) -> C01.no_nested x = true.
Proof.
  intros H x Hx. apply in_map_iff in Hx. destruct Hx as (y & <- & Hy).
  exact (proj1 (S1.shake1_keeps3 ord fu y (C01.forallb_In _ _ _ H Hy))).
Qed.

Lemma safe_nn ord : forall fu neg e, C01.no_nested e = true -> N.shake1_safe ord neg fu e = true.
Proof.
  induction fu as [|fu IH]; intros neg e Hn; [reflexivity|].
  dex e; try reflexivity; try discriminate Hn.
  - cbn [C01.no_nested] in Hn.
    assert (Hm : forall n, forallb (N.shake1_safe ord n fu) g = true).
    { intros n. apply C01.forallb_intro. intros x Hx. apply IH. exact (C01.forallb_In _ _ _ Hn Hx). }
    pose proof (shaken_nn ord fu g Hn) as HL.
    destruct s; try (exact (Hm neg)).
    + rewrite N.safe_and, Hm. cbn [andb].
      rewrite (existsb_false_all N.merges (map (shake1 ord fu) g)) by (intros x Hx; apply merges_nn; exact (HL x Hx)).
      rewrite !andb_false_r. cbn [negb andb].
      unfold N.entries_okb. rewrite (nested_of_nn _ HL), amap_iter_nil. cbn [forallb andb].
      destruct (negb _); [|reflexivity]. apply IH. cbn [C01.no_nested].
      rewrite N.and_scratch_eq, (merged_part_nn _ _ _ _ HL), app_nil_r.
      apply C01.forallb_intro. intros x Hx. apply filter_In in Hx. exact (HL x (proj1 Hx)).
    + rewrite N.safe_or, Hm. cbn [andb].
      unfold N.entries_okb. rewrite (nested_of_nn _ HL), amap_iter_nil. cbn [forallb andb].
      destruct (negb _); [|reflexivity]. apply IH. cbn [C01.no_nested].
      rewrite N.or_scratch_eq, (merged_part_nn _ _ _ _ HL), app_nil_r.
      apply C01.forallb_intro. intros x Hx.
      destruct (S1.or_scratch_members ord _ x Hx) as [Hs|Hin]; [exact (proj1 (S1.srch_shape x Hs)) | exact (HL x Hin)].
  - cbn [C01.no_nested] in Hn. apply andb_prop in Hn. destruct Hn as [H1 H2].
    rewrite N.safe_bexp, (IH neg l1 H1), (IH neg r1 H2). reflexivity.
  - cbn [C01.no_nested] in Hn. destruct (C01.is_group_dec e) as [[s0 [g0 ->]]|Hng].
    + rewrite N.safe_match_group. apply C01.forallb_intro. intros x Hx. apply IH.
      cbn [C01.no_nested] in Hn. exact (C01.forallb_In _ _ _ Hn Hx).
    + assert (E : N.shake1_safe ord neg (S fu) (EMatch k e) = N.shake1_safe ord (N.neg_of neg k) fu e).
      { destruct e; try reflexivity. exfalso. exact (Hng _ _ eq_refl). }
      rewrite E. apply IH. exact Hn.
  - rewrite N.safe_negate. apply IH. exact Hn.
Qed.

Lemma match_safe_nn ord fu : forall e neg, C01.no_nested e = true -> Scope2.match_safe ord neg fu e = true.
Proof.
  induction e as [e IH] using C01.size_ind. intros neg Hn.
  dex e; try reflexivity; try discriminate Hn; cbn [C01.no_nested] in Hn.
  - cbn [Scope2.match_safe]. apply C01.forallb_intro. intros x Hx.
    apply IH; [exact (C01.size_member _ _ _ Hx) | exact (C01.forallb_In _ _ _ Hn Hx)].
  - apply andb_prop in Hn. destruct Hn as [H1 H2]. cbn [Scope2.match_safe].
    rewrite (IH l1), (IH r1); try assumption; try (cbn [expr_size]; lia); try reflexivity.
  - destruct (C01.is_group_dec e) as [[s0 [g0 ->]]|Hng].
    + cbn [Scope2.match_safe]. apply C01.forallb_intro. intros x Hx.
      cbn [C01.no_nested] in Hn. exact (safe_nn ord fu _ x (C01.forallb_In _ _ _ Hn Hx)).
    + assert (E : Scope2.match_safe ord neg fu (EMatch k e) = Scope2.shake1_safe ord (Scope2.neg_of neg k) fu e).
      { destruct e; try reflexivity. exfalso. exact (Hng _ _ eq_refl). }
      rewrite E. exact (safe_nn ord fu _ e Hn).
  - cbn [Scope2.match_safe]. apply IH; [cbn [expr_size]; lia | exact Hn].
Qed.

Lemma rewrite_nn o : forall e, C01.no_nested e = true -> C01.no_nested (rewrite o e) = true.
Proof.
  induction e as [e IH] using C01.size_ind. intros Hn.
  dex e; try reflexivity; try discriminate Hn; cbn [C01.no_nested rewrite] in *.
  - apply C01.forallb_intro. intros y Hy. apply in_map_iff in Hy. destruct Hy as (x & <- & Hx).
    apply IH; [exact (C01.size_member _ _ _ Hx) | exact (C01.forallb_In _ _ _ Hn Hx)].
  - apply andb_prop in Hn. destruct Hn as [H1 H2].
    rewrite (IH l1), (IH r1); try assumption; try (cbn [expr_size]; lia); try reflexivity.
  - apply IH; [cbn [expr_size]; lia | exact Hn].
  - apply IH; [cbn [expr_size]; lia | exact Hn].
Qed.

Lemma shake0_ok_or_nn F x : C01.no_nested x = true -> C01.no_nested (ok_or (shake0 F x) x) = true.
Proof.
  intros H. destruct (shake0 F x) as [x'| |] eqn:E; cbn [ok_or]; try exact H.
  exact (S1.shake0_nn _ _ _ H E).
Qed.

Definition pm_f (o : oracles) (ord : hord) (sw : switches) (e : expr) : expr :=
  let e1 := if sw_shake sw then ok_or (shake ord e) e else e in
  if sw_rewrite sw then rewrite o e1 else e1.

Lemma pre_matrix_eq o ord sw dt :
  pre_matrix o ord sw dt =
  (pm_f o ord sw (fst (staged sw dt)),
   map (fun kv => (fst kv, on_entries (pm_f o ord sw) (snd kv))) (snd (staged sw dt))).
Proof. reflexivity. Qed.

Lemma pm_f_nn o ord sw e : C01.no_nested e = true -> C01.no_nested (pm_f o ord sw e) = true.
Proof.
  intros H. unfold pm_f.
  assert (H1 : C01.no_nested (if sw_shake sw then ok_or (shake ord e) e else e) = true).
  { destruct (sw_shake sw); [|exact H]. unfold shake.
    destruct (shake0 (shake_fuel e) e) as [e0| |] eqn:E; cbn [bind ok_or]; try exact H.
    exact (proj1 (S1.shake1_keeps3 ord _ e0 (S1.shake0_nn _ _ _ H E))). }
  destruct (sw_rewrite sw); [apply rewrite_nn|]; exact H1.
Qed.

Lemma entry_trees_nn b : C01.no_nested b = true -> forall x, In x (Scope2.entry_trees b) -> C01.no_nested x = true.
Proof.
  intros H x Hx. destruct b; cbn [Scope2.entry_trees] in Hx;
    try (destruct Hx as [<-|[]]; exact H).
  cbn [C01.no_nested] in H. exact (C01.forallb_In _ _ _ H Hx).
Qed.

Lemma on_entries_nn f b : (forall x, C01.no_nested x = true -> C01.no_nested (f x) = true) ->
  C01.no_nested b = true -> C01.no_nested (on_entries f b) = true.
Proof.
  intros Hf H. destruct b; cbn [on_entries]; try (apply Hf; exact H).
  cbn [C01.no_nested] in *. apply C01.forallb_intro. intros y Hy. apply in_map_iff in Hy.
  destruct Hy as (x & <- & Hx). apply Hf. exact (C01.forallb_In _ _ _ H Hx).
Qed.

(* the dynamic conjuncts of the scope *)
Definition dyn_run (ord : hord) (sw : switches) (dt : detection) : bool :=
  negb (sw_shake sw) || Scope2.run_safe ord (Scope.sw_without_matrix sw) dt.
Definition dyn_match (o : oracles) (ord : hord) (sw : switches) (dt : detection) : bool :=
  let pm := pre_matrix o ord sw dt in
  negb (sw_matrix sw) ||
  (Scope2.match_safe ord false (shake_fuel (fst pm)) (fst pm) &&
   forallb (fun b : str * expr =>
              forallb (fun m => Scope2.match_safe ord (body_neg pm) (shake_fuel m) m) (Scope2.entry_trees (snd b)))
           (snd pm)).
Definition dyn_cr (o : oracles) (ord : hord) (sw : switches) (dt : detection) : bool :=
  negb (sw_matrix sw) || forallb Scope.cmp_reads (all_trees (pre_matrix o ord sw dt)).

Lemma staged_nn_split sw dt : forallb C01.no_nested (all_trees (staged sw dt)) = true ->
  C01.no_nested (fst (staged sw dt)) = true /\
  forall b, In b (snd (staged sw dt)) -> C01.no_nested (snd b) = true.
Proof.
  unfold all_trees. cbn [forallb]. intros H. apply andb_prop in H. destruct H as [H1 H2]. split; [exact H1|].
  intros b Hb. apply (C01.forallb_In _ _ _ H2). apply in_map. exact Hb.
Qed.

Lemma dyn_run_flat ord sw dt : forallb C01.no_nested (all_trees (staged sw dt)) = true ->
  dyn_run ord sw dt = true.
Proof.
  intros H. destruct (staged_nn_split _ _ H) as [Hc Hb].
  unfold dyn_run. destruct (sw_shake sw); [|reflexivity]. cbn [negb orb].
  unfold Scope2.run_safe. cbv zeta.
  change (staged (Scope.sw_without_matrix sw) dt) with (staged sw dt).
  apply andb_true_intro. split.
  - apply (safe_nn ord). unfold shaken0. cbn [fst]. apply shake0_ok_or_nn. exact Hc.
  - apply C01.forallb_intro. intros b Hb'. apply C01.forallb_intro. intros x Hx.
    apply (safe_nn ord). apply shake0_ok_or_nn. exact (entry_trees_nn _ (Hb b Hb') x Hx).
Qed.

Lemma dyn_match_flat o ord sw dt : forallb C01.no_nested (all_trees (staged sw dt)) = true ->
  dyn_match o ord sw dt = true.
Proof.
  intros H. destruct (staged_nn_split _ _ H) as [Hc Hb].
  unfold dyn_match. cbv zeta. destruct (sw_matrix sw); [|reflexivity]. cbn [negb orb].
  rewrite pre_matrix_eq. cbn [fst snd].
  apply andb_true_intro. split.
  - apply match_safe_nn. apply pm_f_nn. exact Hc.
  - apply C01.forallb_intro. intros b Hb'. apply in_map_iff in Hb'. destruct Hb' as (kv & <- & Hkv). cbn [snd].
    apply C01.forallb_intro. intros x Hx. apply match_safe_nn.
    refine (entry_trees_nn _ _ x Hx). apply on_entries_nn; [intros z Hz; apply pm_f_nn; exact Hz|].
    exact (Hb kv Hkv).
Qed.

Lemma dyn_cr_flat o ic ord sw y r : load_rule o ic y = Ok r ->
  forallb C01.no_nested (all_trees (staged sw (r_det r))) = true ->
  dyn_cr o ord sw (r_det r) = true.
Proof.
  intros Hl Hnn0. unfold dyn_cr. destruct (sw_matrix sw); [|reflexivity]. cbn [negb orb].
  destruct (C03.load_rule_det _ _ _ _ Hl) as [dy Hdy].
  destruct (C01_matrix.load_detection_shapes _ _ _ _ Hdy) as [Hcs Hcb].
  pose proof (C03_opt.load_good _ _ _ _ Hl) as Hgood.
  destruct (C03_opt.no_matrix_stage_good o ord sw _ Hgood) as (s3 & Hst & [Gc3 Gi3]).
  rewrite (C03_matrix.no_matrix_stage_pre _ _ _ _ _ Hst). cbn [fst].
  assert (Hnn : sw_shake sw = true -> forallb C01.no_nested (all_trees (staged sw (r_det r))) = true)
    by (intros _; exact Hnn0).
  assert (Hb : Forall (fun kv : str * expr => C01_matrix.allq Scope.cr_cmp true (snd kv) = true) (d_ids (r_det r))).
  { eapply Forall_impl; [|exact Hcb]. intros kv Hkv. rewrite <- C01_matrix.cmp_reads_allq. exact Hkv. }
  assert (He : C01_matrix.allq Scope.cr_cmp true (d_expr (r_det r)) = true)
    by (rewrite <- C01_matrix.cmp_reads_allq; exact (C01_matrix.cond_shape_cr _ Hcs)).
  pose proof (C01_matrix.stage_allq Scope.cr_cmp true o ord sw _ s3 Hgood Hnn He) as Ae.
  pose proof (C01_matrix.stage_allq_ids Scope.cr_cmp true o ord sw _ s3 Hgood Hnn Hb Hst) as Ai.
  cbn [all_trees fst snd forallb]. rewrite C01_matrix.cmp_reads_allq, Ae; [cbn [andb]| |exact Hst].
  - apply forallb_forall. intros b Hb'. apply in_map_iff in Hb'. destruct Hb' as (kv & <- & Hkv).
    rewrite Forall_forall in Ai. rewrite C01_matrix.cmp_reads_allq. exact (Ai kv Hkv).
  - intros _ i b Hlk. destruct (C03.lookup_in _ _ _ Hlk) as [k Hk].
    rewrite Forall_forall in Hb. exact (Hb (k, b) Hk).
Qed.

(* ====================================================================================== *)
(* 8. the scope = outside D13 / D16 / D17 + the dynamic conjuncts                         *)
(* ====================================================================================== *)
Lemma d16_without_matrix ord sw dt : known_d16 ord sw dt = false ->
  known_d16 ord (Scope.sw_without_matrix sw) dt = false.
Proof.
  unfold known_d16. intros H. apply orb_false_iff in H. destruct H as [H _].
  cbn [Scope.sw_without_matrix sw_shake sw_matrix andb orb].
  change (staged (Scope.sw_without_matrix sw) dt) with (staged sw dt). rewrite H. reflexivity.
Qed.

Theorem scope_complete_alt : forall o ic ord sw y r,
  load_rule o ic y = Ok r ->
  known_d13 sw (r_det r) = false ->
  known_d16 ord sw (r_det r) = false ->
  known_d17 o ord sw (r_det r) = false ->
  dyn_run ord sw (r_det r) = true ->
  dyn_match o ord sw (r_det r) = true ->
  dyn_cr o ord sw (r_det r) = true ->
  Scope6.c01_scope_quant_all_f o ord sw (r_det r) = true.
Proof.
  intros o ic ord sw y r Hl H13 H16 H17 Hrun Hmatch Hcr.
  unfold Scope6.c01_scope_quant_all_f. apply andb_true_intro. split.
  - unfold Scope4.c01_scope_nested_w. apply andb_true_intro. split; [|exact Hrun].
    unfold Scope4.c01_scope2_w. cbn [Scope.sw_without_matrix sw_matrix sw_shake negb andb].
    destruct (sw_shake sw) eqn:Es; [|reflexivity]. cbn [negb orb].
    unfold Scope4.shake_input_ok2w. rewrite (d16_without_matrix _ _ _ H16). cbn [negb]. rewrite andb_true_r.
    change (staged (Scope.sw_without_matrix sw) (r_det r)) with (staged sw (r_det r)).
    pose proof (loaded_sh0w _ _ _ _ sw Hl) as A1.
    pose proof (no_dneg_of_not_d13 _ _ _ _ sw Hl Es H13) as A2.
    pose proof (loaded_shx _ _ _ _ sw Hl) as A3.
    apply C01.forallb_intro. intros t Ht.
    rewrite (C01.forallb_In _ _ _ A1 Ht), (C01.forallb_In _ _ _ A2 Ht), (C01.forallb_In _ _ _ A3 Ht). reflexivity.
  - unfold dyn_match, dyn_cr in *. cbv zeta in Hmatch.
    destruct (sw_matrix sw); [|reflexivity]. cbn [negb orb] in *.
    unfold Scope5.matrix_input_ok4. cbv zeta. rewrite H17, H16, Hcr. cbn [negb andb].
    exact Hmatch.
Qed.

(* the converse: every conjunct used above is a conjunct of the scope *)
Theorem scope_dyn : forall o ord sw dt,
  Scope6.c01_scope_quant_all_f o ord sw dt = true ->
  dyn_run ord sw dt = true /\ dyn_match o ord sw dt = true /\ dyn_cr o ord sw dt = true.
Proof.
  intros o ord sw dt H. unfold Scope6.c01_scope_quant_all_f in H. apply andb_prop in H. destruct H as [H1 H2].
  unfold Scope4.c01_scope_nested_w in H1. apply andb_prop in H1. destruct H1 as [_ Hrun].
  split; [exact Hrun|]. unfold dyn_match, dyn_cr. cbv zeta.
  destruct (sw_matrix sw); [|split; reflexivity]. cbn [negb orb] in *.
  unfold Scope5.matrix_input_ok4 in H2. cbv zeta in H2.
  apply andb_prop in H2. destruct H2 as [H2 M2]. apply andb_prop in H2. destruct H2 as [H2 M1].
  apply andb_prop in H2. destruct H2 as [_ Hc]. rewrite M1, M2, Hc. split; reflexivity.
Qed.

(* rules without nested blocks: complete as stated *)
Theorem scope_complete_flat : forall o ic ord sw y r,
  load_rule o ic y = Ok r ->
  forallb Scope.no_nested (all_trees (staged sw (r_det r))) = true ->
  known_d13 sw (r_det r) = false ->
  known_d16 ord sw (r_det r) = false ->
  known_d17 o ord sw (r_det r) = false ->
  Scope6.c01_scope_quant_all_f o ord sw (r_det r) = true.
Proof.
  intros o ic ord sw y r Hl Hnn H13 H16 H17.
  change (forallb C01.no_nested (all_trees (staged sw (r_det r))) = true) in Hnn.
  apply (scope_complete_alt o ic ord sw y r Hl H13 H16 H17).
  - exact (dyn_run_flat _ _ _ Hnn).
  - exact (dyn_match_flat _ _ _ _ Hnn).
  - exact (dyn_cr_flat _ _ _ _ _ _ Hl Hnn).
Qed.

Print Assumptions loaded_sh0w.
Print Assumptions loaded_shx.
Print Assumptions no_dneg_of_not_d13.
Print Assumptions scope_complete_alt.
Print Assumptions scope_dyn.
Print Assumptions scope_complete_flat.

(* ====================================================================================== *)
(* 9. cmp_reads of the trees handed to matrix: every loaded rule (nested blocks included) *)
(* ====================================================================================== *)
Notation gk := C03_opt.gk.
Notation cr := Scope.cmp_reads.

Lemma cr_collapse s L : forallb cr L = true -> cr (match L with [x] => x | _ => EGroup s L end) = true.
Proof.
  intros H. destruct L as [|x [|y L]]; try exact H.
  cbn [forallb] in H. rewrite andb_true_r in H. exact H.
Qed.

Lemma gk_merge_body K q es : (forall b, In b es -> gk K b = true /\ cr b = true) ->
  gk K (N.merge_body q es) = true /\ cr (N.merge_body q es) = true.
Proof.
  intros H.
  assert (HG : forallb (gk K) es = true /\ forallb cr es = true).
  { split; apply C01.forallb_intro; intros b Hb; apply (H b Hb). }
  destruct HG as [G1 G2].
  destruct es as [|x [|y es']].
  - destruct q; split; reflexivity.
  - exact (H x (or_introl eq_refl)).
  - unfold N.merge_body. destruct q; cbn [C03_opt.gk Scope.cmp_reads is_and_or andb]; split; assumption.
Qed.

Lemma shake1_cr ord K : forall fuel e, gk K e = true -> cr e = true -> cr (shake1 ord fuel e) = true.
Proof.
  induction fuel as [|fu IH]; intros e Hg Ha; [exact Ha|].
  dex e; try (cbn [shake1]; exact Ha); cbn [C03_opt.gk] in Hg; try discriminate Hg.
  - (* group *)
    apply andb_prop in Hg. destruct Hg as [Hs Hl]. cbn [Scope.cmp_reads] in Ha.
    set (L := map (shake1 ord fu) g).
    assert (HL : forall y, In y L -> gk K y = true /\ cr y = true).
    { intros y Hy. apply in_map_iff in Hy. destruct Hy as (x & <- & Hx).
      pose proof (C01.forallb_In _ _ _ Hl Hx) as G. split; [exact (C03_opt.shake1_good ord K fu x G)|].
      exact (IH x G (C01.forallb_In _ _ _ Ha Hx)). }
    assert (HM : forall q y, In y (N.merged_part ord (shake1 ord fu) q L) -> gk K y = true /\ cr y = true).
    { intros q y Hy. unfold N.merged_part in Hy. apply in_map_iff in Hy. destruct Hy as ([f es] & <- & Hkv).
      cbn [fst snd]. destruct (N.nest_bwd ord L f es Hkv) as [_ Hes].
      destruct (gk_merge_body K q es) as [G1 G2].
      { intros b Hb. destruct (Hes b Hb) as [Hin _]. destruct (HL _ Hin) as [A1 A2]. split; [exact A1 | exact A2]. }
      cbn [C03_opt.gk Scope.cmp_reads]. split; [exact (C03_opt.shake1_good ord K fu _ G1) | exact (IH _ G1 G2)]. }
    destruct s; try discriminate Hs.
    + rewrite N.shake1_and'. fold L. cbv zeta. rewrite N.and_scratch_eq.
      set (Sc := filter (fun x => negb (S1.is_nest x)) L ++ N.merged_part ord (shake1 ord fu) true L).
      assert (HSc : forall y, In y Sc -> gk K y = true /\ cr y = true).
      { intros y Hy. apply in_app_iff in Hy. destruct Hy as [Hy|Hy]; [|exact (HM _ _ Hy)].
        apply filter_In in Hy. exact (HL y (proj1 Hy)). }
      assert (HSa : forallb cr Sc = true) by (apply C01.forallb_intro; intros y Hy; apply (HSc y Hy)).
      destruct (negb (length Sc =? length g)%nat).
      * apply IH; [|exact HSa]. cbn [C03_opt.gk is_and_or andb]. apply C01.forallb_intro. intros y Hy. apply (HSc y Hy).
      * apply cr_collapse. exact HSa.
    + rewrite N.shake1_or'. fold L. cbv zeta. rewrite N.or_scratch_eq.
      set (Sc := S1.or_scratch ord L ++ N.merged_part ord (shake1 ord fu) false L).
      assert (HSc : forall y, In y Sc -> gk K y = true /\ cr y = true).
      { intros y Hy. apply in_app_iff in Hy. destruct Hy as [Hy|Hy]; [|exact (HM _ _ Hy)].
        destruct (S1.or_scratch_members ord L y Hy) as [Hsr|Hin]; [|exact (HL y Hin)].
        destruct y; try discriminate Hsr. split; reflexivity. }
      assert (HSa : forallb cr Sc = true) by (apply C01.forallb_intro; intros y Hy; apply (HSc y Hy)).
      destruct (negb (length Sc =? length g)%nat).
      * apply IH; [|exact HSa]. cbn [C03_opt.gk is_and_or andb]. apply C01.forallb_intro. intros y Hy. apply (HSc y Hy).
      * apply cr_collapse. exact HSa.
  - (* bexp *)
    cbn [shake1]. cbn [Scope.cmp_reads] in *. destruct (is_and_or op).
    + apply andb_prop in Hg. destruct Hg as [G1 G2]. apply andb_prop in Ha. destruct Ha as [A1 A2].
      rewrite (IH l1 G1 A1), (IH r1 G2 A2). reflexivity.
    + apply andb_prop in Hg. destruct Hg as [G1 G2].
      unfold C01.leaf in G1, G2. apply negb_true_iff in G1. apply negb_true_iff in G2.
      rewrite (S1.shake1_leaf ord fu l1 G1), (S1.shake1_leaf ord fu r1 G2). exact Ha.
  - (* match *)
    cbn [Scope.cmp_reads] in Ha.
    destruct (C01.is_group_dec e) as [[s0 [g0 ->]]|Hng].
    + cbn [shake1 Scope.cmp_reads]. cbn [C03_opt.gk Scope.cmp_reads] in Hg, Ha.
      apply andb_prop in Hg. destruct Hg as [_ Hl].
      apply forallb_forall. intros y Hy. apply in_map_iff in Hy. destruct Hy as (x & <- & Hx).
      exact (IH x (C01.forallb_In _ _ _ Hl Hx) (C01.forallb_In _ _ _ Ha Hx)).
    + assert (E : shake1 ord (S fu) (EMatch k e) = EMatch k (shake1 ord fu e)).
      { destruct e; try reflexivity. exfalso. exact (Hng _ _ eq_refl). }
      rewrite E. cbn [Scope.cmp_reads]. exact (IH e Hg Ha).
  - cbn [shake1 Scope.cmp_reads] in *. exact (IH e Hg Ha).
  - cbn [shake1 Scope.cmp_reads] in *. exact (IH e Hg Ha).
Qed.

Lemma pm_f_cr o ord sw K e : gk K e = true -> cr e = true -> cr (pm_f o ord sw e) = true.
Proof.
  intros Hg Ha. unfold pm_f.
  assert (H1 : gk K (if sw_shake sw then ok_or (shake ord e) e else e) = true /\
               cr (if sw_shake sw then ok_or (shake ord e) e else e) = true).
  { destruct (sw_shake sw); [|split; assumption]. unfold shake.
    destruct (C03_opt.shake0_good K (shake_fuel e) e Hg) as (e0 & E0 & G0). rewrite E0. cbn [bind ok_or].
    split; [exact (C03_opt.shake1_good ord K _ e0 G0)|]. apply (shake1_cr ord K); [exact G0|].
    rewrite C01_matrix.cmp_reads_allq. apply (C01_matrix.shake0_allq Scope.cr_cmp true K (shake_fuel e) e e0 Hg); [|exact E0].
    rewrite <- C01_matrix.cmp_reads_allq. exact Ha. }
  destruct H1 as [G1 A1]. destruct (sw_rewrite sw); [|exact A1].
  rewrite C01_matrix.cmp_reads_allq. apply (C01_matrix.rewrite_allq Scope.cr_cmp true o K); [exact G1|].
  rewrite <- C01_matrix.cmp_reads_allq. exact A1.
Qed.

Lemma on_entries_cr f K b : (forall x, gk K x = true -> cr x = true -> cr (f x) = true) ->
  gk K b = true -> cr b = true -> cr (on_entries f b) = true.
Proof.
  intros Hf Hg Ha. destruct b; cbn [on_entries]; try (apply Hf; assumption).
  cbn [C03_opt.gk Scope.cmp_reads] in *. apply andb_prop in Hg. destruct Hg as [_ Hl].
  apply C01.forallb_intro. intros y Hy. apply in_map_iff in Hy.
  destruct Hy as (x & <- & Hx). apply Hf; [exact (C01.forallb_In _ _ _ Hl Hx) | exact (C01.forallb_In _ _ _ Ha Hx)].
Qed.

Theorem loaded_cmp_reads : forall o ic ord sw y r, load_rule o ic y = Ok r ->
  forallb Scope.cmp_reads (all_trees (pre_matrix o ord sw (r_det r))) = true.
Proof.
  intros o ic ord sw y r Hl.
  destruct (C03.load_rule_det _ _ _ _ Hl) as [dy Hdy].
  destruct (C01_matrix.load_detection_shapes _ _ _ _ Hdy) as [Hcs Hcb].
  destruct (C03_opt.load_good _ _ _ _ Hl) as [Gc Gi].
  pose proof (C01_matrix.cond_shape_cr _ Hcs) as Hc.
  rewrite pre_matrix_eq. unfold all_trees. cbn [fst snd forallb].
  unfold staged. destruct (sw_coalesce sw).
  - cbn [fst snd map forallb]. rewrite andb_true_r.
    destruct (load_coalesce _ _ _ _ Hl) as (e' & He' & Ge'). rewrite He'. cbn [ok_or].
    apply (pm_f_cr o ord sw C03_opt.nokey); [exact Ge'|].
    rewrite C01_matrix.cmp_reads_allq.
    apply (C01_matrix.coalesce_allq Scope.cr_cmp true (d_ids (r_det r)) (C03_opt.keys_of (d_ids (r_det r)))) with (e := d_expr (r_det r)); [|exact Gc| |exact He'].
    + intros i b Hlk. destruct (C03.lookup_in _ _ _ Hlk) as [k Hk]. rewrite Forall_forall in Hcb.
      rewrite <- C01_matrix.cmp_reads_allq. exact (Hcb (k, b) Hk).
    + rewrite <- C01_matrix.cmp_reads_allq. exact Hc.
  - cbn [fst snd]. rewrite (pm_f_cr o ord sw _ _ Gc Hc). cbn [andb].
    apply C01.forallb_intro. intros t Ht. apply in_map_iff in Ht. destruct Ht as ([k b'] & <- & Hkb).
    apply in_map_iff in Hkb. destruct Hkb as ([k0 b] & E & Hkb). inversion E; subst k b'. cbn [snd fst].
    rewrite Forall_forall in Gi, Hcb.
    apply (on_entries_cr _ C03_opt.nokey); [intros x Gx Ax; exact (pm_f_cr o ord sw _ x Gx Ax) | exact (Gi _ Hkb) | exact (Hcb _ Hkb)].
Qed.

(* the closest true statement proved here: the scope is complete outside D13 / D16 / D17 up to
   its two conjuncts that follow the run of shake_1 *)
Theorem scope_complete_alt2 : forall o ic ord sw y r,
  load_rule o ic y = Ok r ->
  known_d13 sw (r_det r) = false ->
  known_d16 ord sw (r_det r) = false ->
  known_d17 o ord sw (r_det r) = false ->
  dyn_run ord sw (r_det r) = true ->
  dyn_match o ord sw (r_det r) = true ->
  Scope6.c01_scope_quant_all_f o ord sw (r_det r) = true.
Proof.
  intros o ic ord sw y r Hl H13 H16 H17 Hrun Hmatch.
  apply (scope_complete_alt o ic ord sw y r Hl H13 H16 H17 Hrun Hmatch).
  unfold dyn_cr. rewrite (loaded_cmp_reads o ic ord sw y r Hl). apply orb_true_r.
Qed.

Print Assumptions loaded_cmp_reads.
Print Assumptions scope_complete_alt2.

(* ====================================================================================== *)
(* 10. with the soundness theorem: the property itself outside the listed classes         *)
(* ====================================================================================== *)
From TauProofs Require C01_final.

Theorem outside_classes_flat_sound : forall o ic ord sw y r (d : doc),
  (forall l, Permutation (ord l) l) ->
  C01.H_strip o ->
  load_rule o ic y = Ok r -> r_optimised r = false ->
  forallb Scope.no_nested (all_trees (staged sw (r_det r))) = true ->
  known_d13 sw (r_det r) = false ->
  known_d16 ord sw (r_det r) = false ->
  known_d17 o ord sw (r_det r) = false ->
  exists r', optimise o ord sw r = Ok r' /\ matches o r' d = matches o r d.
Proof.
  intros o ic ord sw y r d Hord Hs Hl Hopt Hnn H13 H16 H17.
  apply (C01_final.scope_quant_all_sound_f o ic ord sw y r d Hord Hs Hl Hopt).
  exact (scope_complete_flat o ic ord sw y r Hl Hnn H13 H16 H17).
Qed.

Theorem outside_classes_sound : forall o ic ord sw y r (d : doc),
  (forall l, Permutation (ord l) l) ->
  C01.H_strip o ->
  load_rule o ic y = Ok r -> r_optimised r = false ->
  known_d13 sw (r_det r) = false ->
  known_d16 ord sw (r_det r) = false ->
  known_d17 o ord sw (r_det r) = false ->
  dyn_run ord sw (r_det r) = true ->
  dyn_match o ord sw (r_det r) = true ->
  exists r', optimise o ord sw r = Ok r' /\ matches o r' d = matches o r d.
Proof.
  intros o ic ord sw y r d Hord Hs Hl Hopt H13 H16 H17 Hr Hm.
  apply (C01_final.scope_quant_all_sound_f o ic ord sw y r d Hord Hs Hl Hopt).
  exact (scope_complete_alt2 o ic ord sw y r Hl H13 H16 H17 Hr Hm).
Qed.

Theorem scope_dyn_two : forall o ord sw dt,
  Scope6.c01_scope_quant_all_f o ord sw dt = true ->
  dyn_run ord sw dt = true /\ dyn_match o ord sw dt = true.
Proof. intros o ord sw dt H. destruct (scope_dyn o ord sw dt H) as [A [B _]]. split; assumption. Qed.
