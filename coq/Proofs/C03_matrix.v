(* C03 (third file)  The matrix pass: optimise returns outside D21, and the optimised rule
   evaluates outside D18/D19: proofs. *)
From TauModel Require Import Base Num Oracles Syntax Generated Token Pratt Ident Value Yaml
     ParseMap Solver Rule Keys Optimiser Known.
From Coq Require Import Lia ZArith ZifyBool List Bool.
Import ListNotations.
From TauProofs Require C01 C03.
From TauProofs Require Import C03_opt.

(* ------------------------------------------------------------------------------------ *)
(* (E) matrix: what it decides does not depend on the fuel handed to shake_1             *)
(* ------------------------------------------------------------------------------------ *)

(* forget the operands of quantifiers: the only place where matrix uses its fuel *)
Fixpoint erase (e : expr) : expr :=
  match e with
  | EGroup s l => EGroup s (map erase l)
  | EBexp l s r => EBexp (erase l) s (erase r)
  | EMatch k _ => EMatch k ENull
  | EMatrix cols rows => EMatrix cols (map (map (option_map erase)) rows)
  | ENegate e' => ENegate (erase e')
  | ENested f e' => ENested f (erase e')
  | _ => e
  end.

Definition omap {A B} (f : A -> B) (x : out A) : out B :=
  match x with Ok a => Ok (f a) | Err k => Err k | Panic s => Panic s end.

Lemma left_field_erase l : left_field (erase l) = left_field l.
Proof. destruct l; reflexivity. Qed.
Lemma is_const_erase r : is_const (erase r) = is_const r.
Proof. destruct r; reflexivity. Qed.

Lemma conj_valid1_erase x : conj_valid1 (erase x) = conj_valid1 x.
Proof. destruct x; cbn [erase conj_valid1]; try reflexivity. rewrite left_field_erase, is_const_erase. reflexivity. Qed.
Lemma conj_field1_erase x : conj_field1 (erase x) = conj_field1 x.
Proof. destruct x; cbn [erase conj_field1]; try reflexivity. rewrite left_field_erase, is_const_erase. reflexivity. Qed.

Definition cf_step (m : list (key * nat)) (e : expr) : list (key * nat) :=
  match e with
  | EGroup BAnd es =>
      if forallb conj_valid1 es then
        fold_left (fun m x => match conj_field1 x with Some f => count_incr f m | None => m end) es m
      else m
  | EBexp l _ _ => match left_field l with Some f => count_incr f m | None => m end
  | ENested f _ | ESearch _ f _ => count_incr f m
  | _ => m
  end.

Lemma count_fields_eq l : count_fields l = fold_left cf_step l [].
Proof. reflexivity. Qed.

Lemma cf_step_erase m e : cf_step m (erase e) = cf_step m e.
Proof.
  destruct e as [ s g | l1 op r1 | b | f m0 | f | x | i | z | k e | cols rows | e | f e | | s f cst ];
    cbn [erase cf_step]; try reflexivity.
  - destruct s; try reflexivity.
    replace (forallb conj_valid1 (map erase g)) with (forallb conj_valid1 g).
    2:{ induction g as [|a g IH]; [reflexivity|]. cbn [map forallb]. rewrite conj_valid1_erase, IH. reflexivity. }
    destruct (forallb conj_valid1 g); [|reflexivity].
    revert m. induction g as [|a g IH]; intros m; [reflexivity|].
    cbn [map fold_left]. rewrite conj_field1_erase. apply IH.
  - rewrite left_field_erase. reflexivity.
Qed.

Lemma count_fields_erase l : count_fields (map erase l) = count_fields l.
Proof.
  rewrite !count_fields_eq. generalize (@nil (key * nat)).
  induction l as [|a l IH]; intros m; [reflexivity|].
  cbn [map fold_left]. rewrite cf_step_erase. apply IH.
Qed.

Lemma count_fields_erase_eq l l' : map erase l = map erase l' -> count_fields l = count_fields l'.
Proof. intros H. rewrite <- (count_fields_erase l), <- (count_fields_erase l'), H. reflexivity. Qed.

Definition erase_m (m : list (str * expr)) : list (str * expr) :=
  map (fun kv => (fst kv, erase (snd kv))) m.

Lemma has_key_erase_m f m : has_key f (erase_m m) = has_key f m.
Proof. apply has_key_fst. unfold erase_m. rewrite map_map. reflexivity. Qed.

Lemma lookup_erase_m f m : lookup f (erase_m m) = option_map erase (lookup f m).
Proof.
  induction m as [|[k v] m IH]; [reflexivity|]. cbn [erase_m map fst snd lookup].
  destruct (str_eqb f k); [reflexivity | exact IH].
Qed.

Lemma erase_m_app m x : erase_m (m ++ x) = erase_m m ++ erase_m x.
Proof. unfold erase_m. apply map_app. Qed.

Lemma conj_lookup_erase : forall es m,
  conj_lookup (map erase es) (erase_m m) = option_map erase_m (conj_lookup es m).
Proof.
  induction es as [|x es IH]; intros m; [reflexivity|].
  cbn [map].
  destruct x as [ s g | l1 op r1 | b | f m0 | f | y | i | z | k e | cols rows | e | f e | | s f cst ];
    cbn [erase conj_lookup]; try reflexivity.
  - rewrite left_field_erase, is_const_erase. destruct (left_field l1) as [f|]; [|reflexivity].
    destruct (is_const r1); [|reflexivity].
    rewrite has_key_erase_m. destruct (has_key f m); [reflexivity|].
    rewrite <- IH. rewrite erase_m_app. reflexivity.
  - rewrite has_key_erase_m. destruct (has_key f m); [reflexivity|].
    rewrite <- IH. rewrite erase_m_app. reflexivity.
  - rewrite has_key_erase_m. destruct (has_key f m); [reflexivity|].
    rewrite <- IH. rewrite erase_m_app. reflexivity.
Qed.

Definition erase_row (r : list (option expr)) : list (option expr) := map (option_map erase) r.

Lemma cell_of_erase k x : cell_of k (erase x) = option_map (option_map erase) (cell_of k x).
Proof.
  destruct x; cbn [erase cell_of]; try reflexivity.
  destruct x1; cbn [erase option_map]; reflexivity.
Qed.

Lemma row_of_lookup_erase : forall cols i m,
  row_of_lookup cols i (erase_m m) = omap erase_row (row_of_lookup cols i m).
Proof.
  induction cols as [|col cols IH]; intros i m; [reflexivity|].
  cbn [row_of_lookup]. rewrite lookup_erase_m.
  destruct (lookup col m) as [x|]; cbn [option_map].
  - destruct (column_key i) as [k| |]; cbn [bind omap]; try reflexivity.
    rewrite IH. destruct (row_of_lookup cols (S i) m); cbn [bind omap]; try reflexivity.
    rewrite cell_of_erase. destruct (cell_of k x) as [c|]; reflexivity.
  - rewrite IH. destruct (row_of_lookup cols (S i) m); reflexivity.
Qed.

Lemma row_single_erase (mk mk' : str -> expr) : (forall k, mk' k = erase (mk k)) ->
  forall cols i f, row_single cols i f mk' = omap erase_row (row_single cols i f mk).
Proof.
  intros Hmk. induction cols as [|col cols IH]; intros i f; [reflexivity|].
  cbn [row_single]. destruct (str_eqb col f).
  - destruct (column_key i) as [k| |]; cbn [bind omap]; try reflexivity.
    rewrite IH. destruct (row_single cols (S i) f mk); cbn [bind omap]; try reflexivity.
    rewrite Hmk. reflexivity.
  - rewrite IH. destruct (row_single cols (S i) f mk); reflexivity.
Qed.

Definition erase_pm (p : option (list (option expr)) * option expr) :=
  (option_map erase_row (fst p), option_map erase (snd p)).

Lemma place_member_erase cols e :
  place_member cols (erase e) = omap erase_pm (place_member cols e).
Proof.
  destruct e as [ s g | l1 op r1 | b | f m0 | f | y | i | z | k e | cols' rows | e | f e | | s f cst ];
    try reflexivity.
  - destruct s; try reflexivity. cbn [erase place_member].
    change (@nil (str * expr)) with (erase_m []) at 1. rewrite conj_lookup_erase.
    destruct (conj_lookup g []) as [m|]; cbn [option_map]; [|reflexivity].
    rewrite row_of_lookup_erase. destruct (row_of_lookup cols 0 m); reflexivity.
  - cbn [erase place_member].
    destruct l1; cbn [erase]; try reflexivity.
    + rewrite is_const_erase. destruct (is_const r1) eqn:Ec; [|destruct r1; try discriminate Ec; reflexivity].
      rewrite (row_single_erase (fun k => EBexp (ECast k m) op r1) (fun k => EBexp (ECast k m) op (erase r1))).
      * destruct (row_single cols 0 f _); reflexivity.
      * intros k. reflexivity.
    + rewrite is_const_erase. destruct (is_const r1) eqn:Ec; [|destruct r1; try discriminate Ec; reflexivity].
      rewrite (row_single_erase (fun k => EBexp (EField k) op r1) (fun k => EBexp (EField k) op (erase r1))).
      * destruct (row_single cols 0 f _); reflexivity.
      * intros k. reflexivity.
  - cbn [erase place_member].
    rewrite (row_single_erase (fun k => ENested k e) (fun k => ENested k (erase e))).
    + destruct (row_single cols 0 f _); reflexivity.
    + intros k. reflexivity.
  - cbn [erase place_member].
    rewrite (row_single_erase (fun k => ESearch s k cst) (fun k => ESearch s k cst)) at 1.
    + destruct (row_single cols 0 f _); reflexivity.
    + intros k. reflexivity.
Qed.

Definition erase_pa (q : list (list (option expr)) * list expr) :=
  (map erase_row (fst q), map erase (snd q)).

Lemma place_all_erase cols : forall es,
  place_all cols (map erase es) = omap erase_pa (place_all cols es).
Proof.
  induction es as [|e es IH]; [reflexivity|].
  cbn [map place_all]. rewrite place_member_erase.
  destruct (place_member cols e) as [[pr po]| |]; cbn [omap bind]; try reflexivity.
  rewrite IH. destruct (place_all cols es) as [[rows others]| |]; cbn [omap bind]; try reflexivity.
  unfold erase_pa, erase_pm. cbn [fst snd].
  destruct pr, po; reflexivity.
Qed.

Lemma mapM_omap {A B C} (f g : A -> out B) (h : B -> C) : forall l,
  (forall x, In x l -> omap h (f x) = omap h (g x)) ->
  omap (map h) (mapM f l) = omap (map h) (mapM g l).
Proof.
  induction l as [|a l IH]; intros H; [reflexivity|].
  rewrite !mapM_cons.
  pose proof (H a (or_introl eq_refl)) as Ha.
  assert (Hl : omap (map h) (mapM f l) = omap (map h) (mapM g l)).
  { apply IH. intros x Hx. apply H. right. exact Hx. }
  destruct (f a) as [y| |], (g a) as [y'| |]; cbn [omap] in Ha; try discriminate Ha; try (injection Ha as ->; reflexivity).
  destruct (mapM f l) as [ys| |], (mapM g l) as [ys'| |]; cbn [omap] in Hl; try discriminate Hl; try (injection Hl as ->; reflexivity).
  cbn [omap map]. injection Ha as Ha. injection Hl as Hl. rewrite Ha, Hl. reflexivity.
Qed.

Lemma omap_ok_inv {A B} (h : A -> B) (x y : out A) a :
  omap h x = omap h y -> x = Ok a -> exists b, y = Ok b /\ h a = h b.
Proof. intros H ->. destruct y; cbn [omap] in H; try discriminate H. injection H as H. eauto. Qed.

Lemma matrix_erase ord F F' : forall e,
  omap erase (matrix ord F e) = omap erase (matrix ord F' e).
Proof.
  induction e as [e IH] using C01.size_ind.
  dex e; try reflexivity.
  - assert (Hm : omap (map erase) (mapM (fun x => matrix ord F x) g) =
                 omap (map erase) (mapM (fun x => matrix ord F' x) g)).
    { apply mapM_omap. intros x Hx. apply IH. sz. }
    destruct s; try reflexivity.
    + cbn [matrix].
      destruct (mapM (fun x => matrix ord F x) g) as [l1| |], (mapM (fun x => matrix ord F' x) g) as [l2| |];
        cbn [omap] in Hm; try discriminate Hm; try (injection Hm as ->; reflexivity).
      injection Hm as Hm. cbn [bind omap erase]. rewrite Hm. reflexivity.
    + cbn [matrix].
      destruct (mapM (fun x => matrix ord F x) g) as [l1| |], (mapM (fun x => matrix ord F' x) g) as [l2| |];
        cbn [omap] in Hm; try discriminate Hm; try (injection Hm as ->; reflexivity).
      injection Hm as Hm. cbn [bind].
      rewrite (count_fields_erase_eq _ _ Hm).
      destruct (existsb _ (count_fields l2) && _); [|cbn [omap erase]; rewrite Hm; reflexivity].
      set (cols := map fst (sort_by count_lt _)).
      pose proof (place_all_erase cols l1) as P1. pose proof (place_all_erase cols l2) as P2.
      rewrite Hm in P1. rewrite P2 in P1. clear P2.
      destruct (place_all cols l1) as [[rows1 oth1]| |], (place_all cols l2) as [[rows2 oth2]| |];
        cbn [omap] in P1; try discriminate P1; try (injection P1 as ->; reflexivity).
      injection P1 as P1 P1'. cbn [bind]. unfold erase_pa in *. cbn [fst snd] in *.
      assert (HE : map erase ((match rows1 with [] => [] | _ => [EMatrix cols rows1] end) ++ oth1) =
                   map erase ((match rows2 with [] => [] | _ => [EMatrix cols rows2] end) ++ oth2)).
      { rewrite !map_app. rewrite P1'. f_equal.
        assert (HR : forall rows, map erase (match rows with [] => [] | _ => [EMatrix cols rows] end) =
                                  match map erase_row rows with [] => [] | r => [EMatrix cols r] end)
          by (intros [|? ?]; reflexivity).
        rewrite !HR, P1. reflexivity. }
      revert HE. generalize ((match rows1 with [] => [] | _ => [EMatrix cols rows1] end) ++ oth1).
      generalize ((match rows2 with [] => [] | _ => [EMatrix cols rows2] end) ++ oth2).
      intros ex2 ex1 HE.
      destruct ex1 as [|a1 [|b1 ex1]], ex2 as [|a2 [|b2 ex2]]; try discriminate HE;
        cbn [omap]; try reflexivity; try (cbn [erase]; rewrite HE; reflexivity).
      cbn [map] in HE. injection HE as HE. rewrite HE. reflexivity.
  - cbn [matrix].
    pose proof (IH l1 ltac:(sz)) as H1. pose proof (IH r1 ltac:(sz)) as H2.
    destruct (matrix ord F l1) as [a1| |], (matrix ord F' l1) as [a2| |];
      cbn [omap] in H1; try discriminate H1; try (injection H1 as ->; reflexivity).
    cbn [bind].
    destruct (matrix ord F r1) as [b1| |], (matrix ord F' r1) as [b2| |];
      cbn [omap] in H2; try discriminate H2; try (injection H2 as ->; reflexivity).
    injection H1 as H1. injection H2 as H2. cbn [bind omap erase]. rewrite H1, H2. reflexivity.
  - cbn [matrix]. destruct e; reflexivity.
  - cbn [matrix]. pose proof (IH e ltac:(sz)) as H1.
    destruct (matrix ord F e) as [a1| |], (matrix ord F' e) as [a2| |];
      cbn [omap] in H1; try discriminate H1; try (injection H1 as ->; reflexivity).
    injection H1 as H1. cbn [bind omap erase]. rewrite H1. reflexivity.
  - cbn [matrix]. pose proof (IH e ltac:(sz)) as H1.
    destruct (matrix ord F e) as [a1| |], (matrix ord F' e) as [a2| |];
      cbn [omap] in H1; try discriminate H1; try (injection H1 as ->; reflexivity).
    injection H1 as H1. cbn [bind omap erase]. rewrite H1. reflexivity.
Qed.

(* ------------------------------------------------------------------------------------ *)
(* (F) matrix returns when no or-group has more than 55296 columns                       *)
(* ------------------------------------------------------------------------------------ *)

Definition BIG : nat := 55296.
Lemma BIG_N : N.of_nat BIG = 55296%N.
Proof. vm_compute. reflexivity. Qed.
Global Opaque BIG.

Lemma column_key_ok i : i < BIG -> column_key i = Ok [N.of_nat i].
Proof.
  intros H. unfold column_key. cbv zeta.
  assert (Hn : (N.of_nat i < 55296)%N) by (rewrite <- BIG_N; lia).
  destruct (55296 <=? N.of_nat i)%N eqn:E1; [lia|].
  destruct (1114111 <? N.of_nat i)%N eqn:E2; [lia|]. reflexivity.
Qed.

Lemma row_single_ok mk f : forall cols i, i + length cols <= BIG ->
  exists row, row_single cols i f mk = Ok row.
Proof.
  induction cols as [|col cols IH]; intros i H; cbn [row_single]; [eexists; reflexivity|].
  cbn [length] in H. destruct (IH (S i) ltac:(lia)) as [tl' ->].
  destruct (str_eqb col f); cbn [bind].
  - rewrite (column_key_ok i ltac:(lia)). cbn [bind]. eexists; reflexivity.
  - eexists; reflexivity.
Qed.

Lemma row_of_lookup_ok m : forall cols i, i + length cols <= BIG ->
  exists row, row_of_lookup cols i m = Ok row.
Proof.
  induction cols as [|col cols IH]; intros i H; cbn [row_of_lookup]; [eexists; reflexivity|].
  cbn [length] in H. destruct (IH (S i) ltac:(lia)) as [tl' ->].
  destruct (lookup col m); cbn [bind].
  - rewrite (column_key_ok i ltac:(lia)). cbn [bind]. eexists; reflexivity.
  - eexists; reflexivity.
Qed.

Lemma place_member_ok cols e : length cols <= BIG -> exists p, place_member cols e = Ok p.
Proof.
  intros H.
  destruct e as [ s g | l1 op r1 | b | f m0 | f | y | i | z | k e | cols' rows | e | f e | | s f cst ];
    cbn [place_member]; try (eexists; reflexivity).
  - destruct s; try (eexists; reflexivity).
    destruct (conj_lookup g []) as [m|]; [|eexists; reflexivity].
    destruct (row_of_lookup_ok m cols 0 ltac:(lia)) as [row ->]. cbn [bind]. eexists; reflexivity.
  - destruct l1; try (eexists; reflexivity); (destruct (is_const r1); [|eexists; reflexivity]).
    + destruct (row_single_ok (fun k => EBexp (ECast k m) op r1) f cols 0 ltac:(lia)) as [row ->].
      cbn [bind]. eexists; reflexivity.
    + destruct (row_single_ok (fun k => EBexp (EField k) op r1) f cols 0 ltac:(lia)) as [row ->].
      cbn [bind]. eexists; reflexivity.
  - destruct (row_single_ok (fun k => ENested k e) f cols 0 ltac:(lia)) as [row ->].
    cbn [bind]. eexists; reflexivity.
  - destruct (row_single_ok (fun k => ESearch s k cst) f cols 0 ltac:(lia)) as [row ->].
    cbn [bind]. eexists; reflexivity.
Qed.

Lemma place_all_ok cols : length cols <= BIG -> forall es, exists q, place_all cols es = Ok q.
Proof.
  intros H. induction es as [|e es IH]; cbn [place_all]; [eexists; reflexivity|].
  destruct (place_member_ok cols e H) as [p ->]. destruct IH as [[rows others] ->].
  cbn [bind]. eexists; reflexivity.
Qed.

Lemma insert_by_length {A} (lt : A -> A -> bool) x : forall l, length (insert_by lt x l) = S (length l).
Proof.
  induction l as [|y l IH]; cbn [insert_by]; [reflexivity|].
  destruct (lt x y); cbn [length]; [reflexivity | rewrite IH; reflexivity].
Qed.

Lemma sort_by_length {A} (lt : A -> A -> bool) l : length (sort_by lt l) = length l.
Proof.
  unfold sort_by.
  assert (H : forall l acc, length (fold_left (fun acc x => insert_by lt x acc) l acc) = length l + length acc).
  { clear l. induction l as [|x l IH]; intros acc; cbn [fold_left length]; [reflexivity|].
    rewrite IH, insert_by_length. lia. }
  rewrite H. cbn [length]. lia.
Qed.

Lemma flat_map_le1 {A B} (f : A -> list B) l : (forall x, length (f x) <= 1) ->
  length (flat_map f l) <= length l.
Proof.
  intros H. induction l as [|a l IH]; cbn [flat_map length]; [lia|].
  rewrite app_length. specialize (H a). lia.
Qed.

Definition matrix_cols (ord : hord) (fields : list (key * nat)) : list key :=
  map fst (sort_by count_lt
    (flat_map (fun k => match lookup k fields with Some n => [(k, n)] | None => [] end)
              (ord (map fst fields)))).

Lemma matrix_cols_length ord fields : (forall ks, length (ord ks) <= length ks) ->
  length (matrix_cols ord fields) <= length fields.
Proof.
  intros Hord. unfold matrix_cols. rewrite map_length, sort_by_length.
  etransitivity; [apply flat_map_le1|].
  - intros k. destruct (lookup k fields); cbn [length]; lia.
  - etransitivity; [apply Hord|]. rewrite map_length. lia.
Qed.

(* the guard of the table (with the repair of D21: at most 55296 counted fields) *)
Definition matrix_table (scratch : list expr) : bool :=
  matrix_fires scratch && (N.of_nat (length (count_fields scratch)) <=? 55296)%N.

Lemma matrix_table_fires scratch : matrix_table scratch = true -> matrix_fires scratch = true.
Proof. unfold matrix_table. intros H. apply andb_prop in H. exact (proj1 H). Qed.

Lemma matrix_table_small scratch : matrix_table scratch = true -> length (count_fields scratch) <= BIG.
Proof.
  unfold matrix_table. intros H. apply andb_prop in H. destruct H as [_ H].
  apply N.leb_le in H. rewrite <- BIG_N in H. lia.
Qed.

Lemma matrix_or_eq ord F l :
  matrix ord F (EGroup BOr l) =
  do scratch <- mapM (fun x => matrix ord F x) l;
  if matrix_table scratch then
    let cols := matrix_cols ord (count_fields scratch) in
    do pr <- place_all cols scratch;
    let '(rows, others) := pr in
    let exprs := (match rows with [] => [] | _ => [EMatrix cols rows] end) ++ others in
    match exprs with
    | [x] => Ok x
    | _ => Ok (EGroup BOr exprs)
    end
  else Ok (EGroup BOr scratch).
Proof. reflexivity. Qed.

(* the members as the classifiers of Model/Known.v compute them *)
Definition members_k (ord : hord) (l : list expr) : list expr :=
  map (fun e => ok_or (matrix ord (shake_fuel e) e) e) l.

Lemma members_k_erase ord F : forall l scratch,
  (forall x, In x l -> exists y, matrix ord (shake_fuel x) x = Ok y) ->
  mapM (fun x => matrix ord F x) l = Ok scratch ->
  map erase (members_k ord l) = map erase scratch.
Proof.
  intros l scratch Hk Hm. apply C01.mapM_Forall2 in Hm.
  induction Hm as [|x y l scratch Hxy _ IH]; [reflexivity|].
  cbn [members_k map]. destruct (Hk x (or_introl eq_refl)) as [y' Hy']. rewrite Hy'. cbn [ok_or].
  f_equal.
  - pose proof (matrix_erase ord (shake_fuel x) F x) as HE. rewrite Hy', Hxy in HE.
    cbn [omap] in HE. injection HE as HE. exact HE.
  - apply IH. intros z Hz. apply Hk. right. exact Hz.
Qed.

Section MatrixTotal.
Variable ord : hord.
Hypothesis Hord : forall ks, length (ord ks) <= length ks.

(* with the repair of D21 (the guard on the number of counted fields) matrix always returns *)
Lemma matrix_ok_all : forall e F, exists e', matrix ord F e = Ok e'.
Proof.
  induction e as [e IH] using C01.size_ind. intros F.
  dex e; try (eexists; reflexivity).
  - assert (Hmem : forall x, In x g -> forall F, exists y, matrix ord F x = Ok y).
    { intros x Hx F0. apply (IH x ltac:(sz)). }
    destruct s; try (eexists; reflexivity).
    + cbn [matrix].
      destruct (mapM_good (fun x => matrix ord F x) (fun _ => True) g) as (l' & -> & _).
      { intros x Hx. destruct (Hmem x Hx F) as [y Hy]. eauto. }
      cbn [bind]. eexists; reflexivity.
    + rewrite matrix_or_eq.
      destruct (mapM_good (fun x => matrix ord F x) (fun _ => True) g) as (scratch & Hsc & _).
      { intros x Hx. destruct (Hmem x Hx F) as [y Hy]. eauto. }
      rewrite Hsc. cbn [bind].
      destruct (matrix_table scratch) eqn:Ef; [|eexists; reflexivity].
      cbv zeta.
      destruct (place_all_ok (matrix_cols ord (count_fields scratch))) with (es := scratch) as [[rows others] ->].
      { etransitivity; [apply matrix_cols_length; exact Hord | exact (matrix_table_small _ Ef)]. }
      cbn [bind].
      destruct ((match rows with [] => [] | _ => [EMatrix (matrix_cols ord (count_fields scratch)) rows] end) ++ others)
        as [|a [|b rest]]; eexists; reflexivity.
  - cbn [matrix].
    destruct (IH l1 ltac:(sz) F) as [l' ->]. destruct (IH r1 ltac:(sz) F) as [r' ->].
    cbn [bind]. eexists; reflexivity.
  - cbn [matrix]. destruct e; eexists; reflexivity.
  - cbn [matrix]. destruct (IH e ltac:(sz) F) as [e' ->]. cbn [bind]. eexists; reflexivity.
  - cbn [matrix]. destruct (IH e ltac:(sz) F) as [e' ->]. cbn [bind]. eexists; reflexivity.
Qed.

(* (the D21 hypothesis is no longer needed; statement kept for the users of this lemma) *)
Lemma matrix_ok : forall e neg, exists_sub (d21_here ord) neg e = false ->
  forall F, exists e', matrix ord F e = Ok e'.
Proof. intros e neg _ F. apply matrix_ok_all. Qed.

End MatrixTotal.

(* ---- the trees handed to matrix are those the classifiers look at ---- *)
Lemma map_ids_ok_or (f : expr -> out expr) : forall ids ids',
  map_ids f ids = Ok ids' ->
  ids' = map (fun kv => (fst kv, ok_or (f (snd kv)) (snd kv))) ids.
Proof.
  unfold map_ids. induction ids as [|[k e] ids IH]; intros ids' H.
  - inversion H; subst. reflexivity.
  - rewrite mapM_cons in H. cbn [fst snd] in H.
    destruct (f e) as [e'| |] eqn:Ef; cbn [bind] in H; try discriminate H.
    destruct (mapM _ ids) as [tl'| |] eqn:Et; try discriminate H.
    inversion H; subst. cbn [map fst snd]. rewrite Ef. cbn [ok_or]. rewrite <- (IH _ eq_refl). reflexivity.
Qed.

(* fix D15/D20: bodies are optimised entry by entry *)
Lemma mapM_ok_or (f : expr -> out expr) : forall l l', mapM f l = Ok l' ->
  l' = map (fun x => ok_or (f x) x) l.
Proof.
  induction l as [|x l IH]; intros l' H.
  - inversion H; subst. reflexivity.
  - rewrite mapM_cons in H. destruct (f x) as [y| |] eqn:Ef; try discriminate H.
    destruct (mapM f l) as [tl'| |] eqn:Et; try discriminate H.
    inversion H; subst. cbn [map]. rewrite Ef. cbn [ok_or]. rewrite <- (IH _ eq_refl). reflexivity.
Qed.

Lemma entries_ok_or (f : expr -> out expr) b b' : entries f b = Ok b' ->
  b' = on_entries (fun x => ok_or (f x) x) b.
Proof.
  intros H. destruct b as [s l| | | | | | | | | | | | |]; cbn [entries on_entries] in *;
    try (rewrite H; reflexivity).
  apply C03.bind_ok_inv in H. destruct H as (l' & Hl & H). inversion H; subst.
  rewrite (mapM_ok_or f l l' Hl). reflexivity.
Qed.

Lemma map_ids_entries_ok_or (f : expr -> out expr) : forall ids ids',
  map_ids (entries f) ids = Ok ids' ->
  ids' = map (fun kv => (fst kv, on_entries (fun x => ok_or (f x) x) (snd kv))) ids.
Proof.
  unfold map_ids. induction ids as [|[k e] ids IH]; intros ids' H.
  - inversion H; subst. reflexivity.
  - rewrite mapM_cons in H. cbn [fst snd] in H.
    destruct (entries f e) as [e'| |] eqn:Ef; cbn [bind] in H; try discriminate H.
    destruct (mapM _ ids) as [tl'| |] eqn:Et; try discriminate H.
    inversion H; subst. cbn [map fst snd]. rewrite (entries_ok_or f e e' Ef).
    rewrite <- (IH _ eq_refl). reflexivity.
Qed.

Lemma on_entries_id b : on_entries (fun e => e) b = b.
Proof. destruct b; cbn [on_entries]; try reflexivity. rewrite map_id. reflexivity. Qed.

Lemma rewrite_on_entries o (g : expr -> expr) b :
  rewrite o (on_entries g b) = on_entries (fun e => rewrite o (g e)) b.
Proof.
  destruct b; cbn [on_entries]; try reflexivity. cbn [rewrite]. rewrite map_map. reflexivity.
Qed.

Lemma rewrite_as_on_entries o b : rewrite o b = on_entries (rewrite o) b.
Proof. destruct b; reflexivity. Qed.

Lemma entries_total (f : expr -> out expr) b :
  (forall x, exists y, f x = Ok y) -> exists b', entries f b = Ok b'.
Proof.
  intros Hf.
  destruct (C01.entries_rel f (fun _ => True) (fun _ _ => True) b) as [b' [Hb' _]].
  - intros x _. destruct (Hf x) as [y Hy]. exists y. split; [exact Hy|exact I].
  - destruct b; auto.
  - exists b'. exact Hb'.
Qed.

Lemma no_matrix_stage_pre o ord sw dt s3 :
  no_matrix_stage o ord sw dt = Ok s3 -> pre_matrix o ord sw dt = (d_expr s3, d_ids s3).
Proof.
  unfold no_matrix_stage, pre_matrix, staged. intros H.
  apply C03.bind_ok_inv in H. destruct H as (s1 & H1 & H).
  apply C03.bind_ok_inv in H. destruct H as (s2 & H2 & H).
  inversion H; subst; clear H.
  assert (E1 : (if sw_coalesce sw
                then (ok_or (coalesce (d_ids dt) (d_expr dt)) (d_expr dt), [])
                else (d_expr dt, d_ids dt)) = (d_expr s1, d_ids s1)).
  { destruct (sw_coalesce sw).
    - apply C03.bind_ok_inv in H1. destruct H1 as (e & -> & H1). inversion H1; subst. reflexivity.
    - inversion H1; subst. reflexivity. }
  rewrite E1. cbn [fst snd]. clear E1 H1.
  destruct (sw_shake sw).
  - apply C03.bind_ok_inv in H2. destruct H2 as (e & He & H2).
    apply C03.bind_ok_inv in H2. destruct H2 as (ids & Hi & H2). inversion H2; subst; clear H2.
    apply map_ids_entries_ok_or in Hi. cbn [d_expr d_ids]. rewrite He. cbn [ok_or].
    destruct (sw_rewrite sw); cbn [d_expr d_ids]; subst ids; rewrite ?map_map; [|reflexivity].
    f_equal. apply map_ext. intros [k b]. cbn [fst snd]. rewrite rewrite_on_entries. reflexivity.
  - inversion H2; subst.
    destruct (sw_rewrite sw); cbn [d_expr d_ids].
    + f_equal. apply map_ext. intros [k e]. cbn [fst snd].
      rewrite (rewrite_as_on_entries o e). reflexivity.
    + f_equal. rewrite <- (map_id (d_ids s2)) at 2. apply map_ext. intros [k e]. cbn [fst snd].
      rewrite on_entries_id. reflexivity.
Qed.

Lemma optimise_total_stage o ord sw dt :
  (forall ks, length (ord ks) <= length ks) ->
  good_det dt -> known_d21 o ord sw dt = false ->
  exists dt', optimise_detection o ord sw dt = Ok dt'.
Proof.
  intros Hord Hg Hk. rewrite optimise_detection_stage.
  destruct (no_matrix_stage_good o ord sw dt Hg) as (s3 & Hs & _). rewrite Hs. cbn [bind].
  destruct (sw_matrix sw) eqn:Em; [|eexists; reflexivity].
  unfold known_d21 in Hk. rewrite Em, (no_matrix_stage_pre _ _ _ _ _ Hs) in Hk. cbn [andb] in Hk.
  unfold any_tree in Hk. cbn [fst snd] in Hk. apply orb_false_iff in Hk. destruct Hk as [K1 K2].
  destruct (matrix_ok ord Hord _ _ K1 (shake_fuel (d_expr s3))) as [e' ->]. cbn [bind].
  assert (Hids : exists ids', map_ids (entries (fun x => matrix ord (shake_fuel x) x)) (d_ids s3) = Ok ids').
  { unfold map_ids.
    destruct (mapM_good (fun kv : str * expr => do e <- entries (fun x => matrix ord (shake_fuel x) x) (snd kv); Ok (fst kv, e))
                        (fun _ => True) (d_ids s3)) as (ids' & Hm & _).
    - intros kv Hkv.
      destruct (entries_total (fun x => matrix ord (shake_fuel x) x) (snd kv)) as [e0 ->].
      { intros x. apply (matrix_ok_all ord Hord). }
      cbn [bind]. eauto.
    - eauto. }
  destruct Hids as [ids' ->]. cbn [bind]. eexists; reflexivity.
Qed.

Lemma optimise_total_stage_all o ord sw dt :
  (forall ks, length (ord ks) <= length ks) ->
  good_det dt ->
  exists dt', optimise_detection o ord sw dt = Ok dt'.
Proof.
  intros Hord Hg. rewrite optimise_detection_stage.
  destruct (no_matrix_stage_good o ord sw dt Hg) as (s3 & Hs & _). rewrite Hs. cbn [bind].
  destruct (sw_matrix sw) eqn:Em; [|eexists; reflexivity].
  destruct (matrix_ok_all ord Hord (d_expr s3) (shake_fuel (d_expr s3))) as [e' ->]. cbn [bind].
  assert (Hids : exists ids', map_ids (entries (fun x => matrix ord (shake_fuel x) x)) (d_ids s3) = Ok ids').
  { unfold map_ids.
    destruct (mapM_good (fun kv : str * expr => do e <- entries (fun x => matrix ord (shake_fuel x) x) (snd kv); Ok (fst kv, e))
                        (fun _ => True) (d_ids s3)) as (ids' & Hm & _).
    - intros kv Hkv.
      destruct (entries_total (fun x => matrix ord (shake_fuel x) x) (snd kv)) as [e0 ->].
      { intros x. apply (matrix_ok_all ord Hord). }
      cbn [bind]. eauto.
    - eauto. }
  destruct Hids as [ids' ->]. cbn [bind]. eexists; reflexivity.
Qed.

(* ---- theorem 4, without the D21 exclusion ---- *)
Lemma optimise_total_all : forall o ic ord sw y r,
  (forall ks, (length (ord ks) <= length ks)%nat) ->
  load_rule o ic y = Ok r ->
  exists r', optimise o ord sw r = Ok r'.
Proof.
  intros o ic ord sw y r Hord Hl. unfold optimise.
  destruct (r_optimised r); [eexists; reflexivity|].
  destruct (optimise_total_stage_all o ord sw _ Hord (load_good _ _ _ _ Hl)) as [dt' ->].
  cbn [bind]. eexists; reflexivity.
Qed.

(* ---- theorem 4 ---- *)
Lemma optimise_total : forall o ic ord sw y r,
  (forall ks, (length (ord ks) <= length ks)%nat) ->
  load_rule o ic y = Ok r -> known_d21 o ord sw (r_det r) = false ->
  exists r', optimise o ord sw r = Ok r'.
Proof.
  intros o ic ord sw y r Hord Hl Hk. unfold optimise.
  destruct (r_optimised r); [eexists; reflexivity|].
  destruct (optimise_total_stage o ord sw _ Hord (load_good _ _ _ _ Hl) Hk) as [dt' ->].
  cbn [bind]. eexists; reflexivity.
Qed.

(* ------------------------------------------------------------------------------------ *)
(* witness: without a hypothesis on the hash order the matrix pass can panic outside D21 *)
(* ------------------------------------------------------------------------------------ *)
(* `optimise_total` as first stated (for any function `ord`) is false: an `ord` that yields
   every key 55297 times makes 55297 columns out of one field. *)
Definition refuted_rule : yaml :=
  YMap [(YStr key_detection,
         YMap [(YStr [65%N], YSeq [YMap [(YStr [102%N], YStr [120%N])];
                                   YMap [(YStr [102%N], YStr [121%N])]]);
               (YStr cond_key, YStr [65%N])]);
        (YStr key_tp, YSeq []); (YStr key_tn, YSeq [])].
Definition refuted_ord : hord := fun ks => flat_map (fun _ => ks) (repeat tt (S BIG)).
Definition refuted_sw : switches :=
  {| sw_coalesce := true; sw_shake := false; sw_rewrite := false; sw_matrix := true |}.
Definition refuted_loaded : rule :=
  {| r_optimised := false;
     r_det := {| d_expr := EIdent [65%N];
                 d_ids := [([65%N], EGroup BOr [ESearch (SExact [120%N]) [102%N] false;
                                                ESearch (SExact [121%N]) [102%N] false])] |};
     r_tp := []; r_tn := [] |}.

Lemma flat_map_single {A} (x : A) n : flat_map (fun _ : unit => [x]) (repeat tt n) = repeat x n.
Proof. induction n as [|n IH]; [reflexivity|]. cbn [repeat flat_map app]. rewrite IH. reflexivity. Qed.

Lemma flat_map_repeat {A B} (f : A -> list B) x y n : f x = [y] -> flat_map f (repeat x n) = repeat y n.
Proof. intros H. induction n as [|n IH]; [reflexivity|]. cbn [repeat flat_map]. rewrite H, IH. reflexivity. Qed.

Lemma insert_by_repeat {A} (lt : A -> A -> bool) x n : lt x x = false ->
  insert_by lt x (repeat x n) = repeat x (S n).
Proof.
  intros H. induction n as [|n IH]; [reflexivity|].
  cbn [repeat insert_by]. rewrite H. cbn [repeat] in IH. rewrite IH. reflexivity.
Qed.

Lemma sort_by_repeat {A} (lt : A -> A -> bool) x n : lt x x = false ->
  sort_by lt (repeat x n) = repeat x n.
Proof.
  intros H. unfold sort_by.
  assert (G : forall n m, fold_left (fun acc y => insert_by lt y acc) (repeat x n) (repeat x m) = repeat x (n + m)).
  { clear n. induction n as [|n IH]; intros m; [reflexivity|].
    cbn [repeat fold_left]. rewrite (insert_by_repeat lt x m H), IH. f_equal. lia. }
  change (@nil A) with (repeat x 0). rewrite (G n 0). f_equal. lia.
Qed.

Lemma row_single_repeat_panic mk f : str_eqb f f = true -> forall n i,
  i <= BIG -> BIG < i + n -> row_single (repeat f n) i f mk = Panic 216.
Proof.
  intros Hf. induction n as [|n IH]; intros i H1 H2; [lia|].
  cbn [repeat row_single]. rewrite Hf.
  destruct (Nat.eq_dec i BIG) as [->|Hne].
  - unfold column_key. cbv zeta. rewrite BIG_N. reflexivity.
  - rewrite (column_key_ok i ltac:(lia)). cbn [bind]. rewrite (IH (S i)) by lia. reflexivity.
Qed.

Lemma optimise_total_refuted :
  exists r, load_rule C01.o0 false refuted_rule = Ok r /\
            known_d21 C01.o0 refuted_ord refuted_sw (r_det r) = false /\
            optimise C01.o0 refuted_ord refuted_sw r = Panic 216.
Proof.
  exists refuted_loaded. split; [vm_compute; reflexivity|]. split.
  - unfold known_d21, any_tree, pre_matrix, staged, refuted_sw, refuted_loaded.
    cbn [sw_matrix sw_coalesce sw_shake sw_rewrite r_det d_expr d_ids fst snd map andb exists_sub d21_here orb existsb].
    unfold matrix_fires. reflexivity.
  - unfold optimise, refuted_loaded. cbn [r_optimised r_det].
    rewrite optimise_detection_stage. unfold no_matrix_stage, refuted_sw.
    cbn [sw_matrix sw_coalesce sw_shake sw_rewrite d_expr d_ids].
    change (coalesce _ (EIdent [65%N])) with
      (Ok (EGroup BOr [ESearch (SExact [120%N]) [102%N] false; ESearch (SExact [121%N]) [102%N] false])).
    cbn [bind d_expr d_ids]. rewrite matrix_or_eq.
    change (mapM (fun x => matrix refuted_ord _ x) _) with
      (Ok [ESearch (SExact [120%N]) [102%N] false; ESearch (SExact [121%N]) [102%N] false]).
    cbn [bind]. change (matrix_table _) with true. cbv iota zeta.
    change (count_fields _) with [([102%N], 2%nat)].
    assert (Hc : matrix_cols refuted_ord [([102%N], 2%nat)] = repeat [102%N] (S BIG)).
    { unfold matrix_cols, refuted_ord. cbn [map fst]. rewrite flat_map_single.
      rewrite (flat_map_repeat _ [102%N] ([102%N], 2%nat)) by reflexivity.
      rewrite sort_by_repeat by reflexivity. generalize (S BIG). intros n.
      induction n as [|n IH]; [reflexivity|]. cbn [repeat map fst]. rewrite IH. reflexivity. }
    rewrite Hc. cbn [place_all place_member].
    rewrite row_single_repeat_panic; [reflexivity | reflexivity | lia | lia].
Qed.

(* ------------------------------------------------------------------------------------ *)
(* (G) evaluable shapes with matrices, and the solver on them                            *)
(* ------------------------------------------------------------------------------------ *)

Definition is_matrix (e : expr) : bool := match e with EMatrix _ _ => true | _ => false end.

(* the cell of column i asks its document for the synthetic key of column i only *)
Definition cell_key (i : nat) (c : expr) : bool :=
  match c with
  | EBexp l op r =>
      match left_field l with
      | Some k => str_eqb k [N.of_nat i] && is_const r && negb (is_and_or op)
      | None => false
      end
  | ENested k _ => str_eqb k [N.of_nat i]
  | ESearch _ k _ => str_eqb k [N.of_nat i]
  | _ => false
  end.

Definition rowck (g : expr -> bool) : nat -> list (option expr) -> bool :=
  fix cells (i : nat) (row : list (option expr)) : bool :=
    match row with
    | [] => true
    | None :: rest => cells (S i) rest
    | Some c :: rest => cell_key i c && g c && cells (S i) rest
    end.

Fixpoint gm (K : str -> bool) (e : expr) : bool :=
  match e with
  | EGroup s l => is_and_or s && forallb (gm K) l
  | EBexp l s r => if is_and_or s then gm K l && gm K r else leaf l && leaf r
  | EIdent i => K i
  | EMatch _ e' => negb (is_matrix e') && gm K e'
  | EMatrix cols rows =>
      forallb (fun row => (length row =? length cols)%nat && rowck (gm K) 0 row) rows
  | ENegate e' => gm K e'
  | ENested _ e' => gm K e'
  | ESearch _ _ _ => true
  | _ => false
  end.

Lemma gk_gm K : forall e, gk K e = true -> gm K e = true /\ is_matrix e = false.
Proof.
  induction e as [e IH] using C01.size_ind. intros H.
  dex e; cbn [gk] in H; try discriminate H; cbn [gm is_matrix]; (split; [|reflexivity]).
  - apply andb_prop in H. destruct H as [Hs Hl]. rewrite Hs. cbn [andb].
    apply C01.forallb_intro. intros x Hx. apply IH; [sz | exact (C01.forallb_In _ _ _ Hl Hx)].
  - destruct (is_and_or op); [|exact H]. apply andb_prop in H. destruct H as [H1 H2].
    rewrite (proj1 (IH l1 ltac:(sz) H1)), (proj1 (IH r1 ltac:(sz) H2)). reflexivity.
  - exact H.
  - destruct (IH e ltac:(sz) H) as [-> ->]. reflexivity.
  - apply IH; [sz | exact H].
  - apply IH; [sz | exact H].
  - reflexivity.
Qed.

Lemma gm_ext K K' : (forall i, K i = K' i) -> forall e, gm K e = gm K' e.
Proof.
  intros HK. induction e as [e IH] using C01.size_ind.
  dex e; cbn [gm]; try reflexivity.
  - f_equal. apply forallb_ext_In. intros x Hx. apply IH. sz.
  - rewrite (IH l1), (IH r1); [reflexivity | sz | sz].
  - apply HK.
  - rewrite (IH e); [reflexivity | sz].
  - apply forallb_ext_In. intros row Hrow. f_equal.
    assert (Hc : forall c, In (Some c) row -> gm K c = gm K' c).
    { intros c Hc. apply IH. exact (C01.size_cell cols rows row c Hrow Hc). }
    clear Hrow. generalize 0. induction row as [|[c|] row IHr]; intros i; cbn [rowck]; [reflexivity| |].
    + rewrite (Hc c (or_introl eq_refl)), IHr; [reflexivity|]. intros c' Hc'. apply Hc. right. exact Hc'.
    + apply IHr. intros c' Hc'. apply Hc. right. exact Hc'.
  - apply IH; sz.
  - apply IH; sz.
Qed.

(* ---- rows, semantically ---- *)
Fixpoint row_sem (n i : nat) (cells : list (option cellfn)) : Prop :=
  match cells with
  | [] => True
  | None :: rest => row_sem n (S i) rest
  | Some cell :: rest =>
      i < n /\
      (forall cache v, nth_error cache i = Some (Some v) -> C03.okr (cell (cache_doc cache))) /\
      row_sem n (S i) rest
  end.

Lemma row_cells_ok d cols : C03.npd d -> forall cells i cache,
  length cache = length cols -> row_sem (length cols) i cells ->
  exists r cache', row_cells d cols i cells cache = Ok (r, cache') /\ length cache' = length cols.
Proof.
  intros Hd. induction cells as [|[cell|] rest IH]; intros i cache Hlen Hs; cbn [row_cells].
  - eauto.
  - destruct Hs as (Hi & Hc & Hr).
    destruct (nth_error cache i) as [slot|] eqn:En.
    2:{ apply nth_error_None in En. lia. }
    destruct slot as [v|].
    + cbn [bind]. destruct (Hc cache v En) as [r Hr']. rewrite Hr'. cbn [bind].
      destruct r; eauto.
    + destruct (nth_error cols i) as [col|] eqn:Ec.
      2:{ apply nth_error_None in Ec. lia. }
      destruct (Hd col) as [x ->]. cbn [bind]. destruct x as [v|]; [|eauto].
      set (cache' := firstn i cache ++ [Some v] ++ skipn (S i) cache).
      assert (Hl' : length cache' = length cols).
      { unfold cache'. rewrite !app_length, firstn_length, skipn_length. cbn [length]. lia. }
      assert (Hn' : nth_error cache' i = Some (Some v)).
      { unfold cache'. rewrite nth_error_app2; rewrite firstn_length; [|lia].
        replace (i - Nat.min i (length cache)) with 0 by lia. reflexivity. }
      destruct (Hc cache' v Hn') as [r Hr']. rewrite Hr'. cbn [bind].
      destruct r; eauto.
  - apply IH; assumption.
Qed.

Lemma matrix_or_ok d cols : C03.npd d -> forall rows cache acc,
  Forall (row_sem (length cols) 0) rows -> length cache = length cols ->
  C03.okr (matrix_or d cols rows cache acc).
Proof.
  intros Hd. induction rows as [|row rows IH]; intros cache acc HF Hl; cbn [matrix_or]; [apply C03.okr_ok|].
  inversion HF as [|? ? H1 H2]; subst.
  destruct (row_cells_ok d cols Hd row 0 cache Hl H1) as (r & cache' & -> & Hl'). cbn [bind].
  destruct r; [apply C03.okr_ok | apply IH; assumption | apply IH; assumption].
Qed.

Lemma matrix_all_ok d cols : C03.npd d -> forall rows cache,
  Forall (row_sem (length cols) 0) rows -> length cache = length cols ->
  C03.okr (matrix_all d cols rows cache).
Proof.
  intros Hd. induction rows as [|row rows IH]; intros cache HF Hl; cbn [matrix_all]; [apply C03.okr_ok|].
  inversion HF as [|? ? H1 H2]; subst.
  destruct (row_cells_ok d cols Hd row 0 cache Hl H1) as (r & cache' & -> & Hl'). cbn [bind].
  destruct r; [apply IH; assumption | apply C03.okr_ok | apply C03.okr_ok].
Qed.

Lemma matrix_of_ok d cols : C03.npd d -> forall rows cache c hits acc,
  Forall (row_sem (length cols) 0) rows -> length cache = length cols ->
  C03.okr (matrix_of d cols rows cache c hits acc).
Proof.
  intros Hd. induction rows as [|row rows IH]; intros cache c hits acc HF Hl; cbn [matrix_of]; [apply C03.okr_ok|].
  inversion HF as [|? ? H1 H2]; subst.
  destruct (row_cells_ok d cols Hd row 0 cache Hl H1) as (r & cache' & -> & Hl'). cbn [bind].
  destruct r; [|apply IH; assumption | apply IH; assumption].
  destruct (c <=? hits + 1)%Z; [apply C03.okr_ok | apply IH; assumption].
Qed.

Lemma empty_cache_length cols : length (empty_cache cols) = length cols.
Proof. unfold empty_cache. apply map_length. Qed.

Lemma row_syn_sem (slv : expr -> docq -> out res3) K n : forall row i,
  rowck (gm K) i row = true -> i + length row <= n ->
  (forall c, In (Some c) row -> forall j, cell_key j c = true -> gm K c = true ->
             forall cache v, nth_error cache j = Some (Some v) -> C03.okr (slv c (cache_doc cache))) ->
  row_sem n i (map (option_map (fun cell d' => slv cell d')) row).
Proof.
  induction row as [|[c|] row IH]; intros i Hck Hlen Hc; cbn [map option_map row_sem]; [exact I| |].
  - cbn [rowck] in Hck. apply andb_prop in Hck. destruct Hck as [Hck Hrest].
    apply andb_prop in Hck. destruct Hck as [Hkey Hg]. cbn [length] in Hlen.
    split; [lia|]. split.
    + intros cache v Hn. exact (Hc c (or_introl eq_refl) i Hkey Hg cache v Hn).
    + apply IH; [exact Hrest | lia |]. intros c' Hc'. apply Hc. right. exact Hc'.
  - cbn [rowck] in Hck. cbn [length] in Hlen. apply IH; [exact Hck | lia |].
    intros c' Hc'. apply Hc. right. exact Hc'.
Qed.

Lemma rows_syn_sem (slv : expr -> docq -> out res3) K cols rows :
  gm K (EMatrix cols rows) = true ->
  (forall row c, In row rows -> In (Some c) row -> forall j, cell_key j c = true -> gm K c = true ->
             forall cache v, nth_error cache j = Some (Some v) -> C03.okr (slv c (cache_doc cache))) ->
  Forall (row_sem (length cols) 0) (map (map (option_map (fun cell d' => slv cell d'))) rows).
Proof.
  intros Hg Hc. cbn [gm] in Hg. rewrite Forall_map. apply Forall_forall. intros row Hrow.
  pose proof (C01.forallb_In _ _ _ Hg Hrow) as Hr. cbn beta in Hr.
  apply andb_prop in Hr. destruct Hr as [Hlen Hck]. apply Nat.eqb_eq in Hlen.
  apply (row_syn_sem slv K); [exact Hck | lia |]. intros c Hin. exact (Hc row c Hrow Hin).
Qed.

Lemma str_eqb_true a : forall b, str_eqb a b = true -> a = b.
Proof.
  induction a as [|x a IH]; intros [|y b] H; cbn [str_eqb] in H; try discriminate H; [reflexivity|].
  apply andb_prop in H. destruct H as [H1 H2]. apply N.eqb_eq in H1. subst. f_equal. apply IH. exact H2.
Qed.

Lemma cache_doc_key cache j v : nth_error cache j = Some v -> cache_doc cache [N.of_nat j] = Ok v.
Proof. intros H. unfold cache_doc. rewrite Nat2N.id, H. reflexivity. Qed.

Lemma solve_compare_cell o d l op r k v :
  left_field l = Some k -> is_const r = true -> d k = Ok v ->
  C03.okr (solve_compare o d l op r).
Proof.
  intros Hl Hr Hd.
  destruct l as [ | | | f m | f | | | | | | | | | ]; try discriminate Hl; injection Hl as ->;
    destruct r; try discriminate Hr; try destruct m; destruct op;
    cbn [solve_compare operand_of]; rewrite ?Hd; cbn [bind];
    repeat match goal with
           | |- C03.okr (Ok _) => apply C03.okr_ok
           | |- C03.okr (match ?x with _ => _ end) => destruct x; cbn [bind]
           | |- C03.okr (bind (Ok _) _) => cbn [bind]
           end.
Qed.

Lemma solve_nested_ok o ids body f e d x :
  d f = Ok x ->
  (forall kv, C03.okr (solve o ids body e (obj_doc kv))) ->
  (forall members, e = EMatch MAll (EGroup BOr members) ->
     forall m, In m members -> forall kv, C03.okr (solve o ids body m (obj_doc kv))) ->
  (forall cols rows, e <> EMatch MAll (EMatrix cols rows)) ->
  C03.okr (solve o ids body (ENested f e) d).
Proof.
  intros Hd He Hmem Hnm. cbn [solve]. rewrite Hd. cbn [bind].
  destruct x as [v|]; [|apply C03.okr_ok].
  destruct v as [ | b | x | z | z | s | a | kv ]; try apply C03.okr_ok; [|apply He].
  cbv zeta.
  destruct e as [ s g | l1 op r1 | b | f0 m | f0 | x | i | z | k e' | cols rows | e' | f0 e' | | s f0 cst ];
    try exact (C03.any_true_ok _ He _).
  destruct k as [|c]; [|exact (C03.any_true_ok _ He _)].
  destruct e' as [ s g | l1 op r1 | b | f0 m | f0 | x | i | z | k e'' | cols rows | e'' | f0 e'' | | s f0 cst ];
    try exact (C03.any_true_ok _ He _).
  - destruct s; try exact (C03.any_true_ok _ He _).
    apply C03.and_fold_ok. unfold C03.lazies_ok. rewrite Forall_map. apply Forall_forall.
    intros m Hm. apply C03.some_object_ok. intros kv. exact (Hmem g eq_refl m Hm kv).
  - exfalso. exact (Hnm cols rows eq_refl).
Qed.

Section SolveM.
Variable o : oracles.
Variable ids : list (str * expr).
Variable body : expr -> docq -> out res3.

(* what the solver needs of an identifier body (cf. C03.bodyQ), a matrix now allowed *)
Definition bodyQm (b : expr) : Prop :=
  (forall d, C03.npd d -> C03.okr (body b d)) /\
  (forall s g, b = EGroup s g -> forall x, In x g -> forall d, C03.npd d -> C03.okr (body x d)) /\
  (forall cs rs, b = EMatrix cs rs -> Forall (row_sem (length cs) 0) (cells_of body rs)).

Hypothesis Hids : forall i b, lookup i ids = Some b -> bodyQm b.

Lemma match_all_m b d : bodyQm b -> C03.npd d -> C03.okr (match_all o body b d).
Proof.
  intros (Q1 & Q2 & Q3) Hd.
  destruct b as [ s g | l1 op' r1 | b | f m | f | x | s | z | k e | cols rows | e | f e | | s f cst ];
    try exact (Q1 d Hd).
  - cbn [match_all]. apply matrix_all_ok; [exact Hd | exact (Q3 _ _ eq_refl) | apply empty_cache_length].
  - destruct s; try exact (Q1 d Hd); cbn [match_all]; apply C03.field_search_ok; exact Hd.
Qed.

Lemma match_of_m b d c : bodyQm b -> C03.npd d -> C03.okr (match_of o body b d c).
Proof.
  intros (Q1 & Q2 & Q3) Hd. unfold match_of.
  destruct (Q1 d Hd) as [r Hr].
  destruct (c =? 0)%Z; [rewrite Hr; cbn [bind]; apply C03.okr_ok|].
  destruct b as [ s g | l1 op' r1 | b | f m | f | x | s | z | k e | cols rows | e | f e | | s f cst ];
    try (rewrite Hr; cbn [bind]; apply C03.okr_ok).
  - apply matrix_of_ok; [exact Hd | exact (Q3 _ _ eq_refl) | apply empty_cache_length].
  - destruct s; try (rewrite Hr; cbn [bind]; apply C03.okr_ok); apply C03.field_search_ok; exact Hd.
Qed.

Definition Kids : str -> bool := keys_of ids.

Lemma cell_sem c :
  (forall e', expr_size e' < expr_size c -> gm Kids e' = true ->
              forall d, C03.npd d -> C03.okr (solve o ids body e' d)) ->
  forall j, cell_key j c = true -> gm Kids c = true ->
  forall cache v, nth_error cache j = Some (Some v) ->
  C03.okr (solve o ids body c (cache_doc cache)).
Proof.
  intros IH j Hkey Hg cache v Hn.
  pose proof (cache_doc_key cache j (Some v) Hn) as Hd.
  destruct c as [ s g | l1 op r1 | b | f m | f | x | i | z | k e | cols rows | e | f e | | s f cst ];
    cbn [cell_key] in Hkey; try discriminate Hkey.
  - destruct (left_field l1) as [k|] eqn:El; [|discriminate Hkey].
    apply andb_prop in Hkey. destruct Hkey as [Hkey Hop]. apply andb_prop in Hkey. destruct Hkey as [Hk Hc].
    apply str_eqb_true in Hk. subst k.
    cbn [solve]. destruct op; try discriminate Hop; exact (solve_compare_cell o _ _ _ _ _ _ El Hc Hd).
  - apply str_eqb_true in Hkey. subst f. cbn [gm] in Hg.
    apply (solve_nested_ok o ids body _ e _ _ Hd).
    + intros kv. apply IH; [sz | exact Hg | apply C03.npd_obj].
    + intros members -> m Hm kv. cbn [gm is_matrix negb andb is_and_or] in Hg.
      apply IH; [| exact (C01.forallb_In _ _ _ Hg Hm) | apply C03.npd_obj].
      pose proof (C01.size_member BOr members m Hm). cbn [expr_size] in *. lia.
    + intros cols rows ->. cbn [gm is_matrix negb andb] in Hg. discriminate Hg.
  - apply str_eqb_true in Hkey. subst f. cbn [solve]. unfold field_search. rewrite Hd. cbn [bind].
    apply C03.okr_ok.
Qed.

Lemma solve_m_ok : forall e, gm Kids e = true -> forall d, C03.npd d -> C03.okr (solve o ids body e d).
Proof.
  induction e as [e IH] using C01.size_ind. intros Hwf d Hd.
  assert (Hl : forall l d, (forall x, In x l -> expr_size x < expr_size e) ->
                 forallb (gm Kids) l = true -> C03.npd d ->
                 C03.lazies_ok (map (fun x (_ : unit) => solve o ids body x d) l)).
  { intros l d0 Hsz Hall Hd0. unfold C03.lazies_ok. rewrite Forall_map. apply Forall_forall.
    intros x Hx. apply IH; [exact (Hsz x Hx) | exact (C01.forallb_In _ _ _ Hall Hx) | exact Hd0]. }
  destruct e as [ s g | l1 op r1 | b | f m | f | x | i | z | k e | cols rows | e | f e | | s f cst ];
    cbn [gm] in Hwf; try discriminate Hwf.
  - (* EGroup *)
    apply andb_prop in Hwf. destruct Hwf as [Hop Hall].
    assert (HF := Hl g d (fun x Hx => C01.size_member s g x Hx) Hall Hd).
    destruct s; try discriminate Hop; cbn [solve].
    + apply C03.and_fold_ok. exact HF.
    + apply C03.or_fold_ok. exact HF.
  - (* EBexp *)
    destruct op; cbn [is_and_or] in Hwf; cbn [solve]; try (apply C03.solve_compare_ok; exact Hd).
    + apply andb_prop in Hwf. destruct Hwf as [H1 H2].
      apply C03.and2_ok; apply IH; try assumption; sz.
    + apply andb_prop in Hwf. destruct Hwf as [H1 H2].
      apply C03.or2_ok; apply IH; try assumption; sz.
  - (* EIdent *)
    cbn [solve]. unfold Kids, keys_of, has_key in Hwf.
    destruct (lookup i ids) as [b|] eqn:El; [|discriminate Hwf].
    destruct (Hids _ _ El) as (Q1 & _). apply Q1. exact Hd.
  - (* EMatch *)
    apply andb_prop in Hwf. destruct Hwf as [Hnm Hwf].
    assert (He : forall d, C03.npd d -> C03.okr (solve o ids body e d)).
    { intros d0 Hd0. apply IH; [sz | exact Hwf | exact Hd0]. }
    destruct k as [|c].
    + destruct e as [ s g | l1 op r1 | b | f m | f | x | i | z | k e' | cols rows | e' | f e' | | s f cst ];
        cbn [gm] in Hwf; try discriminate Hwf; try discriminate Hnm; try exact (He d Hd).
      * apply andb_prop in Hwf. destruct Hwf as [Hop Hall].
        cbn [solve]. apply C03.and_fold_ok. apply Hl; [| exact Hall | exact Hd].
        intros x Hx. pose proof (C01.size_member s g x Hx). cbn [expr_size] in *. lia.
      * cbn [solve]. unfold Kids, keys_of, has_key in Hwf.
        destruct (lookup i ids) as [b|] eqn:El; [|discriminate Hwf].
        pose proof (Hids _ _ El) as HQ.
        destruct b as [ s g | l1 op' r1 | b | f m | f | x | s | z | k e | cols rows | e | f e | | s f cst ];
          try exact (match_all_m _ d HQ Hd).
        destruct HQ as (_ & Q2 & _).
        apply C03.and_fold_ok. apply C03.body_lazies; [exact (Q2 _ _ eq_refl) | exact Hd].
      * destruct s; try exact (He d Hd); cbn [solve]; apply C03.field_search_ok; exact Hd.
    + destruct e as [ s g | l1 op r1 | b | f m | f | x | i | z | k e' | cols rows | e' | f e' | | s f cst ];
        cbn [gm] in Hwf; try discriminate Hwf; try discriminate Hnm;
        try exact (C03.mof_default c _ (He d Hd)).
      * apply andb_prop in Hwf. destruct Hwf as [Hop Hall].
        cbn [solve]. apply C03.of_fold_ok. apply Hl; [| exact Hall | exact Hd].
        intros x Hx. pose proof (C01.size_member s g x Hx). cbn [expr_size] in *. lia.
      * cbn [solve]. unfold Kids, keys_of, has_key in Hwf.
        destruct (lookup i ids) as [b|] eqn:El; [|discriminate Hwf].
        pose proof (Hids _ _ El) as HQ.
        destruct b as [ s g | l1 op' r1 | b | f m | f | x | s | z | k e | cols rows | e | f e | | s f cst ];
          try exact (match_of_m _ d c HQ Hd).
        destruct HQ as (_ & Q2 & _).
        apply C03.of_fold_ok. apply C03.body_lazies; [exact (Q2 _ _ eq_refl) | exact Hd].
      * destruct s; try exact (C03.mof_default c _ (He d Hd));
          cbn [solve]; (destruct (c =? 0)%Z;
            [ destruct (He d Hd) as [r Hr]; cbn [solve] in Hr; rewrite Hr; cbn [bind]; apply C03.okr_ok
            | apply C03.field_search_ok; exact Hd ]).
  - (* EMatrix *)
    cbn [solve]. apply matrix_or_ok; [exact Hd | | apply empty_cache_length].
    apply (rows_syn_sem (solve o ids body) Kids cols rows Hwf).
    intros row c0 Hrow Hc0 j Hkey Hg cache v Hn.
    apply (cell_sem c0) with (j := j) (v := v); try assumption.
    intros e' Hsz He' d0 Hd0. apply IH; [|exact He' | exact Hd0].
    pose proof (C01.size_cell cols rows row c0 Hrow Hc0). lia.
  - (* ENegate *)
    cbn [solve]. destruct (IH e ltac:(sz) Hwf d Hd) as [r ->]. cbn [bind]. apply C03.okr_ok.
  - (* ENested *)
    destruct (Hd f) as [x Hx].
    apply (solve_nested_ok o ids body f e d x Hx).
    + intros kv. apply IH; [sz | exact Hwf | apply C03.npd_obj].
    + intros members -> m Hm kv. cbn [gm is_matrix negb andb is_and_or] in Hwf.
      apply IH; [| exact (C01.forallb_In _ _ _ Hwf Hm) | apply C03.npd_obj].
      pose proof (C01.size_member BOr members m Hm). cbn [expr_size] in *. lia.
    + intros cols rows ->. cbn [gm is_matrix negb andb] in Hwf. discriminate Hwf.
  - (* ESearch *)
    cbn [solve]. apply C03.field_search_ok. exact Hd.
Qed.

End SolveM.

Lemma solve_body_m o b d : gm nokey b = true -> C03.npd d -> C03.okr (solve_body o b d).
Proof.
  intros Hg Hd. unfold solve_body.
  apply (solve_m_ok o [] (fun _ _ => Panic 591)); [|exact Hg | exact Hd].
  intros i b0 H. cbn [lookup] in H. discriminate H.
Qed.

Lemma bodyQm_body o b : gm nokey b = true -> bodyQm (solve_body o) b.
Proof.
  intros Hg. split; [|split].
  - intros d Hd. apply solve_body_m; assumption.
  - intros s g -> x Hx d Hd. apply solve_body_m; [|exact Hd].
    cbn [gm] in Hg. apply andb_prop in Hg. destruct Hg as [_ Hall].
    exact (C01.forallb_In _ _ _ Hall Hx).
  - intros cs rs ->. unfold cells_of.
    apply (rows_syn_sem (solve_body o) nokey cs rs Hg).
    intros row c Hrow Hc j Hkey Hgc cache v Hn. unfold solve_body.
    apply (cell_sem o [] (fun _ _ => Panic 591)) with (j := j) (v := v); try assumption.
    intros e' _ He' d0 Hd0. apply (solve_body_m o e' d0 He' Hd0).
Qed.

Lemma solve_cond_m o ids e d :
  gm (keys_of ids) e = true -> Forall (fun kv : str * expr => gm nokey (snd kv) = true) ids ->
  C03.npd d -> C03.okr (solve_cond o ids e d).
Proof.
  intros Hc Hb Hd. unfold solve_cond. apply solve_m_ok; [|exact Hc | exact Hd].
  intros i b Hl. apply bodyQm_body. destruct (C03.lookup_in _ _ _ Hl) as [k Hk].
  rewrite Forall_forall in Hb. exact (Hb _ Hk).
Qed.

(* ------------------------------------------------------------------------------------ *)
(* (H) outside D18/D21 matrix builds well-formed matrices                                *)
(* ------------------------------------------------------------------------------------ *)

Lemma str_eqb_same a : str_eqb a a = true.
Proof. induction a as [|x a IH]; [reflexivity|]. cbn [str_eqb]. rewrite N.eqb_refl, IH. reflexivity. Qed.

Lemma column_key_inv i k : column_key i = Ok k -> k = [N.of_nat i].
Proof.
  unfold column_key. cbv zeta. destruct (_ || _); intros H; [discriminate H|]. inversion H; reflexivity.
Qed.

Lemma row_single_good (g : expr -> bool) mk f :
  (forall i, cell_key i (mk [N.of_nat i]) = true /\ g (mk [N.of_nat i]) = true) ->
  forall cols i row, row_single cols i f mk = Ok row ->
  length row = length cols /\ rowck g i row = true.
Proof.
  intros Hmk. induction cols as [|col cols IH]; intros i row H; cbn [row_single] in H.
  - inversion H; subst. split; reflexivity.
  - destruct (str_eqb col f).
    + apply C03.bind_ok_inv in H. destruct H as (k & Hk & H).
      apply C03.bind_ok_inv in H. destruct H as (tl' & Ht & H). inversion H; subst.
      apply column_key_inv in Hk. subst k. destruct (IH _ _ Ht) as [L R].
      cbn [length rowck]. destruct (Hmk i) as [-> ->]. rewrite R, L. split; reflexivity.
    + apply C03.bind_ok_inv in H. destruct H as (tl' & Ht & H). inversion H; subst.
      destruct (IH _ _ Ht) as [L R]. cbn [length rowck]. rewrite L. split; [reflexivity | exact R].
Qed.

Definition cellable (g : expr -> bool) (x : expr) : Prop :=
  forall i, exists c, cell_of [N.of_nat i] x = Some (Some c) /\ cell_key i c = true /\ g c = true.

Lemma row_of_lookup_good (g : expr -> bool) m :
  (forall f x, lookup f m = Some x -> cellable g x) ->
  forall cols i row, row_of_lookup cols i m = Ok row ->
  length row = length cols /\ rowck g i row = true.
Proof.
  intros Hm. induction cols as [|col cols IH]; intros i row H; cbn [row_of_lookup] in H.
  - inversion H; subst. split; reflexivity.
  - destruct (lookup col m) as [x|] eqn:El.
    + apply C03.bind_ok_inv in H. destruct H as (k & Hk & H).
      apply C03.bind_ok_inv in H. destruct H as (tl' & Ht & H). inversion H; subst.
      apply column_key_inv in Hk. subst k. destruct (IH _ _ Ht) as [L R].
      destruct (Hm _ _ El i) as (c & -> & Ck & Cg).
      cbn [length rowck]. rewrite Ck, Cg, R, L. split; reflexivity.
    + apply C03.bind_ok_inv in H. destruct H as (tl' & Ht & H). inversion H; subst.
      destruct (IH _ _ Ht) as [L R]. cbn [length rowck]. rewrite L. split; [reflexivity | exact R].
Qed.

Lemma valid1_cellable K x : gm K x = true -> conj_valid1 x = true -> cellable (gm K) x.
Proof.
  intros Hg Hv i.
  destruct x as [ s g | l1 op r1 | b | f m | f | y | j | z | k e | cols rows | e | f e | | s f cst ];
    cbn [conj_valid1] in Hv; try discriminate Hv.
  - destruct (left_field l1) as [f|] eqn:El; [|discriminate Hv].
    cbn [gm] in Hg. destruct (is_and_or op) eqn:Eop.
    { destruct l1; try discriminate El; cbn [gm andb] in Hg; discriminate Hg. }
    apply andb_prop in Hg. destruct Hg as [_ Hr].
    destruct l1; try discriminate El; cbn [cell_of]; eexists; (split; [reflexivity|]);
      cbn [cell_key left_field gm]; rewrite str_eqb_same, Hv, Eop, Hr; split; reflexivity.
  - cbn [cell_of]. eexists. split; [reflexivity|]. cbn [cell_key gm]. rewrite str_eqb_same.
    split; [reflexivity | exact Hg].
  - cbn [cell_of]. eexists. split; [reflexivity|]. cbn [cell_key gm]. rewrite str_eqb_same.
    split; reflexivity.
Qed.

Lemma conj_lookup_vals (P : expr -> Prop) : forall es m m',
  conj_lookup es m = Some m' ->
  Forall (fun kv => P (snd kv)) m -> Forall P es -> Forall (fun kv => P (snd kv)) m'.
Proof.
  induction es as [|x es IH]; intros m m' H Hm He; cbn [conj_lookup] in H.
  - inversion H; subst. exact Hm.
  - inversion He as [|? ? Hx He']; subst.
    assert (Hsn : forall f, Forall (fun kv : str * expr => P (snd kv)) (m ++ [(f, x)])).
    { intros f. apply C03.Forall_snoc; [exact Hm | exact Hx]. }
    destruct x; try discriminate H.
    + destruct (left_field x1) as [f|]; [|discriminate H].
      destruct (is_const x2); [|discriminate H].
      destruct (has_key f m); [discriminate H|]. exact (IH _ _ H (Hsn f) He').
    + destruct (has_key f m); [discriminate H|]. exact (IH _ _ H (Hsn f) He').
    + destruct (has_key f m); [discriminate H|]. exact (IH _ _ H (Hsn f) He').
Qed.

Definition rowok (K : str -> bool) (cols : list str) (row : list (option expr)) : bool :=
  (length row =? length cols)%nat && rowck (gm K) 0 row.

Lemma place_member_good K cols e p :
  gm K e = true -> d18_member e = false -> place_member cols e = Ok p ->
  (forall row, fst p = Some row -> rowok K cols row = true) /\
  (forall x, snd p = Some x -> gm K x = true).
Proof.
  intros Hg Hd H.
  assert (Hoth : p = (None, Some e) -> (forall row, fst p = Some row -> rowok K cols row = true) /\
                                       (forall x, snd p = Some x -> gm K x = true)).
  { intros ->. cbn [fst snd]. split; [intros row Hr; discriminate Hr|].
    intros x Hx. inversion Hx; subst. exact Hg. }
  assert (Hrow : forall row, (length row = length cols /\ rowck (gm K) 0 row = true) -> p = (Some row, None) ->
                 (forall row, fst p = Some row -> rowok K cols row = true) /\
                 (forall x, snd p = Some x -> gm K x = true)).
  { intros row [L R] ->. cbn [fst snd]. split; [|intros x Hx; discriminate Hx].
    intros row' Hr. inversion Hr; subst. unfold rowok. rewrite L, Nat.eqb_refl, R. reflexivity. }
  destruct e as [ s g | l1 op r1 | b | f m | f | y | j | z | k e | cols' rows | e | f e | | s f cst ];
    cbn [place_member] in H; try (inversion H; subst; apply Hoth; reflexivity).
  - destruct s; try (inversion H; subst; apply Hoth; reflexivity).
    destruct (conj_lookup g []) as [m|] eqn:Ec; [|inversion H; subst; apply Hoth; reflexivity].
    apply C03.bind_ok_inv in H. destruct H as (row & Hr & H). inversion H; subst.
    apply (Hrow row); [|reflexivity].
    cbn [d18_member] in Hd. rewrite Ec in Hd. rewrite andb_true_r in Hd. apply negb_false_iff in Hd.
    cbn [gm is_and_or andb] in Hg.
    apply (row_of_lookup_good (gm K) m); [|exact Hr].
    intros f x Hl. destruct (C03.lookup_in _ _ _ Hl) as [k Hk].
    assert (HF : Forall (fun kv : str * expr => cellable (gm K) (snd kv)) m).
    { apply (conj_lookup_vals (cellable (gm K)) g [] m Ec); [constructor|].
      apply Forall_forall. intros y0 Hy. apply valid1_cellable.
      - exact (C01.forallb_In _ _ _ Hg Hy).
      - exact (C01.forallb_In _ _ _ Hd Hy). }
    rewrite Forall_forall in HF. exact (HF _ Hk).
  - cbn [gm] in Hg.
    destruct l1; try (inversion H; subst; apply Hoth; reflexivity);
      (destruct (is_const r1) eqn:Ecst; [|inversion H; subst; apply Hoth; reflexivity]);
      (destruct (is_and_or op) eqn:Eop; [cbn [gm andb] in Hg; discriminate Hg|]);
      apply andb_prop in Hg; destruct Hg as [_ Hr1];
      apply C03.bind_ok_inv in H; destruct H as (row & Hr & H); inversion H; subst;
      (apply (Hrow row); [|reflexivity]);
      refine (row_single_good (gm K) _ _ _ _ _ _ Hr); intros i;
      cbn [cell_key left_field gm]; rewrite str_eqb_same, Ecst, Eop, Hr1; split; reflexivity.
  - apply C03.bind_ok_inv in H. destruct H as (row & Hr & H). inversion H; subst.
    apply (Hrow row); [|reflexivity].
    refine (row_single_good (gm K) _ _ _ _ _ _ Hr). intros i.
    cbn [cell_key gm]. rewrite str_eqb_same. split; [reflexivity | exact Hg].
  - apply C03.bind_ok_inv in H. destruct H as (row & Hr & H). inversion H; subst.
    apply (Hrow row); [|reflexivity].
    refine (row_single_good (gm K) _ _ _ _ _ _ Hr). intros i.
    cbn [cell_key gm]. rewrite str_eqb_same. split; reflexivity.
Qed.

Lemma place_all_good K cols : forall es rows others,
  Forall (fun x => gm K x = true) es -> existsb d18_member es = false ->
  place_all cols es = Ok (rows, others) ->
  forallb (rowok K cols) rows = true /\ forallb (gm K) others = true.
Proof.
  induction es as [|e es IH]; intros rows others Hg Hd H; cbn [place_all] in H.
  - inversion H; subst. split; reflexivity.
  - apply C03.bind_ok_inv in H. destruct H as (p & Hp & H).
    apply C03.bind_ok_inv in H. destruct H as ([rows' others'] & Hq & H). inversion H; subst; clear H.
    inversion Hg as [|? ? Hge Hges]; subst.
    cbn [existsb] in Hd. apply orb_false_iff in Hd. destruct Hd as [Hde Hdes].
    destruct (IH _ _ Hges Hdes Hq) as [R O].
    destruct (place_member_good K cols e p Hge Hde Hp) as [P1 P2].
    split.
    + destruct (fst p) as [r|]; [|exact R]. cbn [forallb]. rewrite (P1 r eq_refl), R. reflexivity.
    + destruct (snd p) as [x|]; [|exact O]. cbn [forallb]. rewrite (P2 x eq_refl), O. reflexivity.
Qed.

Lemma forallb_valid1_erase g : forallb conj_valid1 (map erase g) = forallb conj_valid1 g.
Proof.
  induction g as [|a g IH]; [reflexivity|]. cbn [map forallb]. rewrite conj_valid1_erase, IH. reflexivity.
Qed.

Lemma d18_member_erase e : d18_member (erase e) = d18_member e.
Proof.
  destruct e as [ s g | l1 op r1 | b | f m | f | y | j | z | k e | cols rows | e | f e | | s f cst ];
    try reflexivity.
  destruct s; try reflexivity. cbn [erase d18_member]. rewrite forallb_valid1_erase.
  change (@nil (str * expr)) with (erase_m []) at 1. rewrite conj_lookup_erase.
  destruct (conj_lookup g []); reflexivity.
Qed.

Lemma existsb_d18_erase l : existsb d18_member (map erase l) = existsb d18_member l.
Proof.
  induction l as [|a l IH]; [reflexivity|]. cbn [map existsb]. rewrite d18_member_erase, IH. reflexivity.
Qed.

Lemma matrix_leaf ord F x : leaf x = true -> matrix ord F x = Ok x.
Proof. destruct x; intros H; try discriminate H; reflexivity. Qed.

Section MatrixGood.
Variable ord : hord.
Hypothesis Hord : forall ks, length (ord ks) <= length ks.
Variable K : str -> bool.

Lemma matrix_gm0 : forall e neg, gk K e = true ->
  exists_sub (d18_here ord) neg e = false ->
  forall F e', matrix ord F e = Ok e' -> gm K e' = true.
Proof.
  induction e as [e IH] using C01.size_ind. intros neg Hg H18 F e' H.
  pose proof (proj1 (gk_gm K e Hg)) as Hgm.
  dex e; cbn [gk] in Hg; try discriminate Hg; try (inversion H; subst; exact Hgm);
    cbn [exists_sub] in H18;
    apply orb_false_iff in H18; destruct H18 as [Hh18 Hs18].
  - (* group *)
    apply andb_prop in Hg. destruct Hg as [Hs Hl].
    assert (Hmem : forall x y, In x g -> matrix ord F x = Ok y -> gm K y = true).
    { intros x y Hx Hy.
      apply (IH x ltac:(sz) neg (C01.forallb_In _ _ _ Hl Hx)
                (C01.existsb_false_In _ _ _ Hs18 Hx) F y Hy). }
    assert (Hsc : forall scratch, mapM (fun x => matrix ord F x) g = Ok scratch ->
                                  Forall (fun y => gm K y = true) scratch).
    { intros scratch Hm. apply C01.mapM_Forall2 in Hm. clear - Hm Hmem.
      induction Hm as [|x y l l' Hxy _ IHm]; constructor.
      - exact (Hmem x y (or_introl eq_refl) Hxy).
      - apply IHm. intros x0 y0 Hx0. apply Hmem. right. exact Hx0. }
    destruct s; try discriminate Hs.
    + cbn [matrix] in H. apply C03.bind_ok_inv in H. destruct H as (l' & Hm & H). inversion H; subst.
      cbn [gm is_and_or andb]. apply forallb_forall. apply Forall_forall. exact (Hsc _ Hm).
    + rewrite matrix_or_eq in H. apply C03.bind_ok_inv in H. destruct H as (scratch & Hm & H).
      pose proof (Hsc _ Hm) as Hgs.
      assert (HGS : gm K (EGroup BOr scratch) = true).
      { cbn [gm is_and_or andb]. apply forallb_forall. apply Forall_forall. exact Hgs. }
      destruct (matrix_table scratch) eqn:Et; [|inversion H; subst; exact HGS].
      pose proof (matrix_table_fires _ Et) as Ef.
      cbv zeta in H.
      apply C03.bind_ok_inv in H. destruct H as ([rows others] & Hp & H).
      assert (HE : map erase (members_k ord g) = map erase scratch).
      { apply (members_k_erase ord F g scratch); [|exact Hm].
        intros x Hx. exact (matrix_ok_all ord Hord x _). }
      cbn [d18_here] in Hh18. fold (members_k ord g) in Hh18.
      unfold matrix_fires in Hh18, Ef. rewrite (count_fields_erase_eq _ _ HE), Ef in Hh18.
      cbn [andb] in Hh18. rewrite <- existsb_d18_erase, HE, existsb_d18_erase in Hh18.
      destruct (place_all_good K _ scratch rows others Hgs Hh18 Hp) as [R O].
      set (cols := matrix_cols ord (count_fields scratch)) in *.
      assert (HX : forallb (gm K) ((match rows with [] => [] | _ => [EMatrix cols rows] end) ++ others) = true).
      { rewrite forallb_app, O, andb_true_r. destruct rows as [|r0 rows0]; [reflexivity|].
        cbn [forallb]. rewrite andb_true_r. cbn [gm]. exact R. }
      revert H HX. generalize ((match rows with [] => [] | _ => [EMatrix cols rows] end) ++ others).
      intros exprs H HX. destruct exprs as [|a [|b rest]]; inversion H; subst.
      * reflexivity.
      * cbn [forallb] in HX. rewrite andb_true_r in HX. exact HX.
      * cbn [gm is_and_or andb]. exact HX.
  - (* bexp *)
    cbn [matrix] in H. destruct (is_and_or op) eqn:Eop.
    + apply andb_prop in Hg. destruct Hg as [G1 G2].
      apply orb_false_iff in Hs18. destruct Hs18 as [A1 A2].
      apply C03.bind_ok_inv in H. destruct H as (l' & Hl' & H).
      apply C03.bind_ok_inv in H. destruct H as (r' & Hr' & H). inversion H; subst.
      assert (S1 : expr_size l1 < expr_size (EBexp l1 op r1))
        by (cbn [expr_size]; apply le_n_S, Nat.le_add_r).
      assert (S2 : expr_size r1 < expr_size (EBexp l1 op r1))
        by (cbn [expr_size]; apply le_n_S; rewrite Nat.add_comm; apply Nat.le_add_r).
      pose proof (IH l1 S1 neg G1 A1 F l' Hl') as R1.
      pose proof (IH r1 S2 neg G2 A2 F r' Hr') as R2.
      cbn [gm]. rewrite Eop, R1, R2. reflexivity.
    + apply andb_prop in Hg. destruct Hg as [G1 G2].
      rewrite (matrix_leaf ord F l1 G1), (matrix_leaf ord F r1 G2) in H. cbn [bind] in H.
      inversion H; subst. exact Hgm.
  - (* match *)
    cbn [matrix] in H.
    assert (Hd : gk K (EMatch k (shake1 ord F e)) = true) by (cbn [gk]; apply shake1_good; exact Hg).
    destruct e; try (inversion H; subst; exact (proj1 (gk_gm K _ Hd))).
    inversion H; subst. apply (gk_gm K). cbn [gk] in Hg |- *.
    apply andb_prop in Hg. destruct Hg as [Hs Hl]. rewrite Hs. cbn [andb].
    apply forallb_forall. intros y Hy. apply in_map_iff in Hy. destruct Hy as (x & <- & Hx).
    apply shake1_good. exact (C01.forallb_In _ _ _ Hl Hx).
  - (* negate *)
    cbn [matrix] in H. apply C03.bind_ok_inv in H. destruct H as (x & Hx & H). inversion H; subst.
    cbn [gm]. exact (IH e ltac:(sz) true Hg Hs18 F x Hx).
  - (* nested *)
    cbn [matrix] in H. apply C03.bind_ok_inv in H. destruct H as (x & Hx & H). inversion H; subst.
    cbn [gm]. exact (IH e ltac:(sz) neg Hg Hs18 F x Hx).
Qed.

(* (the D21 hypothesis is no longer needed; statement kept for the users of this lemma) *)
Lemma matrix_gm : forall e neg, gk K e = true ->
  exists_sub (d18_here ord) neg e = false -> exists_sub (d21_here ord) neg e = false ->
  forall F e', matrix ord F e = Ok e' -> gm K e' = true.
Proof. intros e neg Hg H18 _. exact (matrix_gm0 e neg Hg H18). Qed.

End MatrixGood.

Lemma map_ids_inv (f : expr -> out expr) : forall ids ids', map_ids f ids = Ok ids' ->
  map fst ids' = map fst ids /\
  Forall2 (fun kv kv' : str * expr => f (snd kv) = Ok (snd kv')) ids ids'.
Proof.
  unfold map_ids. induction ids as [|[k e] ids IH]; intros ids' H.
  - inversion H; subst. split; [reflexivity | constructor].
  - rewrite mapM_cons in H. cbn [fst snd] in H.
    destruct (f e) as [e'| |] eqn:Ef; cbn [bind] in H; try discriminate H.
    destruct (mapM _ ids) as [tl'| |] eqn:Et; try discriminate H.
    inversion H; subst. destruct (IH _ eq_refl) as [I1 I2]. split.
    + cbn [map fst]. rewrite I1. reflexivity.
    + constructor; [exact Ef | exact I2].
Qed.

(* fix D15/D20: matrix runs on every entry of a body *)
Lemma entries_matrix_gm ord b b' neg :
  (forall ks, (length (ord ks) <= length ks)%nat) ->
  gb b = true -> exists_sub (d18_here ord) neg b = false ->
  entries (fun x => matrix ord (shake_fuel x) x) b = Ok b' -> gm nokey b' = true.
Proof.
  intros Hord Hg H18 H. apply C01.entries_inv in H.
  destruct b as [s l| | | | | | | | | | | | |];
    try exact (matrix_gm0 ord Hord nokey _ neg Hg H18 _ _ H).
  destruct H as [l' [-> HF]]. unfold gb in Hg. cbn [gk] in Hg. apply andb_prop in Hg.
  destruct Hg as [Hs Hl]. cbn [gm]. rewrite Hs. cbn [andb].
  eapply C01.Forall2_forallb; [exact HF|]. intros x y Hx Hxy. cbn beta in Hxy.
  exact (matrix_gm0 ord Hord nokey x neg (C01.forallb_In _ _ _ Hl Hx)
           (C01.exists_sub_member _ _ _ _ _ H18 Hx) _ _ Hxy).
Qed.

Lemma matches_of_solve o r (d : doc) :
  (exists x, solve_rule3 o (r_det r) (pure_doc d) = Ok x) -> exists b, matches o r d = Ok b.
Proof. intros [x Hx]. unfold matches. rewrite Hx. cbn [bind]. eexists; reflexivity. Qed.

(* ---- theorem 5 ---- *)
Lemma optimised_evaluates : forall o ic ord sw y r r' (d : doc),
  (forall ks, (length (ord ks) <= length ks)%nat) ->
  load_rule o ic y = Ok r ->
  known_d18 o ord sw (r_det r) = false -> known_d21 o ord sw (r_det r) = false ->
  optimise o ord sw r = Ok r' ->
  exists b, matches o r' d = Ok b.
Proof.
  intros o ic ord sw y r r' d Hord Hl H18 H21 H.
  destruct (sw_matrix sw) eqn:Em.
  2:{ exact (proj1 (optimised_no_matrix_evaluates o ic ord sw y r r' d Hl Em H)). }
  unfold optimise in H. destruct (r_optimised r).
  { inversion H; subst. exact (proj1 (C03.loaded_rule_evaluates o ic y r' d Hl)). }
  apply C03.bind_ok_inv in H. destruct H as (dt' & Hdt & H). inversion H; subst; clear H.
  cbn [r_det]. apply matches_of_solve. cbn [r_det].
  rewrite optimise_detection_stage in Hdt.
  destruct (no_matrix_stage_good o ord sw _ (load_good _ _ _ _ Hl)) as (s3 & Hs & [Gc Gi]).
  rewrite Hs, Em in Hdt. cbn [bind] in Hdt.
  apply C03.bind_ok_inv in Hdt. destruct Hdt as (e' & He' & Hdt).
  apply C03.bind_ok_inv in Hdt. destruct Hdt as (ids' & Hids' & Hdt). inversion Hdt; subst; clear Hdt.
  unfold known_d18 in H18. unfold known_d21 in H21.
  rewrite Em, (no_matrix_stage_pre _ _ _ _ _ Hs) in H18, H21. cbn [andb] in H18, H21.
  unfold any_tree in H18, H21. cbn [fst snd] in H18, H21.
  apply orb_false_iff in H18. destruct H18 as [A1 A2].
  apply orb_false_iff in H21. destruct H21 as [B1 B2].
  destruct (map_ids_inv _ _ _ Hids') as [Hfst HF2].
  unfold solve_rule3. cbn [d_expr d_ids]. apply solve_cond_m.
  - rewrite (gm_ext _ (keys_of (d_ids s3))).
    + exact (matrix_gm ord Hord _ _ _ Gc A1 B1 _ _ He').
    + intros i. unfold keys_of. apply has_key_fst. exact Hfst.
  - set (bn := body_neg (d_expr s3, d_ids s3)) in A2, B2. clearbody bn.
    clear - HF2 Gi A2 B2 Hord. unfold gids in Gi.
    induction HF2 as [|kv kv' l l' Hkv _ IH]; constructor.
    + inversion Gi; subst. cbn [existsb] in A2, B2.
      apply orb_false_iff in A2. apply orb_false_iff in B2.
      exact (entries_matrix_gm ord _ _ _ Hord H1 (proj1 A2) Hkv).
    + inversion Gi; subst. cbn [existsb] in A2, B2.
      apply orb_false_iff in A2. apply orb_false_iff in B2.
      apply IH; [exact (proj2 A2) | exact (proj2 B2) | assumption].
  - apply C03.npd_pure.
Qed.

(* ------------------------------------------------------------------------------------ *)
(* after the D18/D19 repair (conj_lookup accepts only what the first scan counts) the    *)
(* class D18 is empty                                                                    *)
(* ------------------------------------------------------------------------------------ *)
Lemma conj_lookup_valid1 : forall es m m', conj_lookup es m = Some m' -> forallb conj_valid1 es = true.
Proof.
  induction es as [|x es IH]; intros m m' H; [reflexivity|]. cbn [conj_lookup] in H. cbn [forallb].
  destruct x; try discriminate H; cbn [conj_valid1].
  - destruct (left_field x1) as [f|]; [|discriminate H].
    destruct (is_const x2); [|discriminate H].
    destruct (has_key f m); [discriminate H|]. exact (IH _ _ H).
  - destruct (has_key f m); [discriminate H|]. exact (IH _ _ H).
  - destruct (has_key f m); [discriminate H|]. exact (IH _ _ H).
Qed.

Lemma d18_member_never : forall e, d18_member e = false.
Proof.
  intros e. destruct e as [s g| | | | | | | | | | | | |]; try reflexivity.
  destruct s; try reflexivity. cbn [d18_member].
  destruct (conj_lookup g []) as [m|] eqn:E; [|apply andb_false_r].
  rewrite (conj_lookup_valid1 g [] m E). reflexivity.
Qed.

Lemma d18_here_never : forall ord neg x, d18_here ord neg x = false.
Proof.
  intros ord neg x. destruct x as [s l| | | | | | | | | | | | |]; try reflexivity.
  destruct s; try reflexivity. cbn [d18_here]. cbv zeta.
  replace (existsb d18_member (map (fun e => ok_or (matrix ord (shake_fuel e) e) e) l)) with false.
  - apply andb_false_r.
  - symmetry. induction (map (fun e => ok_or (matrix ord (shake_fuel e) e) e) l) as [|a l' IH]; [reflexivity|].
    cbn [existsb]. rewrite d18_member_never. exact IH.
Qed.

Lemma exists_sub_never : forall (p : bool -> expr -> bool), (forall n x, p n x = false) ->
  forall e n, exists_sub p n e = false.
Proof.
  intros p Hp. induction e as [e IH] using C01.size_ind. intros n.
  destruct e as [ s g | l1 op r1 | b | f m0 | f | y | i | z | k e | cols rows | e | f e | | s f cst ];
    cbn [exists_sub]; rewrite Hp; cbn [orb]; try reflexivity.
  - induction g as [|a g IHg]; [reflexivity|]. cbn [existsb].
    rewrite (IH a (C01.size_member s (a :: g) a (or_introl eq_refl))). cbn [orb].
    apply IHg. intros e' He'. apply IH. cbn [expr_size fold_right] in *. lia.
  - rewrite (IH l1), (IH r1); [reflexivity | cbn [expr_size]; lia | cbn [expr_size]; lia].
  - destruct k; apply IH; cbn [expr_size]; lia.
  - assert (Hc : forall row x, In row rows -> In (Some x) row -> forall n', exists_sub p n' x = false).
    { intros row x Hr Hx n'. apply IH. apply (C01.size_cell cols rows row x Hr Hx). }
    clear IH. induction rows as [|row rows IHr]; [reflexivity|]. cbn [existsb].
    replace (existsb (fun c => match c with Some x => exists_sub p n x | None => false end) row) with false.
    + cbn [orb]. apply IHr. intros row' x Hr Hx. apply (Hc row' x); [right; exact Hr | exact Hx].
    + symmetry. assert (Hrow : forall x, In (Some x) row -> exists_sub p n x = false).
      { intros x Hx. apply (Hc row x (or_introl eq_refl) Hx). }
      clear -Hrow. induction row as [|c row IHc]; [reflexivity|]. cbn [existsb].
      destruct c as [x|].
      * rewrite (Hrow x (or_introl eq_refl)). cbn [orb]. apply IHc. intros y Hy. apply Hrow. right. exact Hy.
      * cbn [orb]. apply IHc. intros y Hy. apply Hrow. right. exact Hy.
  - apply IH. cbn [expr_size]. lia.
  - apply IH. cbn [expr_size]. lia.
Qed.

Lemma known_d18_never : forall o ord sw dt, known_d18 o ord sw dt = false.
Proof.
  intros o ord sw dt. unfold known_d18. destruct (sw_matrix sw); [|reflexivity]. cbn [andb].
  unfold any_tree. rewrite (exists_sub_never _ (d18_here_never ord)). cbn [orb].
  induction (snd (pre_matrix o ord sw dt)) as [|b l IH]; [reflexivity|].
  cbn [existsb]. rewrite (exists_sub_never _ (d18_here_never ord)). exact IH.
Qed.
