(* C13  validate() agrees with matches() on the rule's own examples: proofs. *)
From TauModel Require Import Base Num Oracles Syntax Value Yaml Solver Rule.
From Coq Require Import Lia ZArith List Bool.
Import ListNotations.

(* ---- helper definitions, identical to those of Properties/C13.v ---- *)
Definition example_fails (o : oracles) (r : rule) (want : bool) (y : yaml) : Prop :=
  match example_doc y with
  | None => True
  | Some d => matches o r d = Ok (negb want)
  end.

Definition examples_evaluate (o : oracles) (r : rule) : Prop :=
  forall y d, In y (r_tp r ++ r_tn r) -> example_doc y = Some d -> exists b, matches o r d = Ok b.

(* ---- helper lemmas ---- *)
Definition evals (o : oracles) (r : rule) (l : list yaml) : Prop :=
  forall y d, In y l -> example_doc y = Some d -> exists b, matches o r d = Ok b.

Lemma negb_eqb_true : forall m want, negb (Bool.eqb m want) = true <-> m = negb want.
Proof. intros m want; destruct m, want; cbn; split; congruence. Qed.

Lemma vl_spec : forall o r want l i,
  evals o r l ->
  exists res, validate_list o r want i l = Ok res /\
    forall j, In j res <->
      exists n y, j = (i + Z.of_nat n)%Z /\ nth_error l n = Some y /\ example_fails o r want y.
Proof.
  intros o r want l. induction l as [|y rest IH]; intros i Hev.
  - exists []. split; [reflexivity|]. intros j; split.
    + intros [].
    + intros (n & y & _ & Hn & _). destruct n; discriminate.
  - assert (Hev' : evals o r rest).
    { intros y' d Hin. apply Hev. right; exact Hin. }
    destruct (IH (i + 1)%Z Hev') as (res' & Hres' & Hspec).
    assert (Htail : forall j, In j res' ->
              exists n y0, j = (i + Z.of_nat n)%Z /\ nth_error (y :: rest) n = Some y0 /\
                           example_fails o r want y0).
    { intros j Hin. apply Hspec in Hin. destruct Hin as (n & y' & Hj & Hn & Hf).
      exists (S n), y'. split; [lia|]. split; assumption. }
    assert (Htail' : forall j n y0, j = (i + Z.of_nat (S n))%Z ->
              nth_error (y :: rest) (S n) = Some y0 -> example_fails o r want y0 -> In j res').
    { intros j n y0 Hj Hn Hf. apply Hspec. exists n, y0. split; [lia|]. split; assumption. }
    cbn [validate_list].
    destruct (example_doc y) as [d|] eqn:Hd.
    + destruct (Hev y d (or_introl eq_refl) Hd) as [b Hb].
      rewrite Hb. cbn [bind]. rewrite Hres'. cbn [bind].
      eexists; split; [reflexivity|].
      intros j. split.
      * intros Hin. destruct (negb (Bool.eqb b want)) eqn:Hbad.
        -- destruct Hin as [Hij | Hin].
           ++ exists 0%nat, y. split; [lia|]. split; [reflexivity|].
              unfold example_fails. rewrite Hd, Hb. f_equal.
              apply negb_eqb_true; exact Hbad.
           ++ apply Htail; exact Hin.
        -- apply Htail; exact Hin.
      * intros (n & y' & Hj & Hn & Hf). destruct n as [|n].
        -- cbn [nth_error] in Hn. injection Hn as Hy. subst y'.
           unfold example_fails in Hf. rewrite Hd, Hb in Hf.
           injection Hf as Hf. apply negb_eqb_true in Hf. rewrite Hf. left. lia.
        -- pose proof (Htail' j n y' Hj Hn Hf) as Hin.
           destruct (negb (Bool.eqb b want)); [right|]; exact Hin.
    + cbn [bind]. rewrite Hres'. cbn [bind].
      eexists; split; [reflexivity|].
      intros j. split.
      * intros [Hij | Hin].
        -- exists 0%nat, y. split; [lia|]. split; [reflexivity|].
           unfold example_fails. rewrite Hd. exact I.
        -- apply Htail; exact Hin.
      * intros (n & y' & Hj & Hn & Hf). destruct n as [|n].
        -- left. lia.
        -- right. exact (Htail' j n y' Hj Hn Hf).
Qed.

Lemma evals_tp : forall o r, examples_evaluate o r -> evals o r (r_tp r).
Proof.
  intros o r H y d Hin. apply H. apply in_or_app. left; exact Hin.
Qed.

Lemma evals_tn : forall o r, examples_evaluate o r -> evals o r (r_tn r).
Proof.
  intros o r H y d Hin. apply H. apply in_or_app. right; exact Hin.
Qed.

(* the failing-index set is empty iff every example gets the wanted verdict *)
Lemma no_fail_iff : forall o r want (i : Z) l,
  evals o r l ->
  ((forall j : Z, ~ exists n y, j = (i + Z.of_nat n)%Z /\ nth_error l n = Some y /\
                               example_fails o r want y) <->
   (forall y, In y l -> exists d, example_doc y = Some d /\ matches o r d = Ok want)).
Proof.
  intros o r want i l Hev. split.
  - intros Hno y Hin. destruct (In_nth_error _ _ Hin) as [n Hn].
    destruct (example_doc y) as [d|] eqn:Hd.
    + exists d. split; [reflexivity|].
      destruct (Hev y d Hin Hd) as [b Hb]. rewrite Hb. f_equal.
      destruct (Bool.bool_dec b want) as [Heq | Hne]; [exact Heq|].
      exfalso. apply (Hno (i + Z.of_nat n)%Z). exists n, y.
      split; [reflexivity|]. split; [exact Hn|].
      unfold example_fails. rewrite Hd, Hb. f_equal.
      destruct b, want; cbn; congruence.
    + exfalso. apply (Hno (i + Z.of_nat n)%Z). exists n, y.
      split; [reflexivity|]. split; [exact Hn|].
      unfold example_fails. rewrite Hd. exact I.
  - intros Hall j (n & y & _ & Hn & Hf).
    apply nth_error_In in Hn. destruct (Hall y Hn) as (d & Hd & Hm).
    unfold example_fails in Hf. rewrite Hd, Hm in Hf. injection Hf as Hf.
    destruct want; discriminate.
Qed.

Lemma nil_iff_no_In : forall (l : list Z), l = [] <-> forall j, ~ In j l.
Proof.
  intros l; split.
  - intros -> j [].
  - intros H. destruct l as [|x l]; [reflexivity|]. exfalso. apply (H x). left; reflexivity.
Qed.

Lemma vl_malformed : forall o r want y l i res,
  In y l -> example_doc y = None -> validate_list o r want i l = Ok res -> res <> [].
Proof.
  intros o r want y l. induction l as [|x rest IH]; intros i res Hin Hd Hv.
  - destruct Hin.
  - cbn [validate_list] in Hv.
    destruct Hin as [Hx | Hin].
    + subst x. rewrite Hd in Hv. cbn [bind] in Hv.
      destruct (validate_list o r want (i + 1)%Z rest) as [tl'| |]; cbn [bind] in Hv;
        try discriminate.
      injection Hv as Hv. subst res. discriminate.
    + destruct (match example_doc x with
                | None => Ok true
                | Some d => bind (matches o r d) (fun m => Ok (negb (Bool.eqb m want)))
                end) as [bad| |]; cbn [bind] in Hv; try discriminate.
      destruct (validate_list o r want (i + 1)%Z rest) as [tl'| |] eqn:Htl; cbn [bind] in Hv;
        try discriminate.
      injection Hv as Hv. subst res.
      pose proof (IH (i + 1)%Z tl' Hin Hd Htl) as Hne.
      destruct bad; [discriminate|exact Hne].
Qed.

(* ---- the theorems of Properties/C13.v ---- *)
Lemma validate_ok_iff : forall o r,
  examples_evaluate o r ->
  (validate o r = Ok [] <->
     (forall y, In y (r_tp r) -> exists d, example_doc y = Some d /\ matches o r d = Ok true) /\
     (forall y, In y (r_tn r) -> exists d, example_doc y = Some d /\ matches o r d = Ok false)).
Proof.
  intros o r Hev.
  destruct (vl_spec o r true (r_tp r) 0%Z (evals_tp o r Hev)) as (a & Ha & Hsa).
  destruct (vl_spec o r false (r_tn r) 1000%Z (evals_tn o r Hev)) as (b & Hb & Hsb).
  unfold validate. rewrite Ha, Hb. cbn [bind].
  rewrite <- (no_fail_iff o r true 0%Z (r_tp r) (evals_tp o r Hev)).
  rewrite <- (no_fail_iff o r false 1000%Z (r_tn r) (evals_tn o r Hev)).
  split.
  - intros Hab. injection Hab as Hab. apply app_eq_nil in Hab. destruct Hab as [-> ->].
    split; intros j Hex.
    + apply Hsa in Hex. destruct Hex.
    + apply Hsb in Hex. destruct Hex.
  - intros [Hna Hnb]. f_equal.
    assert (a = []) as ->. { apply nil_iff_no_In. intros j Hin. apply (Hna j). apply Hsa; exact Hin. }
    assert (b = []) as ->. { apply nil_iff_no_In. intros j Hin. apply (Hnb j). apply Hsb; exact Hin. }
    reflexivity.
Qed.

Lemma validate_names_failing : forall o r l,
  examples_evaluate o r ->
  validate o r = Ok l ->
  forall i, In i l <->
    (exists n y, i = Z.of_nat n /\ nth_error (r_tp r) n = Some y /\ example_fails o r true y) \/
    (exists n y, i = (1000 + Z.of_nat n)%Z /\ nth_error (r_tn r) n = Some y /\ example_fails o r false y).
Proof.
  intros o r l Hev Hv i.
  destruct (vl_spec o r true (r_tp r) 0%Z (evals_tp o r Hev)) as (a & Ha & Hsa).
  destruct (vl_spec o r false (r_tn r) 1000%Z (evals_tn o r Hev)) as (b & Hb & Hsb).
  unfold validate in Hv. rewrite Ha, Hb in Hv. cbn [bind] in Hv.
  injection Hv as Hv. subst l.
  rewrite in_app_iff, Hsa, Hsb. cbn [Z.add]. reflexivity.
Qed.

Lemma validate_no_panic : forall o r,
  examples_evaluate o r -> exists l, validate o r = Ok l.
Proof.
  intros o r Hev.
  destruct (vl_spec o r true (r_tp r) 0%Z (evals_tp o r Hev)) as (a & Ha & _).
  destruct (vl_spec o r false (r_tn r) 1000%Z (evals_tn o r Hev)) as (b & Hb & _).
  exists (a ++ b). unfold validate. rewrite Ha, Hb. reflexivity.
Qed.

Lemma validate_malformed_example : forall o r y l,
  In y (r_tp r ++ r_tn r) -> example_doc y = None -> validate o r = Ok l -> l <> [].
Proof.
  intros o r y l Hin Hd Hv. unfold validate in Hv.
  destruct (validate_list o r true 0%Z (r_tp r)) as [a| |] eqn:Ha; cbn [bind] in Hv;
    try discriminate.
  destruct (validate_list o r false 1000%Z (r_tn r)) as [b| |] eqn:Hb; cbn [bind] in Hv;
    try discriminate.
  injection Hv as Hv. subst l. intros Hnil. apply app_eq_nil in Hnil. destruct Hnil as [Ha0 Hb0].
  apply in_app_or in Hin. destruct Hin as [Hin | Hin].
  - exact (vl_malformed o r true y _ _ _ Hin Hd Ha Ha0).
  - exact (vl_malformed o r false y _ _ _ Hin Hd Hb Hb0).
Qed.

Lemma validate_example :
  forall o,
  let r := {| r_optimised := false;
              r_det := {| d_expr := EIdent [65%N];
                          d_ids := [([65%N], ESearch (SExact [120%N]) [102%N] false)] |};
              r_tp := [YMap [(YStr [102%N], YStr [120%N])]; YInt 1];
              r_tn := [YMap [(YStr [102%N], YStr [121%N])]] |} in
  validate o r = Ok [1%Z].
Proof.
  intros o r. vm_compute. reflexivity.
Qed.
