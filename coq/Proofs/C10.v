(* C10  Field paths resolve to exactly the addressed value: proofs. *)
From Coq Require Import List NArith ZArith Bool Lia ZifyBool DecimalN Decimal.
From TauModel Require Import Base Num Oracles Syntax Value PathSpec Solver.
Import ListNotations.

(* ------------------------------------------------------------------ *)
(* strings: split_on / join_with                                       *)
(* ------------------------------------------------------------------ *)

Definition no_chr (x : chr) (s : str) : Prop := Forall (fun y => N.eqb y x = false) s.

Lemma split_on_nonempty : forall sep s, split_on sep s <> [].
Proof.
  intros sep s; destruct s as [|x s']; cbn [split_on]; [discriminate|].
  destruct (N.eqb x sep); [discriminate|].
  destruct (split_on sep s'); discriminate.
Qed.

Lemma split_on_no_sep : forall sep s, no_chr sep s -> split_on sep s = [s].
Proof.
  intros sep s H; induction H as [|x s' Hx Hs IH]; cbn [split_on]; [reflexivity|].
  rewrite Hx, IH; reflexivity.
Qed.

Lemma split_on_app : forall sep a k,
  no_chr sep a -> split_on sep (a ++ sep :: k) = a :: split_on sep k.
Proof.
  intros sep a k H; induction H as [|x s' Hx Hs IH]; cbn [split_on app].
  - rewrite N.eqb_refl; reflexivity.
  - rewrite Hx, IH; reflexivity.
Qed.

Lemma split_on_join : forall sep l,
  l <> [] -> Forall (no_chr sep) l -> split_on sep (join_with [sep] l) = l.
Proof.
  intros sep l; induction l as [|x xs IH]; intros Hne Hall; [congruence|].
  inversion Hall as [|? ? Hx Hxs]; subst.
  destruct xs as [|y ys].
  - cbn [join_with]; apply split_on_no_sep; assumption.
  - change (join_with [sep] (x :: y :: ys)) with (x ++ [sep] ++ join_with [sep] (y :: ys)).
    cbn [app]. rewrite split_on_app by assumption.
    rewrite IH; [reflexivity|discriminate|assumption].
Qed.

Lemma no_chr_app : forall x a b, no_chr x a -> no_chr x b -> no_chr x (a ++ b).
Proof. intros x a b Ha Hb; apply Forall_app; split; assumption. Qed.

Lemma contains_no_chr : forall x s, no_chr x s -> str_contains_char x s = false.
Proof.
  intros x s H; induction H as [|y s' Hy Hs IH]; cbn [str_contains_char existsb]; [reflexivity|].
  rewrite N.eqb_sym, Hy; exact IH.
Qed.

(* ------------------------------------------------------------------ *)
(* names                                                               *)
(* ------------------------------------------------------------------ *)

Lemma name_ok_no : forall n,
  name_ok n = true -> no_chr ch_dot n /\ no_chr ch_lb n /\ no_chr ch_rb n.
Proof.
  intros n H; unfold name_ok in H; rewrite forallb_forall in H.
  repeat split; apply Forall_forall; intros y Hy; specialize (H y Hy);
    unfold name_char_ok in H; apply negb_true_iff in H;
    apply orb_false_iff in H; destruct H as [H H3];
    apply orb_false_iff in H; destruct H as [H1 H2]; assumption.
Qed.

(* ------------------------------------------------------------------ *)
(* decimal text                                                        *)
(* ------------------------------------------------------------------ *)

Lemma uint_digits_ascii : forall d, Forall (fun y => is_ascii_digit y = true) (uint_digits d).
Proof. induction d; cbn [uint_digits]; constructor; try assumption; reflexivity. Qed.

Lemma digit_no : forall x y,
  is_ascii_digit y = true -> is_ascii_digit x = false -> N.eqb y x = false.
Proof.
  intros x y Hy Hx; apply N.eqb_neq; intros E; subst; congruence.
Qed.

Lemma show_N_no : forall x i, is_ascii_digit x = false -> no_chr x (show_N i).
Proof.
  intros x i Hx; unfold show_N, no_chr.
  eapply Forall_impl; [|apply uint_digits_ascii].
  intros y Hy; cbv beta in Hy; apply digit_no; assumption.
Qed.

Lemma digits_val_pos : forall d acc,
  digits_val (Zpos acc) (uint_digits d) = Some (Zpos (Pos.of_uint_acc d acc)).
Proof.
  induction d; intros acc; cbn [uint_digits digits_val Pos.of_uint_acc]; try reflexivity;
    match goal with
    | |- (if is_ascii_digit ?x then _ else _) = _ =>
        change (is_ascii_digit x) with true; cbv iota
    end;
    match goal with
    | |- digits_val ?z _ = Some (Zpos (Pos.of_uint_acc _ ?p)) =>
        replace z with (Zpos p) by lia
    end; apply IHd.
Qed.

Lemma digits_val_zero : forall d,
  digits_val 0%Z (uint_digits d) = Some (Z.of_N (Pos.of_uint d)).
Proof.
  induction d; cbn [uint_digits digits_val Pos.of_uint]; try reflexivity;
    match goal with
    | |- (if is_ascii_digit ?x then _ else _) = _ =>
        change (is_ascii_digit x) with true; cbv iota
    end.
  - exact IHd.
  - apply (digits_val_pos d 1).
  - apply (digits_val_pos d 2).
  - apply (digits_val_pos d 3).
  - apply (digits_val_pos d 4).
  - apply (digits_val_pos d 5).
  - apply (digits_val_pos d 6).
  - apply (digits_val_pos d 7).
  - apply (digits_val_pos d 8).
  - apply (digits_val_pos d 9).
Qed.

Lemma uint_digits_nil : forall d, uint_digits d = [] -> d = Nil.
Proof. destruct d; cbn [uint_digits]; intros H; try discriminate; reflexivity. Qed.

Lemma show_N_nonempty : forall i, show_N i <> [].
Proof.
  intros i H; unfold show_N in H; apply uint_digits_nil in H.
  pose proof (DecimalN.Unsigned.of_to i) as E; rewrite H in E.
  cbn in E; subst i; discriminate H.
Qed.

Lemma parse_usize_show_N : forall i,
  (Z.of_N i <= u64_max)%Z -> parse_usize (show_N i) = Some (Z.of_N i).
Proof.
  intros i Hi.
  pose proof (show_N_nonempty i) as Hne.
  pose proof (uint_digits_ascii (N.to_uint i)) as Hd.
  pose proof (digits_val_zero (N.to_uint i)) as Hv.
  change (Pos.of_uint (N.to_uint i)) with (N.of_uint (N.to_uint i)) in Hv.
  rewrite DecimalN.Unsigned.of_to in Hv.
  fold (show_N i) in Hd, Hv.
  destruct (show_N i) as [|x s'] eqn:E; [congruence|].
  unfold parse_usize.
  inversion Hd as [|? ? Hx Hs]; subst.
  assert (Hp : N.eqb x ch_plus = false) by (apply digit_no; [assumption|reflexivity]).
  rewrite Hp. unfold parse_digits. rewrite Hv.
  unfold in_u64.
  assert (H0 : (0 <=? Z.of_N i)%Z = true) by lia.
  assert (H1 : (Z.of_N i <=? u64_max)%Z = true) by lia.
  rewrite H0, H1; reflexivity.
Qed.

(* ------------------------------------------------------------------ *)
(* segments                                                            *)
(* ------------------------------------------------------------------ *)

Lemma render_seg_no_dot : forall s, seg_ok s -> no_chr ch_dot (render_seg s).
Proof.
  intros [n oi] [Hn _]; cbn [fst snd] in *.
  destruct (name_ok_no n Hn) as (Hd & _ & _).
  unfold render_seg; cbn [fst snd]; destruct oi as [i|]; [|assumption].
  apply no_chr_app; [assumption|].
  apply no_chr_app; [repeat constructor|].
  apply no_chr_app; [apply show_N_no; reflexivity|repeat constructor].
Qed.

Lemma last_opt_snoc : forall (A : Type) (l : list A) x, last_opt (l ++ [x]) = Some x.
Proof. intros A l x; unfold last_opt; rewrite rev_app_distr; reflexivity. Qed.

Lemma strip_suffix_snoc : forall s x, strip_suffix [x] (s ++ [x]) = Some s.
Proof.
  intros s x; unfold strip_suffix; rewrite rev_app_distr; cbn [rev app strip_prefix].
  rewrite N.eqb_refl, rev_involutive; reflexivity.
Qed.

Lemma parse_segment_plain : forall n, no_chr ch_lb n -> parse_segment n = Some (n, None).
Proof.
  intros n H; unfold parse_segment.
  rewrite (contains_no_chr _ _ H), andb_false_r; reflexivity.
Qed.

Lemma parse_segment_indexed : forall n i,
  no_chr ch_lb n -> (Z.of_N i <= u64_max)%Z ->
  parse_segment (n ++ [ch_lb] ++ show_N i ++ [ch_rb]) = Some (n, Some (Z.of_N i)).
Proof.
  intros n i Hn Hi; unfold parse_segment.
  assert (Hlast : last_opt (n ++ [ch_lb] ++ show_N i ++ [ch_rb]) = Some ch_rb).
  { replace (n ++ [ch_lb] ++ show_N i ++ [ch_rb])
      with ((n ++ [ch_lb] ++ show_N i) ++ [ch_rb]) by (rewrite <- !app_assoc; reflexivity).
    apply last_opt_snoc. }
  rewrite Hlast, N.eqb_refl.
  assert (Hc : str_contains_char ch_lb (n ++ [ch_lb] ++ show_N i ++ [ch_rb]) = true).
  { unfold str_contains_char; rewrite existsb_app; cbn [app existsb].
    rewrite N.eqb_refl, orb_true_r; reflexivity. }
  rewrite Hc; cbn [andb].
  cbn [app]. rewrite split_on_app by assumption.
  rewrite split_on_no_sep.
  2:{ apply no_chr_app; [apply show_N_no; reflexivity|repeat constructor]. }
  rewrite strip_suffix_snoc, parse_usize_show_N by assumption.
  reflexivity.
Qed.

Lemma nth_value_N : forall a i, nth_value a (Z.of_N i) = nth_error a (N.to_nat i).
Proof.
  intros a i; unfold nth_value.
  destruct (Z.of_N i <? Z.of_nat (length a))%Z eqn:E.
  - replace (Z.to_nat (Z.of_N i)) with (N.to_nat i) by lia; reflexivity.
  - symmetry; apply nth_error_None; lia.
Qed.

Lemma find_step_render : forall root v s,
  seg_ok s -> find_step root (Some v) (render_seg s) = resolve_step v s.
Proof.
  intros root v [n oi] [Hn Hi]; cbn [fst snd] in *.
  destruct (name_ok_no n Hn) as (_ & Hlb & _).
  unfold find_step, render_seg, resolve_step, obj_get; cbn [fst snd].
  destruct oi as [i|].
  - rewrite parse_segment_indexed by assumption.
    destruct v; try reflexivity.
    destruct (lookup n kv) as [[]|]; try reflexivity.
    apply nth_value_N.
  - rewrite parse_segment_plain by assumption.
    destruct v; reflexivity.
Qed.

Lemma find_step_root : forall root s,
  find_step root None s = find_step root (Some (VObj root)) s.
Proof. intros root s; unfold find_step; reflexivity. Qed.

Lemma find_step_any_root : forall r1 r2 v s,
  find_step r1 (Some v) s = find_step r2 (Some v) s.
Proof. intros r1 r2 v s; unfold find_step; reflexivity. Qed.

Lemma find_segs_any_root : forall r1 r2 segs v,
  find_segs r1 (Some v) segs = find_segs r2 (Some v) segs.
Proof.
  intros r1 r2 segs; induction segs as [|s rest IH]; intros v; cbn [find_segs]; [reflexivity|].
  rewrite (find_step_any_root r1 r2).
  destruct (find_step r2 (Some v) s); [apply IH|reflexivity].
Qed.

Lemma find_segs_render : forall root p v,
  Forall seg_ok p ->
  find_segs root (Some v) (map render_seg p) = resolve_from v p.
Proof.
  intros root p; induction p as [|s rest IH]; intros v Hall; cbn [map find_segs resolve_from];
    [reflexivity|].
  inversion Hall as [|? ? Hs Hrest]; subst.
  rewrite find_step_render by assumption.
  destruct (resolve_step v s); [apply IH; assumption|reflexivity].
Qed.

Lemma resolve_from_app : forall p q v,
  resolve_from v (p ++ q) =
  match resolve_from v p with Some w => resolve_from w q | None => None end.
Proof.
  induction p as [|s rest IH]; intros q v; cbn [app resolve_from]; [reflexivity|].
  destruct (resolve_step v s); [apply IH|reflexivity].
Qed.

(* ------------------------------------------------------------------ *)
(* the theorems of Properties/C10.v                                    *)
(* ------------------------------------------------------------------ *)

Lemma find_exact :
  forall (root : list (str * value)) (p : list seg),
    p <> [] -> Forall seg_ok p ->
    obj_find root (render_path p) = resolve root p.
Proof.
  intros root p Hne Hall; unfold obj_find, render_path, resolve.
  rewrite split_on_join.
  - destruct p as [|s rest]; [congruence|].
    cbn [map find_segs]. rewrite find_step_root.
    apply (find_segs_render root (s :: rest) (VObj root) Hall).
  - destruct p; [congruence|discriminate].
  - apply Forall_map. eapply Forall_impl; [|exact Hall].
    intros s Hs; apply render_seg_no_dot; assumption.
Qed.

Lemma find_failed_step :
  forall root (p q : list seg),
    p <> [] -> Forall seg_ok p -> Forall seg_ok q ->
    resolve root p = None ->
    obj_find root (render_path (p ++ q)) = None.
Proof.
  intros root p q Hne Hp Hq Hres.
  rewrite find_exact.
  - unfold resolve in *; rewrite resolve_from_app, Hres; reflexivity.
  - destruct p; [congruence|discriminate].
  - apply Forall_app; split; assumption.
Qed.

Lemma find_descend :
  forall root a kv k,
    name_ok a = true -> lookup a root = Some (VObj kv) ->
    obj_find root (a ++ [ch_dot] ++ k) = obj_find kv k.
Proof.
  intros root a kv k Ha Hl.
  destruct (name_ok_no a Ha) as (Hd & Hlb & _).
  unfold obj_find. cbn [app]. rewrite split_on_app by assumption.
  cbn [find_segs].
  assert (H1 : find_step root None a = Some (VObj kv)).
  { unfold find_step; rewrite parse_segment_plain by assumption.
    unfold obj_get; exact Hl. }
  rewrite H1.
  destruct (split_on ch_dot k) as [|s rest] eqn:E.
  - exfalso; eapply split_on_nonempty; exact E.
  - cbn [find_segs]. rewrite (find_step_root kv).
    rewrite (find_step_any_root root kv).
    destruct (find_step kv (Some (VObj kv)) s); [apply find_segs_any_root|reflexivity].
Qed.

Lemma nested_on_object :
  forall o ids body f e root kv,
    obj_find root f = Some (VObj kv) ->
    solve o ids body (ENested f e) (obj_doc root) = solve o ids body e (obj_doc kv).
Proof.
  intros o ids body f e root kv H.
  cbn [solve]. unfold obj_doc at 1, pure_doc at 1. rewrite H. cbn [bind]. reflexivity.
Qed.

Lemma nested_on_missing :
  forall o ids body f e root,
    obj_find root f = None ->
    solve o ids body (ENested f e) (obj_doc root) = Ok M.
Proof.
  intros o ids body f e root H.
  cbn [solve]. unfold obj_doc at 1, pure_doc at 1. rewrite H. cbn [bind]. reflexivity.
Qed.

Definition plain_nested_body (e : expr) : bool :=
  match e with
  | EMatch MAll (EGroup BOr _) | EMatch MAll (EMatrix _ _) => false
  | _ => true
  end.

(* the generic loop of the ENested case over an array *)
Section AnyTrue.
Variable slv : docq -> out res3.
Fixpoint any_true (objs : list (list (str * value))) : out res3 :=
  match objs with
  | [] => Ok F
  | kv :: rest =>
      do r <- slv (obj_doc kv);
      match r with T => Ok T | _ => any_true rest end
  end.
End AnyTrue.

Lemma nested_array_generic : forall o ids body f e root a,
  plain_nested_body e = true ->
  obj_find root f = Some (VArr a) ->
  solve o ids body (ENested f e) (obj_doc root)
  = any_true (solve o ids body e) (objects_of a).
Proof.
  intros o ids body f e root a Hp H.
  cbn [solve]. unfold obj_doc at 1, pure_doc at 1. rewrite H. cbn [bind].
  destruct e as [| | | | | | | |k e1| | | | |]; try reflexivity.
  destruct k as [|n]; try reflexivity.
  destruct e1 as [b l| | | | | | | | | | | | |]; try reflexivity.
  - destruct b; try reflexivity. discriminate Hp.
  - discriminate Hp.
Qed.

Lemma any_true_spec : forall (slv : docq -> out res3) a,
  (forall kv, In (VObj kv) a -> exists r, slv (obj_doc kv) = Ok r) ->
  (any_true slv (objects_of a) = Ok T <->
     exists kv, In (VObj kv) a /\ slv (obj_doc kv) = Ok T) /\
  (any_true slv (objects_of a) = Ok T \/ any_true slv (objects_of a) = Ok F).
Proof.
  intros slv a; induction a as [|v rest IH]; intros Hall.
  - cbn [objects_of flat_map any_true]. split; [|right; reflexivity].
    split; [discriminate|]. intros (kv & [] & _).
  - assert (Hrest : forall kv, In (VObj kv) rest -> exists r, slv (obj_doc kv) = Ok r).
    { intros kv Hin; apply Hall; right; exact Hin. }
    specialize (IH Hrest). destruct IH as [IHiff IHor].
    assert (Hskip : (forall kv, v <> VObj kv) ->
                    objects_of (v :: rest) = objects_of rest).
    { intros Hv; unfold objects_of; cbn [flat_map].
      destruct v; try reflexivity. exfalso; eapply Hv; reflexivity. }
    assert (Hgen : (forall kv, v <> VObj kv) ->
      (any_true slv (objects_of (v :: rest)) = Ok T <->
         exists kv, In (VObj kv) (v :: rest) /\ slv (obj_doc kv) = Ok T) /\
      (any_true slv (objects_of (v :: rest)) = Ok T \/
       any_true slv (objects_of (v :: rest)) = Ok F)).
    { intros Hv; rewrite (Hskip Hv). split; [|exact IHor].
      rewrite IHiff. split.
      - intros (kv & Hin & Hs); exists kv; split; [right; exact Hin|exact Hs].
      - intros (kv & [Heq|Hin] & Hs); [exfalso; eapply Hv; exact Heq|].
        exists kv; split; assumption. }
    destruct v as [| | | | | | |kv0]; try (apply Hgen; intros kv; discriminate).
    clear Hgen Hskip.
    change (objects_of (VObj kv0 :: rest)) with (kv0 :: objects_of rest).
    cbn [any_true].
    destruct (Hall kv0 (or_introl eq_refl)) as [r Hr]. rewrite Hr. cbn [bind].
    destruct r.
    + split; [|left; reflexivity].
      split; [|reflexivity]. intros _; exists kv0; split; [left; reflexivity|exact Hr].
    + split; [|exact IHor]. rewrite IHiff. split.
      * intros (kv & Hin & Hs); exists kv; split; [right; exact Hin|exact Hs].
      * intros (kv & [Heq|Hin] & Hs).
        -- inversion Heq; subst; rewrite Hr in Hs; discriminate.
        -- exists kv; split; assumption.
    + split; [|exact IHor]. rewrite IHiff. split.
      * intros (kv & Hin & Hs); exists kv; split; [right; exact Hin|exact Hs].
      * intros (kv & [Heq|Hin] & Hs).
        -- inversion Heq; subst; rewrite Hr in Hs; discriminate.
        -- exists kv; split; assumption.
Qed.

Lemma nested_array_exists :
  forall o ids body f e root a,
    plain_nested_body e = true ->
    obj_find root f = Some (VArr a) ->
    (forall kv, In (VObj kv) a -> exists r, solve o ids body e (obj_doc kv) = Ok r) ->
    (solve o ids body (ENested f e) (obj_doc root) = Ok T <->
       exists kv, In (VObj kv) a /\ solve o ids body e (obj_doc kv) = Ok T) /\
    (solve o ids body (ENested f e) (obj_doc root) = Ok T \/
     solve o ids body (ENested f e) (obj_doc root) = Ok F).
Proof.
  intros o ids body f e root a Hp Hf Hall.
  rewrite (nested_array_generic o ids body f e root a Hp Hf).
  apply any_true_spec; exact Hall.
Qed.

Lemma find_exact_example :
  let root := [([97%N], VObj [([98%N], VArr [VInt 1; VObj [([99%N], VStr [120%N])]])])] in
  let p := [([97%N], None); ([98%N], Some 1%N); ([99%N], None)] in
  p <> [] /\ Forall seg_ok p /\ obj_find root (render_path p) = Some (VStr [120%N]).
Proof.
  cbv zeta. split; [discriminate|]. split.
  - repeat constructor; cbn [snd]; try (vm_compute; reflexivity).
    vm_compute; discriminate.
  - vm_compute; reflexivity.
Qed.
