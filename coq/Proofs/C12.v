(* C12  Loading, optimising and matching are deterministic and pure: proofs. *)
From TauModel Require Import Base Num Oracles Syntax Value Solver Rule Optimiser Known.
From Coq Require Import Lia ZArith List Bool Permutation.
Import ListNotations.

(* ====================================================================== *)
(*                                helpers                                  *)
(* ====================================================================== *)

Lemma str_eqb_refl : forall s, str_eqb s s = true.
Proof.
  induction s as [|x s IH]; cbn [str_eqb]; [reflexivity|].
  rewrite N.eqb_refl, IH. reflexivity.
Qed.

Lemma str_eqb_eq : forall a b, str_eqb a b = true -> a = b.
Proof.
  induction a as [|x a IH]; intros [|y b] H; cbn [str_eqb] in H; try discriminate.
  - reflexivity.
  - apply andb_true_iff in H. destruct H as [Hx Hs].
    apply N.eqb_eq in Hx. rewrite Hx, (IH b Hs). reflexivity.
Qed.

Lemma str_eqb_neq : forall a b, a <> b -> str_eqb a b = false.
Proof.
  intros a b Hne. destruct (str_eqb a b) eqn:E; [|reflexivity].
  exfalso. apply Hne. apply str_eqb_eq. exact E.
Qed.

Definition entry_of {V : Type} (m : list (key * list V)) (k : key) : list (key * list V) :=
  match lookup k m with Some vs => [(k, vs)] | None => [] end.

Lemma flat_map_ext_in' : forall (A B : Type) (f g : A -> list B) (l : list A),
  (forall a, In a l -> f a = g a) -> flat_map f l = flat_map g l.
Proof.
  intros A B f g l. induction l as [|a l IH]; intros H; [reflexivity|].
  cbn [flat_map]. rewrite (H a (or_introl eq_refl)). f_equal.
  apply IH. intros x Hx. apply H. right; exact Hx.
Qed.

(* looking every key up in turn gives the map back when the keys are distinct *)
Lemma flat_map_lookup_self : forall (V : Type) (m : list (key * list V)),
  NoDup (map fst m) -> flat_map (entry_of m) (map fst m) = m.
Proof.
  intros V m. induction m as [|[k vs] m IH]; intros Hnd; [reflexivity|].
  cbn [map fst] in Hnd. inversion Hnd as [|k0 l0 Hnotin Hnd']; subst.
  cbn [map fst flat_map]. unfold entry_of at 1. cbn [lookup].
  rewrite str_eqb_refl. cbn [app]. f_equal.
  transitivity (flat_map (entry_of m) (map fst m)); [|exact (IH Hnd')].
  apply flat_map_ext_in'. intros a Ha.
  unfold entry_of. cbn [lookup].
  rewrite (str_eqb_neq a k); [reflexivity|].
  intros ->. apply Hnotin. exact Ha.
Qed.

(* ====================================================================== *)
(*                              the theorems                               *)
(* ====================================================================== *)

Lemma optimise_order_irrelevant : forall o ord ord' sw r,
  sw_shake sw = false -> sw_matrix sw = false ->
  optimise o ord sw r = optimise o ord' sw r.
Proof.
  intros o ord ord' sw r Hs Hm.
  unfold optimise, optimise_detection. rewrite Hs, Hm. reflexivity.
Qed.

Lemma optimise_once : forall o ord ord' sw sw' r r',
  optimise o ord sw r = Ok r' -> optimise o ord' sw' r' = Ok r'.
Proof.
  intros o ord ord' sw sw' r r' H.
  unfold optimise in H.
  destruct (r_optimised r) eqn:Hopt.
  - inversion H; subst r'. unfold optimise. rewrite Hopt. reflexivity.
  - destruct (optimise_detection o ord sw (r_det r)) as [dt|k|s]; cbn [bind] in H;
      try discriminate.
    inversion H; subst r'. unfold optimise. cbn [r_optimised]. reflexivity.
Qed.

Lemma amap_iter_single : forall (V : Type) (ord : hord) (m : list (key * list V)),
  (forall l, Permutation (ord l) l) -> (length m <= 1)%nat -> amap_iter ord m = m.
Proof.
  intros V ord m Hord Hlen. unfold amap_iter.
  destruct m as [|[k vs] m].
  - cbn [map]. pose proof (Hord []) as Hp.
    apply Permutation_sym, Permutation_nil in Hp. rewrite Hp. reflexivity.
  - destruct m as [|kv m]; [|cbn [length] in Hlen; lia].
    cbn [map fst]. pose proof (Hord [k]) as Hp.
    apply Permutation_sym, Permutation_length_1_inv in Hp. rewrite Hp.
    cbn [flat_map lookup]. rewrite str_eqb_refl. reflexivity.
Qed.

Lemma amap_iter_perm : forall (V : Type) (ord : hord) (m : list (key * list V)),
  (forall l, Permutation (ord l) l) -> NoDup (map fst m) -> Permutation (amap_iter ord m) m.
Proof.
  intros V ord m Hord Hnd. unfold amap_iter.
  change (Permutation (flat_map (entry_of m) (ord (map fst m))) m).
  apply Permutation_trans with (flat_map (entry_of m) (map fst m)).
  - apply Permutation_flat_map. apply Hord.
  - rewrite (flat_map_lookup_self V m Hnd). apply Permutation_refl.
Qed.

Lemma matches_pure : forall o r (ds : list doc) (d : doc),
  let _ := map (matches o r) ds in matches o r d = matches o r d.
Proof. intros; reflexivity. Qed.

(* ---- the known order-dependent classes are real ---- *)
Definition o0 : oracles :=
  {| re_valid := fun _ _ => true; re_match := fun _ _ _ => false; f64_parse := fun _ => None;
     f64_show := fun _ => []; uni_alnum := fun _ => false; uni_num := fun _ => false |}.
Definition mk_rule (e : expr) (ids : list (str * expr)) : rule :=
  {| r_optimised := false; r_det := {| d_expr := e; d_ids := ids |}; r_tp := []; r_tn := [] |}.
Definition sw_shake_only : switches :=
  {| sw_coalesce := false; sw_shake := true; sw_rewrite := false; sw_matrix := false |}.
Definition sw_coalesce_matrix : switches :=
  {| sw_coalesce := true; sw_shake := false; sw_rewrite := false; sw_matrix := true |}.
Definition sw_coalesce_shake : switches :=
  {| sw_coalesce := true; sw_shake := true; sw_rewrite := false; sw_matrix := false |}.

Lemma refuted_D17 :
  let row a b := EGroup BAnd [ESearch (SExact a) [97%N] false; ESearch (SExact b) [98%N] false] in
  let r := mk_rule (ENegate (EIdent [88%N])) [([88%N], EGroup BOr [row [120%N] [121%N]; row [122%N] [119%N]])] in
  let d : doc := fun k => if str_eqb k [97%N] then Some (VStr [113%N]) else None in
  exists r1 r2,
    optimise o0 (fun k => k) sw_coalesce_matrix r = Ok r1 /\
    optimise o0 (@rev key) sw_coalesce_matrix r = Ok r2 /\
    matches o0 r1 d <> matches o0 r2 d.
Proof.
  intros row r d.
  eexists. eexists. split; [|split].
  - vm_compute. reflexivity.
  - vm_compute. reflexivity.
  - vm_compute. discriminate.
Qed.

(* (since fix D15/D20 the group of an identifier body stays when the identifier is not inlined:
   the witness inlines it, coalesce + shake, and compares the optimised conditions) *)
Definition ord_desc2 : hord :=
  fun l => match l with [a; b] => if str_ltb a b then [b; a] else [a; b] | _ => l end.

Lemma refuted_D22 :
  let s f x := ESearch (SStartsWith x) f false in
  let r := mk_rule (EIdent [88%N])
             [([88%N], EGroup BOr [s [102%N] [97%N]; s [102%N] [98%N]; s [103%N] [99%N]; s [103%N] [100%N]])] in
  exists r1 r2,
    optimise o0 (fun k => k) sw_coalesce_shake r = Ok r1 /\
    optimise o0 ord_desc2 sw_coalesce_shake r = Ok r2 /\
    expr_eqb (d_expr (r_det r1)) (d_expr (r_det r2)) = false.
Proof.
  intros s r.
  eexists. eexists. split; [|split].
  - vm_compute. reflexivity.
  - vm_compute. reflexivity.
  - vm_compute. reflexivity.
Qed.
