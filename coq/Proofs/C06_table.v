(* C06: the connective loops regenerated from solve_expression (Model/GeneratedLoops.v) are the
   folds of the model. *)
From Coq Require Import List.
From TauModel Require Import Base Syntax Value Solver LoopTable GeneratedLoops.

Lemma and_loop_is_and_fold : forall acc rs, run_loop and_group_loop acc rs = and_fold rs.
Proof.
  intros acc rs. revert acc. induction rs as [|r rest IH]; intros acc; cbn [run_loop and_fold].
  - reflexivity.
  - destruct (r tt) as [x|e|n]; cbn [bind]; try reflexivity.
    destruct x; cbn [act_of and_group_loop l_T l_F l_M]; [apply IH | reflexivity | reflexivity].
Qed.

Lemma or_loop_is_or_fold : forall acc rs, run_loop or_group_loop acc rs = or_fold acc rs.
Proof.
  intros acc rs. revert acc. induction rs as [|r rest IH]; intros acc; cbn [run_loop or_fold].
  - reflexivity.
  - destruct (r tt) as [x|e|n]; cbn [bind]; try reflexivity.
    destruct x; cbn [act_of or_group_loop l_T l_F l_M]; [reflexivity | apply IH | apply IH].
Qed.

Lemma or_loop_starts_missing : l_init or_group_loop = M.
Proof. reflexivity. Qed.

Lemma negate_table_is_neg3 : forall x, run_neg negate_table x = neg3 x.
Proof. intros x. destruct x; reflexivity. Qed.

Lemma all_loop_is_and_fold : forall acc rs, run_loop all_group_loop acc rs = and_fold rs.
Proof.
  intros acc rs. revert acc. induction rs as [|r rest IH]; intros acc; cbn [run_loop and_fold].
  - reflexivity.
  - destruct (r tt) as [x|e|n]; cbn [bind]; try reflexivity.
    destruct x; cbn [act_of all_group_loop l_T l_F l_M]; [apply IH | reflexivity | reflexivity].
Qed.

Lemma of0_loop_is_of0_fold : forall acc rs, run_loop of0_group_loop acc rs = of0_fold acc rs.
Proof.
  intros acc rs. revert acc. induction rs as [|r rest IH]; intros acc; cbn [run_loop of0_fold].
  - reflexivity.
  - destruct (r tt) as [x|e|n]; cbn [bind]; try reflexivity.
    destruct x; cbn [act_of of0_group_loop l_T l_F l_M]; [reflexivity | apply IH | apply IH].
Qed.

Lemma of0_loop_starts_missing : l_init of0_group_loop = M.
Proof. reflexivity. Qed.
