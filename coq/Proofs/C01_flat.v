(* C01: end-to-end statement about LOADED rules for the eight switch sets without matrix, composed
   from C03 (load_wf), C01_loaded (shapes of what the loader builds) and C01_shake1. *)
From Coq Require Import Permutation.
From TauModel Require Import Base Num Oracles Syntax Value Yaml Pratt ParseMap Solver Rule Keys Optimiser Known.
From TauProofs Require C01 C03 C01_loaded C01_shake1.

Lemma loaded_rule_no_matrix_flat : forall o ic ord sw y r (d : doc),
  (forall l, Permutation (ord l) l) ->
  C01.H_strip o ->
  load_rule o ic y = Ok r -> r_optimised r = false ->
  sw_matrix sw = false ->
  (sw_coalesce sw = true \/ C01_shake1.no_quant_ident (d_expr (r_det r)) = true) ->
  (sw_shake sw = true -> C01_shake1.shake_input_ok o sw (r_det r) = true) ->
  exists r', optimise o ord sw r = Ok r' /\ matches o r' d = matches o r d.
Proof.
  intros o ic ord sw y r d Hord Hs Hl Hopt Hmx Hq Hin.
  pose proof (C03.load_wf _ _ _ _ Hl) as Hwf.
  destruct (C03.load_rule_det _ _ _ _ Hl) as [dy Hd].
  destruct (C01_loaded.load_detection_parse _ _ _ _ Hd) as [ts Hp].
  destruct (C01_loaded.loaded_condition_shapes _ _ Hp) as [Hnn Hcl].
  destruct (C01_shake1.optimise_no_matrix_exact_flat_alt o ord sw r d Hord Hs Hmx Hwf Hopt Hnn Hcl Hq Hin)
    as [r' [Hr' [_ Hm]]].
  exists r'. split; assumption.
Qed.

(* the executable scope (Model/Scope.v) implies the hypotheses *)
From TauModel Require Scope.
Lemma scope_sound : forall o ic ord sw y r (d : doc),
  (forall l, Permutation (ord l) l) ->
  C01.H_strip o ->
  load_rule o ic y = Ok r -> r_optimised r = false ->
  Scope.c01_scope sw (r_det r) = true ->
  exists r', optimise o ord sw r = Ok r' /\ matches o r' d = matches o r d.
Proof.
  intros o ic ord sw y r d Hord Hs Hl Hopt Hsc.
  unfold Scope.c01_scope in Hsc.
  apply andb_prop in Hsc. destruct Hsc as [Hsc H3].
  apply andb_prop in Hsc. destruct Hsc as [H1 H2].
  apply (loaded_rule_no_matrix_flat o ic ord sw y r d Hord Hs Hl Hopt).
  - destruct (sw_matrix sw); [discriminate H1 | reflexivity].
  - apply Bool.orb_prop in H2. destruct H2 as [H2|H2]; [left; exact H2 | right; exact H2].
  - intros Hsh. rewrite Hsh in H3. cbn [negb orb] in H3. exact H3.
Qed.
